(* DESIGN APPENDIX A.2 - exploratory prototype: exactness of integer -> binary64 conversion
   with Flocq, the key arithmetic lemma behind C13. Not part of the framework. *)
From Coq Require Import ZArith Reals Lia Lra.
From Flocq Require Import Core IEEE754.BinarySingleNaN IEEE754.Binary IEEE754.Bits.
Open Scope Z_scope.

Definition i2d (z:Z) : binary64 := Binary.binary_normalize 53 1024 eq_refl eq_refl mode_NE z 0 false.

Lemma i2d_exact z : Z.abs z < 2^53 -> Binary.B2R 53 1024 (i2d z) = IZR z /\ Binary.is_finite 53 1024 (i2d z) = true.
Proof.
  intros Hz. unfold i2d.
  pose proof (Binary.binary_normalize_correct 53 1024 eq_refl eq_refl mode_NE z 0 false) as H.
  cbv zeta in H.
  assert (Hx: F2R (Float radix2 z 0) = IZR z). { unfold F2R; simpl. lra. }
  rewrite Hx in H.
  assert (Hg: generic_format radix2 (FLT_exp (3 - 1024 - 53) 53) (IZR z)).
  { apply generic_format_FLT. exists (Float radix2 z 0); simpl; auto. lia. }
  rewrite (round_generic radix2 _ _ _ Hg) in H.
  assert (Hlt: Rlt_bool (Rabs (IZR z)) (bpow radix2 1024) = true).
  { apply Rlt_bool_true. rewrite <- abs_IZR. apply Rlt_le_trans with (IZR (2^53)).
    - now apply IZR_lt.
    - change (IZR (2^53)) with (bpow radix2 53). apply bpow_le. lia. }
  rewrite Hlt in H. destruct H as (A & B & _). split; assumption.
Qed.
Print Assumptions i2d_exact.
Check Binary.Bcompare_correct.

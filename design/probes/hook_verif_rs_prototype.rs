//! scratch prototype of hook H1
use std::cell::{Cell, RefCell};
use std::future::Future;
use std::pin::Pin;
use std::task::{Context, Poll};

thread_local! {
    static ENABLED: Cell<bool> = Cell::new(false);
    static CUR: Cell<usize> = Cell::new(0);
    static LOG: RefCell<Vec<(usize, u32, &'static str)>> = RefCell::new(Vec::new());
}
pub fn enable(on: bool) { ENABLED.with(|e| e.set(on)); LOG.with(|l| l.borrow_mut().clear()); }
pub fn set_current(t: usize) { CUR.with(|c| c.set(t)); }
pub fn log_len() -> usize { LOG.with(|l| l.borrow().len()) }
pub fn take_log() -> Vec<(usize, u32, &'static str)> { LOG.with(|l| l.borrow().clone()) }
pub fn event(site: u32, what: &'static str) {
    if ENABLED.with(|e| e.get()) { let t = CUR.with(|c| c.get()); LOG.with(|l| l.borrow_mut().push((t, site, what))); }
}
pub struct YieldOnce(bool);
impl Future for YieldOnce {
    type Output = ();
    fn poll(mut self: Pin<&mut Self>, _cx: &mut Context<'_>) -> Poll<()> {
        if self.0 { Poll::Ready(()) } else { self.0 = true; Poll::Pending }
    }
}
pub async fn yield_point(site: u32, what: &'static str) {
    if ENABLED.with(|e| e.get()) { event(site, what); YieldOnce(false).await }
}

use databroker::broker::{DataBroker, DataType, ChangeType, EntryType, DataValue, Datapoint, EntryUpdate, Field, ActuationChange, ActuationProvider, ActuationError};
use databroker::permissions;
use std::collections::{HashMap, HashSet};
use std::sync::Arc;
use std::time::SystemTime;
use tokio_stream::StreamExt;

struct Prov;
#[async_trait::async_trait]
impl ActuationProvider for Prov {
    async fn actuate(&self, _ch: Vec<ActuationChange>) -> Result<(), (ActuationError, String)> { Ok(()) }
    fn is_available(&self) -> bool { true }
}

#[tokio::main(flavor = "multi_thread", worker_threads = 4)]
async fn main() {
    let n: usize = std::env::args().nth(1).map(|s| s.parse().unwrap()).unwrap_or(20000);
    let mut lost = 0; let mut both = 0;
    for i in 0..n {
        let b = DataBroker::default();
        let id = { let a = b.authorized_access(&permissions::ALLOW_ALL);
            a.add_entry("Vehicle.A".into(), DataType::Int32, ChangeType::OnChange, EntryType::Actuator, "d".into(), None, None, None, None).await.unwrap() };
        let bar = Arc::new(tokio::sync::Barrier::new(2));
        let (b1, bar1) = (b.clone(), bar.clone());
        let sub = tokio::spawn(async move {
            let a = b1.authorized_access(&permissions::ALLOW_ALL);
            bar1.wait().await;
            a.subscribe(HashMap::from([(id, HashSet::from([Field::Datapoint]))]), Some(10)).await.unwrap()
        });
        let (b2, bar2) = (b.clone(), bar.clone());
        let publ = tokio::spawn(async move {
            let a = b2.authorized_access(&permissions::ALLOW_ALL);
            bar2.wait().await;
            a.update_entries([(id, EntryUpdate { datapoint: Some(Datapoint { ts: SystemTime::now(), source_ts: None, value: DataValue::Int32(1) }), ..Default::default() })]).await.unwrap();
        });
        let mut stream = Box::pin(sub.await.unwrap());
        publ.await.unwrap();
        let mut last = None;
        while let Some(Some(m)) = futures::FutureExt::now_or_never(stream.next()) {
            for u in m.updates { if let Some(d) = u.update.datapoint { last = Some(d.value); } }
        }
        if last != Some(DataValue::Int32(1)) { lost += 1; if lost == 1 { println!("iteration {}: subscriber last={:?} but stored=Int32(1)", i, last); } }

        // double claim race
        let bar = Arc::new(tokio::sync::Barrier::new(2));
        let mut hs = vec![];
        for _ in 0..2 { let (bb, br) = (b.clone(), bar.clone()); hs.push(tokio::spawn(async move {
            let a = bb.authorized_access(&permissions::ALLOW_ALL); br.wait().await;
            a.provide_actuation(vec![id], Box::new(Prov)).await.is_ok() })); }
        let mut oks = 0; for h in hs { if h.await.unwrap() { oks += 1; } }
        if oks == 2 { both += 1; }
    }
    println!("subscribe/publish race: {} of {} runs left the subscriber stale (C08)", lost, n);
    println!("double claim race: {} of {} runs registered two providers for one actuator (C10)", both, n);
}

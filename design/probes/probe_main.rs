use databroker::broker::{self, DataBroker, DataType, ChangeType, EntryType, DataValue, Datapoint, EntryUpdate, Field, ActuationChange, ActuationProvider, ActuationError};
use databroker::permissions::{self, Permissions};
use databroker::{glob, query, vss};
use databroker::authorization::jwt::Claims;
use databroker_proto::kuksa::val::v1 as v1;
use databroker_proto::kuksa::val::v2 as v2;
use std::collections::{HashMap, HashSet};
use std::convert::TryFrom;
use std::sync::{Arc, Mutex};
use std::time::SystemTime;
use tokio_stream::StreamExt;

fn upd_dp(v: DataValue) -> EntryUpdate {
    EntryUpdate { datapoint: Some(Datapoint { ts: SystemTime::now(), source_ts: None, value: v }), ..Default::default() }
}

struct Prov { name: &'static str, log: Arc<Mutex<Vec<String>>> }
#[async_trait::async_trait]
impl ActuationProvider for Prov {
    async fn actuate(&self, ch: Vec<ActuationChange>) -> Result<(), (ActuationError, String)> {
        for c in ch { self.log.lock().unwrap().push(format!("{} got id={} v={:?}", self.name, c.id, c.data_value)); }
        Ok(())
    }
    fn is_available(&self) -> bool { true }
}

#[tokio::main(flavor = "current_thread")]
async fn main() {
    std::panic::set_hook(Box::new(|i| { eprintln!("PANIC: {}", i); }));
    let which: Vec<String> = std::env::args().skip(1).collect();
    let on = |n: &str| which.is_empty() || which.iter().any(|w| w == n);

    if on("scope") {
        for s in ["read:Vehicle.Cabin.Door.Row2", "read:Vehicle.Cabin.Door.Row1", "read:Vehicle.Speed9", "read:*", "read:Vehicle.*", "bogus:Vehicle", "read:vehicle", "read:Vehicle..A", "read: Vehicle", "read:Vehicle read"] {
            let r = Permissions::try_from(Claims{sub:"".into(),iss:"".into(),aud:vec![],iat:0,exp:4000000000,scope:s.to_string()}); println!("scope {:?} -> ok={} read(Vehicle.Cabin.Door.Row2.X)={:?}", s, r.is_ok(), r.ok().map(|p| p.can_read("Vehicle.Cabin.Door.Row2.X").is_ok()));
        }
    }
    if on("regex") {
        // segment-level reference vs to_regex_string
        let names = ["A", "B", "Ab"];
        let mut segs: Vec<&str> = names.to_vec(); segs.push("*");
        let mut pats: Vec<Vec<&str>> = vec![];
        for a in &segs { pats.push(vec![a]); for b in &segs { pats.push(vec![a,b]); for c in &segs { pats.push(vec![a,b,c]); for d in &segs { pats.push(vec![a,b,c,d]); } } } }
        let mut paths: Vec<Vec<&str>> = vec![];
        for a in &names { paths.push(vec![a]); for b in &names { paths.push(vec![a,b]); for c in &names { paths.push(vec![a,b,c]); for d in &names { paths.push(vec![a,b,c,d]); for e in &names { paths.push(vec![a,b,c,d,e]); } } } } }
        fn refm(p: &[&str], s: &[&str]) -> bool {
            let wild = p.iter().any(|x| *x == "*");
            if wild { p.len() == s.len() && p.iter().zip(s).all(|(a,b)| *a == "*" || a == b) }
            else { p.len() <= s.len() && p.iter().zip(s).all(|(a,b)| a == b) }
        }
        let mut bad = 0;
        for p in &pats {
            let ps = p.join(".");
            if ps == "*" { continue; }
            let perm = Permissions::builder().add_read_permission(permissions::Permission::Glob(ps.clone())).build().unwrap();
            for s in &paths {
                let ss = s.join(".");
                let got = perm.can_read(&ss).is_ok();
                let exp = refm(p, s);
                if got != exp { bad += 1; if bad < 30 { println!("REGEX MISMATCH pat={} path={} impl={} ref={} regex={}", ps, ss, got, exp, glob::to_regex_string(&ps)); } }
            }
        }
        println!("regex mismatches: {} over {} pats x {} paths", bad, pats.len(), paths.len());
    }
    if on("glob") {
        for (p, s) in [("Vehicle", "Vehicle"), ("Vehicle", "Vehicle/Speed"), ("Vehicle.Speed", "Vehicle/Speed"), ("Vehicle.Speed", "Vehicle/Speed/X"), ("**", "Vehicle"), ("", "Vehicle/A"), ("*", "Vehicle"), ("*", "Vehicle/A"), ("**.A", "A"), ("**.A", "V/A"), ("A.**", "A"), ("A.**", "A/B/C"), ("A.**.B", "A/B"), ("A.*.B", "A/B"), ("A.**.B", "A/X/Y/B"), ("A*", "Ab"), ("A.***", "A/b/c")] {
            match glob::Matcher::new(p) { Ok(m) => println!("glob pat={:?} -> {:?} path={:?} match={}", p, m.as_string(), s, m.is_match(s)), Err(_) => println!("glob pat={:?} INVALID", p) }
        }
        for p in ["A.", ".A", "A..B", "A B", "A:B", "***", "A.*B", "A*B.C", "\"\"", "A.\"\""] { println!("valid_pattern {:?} = {}  valid_path={}", p, glob::is_valid_pattern(p), glob::is_valid_path(p)); }
    }
    if on("dupset") {
        let b = DataBroker::default();
        let a = b.authorized_access(&permissions::ALLOW_ALL);
        let id = a.add_entry("Vehicle.Act".into(), DataType::Int32, ChangeType::OnChange, EntryType::Actuator, "d".into(), None, None, None, None).await.unwrap();
        let mut sub = a.subscribe(HashMap::from([(id, HashSet::from([Field::Datapoint]))]), Some(10)).await.unwrap();
        let first = sub.next().await.unwrap();
        println!("dupset initial: {:?}", first.updates.iter().map(|u| (u.id, u.update.datapoint.as_ref().map(|d| d.value.clone()))).collect::<Vec<_>>());
        let u1 = upd_dp(DataValue::Int32(5));
        let u2 = EntryUpdate { actuator_target: Some(Some(Datapoint { ts: SystemTime::now(), source_ts: None, value: DataValue::Int32(7) })), ..Default::default() };
        let r = a.update_entries([(id, u1), (id, u2)]).await;
        println!("dupset update result {:?}", r);
        println!("dupset stored = {:?}", a.get_datapoint(id).await.unwrap().value);
        match tokio::time::timeout(std::time::Duration::from_millis(200), sub.next()).await {
            Ok(Some(m)) => println!("dupset notified: {:?}", m.updates.iter().map(|u| (u.id, u.fields.clone())).collect::<Vec<_>>()),
            Ok(None) => println!("dupset stream ended"),
            Err(_) => println!("dupset NO NOTIFICATION although Datapoint changed  <== C07"),
        }
    }
    if on("batch") {
        // several runs since HashMap order is random
        let mut partial = 0;
        for _ in 0..50 {
            let b = DataBroker::default();
            let a = b.authorized_access(&permissions::ALLOW_ALL);
            let mut ids = vec![];
            for i in 0..6 { ids.push(a.add_entry(format!("Vehicle.A{}", i), DataType::Int32, ChangeType::OnChange, EntryType::Actuator, "d".into(), None, None, None, None).await.unwrap()); }
            let log = Arc::new(Mutex::new(vec![]));
            a.provide_actuation(ids[0..5].to_vec(), Box::new(Prov { name: "P1", log: log.clone() })).await.unwrap();
            // ids[5] has no provider
            let ch: Vec<ActuationChange> = ids.iter().map(|id| ActuationChange { id: *id, data_value: DataValue::Int32(1) }).collect();
            let r = a.batch_actuate(ch).await;
            let n = log.lock().unwrap().len();
            if r.is_err() && n > 0 { partial += 1; }
        }
        println!("batch: runs with error AND something forwarded: {}/50  <== C09 if >0", partial);
    }
    if on("claim") {
        let b = DataBroker::default();
        let a = b.authorized_access(&permissions::ALLOW_ALL);
        let id = a.add_entry("Vehicle.A".into(), DataType::Int32, ChangeType::OnChange, EntryType::Actuator, "d".into(), None, None, None, None).await.unwrap();
        let log = Arc::new(Mutex::new(vec![]));
        let r1 = a.provide_actuation(vec![id, id], Box::new(Prov { name: "P1", log: log.clone() })).await;
        let r2 = a.provide_actuation(vec![id], Box::new(Prov { name: "P2", log: log.clone() })).await;
        println!("claim dup-in-one={:?} second={:?}", r1.is_ok(), r2.map_err(|e| format!("{:?}", e.0)));
    }
    if on("query") {
        let b = DataBroker::default();
        let a = b.authorized_access(&permissions::ALLOW_ALL);
        let ids = a.add_entry("Vehicle.Speed".into(), DataType::Float, ChangeType::Continuous, EntryType::Sensor, "d".into(), None, None, None, None).await.unwrap();
        let idi = a.add_entry("Vehicle.I".into(), DataType::Int32, ChangeType::Continuous, EntryType::Sensor, "d".into(), None, None, None, None).await.unwrap();
        let _ = a.update_entries([(ids, upd_dp(DataValue::Float(5.0))), (idi, upd_dp(DataValue::Int32(5)))]).await;
        for q in [
            "SELECT Vehicle.I WHERE Vehicle.I NOT BETWEEN 10 AND 20",
            "SELECT Vehicle.I WHERE Vehicle.I BETWEEN 1 AND 20",
            "SELECT Vehicle.I WHERE NOT (Vehicle.I BETWEEN 10 AND 20)",
            "SELECT Vehicle.I WHERE Vehicle.I < 10 OR Vehicle.I > 20",
            "SELECT Vehicle.I WHERE NOT Vehicle.I",
            "SELECT Vehicle.I WHERE Vehicle.I > 'abc'",
            "SELECT Vehicle.I WHERE Vehicle.I",
            "SELECT Vehicle.I WHERE Vehicle.I > 3000000000",
            "SELECT Vehicle.I WHERE Vehicle.Nope > 3",
            "SELECT Vehicle.I + 1",
            "SELECT LAG(Vehicle.I)",
            "SELECT LAG()",
            "SELECT LAG(1)",
            "SELECT * ",
            "garbage",
            "SELECT (SELECT Vehicle.I) ",
            "SELECT Vehicle.I WHERE 1 < 2",
            "SELECT Vehicle.I AS x, Vehicle.Speed WHERE Vehicle.Speed >= 5",
        ] {
            let bb = b.clone();
            let q2 = q.to_string();
            let h = tokio::spawn(async move {
                let a = bb.authorized_access(&permissions::ALLOW_ALL);
                match a.subscribe_query(&q2).await {
                    Ok(mut s) => {
                        match tokio::time::timeout(std::time::Duration::from_millis(100), s.next()).await {
                            Ok(Some(r)) => format!("ACCEPTED first={:?}", r.fields.iter().map(|f| (f.name.clone(), f.value.clone())).collect::<Vec<_>>()),
                            Ok(None) => "ACCEPTED stream-end".to_string(),
                            Err(_) => "ACCEPTED no-initial-response".to_string(),
                        }
                    }
                    Err(e) => format!("REFUSED {:?}", e),
                }
            });
            match h.await { Ok(s) => println!("query {:?} -> {}", q, s), Err(e) => println!("query {:?} -> HANDLER PANIC {:?}", q, e.is_panic()) }
        }
    }
    if on("panic") {
        use v2::val_server::Val;
        let b = DataBroker::default();
        {
            let a = b.authorized_access(&permissions::ALLOW_ALL);
            a.add_entry("Vehicle.A".into(), DataType::Int32, ChangeType::OnChange, EntryType::Actuator, "d".into(), None, None, None, None).await.unwrap();
        }
        macro_rules! probe { ($name:expr, $fut:expr) => {{
            let bb = b.clone();
            let h = tokio::spawn(async move { let b = bb; let r = $fut(b).await; format!("{:?}", r.map(|_| "ok").map_err(|e: tonic::Status| e.code())) });
            match h.await { Ok(s) => println!("v2 {} -> {}", $name, s), Err(e) => println!("v2 {} -> HANDLER PANIC={}", $name, e.is_panic()) }
        }}}
        fn req<T>(t: T) -> tonic::Request<T> { let mut r = tonic::Request::new(t); r.extensions_mut().insert(permissions::ALLOW_ALL.clone()); r }
        probe!("get_value(no signal_id)", |b: DataBroker| async move { b.get_value(req(v2::GetValueRequest { signal_id: None })).await });
        probe!("get_value(signal None)", |b: DataBroker| async move { b.get_value(req(v2::GetValueRequest { signal_id: Some(v2::SignalId { signal: None }) })).await });
        probe!("publish_value(no datapoint)", |b: DataBroker| async move { b.publish_value(req(v2::PublishValueRequest { signal_id: Some(v2::SignalId { signal: Some(v2::signal_id::Signal::Path("Vehicle.A".into())) }), data_point: None })).await });
        probe!("publish_value(no signal)", |b: DataBroker| async move { b.publish_value(req(v2::PublishValueRequest { signal_id: None, data_point: None })).await });
        probe!("actuate(value typed None)", |b: DataBroker| async move { b.actuate(req(v2::ActuateRequest { signal_id: Some(v2::SignalId { signal: Some(v2::signal_id::Signal::Path("Vehicle.A".into())) }), value: Some(v2::Value { typed_value: None }) })).await });
        probe!("batch_actuate(value typed None)", |b: DataBroker| async move { b.batch_actuate(req(v2::BatchActuateRequest { actuate_requests: vec![v2::ActuateRequest { signal_id: Some(v2::SignalId { signal: Some(v2::signal_id::Signal::Path("Vehicle.A".into())) }), value: Some(v2::Value { typed_value: None }) }] })).await });
        probe!("get_values(signal None)", |b: DataBroker| async move { b.get_values(req(v2::GetValuesRequest { signal_ids: vec![v2::SignalId { signal: None }] })).await });
        probe!("subscribe(bufsize 5000)", |b: DataBroker| async move { b.subscribe(req(v2::SubscribeRequest { signal_paths: vec!["Vehicle.A".into()], buffer_size: 5000 })).await.map(|_| ()) });
        probe!("list_metadata(bad)", |b: DataBroker| async move { b.list_metadata(req(v2::ListMetadataRequest { root: "A..B".into(), filter: "".into() })).await });
        let _ = v1::GetRequest::default();
    }
    if on("vss") {
        for (name, doc) in [
            ("float min 1e40", r#"{"V":{"type":"branch","description":"","children":{"S":{"type":"sensor","description":"","datatype":"float","min":1e40}}}}"#),
            ("uint8 max 300", r#"{"V":{"type":"branch","description":"","children":{"S":{"type":"sensor","description":"","datatype":"uint8","max":300}}}}"#),
            ("int8 min 1.5", r#"{"V":{"type":"branch","description":"","children":{"S":{"type":"sensor","description":"","datatype":"int8","min":1.5}}}}"#),
            ("leaf no datatype", r#"{"V":{"type":"branch","description":"","children":{"S":{"type":"sensor","description":""}}}}"#),
            ("branch no children", r#"{"V":{"type":"branch","description":""}}"#),
            ("string min 5", r#"{"V":{"type":"branch","description":"","children":{"S":{"type":"sensor","description":"","datatype":"string","min":5}}}}"#),
            ("float min int", r#"{"V":{"type":"branch","description":"","children":{"S":{"type":"sensor","description":"","datatype":"float","min":5}}}}"#),
            ("float default string", r#"{"V":{"type":"branch","description":"","children":{"S":{"type":"attribute","description":"","datatype":"float","default":"x"}}}}"#),
            ("sensor with children", r#"{"V":{"type":"branch","description":"","children":{"S":{"type":"sensor","description":"","datatype":"float","children":{"X":{"type":"sensor","description":"","datatype":"float"}}}}}}"#),
            ("uint64 big", r#"{"V":{"type":"branch","description":"","children":{"S":{"type":"sensor","description":"","datatype":"uint64","max":18446744073709551615}}}}"#),
            ("double min 1e400", r#"{"V":{"type":"branch","description":"","children":{"S":{"type":"sensor","description":"","datatype":"double","min":1e400}}}}"#),
        ] {
            match vss::parse_vss_from_str(doc) {
                Ok(m) => println!("vss {:?} -> OK {:?}", name, m.iter().map(|(k, v)| (k.clone(), v.min.clone(), v.max.clone(), v.default.clone())).collect::<Vec<_>>()),
                Err(e) => println!("vss {:?} -> ERR {}", name, e),
            }
        }
    }
    if on("jwt") {
        use jsonwebtoken::{encode, EncodingKey, Header, Algorithm};
        #[derive(serde::Serialize)]
        struct C { sub: String, iss: String, aud: Vec<String>, iat: u64, exp: u64, scope: String }
        let key = EncodingKey::from_rsa_pem(&std::fs::read("/repo/certificates/jwt/jwt.key").unwrap()).unwrap();
        let dec = databroker::authorization::jwt::Decoder::new(std::fs::read_to_string("/repo/certificates/jwt/jwt.key.pub").unwrap()).unwrap();
        let now = SystemTime::now().duration_since(std::time::UNIX_EPOCH).unwrap().as_secs();
        for (name, exp, aud) in [("valid", now + 1000, "kuksa.val"), ("expired 30s ago", now - 30, "kuksa.val"), ("expired 90s ago", now - 90, "kuksa.val"), ("wrong aud", now + 1000, "other")] {
            let t = encode(&Header::new(Algorithm::RS256), &C { sub: "s".into(), iss: "i".into(), aud: vec![aud.into()], iat: now, exp, scope: "read".into() }, &key).unwrap();
            let r = dec.decode(&t);
            let perms = r.as_ref().ok().map(|_| ());
            println!("jwt {} -> decode ok={}", name, perms.is_some());
            if let Ok(claims) = r { let p = Permissions::try_from(claims).unwrap(); println!("    can_read(Vehicle.A)={:?}", p.can_read("Vehicle.A").map_err(|e| format!("{:?}", e))); }
        }
    }
    let _ = query::CompiledQuery::new();
}

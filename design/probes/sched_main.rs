use databroker::broker::{DataBroker, DataType, ChangeType, EntryType, DataValue, Datapoint, EntryUpdate, Field, ActuationChange, ActuationProvider, ActuationError};
use databroker::{permissions, verif};
use futures::task::noop_waker;
use futures::FutureExt;
use std::collections::{HashMap, HashSet};
use std::future::Future;
use std::pin::Pin;
use std::task::{Context, Poll};
use std::time::SystemTime;
use tokio_stream::StreamExt;

type Task = Pin<Box<dyn Future<Output = String>>>;

struct Prov;
#[async_trait::async_trait]
impl ActuationProvider for Prov {
    async fn actuate(&self, _ch: Vec<ActuationChange>) -> Result<(), (ActuationError, String)> { Ok(()) }
    fn is_available(&self) -> bool { true }
}

fn block_on<T>(mut f: Pin<Box<dyn Future<Output = T>>>) -> T {
    let w = noop_waker(); let mut cx = Context::from_waker(&w);
    loop { if let Poll::Ready(v) = f.as_mut().poll(&mut cx) { return v; } }
}

#[derive(Debug, Clone, PartialEq)]
enum Outcome { Done(Vec<String>), Deadlock(Vec<usize>) }

/// run tasks under a schedule prefix; afterwards continue with `fallback` policy = lowest runnable index.
/// returns (outcome, choices actually taken, branching info: at each step the set of tasks that could progress)
fn run(mk: &dyn Fn() -> (Vec<Task>, Box<dyn FnOnce(Vec<String>) -> Vec<String>>), prefix: &[usize]) -> (Outcome, Vec<usize>, Vec<Vec<usize>>) {
    verif::enable(false);
    let (mut tasks, finish) = mk();
    verif::enable(true);
    let n = tasks.len();
    let mut results: Vec<Option<String>> = vec![None; n];
    let w = noop_waker(); let mut cx = Context::from_waker(&w);
    let mut taken = vec![]; let mut branches = vec![];
    let mut step = 0;
    loop {
        let unfinished: Vec<usize> = (0..n).filter(|i| results[*i].is_none()).collect();
        if unfinished.is_empty() { break; }
        // which tasks are currently blocked is only known by trying; we try the scheduled one first
        let mut order: Vec<usize> = vec![];
        if step < prefix.len() && unfinished.contains(&prefix[step]) { order.push(prefix[step]); }
        for u in &unfinished { if !order.contains(u) { order.push(*u); } }
        let mut progressed = None;
        let mut blocked = vec![];
        for &i in &order {
            verif::set_current(i);
            let before = verif::log_len();
            match tasks[i].as_mut().poll(&mut cx) {
                Poll::Ready(s) => { results[i] = Some(s); progressed = Some(i); }
                Poll::Pending => { if verif::log_len() > before { progressed = Some(i); } else { blocked.push(i); } }
            }
            if progressed.is_some() { break; }
        }
        match progressed {
            None => { verif::enable(false); return (Outcome::Deadlock(blocked), taken, branches); }
            Some(i) => { taken.push(i); branches.push(unfinished.clone()); }
        }
        step += 1;
    }
    verif::enable(false);
    let res: Vec<String> = results.into_iter().map(|r| r.unwrap()).collect();
    (Outcome::Done(finish(res)), taken, branches)
}

/// stateless DFS over schedules
fn explore(name: &str, mk: &dyn Fn() -> (Vec<Task>, Box<dyn FnOnce(Vec<String>) -> Vec<String>>), bad: &dyn Fn(&Outcome) -> bool, limit: usize) {
    let mut stack: Vec<Vec<usize>> = vec![vec![]];
    let mut runs = 0; let mut bads = 0; let mut first_bad: Option<(Vec<usize>, Outcome)> = None;
    let mut seen = std::collections::HashSet::new();
    while let Some(prefix) = stack.pop() {
        if runs >= limit { break; }
        let (out, taken, branches) = run(mk, &prefix);
        runs += 1;
        if !seen.insert(taken.clone()) { continue; }
        if bad(&out) { bads += 1; if first_bad.is_none() { first_bad = Some((taken.clone(), out.clone())); } }
        // branch on every position >= prefix.len()
        for pos in prefix.len()..taken.len() {
            for &alt in &branches[pos] {
                if alt != taken[pos] { let mut p = taken[..pos].to_vec(); p.push(alt); stack.push(p); }
            }
        }
    }
    println!("[{}] schedules run={} distinct={} bad={}", name, runs, seen.len(), bads);
    if let Some((s, o)) = first_bad { println!("    first bad schedule {:?} -> {:?}", s, o); }
}

fn upd(v: i32) -> EntryUpdate { EntryUpdate { datapoint: Some(Datapoint { ts: SystemTime::now(), source_ts: None, value: DataValue::Int32(v) }), ..Default::default() } }

fn main() {
    // ---- F4: subscribe vs publish
    let mk_f4 = || -> (Vec<Task>, Box<dyn FnOnce(Vec<String>) -> Vec<String>>) {
        let b = DataBroker::default();
        let id = block_on(Box::pin({ let b = b.clone(); async move { b.authorized_access(&permissions::ALLOW_ALL).add_entry("Vehicle.A".into(), DataType::Int32, ChangeType::OnChange, EntryType::Actuator, "d".into(), None, None, None, None).await.unwrap() } }));
        let (b1, b2, b3) = (b.clone(), b.clone(), b.clone());
        let sub: Task = Box::pin(async move {
            let a = b1.authorized_access(&permissions::ALLOW_ALL);
            let mut s = Box::pin(a.subscribe(HashMap::from([(id, HashSet::from([Field::Datapoint]))]), Some(10)).await.unwrap());
            // keep the stream alive by leaking it into a thread local for the finisher
            STREAM.with(|c| *c.borrow_mut() = Some(Box::new(move || { let mut last = None; while let Some(Some(m)) = s.next().now_or_never() { for u in m.updates { if let Some(d) = u.update.datapoint { last = Some(format!("{:?}", d.value)); } } } last.unwrap_or("none".into()) })));
            "subscribed".to_string()
        });
        let publ: Task = Box::pin(async move { let a = b2.authorized_access(&permissions::ALLOW_ALL); a.update_entries([(id, upd(1))]).await.unwrap(); "published".to_string() });
        let fin = Box::new(move |mut r: Vec<String>| { let last = STREAM.with(|c| (c.borrow_mut().take().unwrap())()); let stored = block_on(Box::pin(async move { format!("{:?}", b3.authorized_access(&permissions::ALLOW_ALL).get_datapoint(id).await.unwrap().value) })); r.push(format!("last_sent={} stored={}", last, stored)); r });
        (vec![sub, publ], fin)
    };
    explore("F4 subscribe||publish", &mk_f4, &|o| match o { Outcome::Done(r) => { let l = r.last().unwrap(); !l.contains("last_sent=Int32(1) stored=Int32(1)") } _ => true }, 2000);

    // ---- F6: two claims
    let mk_f6 = || -> (Vec<Task>, Box<dyn FnOnce(Vec<String>) -> Vec<String>>) {
        let b = DataBroker::default();
        let id = block_on(Box::pin({ let b = b.clone(); async move { b.authorized_access(&permissions::ALLOW_ALL).add_entry("Vehicle.A".into(), DataType::Int32, ChangeType::OnChange, EntryType::Actuator, "d".into(), None, None, None, None).await.unwrap() } }));
        let mut ts: Vec<Task> = vec![];
        for _ in 0..2 { let bb = b.clone(); ts.push(Box::pin(async move { format!("claim_ok={}", bb.authorized_access(&permissions::ALLOW_ALL).provide_actuation(vec![id], Box::new(Prov)).await.is_ok()) })); }
        (ts, Box::new(|r| r))
    };
    explore("F6 claim||claim", &mk_f6, &|o| match o { Outcome::Done(r) => r.iter().filter(|s| s.contains("claim_ok=true")).count() > 1, _ => true }, 5000);

    // ---- F7: batch_actuate || subscribe_query || add_entry
    let mk_f7 = || -> (Vec<Task>, Box<dyn FnOnce(Vec<String>) -> Vec<String>>) {
        let b = DataBroker::default();
        let id = block_on(Box::pin({ let b = b.clone(); async move { let a = b.authorized_access(&permissions::ALLOW_ALL); let id = a.add_entry("Vehicle.A".into(), DataType::Int32, ChangeType::OnChange, EntryType::Actuator, "d".into(), None, None, None, None).await.unwrap(); a.provide_actuation(vec![id], Box::new(Prov)).await.unwrap(); id } }));
        let (b1, b2, b3) = (b.clone(), b.clone(), b.clone());
        let t1: Task = Box::pin(async move { format!("batch={:?}", b1.authorized_access(&permissions::ALLOW_ALL).batch_actuate(vec![ActuationChange { id, data_value: DataValue::Int32(1) }]).await.is_ok()) });
        let t2: Task = Box::pin(async move { let r = b2.authorized_access(&permissions::ALLOW_ALL).subscribe_query("SELECT Vehicle.A").await.is_ok(); format!("subq={}", r) });
        let t3: Task = Box::pin(async move { format!("add={:?}", b3.authorized_access(&permissions::ALLOW_ALL).add_entry("Vehicle.B".into(), DataType::Int32, ChangeType::OnChange, EntryType::Sensor, "d".into(), None, None, None, None).await.is_ok()) });
        (vec![t1, t2, t3], Box::new(|r| r))
    };
    explore("F7 batch_actuate||subscribe_query||add_entry", &mk_f7, &|o| matches!(o, Outcome::Deadlock(_)), 20000);
}
thread_local! { static STREAM: std::cell::RefCell<Option<Box<dyn FnOnce() -> String>>> = std::cell::RefCell::new(None); }

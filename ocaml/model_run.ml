(* model_run: runs the extracted Coq model on a case file.
   usage: model_run <family-code> <casefile>
   file format: one line per operation: "<caseid> <int> <int> ...", consecutive lines with
   the same caseid form one case.  Output: "<caseid> <int> ..." per output line. *)
open Model

let rec pos_of_int (n : int) : positive =
  if n = 1 then XH
  else if n land 1 = 0 then XO (pos_of_int (n lsr 1))
  else XI (pos_of_int (n lsr 1))

let z_of_small (n : int) : z =
  if n = 0 then Z0 else if n > 0 then Zpos (pos_of_int n) else Zneg (pos_of_int (-n))

let z10 = z_of_small 10

(* decimal string -> Z, arbitrary size *)
let z_of_string (s : string) : z =
  let neg = String.length s > 0 && s.[0] = '-' in
  let start = if neg then 1 else 0 in
  let acc = ref Z0 in
  let i = ref start in
  let n = String.length s in
  (* consume 15 digits at a time *)
  while !i < n do
    let k = min 15 (n - !i) in
    let chunk = int_of_string (String.sub s !i k) in
    let mul = ref (z_of_small 1) in
    for _ = 1 to k do mul := Z.mul !mul z10 done;
    acc := Z.add (Z.mul !acc !mul) (z_of_small chunk);
    i := !i + k
  done;
  if neg then Z.opp !acc else !acc

let rec pos_bits (p : positive) (acc : bool list) : bool list =
  match p with
  | XH -> true :: acc
  | XO q -> pos_bits q (false :: acc)
  | XI q -> pos_bits q (true :: acc)

(* Z -> decimal string; bits msb-first, decimal by repeated doubling on a digit array *)
let string_of_pos (p : positive) : string =
  let bits = pos_bits p [] in
  (* little-endian base 1e9 limbs *)
  let limbs = ref [| 0 |] in
  let double_add b =
    let carry = ref (if b then 1 else 0) in
    let a = !limbs in
    for i = 0 to Array.length a - 1 do
      let v = a.(i) * 2 + !carry in
      a.(i) <- v mod 1_000_000_000;
      carry := v / 1_000_000_000
    done;
    if !carry > 0 then limbs := Array.append a [| !carry |]
  in
  List.iter double_add bits;
  let a = !limbs in
  let n = Array.length a in
  let buf = Buffer.create 32 in
  Buffer.add_string buf (string_of_int a.(n - 1));
  for i = n - 2 downto 0 do Buffer.add_string buf (Printf.sprintf "%09d" a.(i)) done;
  Buffer.contents buf

let string_of_z (x : z) : string =
  match x with
  | Z0 -> "0"
  | Zpos p -> string_of_pos p
  | Zneg p -> "-" ^ string_of_pos p

let split_ws (s : string) : string list =
  List.filter (fun t -> t <> "") (String.split_on_char ' ' s)

let () =
  let fam = z_of_string Sys.argv.(1) in
  let ic = open_in Sys.argv.(2) in
  let out = Buffer.create 65536 in
  let flush_case id lines =
    if lines <> [] then begin
      let res = run fam (List.rev lines) in
      List.iter (fun l ->
        Buffer.add_string out id;
        List.iter (fun t -> Buffer.add_char out ' '; Buffer.add_string out (string_of_z t)) l;
        Buffer.add_char out '\n') res
    end in
  let cur = ref "" and acc = ref [] in
  (try
    while true do
      let line = input_line ic in
      match split_ws line with
      | [] -> ()
      | id :: toks ->
        if id <> !cur then begin flush_case !cur !acc; cur := id; acc := [] end;
        acc := List.map z_of_string toks :: !acc
    done
  with End_of_file -> ());
  flush_case !cur !acc;
  print_string (Buffer.contents out)

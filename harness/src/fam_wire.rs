//! C15: direct calls of the From/Into conversions of the three conversions.rs files.
use crate::codec::{dec_entry_type, enc_value, Cur, Tok};
use crate::fam_api::*;
use databroker::broker::Datapoint;
use databroker::types::{DataType, DataValue, EntryType};
use databroker_proto::kuksa::val::v1 as p1;
use databroker_proto::kuksa::val::v2 as p2;
use databroker_proto::sdv::databroker::v1 as ps;
use std::time::SystemTime;

pub fn run_line(l: &[Tok]) -> Vec<Tok> {
    let mut c = Cur::new(l);
    let (Some(api), Some(f)) = (c.next(), c.next()) else { return vec![-1] };
    let dp = |v: DataValue| Datapoint { ts: SystemTime::now(), source_ts: None, value: v };
    match f {
        0 => {
            let Some(v) = c.value() else { return vec![-1] };
            let back: Result<Option<DataValue>, Tok> = match api {
                1 => {
                    // both v1 conversions must agree
                    let a: Option<p1::Datapoint> = dp(v.clone()).into();
                    let b: Option<p1::Datapoint> = v.clone().into();
                    let av = a.as_ref().and_then(|d| from_v1_value(&d.value));
                    let bv = b.as_ref().and_then(|d| from_v1_value(&d.value));
                    if format!("{:?}", av.as_ref().map(bits)) != format!("{:?}", bv.as_ref().map(bits)) {
                        return vec![-2];
                    }
                    Ok(av)
                }
                2 => {
                    let a: Option<p2::Datapoint> = dp(v.clone()).into();
                    let b = p2::Value::from(v.clone());
                    let av = a.as_ref().and_then(|d| from_v2_value(&d.value));
                    let bv = from_v2_value(&Some(b));
                    if format!("{:?}", av.as_ref().map(bits)) != format!("{:?}", bv.as_ref().map(bits)) {
                        return vec![-2];
                    }
                    Ok(av)
                }
                _ => {
                    let a = ps::Datapoint::from(&dp(v.clone()));
                    from_sdv_value(&a.value)
                }
            };
            match back {
                Err(fail) => vec![0, fail],
                Ok(None) => vec![0],
                Ok(Some(x)) => {
                    let mut o = vec![1];
                    enc_value(&x, &mut o);
                    o
                }
            }
        }
        1 => {
            let Some(w) = c.opt_value() else { return vec![-1] };
            let r: DataValue = match api {
                1 => DataValue::from(w.as_ref().and_then(v1_value)),
                2 => {
                    let d = p2::Datapoint { timestamp: None, value: w.as_ref().map(v2_value) };
                    let a = DataValue::from(&d);
                    let b = databroker::broker::Datapoint::from(&d).value;
                    let cc = match &w {
                        Some(x) => DataValue::from(v2_value(x)),
                        None => DataValue::NotAvailable,
                    };
                    if bits(&a) != bits(&b) || bits(&a) != bits(&cc) {
                        return vec![-2];
                    }
                    a
                }
                _ => {
                    let d = ps::Datapoint { timestamp: None, value: w.as_ref().and_then(sdv_value) };
                    let a = DataValue::from(&d);
                    let b = databroker::broker::Datapoint::from(&d).value;
                    if bits(&a) != bits(&b) {
                        return vec![-2];
                    }
                    a
                }
            };
            let mut o = vec![];
            enc_value(&r, &mut o);
            o
        }
        2 => {
            let Some(t) = c.data_type() else { return vec![-1] };
            vec![match api {
                1 => p1::DataType::from(t) as i32 as Tok,
                2 => p2::DataType::from(t) as i32 as Tok,
                _ => ps::DataType::from(&t) as i32 as Tok,
            }]
        }
        3 => {
            let Some(t) = c.next().and_then(dec_entry_type) else { return vec![-1] };
            vec![match api {
                1 => p1::EntryType::from(&t) as i32 as Tok,
                2 => p2::EntryType::from(t) as i32 as Tok,
                _ => ps::EntryType::from(&t) as i32 as Tok,
            }]
        }
        _ => {
            let Some(n) = c.next() else { return vec![-1] };
            vec![match ps::DataType::try_from(n as i32) {
                Ok(pt) => crate::codec::data_type_code(&DataType::from(&pt)),
                Err(_) => -1,
            }]
        }
    }
}

fn bits(v: &DataValue) -> Vec<Tok> {
    let mut o = vec![];
    enc_value(v, &mut o);
    o
}

#[allow(dead_code)]
fn _unused(_: EntryType) {}

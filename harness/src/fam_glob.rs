//! C14: wildcard requests through v1 Get, v1 Subscribe, v2 ListMetadata (and the raw Matcher).
//! case: line0 = n path*  ; other lines = api pattern
//! out per pattern line: status k idx*   (status 0 ok | 400 | 404 | other grpc code + 1000)
use crate::codec::{Cur, Tok};
use crate::util::*;
use databroker::broker::DataBroker;
use databroker::glob::Matcher;
use databroker::types::{ChangeType, DataType, EntryType};
use databroker_proto::kuksa::val::v1 as p1;
use databroker_proto::kuksa::val::v2 as p2;
use futures::StreamExt;

async fn setup(paths: &[String]) -> DataBroker {
    let b = new_broker();
    let perms = all();
    let acc = b.authorized_access(&perms);
    for p in paths {
        acc.add_entry(
            p.clone(),
            DataType::Int32,
            ChangeType::OnChange,
            EntryType::Sensor,
            "d".to_string(),
            None,
            None,
            None,
            None,
        )
        .await
        .expect("register");
    }
    b
}

fn grpc_status(s: &tonic::Status) -> Tok {
    match s.code() {
        tonic::Code::InvalidArgument => 400,
        tonic::Code::NotFound => 404,
        c => 1000 + code_num(c),
    }
}

async fn run_one(b: &DataBroker, paths: &[String], api: Tok, pat: String) -> Vec<Tok> {
    let idx_of = |p: &str| paths.iter().position(|x| x == p).map(|i| i as Tok).unwrap_or(-5);
    let perms = all();
    let (status, mut found): (Tok, Vec<Tok>) = match api {
        0 => {
            let r = p1::val_server::Val::get(
                b,
                req(
                    p1::GetRequest {
                        entries: vec![p1::EntryRequest {
                            path: pat,
                            view: p1::View::CurrentValue as i32,
                            fields: vec![],
                        }],
                    },
                    Some(&perms),
                ),
            )
            .await;
            match r {
                Err(s) => (grpc_status(&s), vec![]),
                Ok(resp) => {
                    let resp = resp.into_inner();
                    let st = match resp.errors.first().and_then(|e| e.error.as_ref()) {
                        Some(e) => e.code as Tok,
                        None => 0,
                    };
                    (st, resp.entries.iter().map(|e| idx_of(&e.path)).collect())
                }
            }
        }
        5 => {
            // two entries in one request: a path that matches (the first signal), then the pattern
            let anchor = paths.iter().find(|p| p.contains('.')).or(paths.first()).cloned().unwrap_or_default();
            let anchor_idx = idx_of(&anchor);
            let r = p1::val_server::Val::get(
                b,
                req(
                    p1::GetRequest {
                        entries: vec![
                            p1::EntryRequest { path: anchor.clone(), view: p1::View::CurrentValue as i32, fields: vec![] },
                            p1::EntryRequest { path: pat.clone(), view: p1::View::CurrentValue as i32, fields: vec![] },
                        ],
                    },
                    Some(&perms),
                ),
            )
            .await;
            match r {
                Err(s) => (grpc_status(&s), vec![]),
                Ok(resp) => {
                    let resp = resp.into_inner();
                    let st = match resp.errors.iter().find(|e| e.path == pat).and_then(|e| e.error.as_ref()) {
                        Some(e) => e.code as Tok,
                        None => 0,
                    };
                    let mut ids: Vec<Tok> = resp.entries.iter().map(|e| idx_of(&e.path)).collect();
                    // the anchor's own entry (if the anchor entry was served)
                    let anchor_failed = anchor != pat && resp.errors.iter().any(|e| e.path == anchor);
                    if !anchor_failed {
                        if let Some(pos) = ids.iter().position(|x| *x == anchor_idx) {
                            ids.remove(pos);
                        }
                    }
                    (st, ids)
                }
            }
        }
        1 => {
            let r = p1::val_server::Val::subscribe(
                b,
                req(
                    p1::SubscribeRequest {
                        entries: vec![p1::SubscribeEntry {
                            path: pat,
                            view: p1::View::CurrentValue as i32,
                            fields: vec![p1::Field::Value as i32],
                        }],
                    },
                    Some(&perms),
                ),
            )
            .await;
            match r {
                Err(s) => (grpc_status(&s), vec![]),
                Ok(resp) => {
                    let mut st = resp.into_inner();
                    match st.next().await {
                        Some(Ok(m)) => (0, m.updates.iter().filter_map(|u| u.entry.as_ref()).map(|e| idx_of(&e.path)).collect()),
                        Some(Err(s)) => (grpc_status(&s), vec![]),
                        None => (-3, vec![]),
                    }
                }
            }
        }
        2 => {
            let r = p2::val_server::Val::list_metadata(
                b,
                req(p2::ListMetadataRequest { root: pat, filter: String::new() }, Some(&perms)),
            )
            .await;
            match r {
                Err(s) => (grpc_status(&s), vec![]),
                Ok(resp) => (0, resp.into_inner().metadata.iter().map(|m| m.id as Tok).collect()),
            }
        }
        _ => match Matcher::new(&pat) {
            Err(_) => (400, vec![]),
            Ok(m) => (
                0,
                paths
                    .iter()
                    .enumerate()
                    .filter(|(_, p)| m.is_match(&p.replace('.', "/")))
                    .map(|(i, _)| i as Tok)
                    .collect(),
            ),
        },
    };
    found.sort();
    let mut out = vec![status, found.len() as Tok];
    out.extend(found);
    out
}

pub fn run_case(case: &[Vec<Tok>]) -> Vec<Vec<Tok>> {
    let mut c = Cur::new(&case[0]);
    let n = c.next().unwrap_or(0) as usize;
    let mut paths = Vec::new();
    for _ in 0..n {
        match c.string() {
            Some(s) => paths.push(s),
            None => return vec![vec![-1]],
        }
    }
    let rt = rt();
    rt.block_on(async {
        let b = setup(&paths).await;
        let mut out = vec![vec![paths.len() as Tok]];
        for l in &case[1..] {
            let mut c = Cur::new(l);
            let (Some(api), Some(pat)) = (c.next(), c.string()) else {
                out.push(vec![-1]);
                continue;
            };
            if api == 4 {
                out.push(vec![
                    if Matcher::new(&pat).is_ok() { 0 } else { 400 },
                    databroker::glob::is_valid_path(&pat) as Tok,
                ]);
                continue;
            }
            out.push(run_one(&b, &paths, api, pat).await);
        }
        out
    })
}

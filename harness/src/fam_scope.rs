//! C05: scope claim -> Permissions (TryFrom<Claims>) -> can_* on the real code.
use crate::codec::{Cur, Tok};
use databroker::authorization::jwt::Claims;
use databroker::permissions::{PermissionError, Permissions};
use std::convert::TryFrom;

pub fn perms_from_scope(scope: String, exp: u64) -> Option<Permissions> {
    // built through serde so that the harness does not depend on the exact field set of `Claims`
    let claims: Claims = serde_json::from_value(serde_json::json!({
        "sub": "s", "iss": "i", "aud": ["kuksa.val"], "iat": 0, "exp": exp, "scope": scope,
    }))
    .ok()?;
    Permissions::try_from(claims).ok()
}

pub fn res_code(r: Result<(), PermissionError>) -> Tok {
    match r {
        Ok(()) => 0,
        Err(PermissionError::Denied) => 1,
        Err(PermissionError::Expired) => 2,
    }
}

pub fn run_line(t: &[Tok]) -> Vec<Tok> {
    let mut c = Cur::new(t);
    let bad = vec![-1];
    let (Some(_now), Some(exp), Some(scope)) = (c.next(), c.next(), c.string()) else { return bad };
    let Some(p) = perms_from_scope(scope, exp as u64) else { return vec![0] };
    let mut out = vec![1];
    while !c.done() {
        let (Some(act), Some(path)) = (c.next(), c.string()) else { return bad };
        out.push(res_code(match act {
            0 => p.can_read(&path),
            1 => p.can_write_actuator_target(&path),
            2 => p.can_write_datapoint(&path),
            _ => p.can_create(&path),
        }));
    }
    out
}

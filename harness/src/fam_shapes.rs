//! Structural request shapes for the real-server family (C18): each RPC in variants where optional
//! message parts are absent, enums are out of range, paths / arrays / texts are empty or huge.
use crate::codec::Tok;
use std::collections::HashMap;
use tonic::transport::Channel;

pub async fn call_shape(_ch: &Channel, _rpc: Tok, _variant: Tok, _k: Tok, _hdr: &Option<String>, _ids: &HashMap<String, i32>) -> Tok {
    -2
}

//! Structural request shapes for the real-server family (C18): each RPC in variants where optional
//! message parts are absent, enums are out of range, paths / arrays / texts are empty or huge,
//! timestamps extreme.  `call_shape` answers -2 for a variant number that does not exist.
use crate::codec::Tok;
use crate::fam_srv::{code_of, first, sdv_dp, sig_name, v1_update, v2_dp, v2_sig, with_auth};
use databroker_proto::kuksa::val::v1 as p1;
use databroker_proto::kuksa::val::v2 as p2;
use databroker_proto::sdv::databroker::v1 as ps;
use std::collections::HashMap;
use tonic::transport::Channel;

fn long(n: usize) -> String {
    let mut s = String::from("Srv");
    while s.len() < n {
        s.push_str(".Abcdefghi");
    }
    s.truncate(n);
    s
}

/// Texts with multi-byte characters placed so that the byte offsets around the path limit (1000 bytes) and
/// the query limit (4096 bytes) fall inside a character, for every character width and alignment, plus
/// short non-ASCII texts and texts of exactly the limit.  Variants 100+t put text t into the first text
/// slot of an RPC, variants 200+t into its second one (where it has one).
pub const N_TEXTS: Tok = 28;
fn nasty(t: Tok) -> Option<String> {
    let chars = ['\u{e9}', '\u{20ac}', '\u{1f600}'];
    if (0..18).contains(&t) {
        let target = if t < 9 { 1000 } else { 4096 };
        let (wi, phase) = [(0, 0), (0, 1), (1, 0), (1, 1), (1, 2), (2, 0), (2, 1), (2, 2), (2, 3)][(t % 9) as usize];
        let mut s = "a".repeat(phase);
        while s.len() < target + 64 {
            s.push(chars[wi]);
        }
        return Some(s);
    }
    Some(match t {
        18 => "\u{e9}".to_string(),
        19 => "Srv.\u{e9}".to_string(),
        20 => "Srv.\u{0}".to_string(),
        21 => "\u{feff}Srv".to_string(),
        22 => "Srv.\u{1f600}.**".to_string(),
        23 => "\u{e9}".repeat(500),
        24 => format!("a{}", "\u{e9}".repeat(500)),
        25 => "\u{e9}".repeat(2048),
        26 => format!("Srv.{}", "\u{20ac}".repeat(400)),
        27 => format!("Srv.R0\u{301}.\u{202e}x"),
        _ => return None,
    })
}

fn ts(seconds: i64, nanos: i32) -> Option<prost_types::Timestamp> {
    Some(prost_types::Timestamp { seconds, nanos })
}

fn v1_entry(path: &str, value: Option<p1::Datapoint>, target: Option<p1::Datapoint>, fields: Vec<i32>) -> p1::EntryUpdate {
    p1::EntryUpdate {
        entry: Some(p1::DataEntry { path: path.to_string(), value, actuator_target: target, metadata: None }),
        fields,
    }
}

fn v1_i32(k: Tok) -> p1::Datapoint {
    p1::Datapoint { timestamp: None, value: Some(p1::datapoint::Value::Int32(k as i32)) }
}

pub async fn call_shape(ch: &Channel, rpc: Tok, variant: Tok, k: Tok, hdr: &Option<String>, ids: &HashMap<String, i32>) -> Tok {
    let name = sig_name(rpc);
    let id = *ids.get(&name).unwrap_or(&0);
    let mut v1 = p1::val_client::ValClient::new(ch.clone()).max_decoding_message_size(64 << 20).max_encoding_message_size(64 << 20);
    let mut v2 = p2::val_client::ValClient::new(ch.clone()).max_decoding_message_size(64 << 20).max_encoding_message_size(64 << 20);
    let mut sb = ps::broker_client::BrokerClient::new(ch.clone()).max_decoding_message_size(64 << 20);
    let mut sc = ps::collector_client::CollectorClient::new(ch.clone()).max_decoding_message_size(64 << 20);
    let value_f = p1::Field::Value as i32;
    let text = if variant >= 100 {
        match nasty(variant % 100) {
            Some(s) => s,
            None => return -2,
        }
    } else {
        String::new()
    };
    let second = variant >= 200;
    if variant >= 300 || (second && ![1, 2, 11, 12, 17, 19].contains(&rpc)) {
        return -2;
    }
    match rpc {
        // ---------------- kuksa.val.v1 Get
        0 => {
            let er = |path: String, view: i32, fields: Vec<i32>| p1::EntryRequest { path, view, fields };
            let entries = match variant {
                1 => vec![],
                2 => vec![er("".into(), 1, vec![value_f])],
                3 => vec![er(long(1001), 1, vec![value_f])],
                4 => vec![er(long(100_000), 1, vec![value_f])],
                5 => vec![er(name.clone(), 99, vec![value_f])],
                6 => vec![er(name.clone(), 10, vec![99])],
                7 => vec![er(name.clone(), 10, vec![])],
                8 => vec![er("Srv..R0".into(), 1, vec![value_f])],
                9 => vec![er("**".into(), 20, vec![])],
                10 => (0..1000).map(|_| er(name.clone(), 20, vec![])).collect(),
                11 => vec![er(name.clone(), -1, vec![-5])],
                12 => vec![er("*".into(), 3, vec![17, 20, 30, 40])],
                v if v >= 100 => vec![er(name.clone(), 1, vec![value_f]), er(text.clone(), 1, vec![value_f])],
                _ => return -2,
            };
            code_of(v1.get(with_auth(p1::GetRequest { entries }, hdr)).await)
        }
        // ---------------- kuksa.val.v1 Set / StreamedUpdate
        1 | 2 => {
            let updates = match variant {
                1 => vec![],
                2 => vec![p1::EntryUpdate { entry: None, fields: vec![value_f] }],
                3 => vec![v1_entry(&name, None, None, vec![value_f])],
                4 => vec![v1_entry(&name, Some(v1_i32(k)), None, vec![99])],
                5 => vec![v1_entry(&name, Some(v1_i32(k)), None, vec![])],
                6 => vec![v1_entry(&name, Some(p1::Datapoint { timestamp: None, value: None }), None, vec![value_f])],
                7 => vec![v1_entry("", Some(v1_i32(k)), None, vec![value_f])],
                8 => vec![v1_entry(&long(100_000), Some(v1_i32(k)), None, vec![value_f])],
                9 => vec![v1_entry(
                    &name,
                    Some(p1::Datapoint {
                        timestamp: None,
                        value: Some(p1::datapoint::Value::Int32Array(p1::Int32Array { values: vec![7; 100_000] })),
                    }),
                    None,
                    vec![value_f],
                )],
                10 => vec![v1_entry(&name, Some(v1_i32(k)), Some(v1_i32(k)), vec![value_f, p1::Field::ActuatorTarget as i32, 10])],
                11 => vec![v1_entry(
                    &name,
                    Some(p1::Datapoint { timestamp: None, value: Some(p1::datapoint::Value::String("x".repeat(100_000))) }),
                    None,
                    vec![value_f],
                )],
                12 => vec![v1_entry(
                    &name,
                    Some(p1::Datapoint { timestamp: ts(i64::MAX, -1), value: Some(p1::datapoint::Value::Int32(1)) }),
                    None,
                    vec![value_f],
                )],
                13 => vec![v1_entry(
                    &name,
                    Some(p1::Datapoint { timestamp: ts(i64::MIN, i32::MAX), value: Some(p1::datapoint::Value::Int32(1)) }),
                    None,
                    vec![value_f],
                )],
                14 => (0..1000).map(|_| v1_update(&name, k)).collect(),
                15 => vec![p1::EntryUpdate {
                    entry: Some(p1::DataEntry {
                        path: name.clone(),
                        value: None,
                        actuator_target: None,
                        metadata: Some(p1::Metadata { data_type: 99, entry_type: 99, ..Default::default() }),
                    }),
                    fields: vec![10, 11, 13],
                }],
                v if v >= 200 => vec![v1_entry(
                    &name,
                    Some(p1::Datapoint { timestamp: None, value: Some(p1::datapoint::Value::String(text.clone())) }),
                    None,
                    vec![value_f],
                )],
                v if v >= 100 => vec![v1_entry(&text, Some(v1_i32(k)), None, vec![value_f])],
                _ => return -2,
            };
            if rpc == 1 {
                code_of(v1.set(with_auth(p1::SetRequest { updates }, hdr)).await)
            } else if variant == 1 {
                let reqs: Vec<p1::StreamedUpdateRequest> = vec![];
                first(v1.streamed_update(with_auth(tokio_stream::iter(reqs), hdr)).await).await
            } else {
                let reqs = vec![p1::StreamedUpdateRequest { updates: updates.clone() }, p1::StreamedUpdateRequest { updates }];
                first(v1.streamed_update(with_auth(tokio_stream::iter(reqs), hdr)).await).await
            }
        }
        // ---------------- kuksa.val.v1 Subscribe
        3 => {
            let se = |path: String, view: i32, fields: Vec<i32>| p1::SubscribeEntry { path, view, fields };
            let entries = match variant {
                1 => vec![],
                2 => vec![se("".into(), 1, vec![value_f])],
                3 => vec![se(name.clone(), 99, vec![value_f])],
                4 => vec![se(name.clone(), 1, vec![99])],
                5 => vec![se(long(100_000), 1, vec![value_f])],
                6 => vec![se("**".into(), 20, vec![])],
                7 => vec![se(name.clone(), 1, vec![]), se("Srv..".into(), 1, vec![value_f])],
                8 => (0..500).map(|_| se(name.clone(), 20, vec![value_f, 3, 10])).collect(),
                v if v >= 100 => vec![se(text.clone(), 1, vec![value_f])],
                _ => return -2,
            };
            first(v1.subscribe(with_auth(p1::SubscribeRequest { entries }, hdr)).await).await
        }
        // ---------------- kuksa.val.v2 GetValue / GetValues
        5 | 6 => {
            let sid = match variant {
                1 => None,
                2 => Some(p2::SignalId { signal: None }),
                3 => v2_sig(""),
                4 => v2_sig(&long(100_000)),
                5 => Some(p2::SignalId { signal: Some(p2::signal_id::Signal::Id(-1)) }),
                6 => Some(p2::SignalId { signal: Some(p2::signal_id::Signal::Id(i32::MAX)) }),
                7 => v2_sig("Srv.*"),
                8 | 9 => v2_sig(&name),
                v if v >= 100 => v2_sig(&text),
                _ => return -2,
            };
            if rpc == 5 {
                code_of(v2.get_value(with_auth(p2::GetValueRequest { signal_id: sid }, hdr)).await)
            } else {
                let signal_ids = match (variant, sid) {
                    (1, _) => vec![],
                    (7, _) => (0..10_000).map(|_| v2_sig(&name).unwrap()).collect(),
                    (8, _) => vec![
                        p2::SignalId { signal: Some(p2::signal_id::Signal::Id(id)) },
                        v2_sig(&name).unwrap(),
                        p2::SignalId { signal: Some(p2::signal_id::Signal::Id(id)) },
                    ],
                    (9, _) => vec![v2_sig(&name).unwrap(), p2::SignalId { signal: Some(p2::signal_id::Signal::Id(id)) }, v2_sig(&name).unwrap()],
                    (_, Some(s)) => vec![v2_sig(&name).unwrap(), s],
                    (_, None) => vec![],
                };
                code_of(v2.get_values(with_auth(p2::GetValuesRequest { signal_ids }, hdr)).await)
            }
        }
        // ---------------- kuksa.val.v2 Subscribe / SubscribeById
        7 => {
            let (signal_paths, buffer_size) = match variant {
                1 => (vec![], 0),
                2 => (vec![name.clone()], u32::MAX),
                3 => (vec!["".to_string()], 0),
                4 => (vec!["Srv.Unknown".to_string()], 0),
                5 => (vec![name.clone()], 1001),
                6 => ((0..10_000).map(|_| name.clone()).collect(), 1000),
                7 => (vec![long(100_000)], 1),
                v if v >= 100 => (vec![text.clone()], 1),
                _ => return -2,
            };
            first(v2.subscribe(with_auth(p2::SubscribeRequest { signal_paths, buffer_size }, hdr)).await).await
        }
        8 => {
            let (signal_ids, buffer_size) = match variant {
                1 => (vec![], 0),
                2 => (vec![-1], 0),
                3 => (vec![id], u32::MAX),
                4 => (vec![i32::MAX, i32::MIN], 1000),
                5 => ((0..10_000).map(|_| id).collect(), 0),
                _ => return -2,
            };
            first(v2.subscribe_by_id(with_auth(p2::SubscribeByIdRequest { signal_ids, buffer_size }, hdr)).await).await
        }
        // ---------------- kuksa.val.v2 Actuate / BatchActuate
        9 | 10 => {
            let one = match variant {
                1 => p2::ActuateRequest { signal_id: None, value: v2_dp(k).value },
                2 => p2::ActuateRequest { signal_id: v2_sig(&name), value: None },
                3 => p2::ActuateRequest { signal_id: v2_sig(&name), value: Some(p2::Value { typed_value: None }) },
                4 => p2::ActuateRequest { signal_id: v2_sig(&long(100_000)), value: v2_dp(k).value },
                5 => p2::ActuateRequest { signal_id: Some(p2::SignalId { signal: None }), value: v2_dp(k).value },
                6 => p2::ActuateRequest {
                    signal_id: v2_sig(&name),
                    value: Some(p2::Value {
                        typed_value: Some(p2::value::TypedValue::StringArray(p2::StringArray { values: vec!["x".repeat(1000); 1000] })),
                    }),
                },
                7 => p2::ActuateRequest { signal_id: Some(p2::SignalId { signal: Some(p2::signal_id::Signal::Id(i32::MIN)) }), value: None },
                8 | 9 => p2::ActuateRequest { signal_id: Some(p2::SignalId { signal: Some(p2::signal_id::Signal::Id(id)) }), value: v2_dp(k).value },
                v if v >= 100 => p2::ActuateRequest { signal_id: v2_sig(&text), value: v2_dp(k).value },
                _ => return -2,
            };
            if rpc == 9 {
                code_of(v2.actuate(with_auth(one, hdr)).await)
            } else {
                let by_id = p2::ActuateRequest {
                    signal_id: Some(p2::SignalId { signal: Some(p2::signal_id::Signal::Id(id)) }),
                    value: v2_dp(k).value,
                };
                let by_path = p2::ActuateRequest { signal_id: v2_sig(&name), value: v2_dp(k).value };
                let actuate_requests = match variant {
                    7 => vec![],
                    8 => vec![by_id.clone(), by_path.clone(), by_id],
                    9 => vec![by_path.clone(), by_id, by_path],
                    _ => vec![one.clone(), one],
                };
                code_of(v2.batch_actuate(with_auth(p2::BatchActuateRequest { actuate_requests }, hdr)).await)
            }
        }
        // ---------------- kuksa.val.v2 ListMetadata
        11 => {
            let (root, filter) = match variant {
                1 => ("".to_string(), "".to_string()),
                2 => ("**".to_string(), "".to_string()),
                3 => (long(100_000), "".to_string()),
                4 => ("Srv".to_string(), "x".repeat(100_000)),
                5 => ("Srv.*".to_string(), "*".to_string()),
                6 => ("Srv..".to_string(), "".to_string()),
                7 => ("*.**.*".to_string(), "\u{0}".to_string()),
                v if v >= 200 => ("Srv".to_string(), text.clone()),
                v if v >= 100 => (text.clone(), "".to_string()),
                _ => return -2,
            };
            code_of(v2.list_metadata(with_auth(p2::ListMetadataRequest { root, filter }, hdr)).await)
        }
        // ---------------- kuksa.val.v2 PublishValue
        12 => {
            let req = match variant {
                1 => p2::PublishValueRequest { signal_id: None, data_point: Some(v2_dp(k)) },
                2 => p2::PublishValueRequest { signal_id: v2_sig(&name), data_point: None },
                3 => p2::PublishValueRequest { signal_id: v2_sig(&name), data_point: Some(p2::Datapoint { timestamp: None, value: None }) },
                4 => p2::PublishValueRequest {
                    signal_id: v2_sig(&name),
                    data_point: Some(p2::Datapoint { timestamp: None, value: Some(p2::Value { typed_value: None }) }),
                },
                5 => p2::PublishValueRequest {
                    signal_id: v2_sig(&name),
                    data_point: Some(p2::Datapoint {
                        timestamp: None,
                        value: Some(p2::Value {
                            typed_value: Some(p2::value::TypedValue::Int32Array(p2::Int32Array { values: vec![1; 100_000] })),
                        }),
                    }),
                },
                6 => p2::PublishValueRequest {
                    signal_id: v2_sig(&name),
                    data_point: Some(p2::Datapoint { timestamp: ts(i64::MAX, -1), value: v2_dp(k).value }),
                },
                7 => p2::PublishValueRequest {
                    signal_id: v2_sig(&name),
                    data_point: Some(p2::Datapoint { timestamp: ts(i64::MIN, i32::MAX), value: v2_dp(k).value }),
                },
                8 => p2::PublishValueRequest { signal_id: Some(p2::SignalId { signal: None }), data_point: None },
                9 => p2::PublishValueRequest {
                    signal_id: v2_sig(&name),
                    data_point: Some(p2::Datapoint { timestamp: ts(-62135596801, 0), value: v2_dp(k).value }),
                },
                v if v >= 200 => p2::PublishValueRequest {
                    signal_id: v2_sig(&name),
                    data_point: Some(p2::Datapoint {
                        timestamp: None,
                        value: Some(p2::Value { typed_value: Some(p2::value::TypedValue::String(text.clone())) }),
                    }),
                },
                v if v >= 100 => p2::PublishValueRequest { signal_id: v2_sig(&text), data_point: Some(v2_dp(k)) },
                _ => return -2,
            };
            code_of(v2.publish_value(with_auth(req, hdr)).await)
        }
        // ---------------- kuksa.val.v2 OpenProviderStream
        13 => {
            use p2::open_provider_stream_request::Action as A;
            let act = |a: Option<A>| p2::OpenProviderStreamRequest { action: a };
            let mut dps = HashMap::new();
            let reqs = match variant {
                1 => vec![],
                2 => vec![act(None)],
                3 => vec![act(Some(A::ProvideActuationRequest(p2::ProvideActuationRequest { actuator_identifiers: vec![] })))],
                4 => vec![act(Some(A::ProvideActuationRequest(p2::ProvideActuationRequest {
                    actuator_identifiers: vec![p2::SignalId { signal: None }],
                })))],
                5 => {
                    dps.insert(i32::MAX, v2_dp(k));
                    vec![act(Some(A::PublishValuesRequest(p2::PublishValuesRequest { request_id: -1, data_points: dps })))]
                }
                6 => vec![act(Some(A::BatchActuateStreamResponse(p2::BatchActuateStreamResponse { signal_id: None, error: None })))],
                7 => {
                    dps.insert(id, p2::Datapoint { timestamp: None, value: None });
                    vec![act(Some(A::PublishValuesRequest(p2::PublishValuesRequest { request_id: 0, data_points: dps })))]
                }
                8 => {
                    let p = act(Some(A::ProvideActuationRequest(p2::ProvideActuationRequest {
                        actuator_identifiers: vec![v2_sig(&sig_name(9)).unwrap(), v2_sig(&sig_name(9)).unwrap()],
                    })));
                    vec![p.clone(), p]
                }
                9 => vec![act(Some(A::ProvideActuationRequest(p2::ProvideActuationRequest {
                    actuator_identifiers: vec![v2_sig(&long(100_000)).unwrap(), v2_sig("").unwrap()],
                })))],
                10 => {
                    dps.insert(id, p2::Datapoint { timestamp: ts(i64::MAX, i32::MIN), value: Some(p2::Value { typed_value: None }) });
                    vec![act(Some(A::PublishValuesRequest(p2::PublishValuesRequest { request_id: i32::MIN, data_points: dps })))]
                }
                // identifiers of both forms (id / path / neither) in every order
                11..=16 => {
                    let by_id = |i: i32| p2::SignalId { signal: Some(p2::signal_id::Signal::Id(i)) };
                    let by_path = v2_sig(&sig_name(9)).unwrap();
                    let none = p2::SignalId { signal: None };
                    let own = *ids.get(&sig_name(10)).unwrap_or(&0);
                    let list = match variant {
                        11 => vec![by_id(own), by_path],
                        12 => vec![by_path, by_id(own)],
                        13 => vec![none, by_path],
                        14 => vec![by_id(-1), by_path, by_id(own)],
                        15 => vec![by_id(own), by_id(own), by_path.clone(), by_path],
                        _ => vec![by_path, none, by_id(i32::MAX)],
                    };
                    vec![act(Some(A::ProvideActuationRequest(p2::ProvideActuationRequest { actuator_identifiers: list })))]
                }
                v if v >= 100 => vec![act(Some(A::ProvideActuationRequest(p2::ProvideActuationRequest {
                    actuator_identifiers: vec![v2_sig(&text).unwrap()],
                })))],
                _ => return -2,
            };
            first(v2.open_provider_stream(with_auth(tokio_stream::iter(reqs), hdr)).await).await
        }
        // ---------------- sdv Broker
        15 => {
            let datapoints = match variant {
                1 => vec![],
                2 => vec!["".to_string()],
                3 => vec![long(100_000)],
                4 => (0..10_000).map(|_| name.clone()).collect(),
                v if v >= 100 => vec![name.clone(), text.clone()],
                _ => return -2,
            };
            code_of(sb.get_datapoints(with_auth(ps::GetDatapointsRequest { datapoints }, hdr)).await)
        }
        16 => {
            let mut m = HashMap::new();
            match variant {
                1 => {}
                2 => {
                    m.insert(name.clone(), ps::Datapoint { timestamp: None, value: None });
                }
                3 => {
                    m.insert(name.clone(), ps::Datapoint { timestamp: None, value: Some(ps::datapoint::Value::FailureValue(99)) });
                }
                4 => {
                    m.insert("Srv.Unknown".to_string(), sdv_dp(k));
                }
                5 => {
                    m.insert("".to_string(), ps::Datapoint { timestamp: ts(i64::MAX, -1), value: None });
                }
                6 => {
                    m.insert(long(100_000), sdv_dp(k));
                }
                v if v >= 100 => {
                    m.insert(text.clone(), sdv_dp(k));
                }
                _ => return -2,
            }
            code_of(sb.set_datapoints(with_auth(ps::SetDatapointsRequest { datapoints: m }, hdr)).await)
        }
        17 => {
            let query = match variant {
                1 => "".to_string(),
                2 => "SELECT".to_string(),
                3 => "SELECT LAG()".to_string(),
                4 => format!("SELECT {} WHERE {}", name, vec![format!("{} > 1", name); 2000].join(" AND ")),
                5 => format!("SELECT {} WHERE {} BETWEEN 1 AND 20", name, name),
                6 => "SELECT \u{0} \u{feff} 'é".to_string(),
                7 => format!("SELECT {}", vec!["("; 3000].join("")),
                8 => format!("SELECT 5, {} WHERE 1", name),
                9 => format!("SELECT (SELECT (SELECT {}))", name),
                10 => format!("SELECT CAST({} AS INT), {}[1], LAG({}, 1, 2)", name, name, name),
                11 => format!("SELECT {} WHERE {} IN (SELECT {})", name, name, name),
                // the longest / deepest texts of each recursive shape that the size check lets through
                12 => format!("SELECT {} WHERE {}({} > 1)", name, "NOT ".repeat(32), name),
                13 => format!("SELECT {} WHERE {}{} > 1", name, format!("{} > 1 AND ", name).repeat(31), name),
                14 => format!("SELECT {}{}{}", "(SELECT ".repeat(31), name, ")".repeat(31)),
                15 => format!("SELECT {}1", "-".repeat(32)),
                16 => format!("SELECT {} WHERE {}{}{}", name, "(".repeat(32), name, ")".repeat(32)),
                17 => format!("SELECT {} WHERE {} > 1{}", name, name, format!(" OR {} BETWEEN 1 AND 2", name).repeat(20)),
                18 => format!("SELECT {}", vec![name.clone(); 120].join(",")),
                19 => format!("SELECT {} WHERE {}", name, vec!["("; 33].join("")),
                21 => format!("SELECT {} WHERE {}({} > 1)", name, "NOT ".repeat(33), name),
                22 => format!("SELECT {}", vec![name.clone(); 200].join(",")),
                23 => format!("SELECT {} WHERE {}1 > {}", name, "-".repeat(33), name),
                20 => "x".repeat(4097),
                v if v >= 200 => format!("SELECT {} WHERE {} = '{}'", name, name, text),
                v if v >= 100 => text.clone(),
                _ => return -2,
            };
            first(sb.subscribe(with_auth(ps::SubscribeRequest { query }, hdr)).await).await
        }
        18 => {
            let names = match variant {
                1 => vec![],
                2 => vec!["".to_string()],
                3 => vec![long(100_000), "**".to_string()],
                v if v >= 100 => vec![text.clone()],
                _ => return -2,
            };
            code_of(sb.get_metadata(with_auth(ps::GetMetadataRequest { names }, hdr)).await)
        }
        // ---------------- sdv Collector
        19 => {
            let rm = |name: String, data_type: i32, change_type: i32| ps::RegistrationMetadata {
                name,
                data_type,
                description: "d".into(),
                change_type,
            };
            let list = match variant {
                1 => vec![],
                2 => vec![rm(format!("Srv.New{}", k), 99, 1)],
                3 => vec![rm(format!("Srv.New{}", k), 4, 99)],
                4 => vec![rm("".into(), 4, 1)],
                5 => vec![rm(long(100_000), 4, 1)],
                6 => vec![rm(format!("Srv.New{}", k), -1, -1)],
                7 => vec![rm("Srv..X".into(), 4, 1), rm("Srv.*".into(), 4, 1)],
                8 => (0..2000).map(|i| rm(format!("Srv.Bulk{}", i), (i % 30) as i32, (i % 5) as i32)).collect(),
                v if v >= 200 => vec![ps::RegistrationMetadata {
                    name: format!("Srv.Txt{}", k),
                    data_type: 4,
                    description: text.clone(),
                    change_type: 1,
                }],
                v if v >= 100 => vec![rm(text.clone(), 4, 1)],
                _ => return -2,
            };
            code_of(sc.register_datapoints(with_auth(ps::RegisterDatapointsRequest { list }, hdr)).await)
        }
        20 | 21 => {
            let mut m = HashMap::new();
            match variant {
                1 => {}
                2 => {
                    m.insert(id, ps::Datapoint { timestamp: None, value: None });
                }
                3 => {
                    m.insert(i32::MAX, sdv_dp(k));
                }
                4 => {
                    m.insert(id, ps::Datapoint { timestamp: None, value: Some(ps::datapoint::Value::FailureValue(-7)) });
                }
                5 => {
                    m.insert(id, ps::Datapoint { timestamp: ts(i64::MAX, -1), value: sdv_dp(k).value });
                }
                6 => {
                    m.insert(
                        id,
                        ps::Datapoint {
                            timestamp: None,
                            value: Some(ps::datapoint::Value::StringArray(ps::StringArray { values: vec!["x".repeat(1000); 1000] })),
                        },
                    );
                }
                7 => {
                    m.insert(id, ps::Datapoint { timestamp: ts(i64::MIN, i32::MIN), value: None });
                    m.insert(-1, ps::Datapoint { timestamp: None, value: None });
                }
                _ => return -2,
            }
            if rpc == 20 {
                code_of(sc.update_datapoints(with_auth(ps::UpdateDatapointsRequest { datapoints: m }, hdr)).await)
            } else if variant == 1 {
                let reqs: Vec<ps::StreamDatapointsRequest> = vec![];
                first(sc.stream_datapoints(with_auth(tokio_stream::iter(reqs), hdr)).await).await
            } else {
                let reqs = vec![ps::StreamDatapointsRequest { datapoints: m.clone() }, ps::StreamDatapointsRequest { datapoints: m }];
                first(sc.stream_datapoints(with_auth(tokio_stream::iter(reqs), hdr)).await).await
            }
        }
        _ => -2,
    }
}

//! kdb-run: executes a case file against the real databroker crate (built from /repo's
//! working tree) and prints the same canonical integer lines as the extracted Coq model.
//! usage: kdb-run <family-code> <casefile>
mod codec;
mod fam_cmp;
mod fam_validate;
mod fam_scope;
mod fam_glob;
mod fam_hist;
mod fam_api;
mod fam_wire;
mod fam_conc;
mod fam_vss;
mod fam_srv;
mod fam_shapes;
mod fam_viss;
mod fam_prov;
mod util;

use codec::Tok;
use std::io::{BufRead, Write};

fn run_case(fam: i64, case: &[Vec<Tok>]) -> Vec<Vec<Tok>> {
    match fam {
        13 => case.iter().map(|l| fam_cmp::run_line(l)).collect(),
        2 => case.iter().map(|l| fam_validate::run_line(l)).collect(),
        14 => fam_glob::run_case(case),
        1 | 16 => fam_hist::run_case(case),
        17 => fam_vss::run_case(case),
        19 => fam_vss::run_case_binary(case),
        6 | 18 => fam_srv::run_case(case),
        20 => fam_hist::run_case_with(case, true),
        15 => case.iter().map(|l| fam_wire::run_line(l)).collect(),
        11 => case.iter().map(|l| fam_conc::run_trace_line(l)).collect(),
        12 => case.iter().map(|l| fam_conc::run_sched_line(l)).collect(),
        5 => case.iter().map(|l| fam_scope::run_line(l)).collect(),
        _ => vec![vec![-99]],
    }
}

fn main() {
    // panics are counted and reported in the output, not printed
    fam_srv::install_panic_hook();
    let args: Vec<String> = std::env::args().collect();
    let fam: i64 = args[1].parse().expect("family code");
    let f = std::fs::File::open(&args[2]).expect("case file");
    let rd = std::io::BufReader::new(f);
    let out = std::io::stdout();
    let mut out = std::io::BufWriter::new(out.lock());
    let mut cur = String::new();
    let mut acc: Vec<Vec<Tok>> = Vec::new();
    let mut flush = |id: &str, acc: &mut Vec<Vec<Tok>>, out: &mut dyn Write| {
        if acc.is_empty() {
            return;
        }
        let res = std::panic::catch_unwind(std::panic::AssertUnwindSafe(|| run_case(fam, acc)));
        let res = res.unwrap_or_else(|_| vec![vec![-77]]);
        for l in res {
            write!(out, "{}", id).unwrap();
            for t in l {
                write!(out, " {}", t).unwrap();
            }
            writeln!(out).unwrap();
        }
        acc.clear();
    };
    for line in rd.lines() {
        let line = line.unwrap();
        let mut it = line.split_ascii_whitespace();
        let id = match it.next() {
            Some(i) => i.to_string(),
            None => continue,
        };
        if id != cur {
            flush(&cur, &mut acc, &mut out);
            cur = id;
        }
        acc.push(it.map(|t| t.parse::<Tok>().expect("token")).collect());
    }
    flush(&cur, &mut acc, &mut out);
}

//! C02 (pure part): Entry::validate / validate_allowed_type on a synthetic entry.
use crate::codec::{Cur, Tok};
use databroker::broker::{Datapoint, Entry, EntryUpdate, Metadata, UpdateError};
use databroker::types::{ChangeType, DataType, DataValue, EntryType};
use std::time::SystemTime;

pub fn err_code(e: &UpdateError) -> Tok {
    match e {
        UpdateError::NotFound => 1,
        UpdateError::WrongType => 2,
        UpdateError::OutOfBoundsAllowed => 3,
        UpdateError::OutOfBoundsMinMax => 4,
        UpdateError::OutOfBoundsType => 5,
        UpdateError::UnsupportedType => 6,
        UpdateError::PermissionDenied => 7,
        UpdateError::PermissionExpired => 8,
    }
}

pub fn mk_entry(
    t: DataType,
    min: Option<DataValue>,
    max: Option<DataValue>,
    allowed: Option<DataValue>,
) -> Entry {
    let dp = Datapoint {
        ts: SystemTime::now(),
        source_ts: None,
        value: DataValue::NotAvailable,
    };
    Entry {
        datapoint: dp.clone(),
        lag_datapoint: dp,
        actuator_target: None,
        metadata: Metadata {
            id: 0,
            path: "Vehicle.X".to_string(),
            glob_path: "Vehicle/X".to_string(),
            data_type: t,
            entry_type: EntryType::Actuator,
            change_type: ChangeType::Continuous,
            description: String::new(),
            min,
            max,
            allowed,
            unit: None,
        },
    }
}

pub fn run_line(t: &[Tok]) -> Vec<Tok> {
    let mut c = Cur::new(t);
    let bad = vec![-1];
    let (Some(f), Some(ty)) = (c.next(), c.data_type()) else { return bad };
    let (Some(mn), Some(mx), Some(al)) = (c.opt_value(), c.opt_value(), c.opt_value()) else {
        return bad;
    };
    let r = if f == 1 {
        mk_entry(ty, mn, mx, None).validate_allowed_type(&al)
    } else {
        let Some(v) = c.value() else { return bad };
        if !c.done() {
            return bad;
        }
        let e = mk_entry(ty, mn, mx, al);
        let upd = EntryUpdate {
            datapoint: Some(Datapoint {
                ts: SystemTime::now(),
                source_ts: None,
                value: v.clone(),
            }),
            ..Default::default()
        };
        let r1 = e.validate(&upd);
        // validate_actuator_value must agree with the datapoint path
        let r2 = e.validate_actuator_value(&v);
        if r1 != r2 {
            return vec![-2];
        }
        r1
    };
    match r {
        Ok(()) => vec![0],
        Err(e) => vec![1, err_code(&e)],
    }
}

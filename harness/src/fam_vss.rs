//! VSS family (C17): `vss::parse_vss_from_str` on a generated document, then main.rs's start-up
//! sequence (add_entry, default value of an attribute) on a fresh broker.  Line format and output
//! as in coq/Model/Vss.v; only the JSON text at the start of the line is read here.
use crate::codec::{data_type_code, enc_str, enc_value, entry_type_code, Cur, Tok};
use crate::util::*;
use databroker::broker::{Datapoint, EntryUpdate};
use databroker::types::{ChangeType, DataValue};

fn opt_str(o: &Option<String>, out: &mut Vec<Tok>) {
    match o {
        None => out.push(0),
        Some(s) => {
            out.push(1);
            enc_str(s, out)
        }
    }
}

fn opt_val(o: &Option<DataValue>, out: &mut Vec<Tok>) {
    match o {
        None => out.push(0),
        Some(v) => {
            out.push(1);
            enc_value(v, out)
        }
    }
}

pub fn run_case(case: &[Vec<Tok>]) -> Vec<Vec<Tok>> {
    let Some(l) = case.first() else { return vec![vec![-1]] };
    let mut c = Cur::new(l);
    let Some(text) = c.string() else { return vec![vec![-1]] };
    let entries = match databroker::vss::parse_vss_from_str(&text) {
        Ok(e) => e,
        Err(_) => return vec![vec![1]],
    };
    let mut lines = vec![vec![0, entries.len() as Tok]];
    for (path, e) in &entries {
        let mut o = vec![500];
        enc_str(path, &mut o);
        o.push(data_type_code(&e.data_type));
        o.push(entry_type_code(&e.entry_type));
        o.push(match e.change_type {
            ChangeType::Static => 0,
            ChangeType::OnChange => 1,
            ChangeType::Continuous => 2,
        });
        enc_str(&e.description, &mut o);
        opt_str(&e.comment, &mut o);
        opt_str(&e.unit, &mut o);
        opt_val(&e.min, &mut o);
        opt_val(&e.max, &mut o);
        opt_val(&e.allowed, &mut o);
        opt_val(&e.default, &mut o);
        lines.push(o);
    }
    // main.rs: read_metadata_file
    let rt = rt();
    let loaded = rt.block_on(tokio::task::unconstrained(async {
        let broker = new_broker();
        let all = all();
        let database = broker.authorized_access(&all);
        let mut ids = Vec::new();
        for (path, entry) in entries {
            if let Ok(id) = database
                .add_entry(
                    path.clone(),
                    entry.data_type,
                    entry.change_type,
                    entry.entry_type,
                    entry.description,
                    entry.min,
                    entry.max,
                    entry.allowed,
                    entry.unit,
                )
                .await
            {
                if !ids.contains(&id) {
                    ids.push(id);
                }
                if let Some(default) = entry.default {
                    let _ = database
                        .update_entries([(
                            id,
                            EntryUpdate {
                                datapoint: Some(Datapoint {
                                    ts: std::time::SystemTime::now(),
                                    source_ts: None,
                                    value: default,
                                }),
                                ..Default::default()
                            },
                        )])
                        .await;
                }
            }
        }
        let mut out = Vec::new();
        for id in ids {
            if let Ok(e) = database.get_entry_by_id(id).await {
                let mut o = vec![501, id as Tok];
                enc_str(&e.metadata.path, &mut o);
                enc_value(&e.datapoint.value, &mut o);
                out.push(o);
            }
        }
        out
    }));
    lines.extend(loaded);
    lines
}

/// family 19: the REAL `databroker` binary is started on the document (`--vss <file>`, the code path of
/// main.rs: read_metadata_file) and what it loaded is read back through kuksa.val.v1 Get("**", all fields).
///   out: [1] the process refused the file (exited before it served) | [0 n] then, sorted by path,
///        [503 path kuksa_data_type kuksa_entry_type (0 | 1 value)]          (-88: it neither served nor exited)
pub fn run_case_binary(case: &[Vec<Tok>]) -> Vec<Vec<Tok>> {
    use databroker_proto::kuksa::val::v1 as p1;
    use std::sync::atomic::{AtomicUsize, Ordering};
    static N: AtomicUsize = AtomicUsize::new(0);
    let Some(l) = case.first() else { return vec![vec![-1]] };
    let mut c = Cur::new(l);
    let Some(text) = c.string() else { return vec![vec![-1]] };
    let bin = std::env::var("VERIF_DATABROKER_BIN").unwrap_or_else(|_| "/verif/.build/target/debug/databroker".into());
    let dir = std::env::var("VERIF_WORK_DIR").unwrap_or_else(|_| "/verif/.build/work".into());
    let file = format!("{}/vssbin_{}_{}.json", dir, std::process::id(), N.fetch_add(1, Ordering::SeqCst));
    if std::fs::write(&file, text.as_bytes()).is_err() {
        return vec![vec![-1]];
    }
    // a free port is picked and released again before the child binds it: another process may take it in between
    // (the child then exits although the document is fine), so an exit is believed only when a second start, on
    // another port, exits as well
    let rt = rt();
    let mut out = vec![vec![-2]];
    let mut last_child = None;
    for attempt in 0..3 {
        let port = {
            let l = std::net::TcpListener::bind("127.0.0.1:0").unwrap();
            l.local_addr().unwrap().port()
        };
        let child = std::process::Command::new(&bin)
            .args(["--vss", &file, "--address", "127.0.0.1", "--port", &port.to_string(), "--insecure", "--disable-authorization"])
            .env_remove("KUKSA_DATABROKER_METADATA_FILE")
            .stdout(std::process::Stdio::null())
            .stderr(std::process::Stdio::null())
            .spawn();
        let Ok(mut child) = child else {
            let _ = std::fs::remove_file(&file);
            return vec![vec![-2]];
        };
        out = rt.block_on(serve_and_read(&mut child, port));
        let _ = child.kill();
        let _ = child.wait();
        last_child = Some(());
        if out != vec![vec![1]] || attempt == 1 {
            break;
        }
    }
    let _ = last_child;
    let _ = std::fs::remove_file(&file);
    out
}

async fn serve_and_read(child: &mut std::process::Child, port: u16) -> Vec<Vec<Tok>> {
    use databroker_proto::kuksa::val::v1 as p1;
    {

        let mut channel = None;
        for _ in 0..1500 {
            if let Ok(Some(_status)) = child.try_wait() {
                return vec![vec![1]];
            }
            match tonic::transport::Channel::from_shared(format!("http://127.0.0.1:{}", port)).unwrap().connect().await {
                Ok(ch) => {
                    channel = Some(ch);
                    break;
                }
                Err(_) => tokio::time::sleep(std::time::Duration::from_millis(10)).await,
            }
        }
        let Some(channel) = channel else { return vec![vec![-88]] };
        let mut client = p1::val_client::ValClient::new(channel);
        let fields = vec![p1::Field::Value as i32, p1::Field::Metadata as i32];
        let r = client
            .get(p1::GetRequest { entries: vec![p1::EntryRequest { path: "**".into(), view: p1::View::All as i32, fields }] })
            .await;
        match r {
            Err(s) => vec![vec![-3, crate::util::code_num(s.code())]],
            Ok(resp) => {
                let resp = resp.into_inner();
                let mut rows: Vec<(String, Vec<Tok>)> = Vec::new();
                for e in resp.entries {
                    let mut o = vec![503];
                    enc_str(&e.path, &mut o);
                    match &e.metadata {
                        Some(m) => {
                            o.push(m.data_type as Tok);
                            o.push(m.entry_type as Tok);
                        }
                        None => {
                            o.push(-1);
                            o.push(-1);
                        }
                    }
                    match e.value.as_ref().and_then(|dp| crate::fam_api::from_v1_value(&dp.value)) {
                        Some(v) => {
                            o.push(1);
                            enc_value(&v, &mut o);
                        }
                        None => o.push(0),
                    }
                    rows.push((e.path.clone(), o));
                }
                rows.sort_by(|a, b| a.0.cmp(&b.0));
                // an empty tree answers 404 (nothing matched): zero signals
                let mut out = vec![vec![0, rows.len() as Tok]];
                out.extend(rows.into_iter().map(|r| r.1));
                out
            }
        }
    }
}

//! VSS family (C17): `vss::parse_vss_from_str` on a generated document, then main.rs's start-up
//! sequence (add_entry, default value of an attribute) on a fresh broker.  Line format and output
//! as in coq/Model/Vss.v; only the JSON text at the start of the line is read here.
use crate::codec::{data_type_code, enc_str, enc_value, entry_type_code, Cur, Tok};
use crate::util::*;
use databroker::broker::{Datapoint, EntryUpdate};
use databroker::types::{ChangeType, DataValue};

fn opt_str(o: &Option<String>, out: &mut Vec<Tok>) {
    match o {
        None => out.push(0),
        Some(s) => {
            out.push(1);
            enc_str(s, out)
        }
    }
}

fn opt_val(o: &Option<DataValue>, out: &mut Vec<Tok>) {
    match o {
        None => out.push(0),
        Some(v) => {
            out.push(1);
            enc_value(v, out)
        }
    }
}

pub fn run_case(case: &[Vec<Tok>]) -> Vec<Vec<Tok>> {
    let Some(l) = case.first() else { return vec![vec![-1]] };
    let mut c = Cur::new(l);
    let Some(text) = c.string() else { return vec![vec![-1]] };
    let entries = match databroker::vss::parse_vss_from_str(&text) {
        Ok(e) => e,
        Err(_) => return vec![vec![1]],
    };
    let mut lines = vec![vec![0, entries.len() as Tok]];
    for (path, e) in &entries {
        let mut o = vec![500];
        enc_str(path, &mut o);
        o.push(data_type_code(&e.data_type));
        o.push(entry_type_code(&e.entry_type));
        o.push(match e.change_type {
            ChangeType::Static => 0,
            ChangeType::OnChange => 1,
            ChangeType::Continuous => 2,
        });
        enc_str(&e.description, &mut o);
        opt_str(&e.comment, &mut o);
        opt_str(&e.unit, &mut o);
        opt_val(&e.min, &mut o);
        opt_val(&e.max, &mut o);
        opt_val(&e.allowed, &mut o);
        opt_val(&e.default, &mut o);
        lines.push(o);
    }
    // main.rs: read_metadata_file
    let rt = rt();
    let loaded = rt.block_on(tokio::task::unconstrained(async {
        let broker = new_broker();
        let all = all();
        let database = broker.authorized_access(&all);
        let mut ids = Vec::new();
        for (path, entry) in entries {
            if let Ok(id) = database
                .add_entry(
                    path.clone(),
                    entry.data_type,
                    entry.change_type,
                    entry.entry_type,
                    entry.description,
                    entry.min,
                    entry.max,
                    entry.allowed,
                    entry.unit,
                )
                .await
            {
                if !ids.contains(&id) {
                    ids.push(id);
                }
                if let Some(default) = entry.default {
                    let _ = database
                        .update_entries([(
                            id,
                            EntryUpdate {
                                datapoint: Some(Datapoint {
                                    ts: std::time::SystemTime::now(),
                                    source_ts: None,
                                    value: default,
                                }),
                                ..Default::default()
                            },
                        )])
                        .await;
                }
            }
        }
        let mut out = Vec::new();
        for id in ids {
            if let Ok(e) = database.get_entry_by_id(id).await {
                let mut o = vec![501, id as Tok];
                enc_str(&e.metadata.path, &mut o);
                enc_value(&e.datapoint.value, &mut o);
                out.push(o);
            }
        }
        out
    }));
    lines.extend(loaded);
    lines
}

//! VISS v2 operations of the VISS family (C20): the databroker's own websocket server
//! (viss::server::serve) on a loopback port, sharing the World's broker, driven by a websocket
//! client.  Operation lines and outputs: coq/Model/Viss.v.
use crate::codec::{enc_value, Cur, Tok};
use crate::fam_hist::World;
use databroker::types::{DataType, DataValue};
use futures::{SinkExt, StreamExt};
use std::collections::{HashMap, VecDeque};
use std::time::{Duration, SystemTime, UNIX_EPOCH};
use tokio_tungstenite::tungstenite::Message;

type Ws = tokio_tungstenite::WebSocketStream<tokio_tungstenite::MaybeTlsStream<tokio::net::TcpStream>>;

pub struct VissConn {
    ws: Ws,
    pub sub_ids: Vec<String>,
    pub unsubscribed: Vec<bool>,
    events: HashMap<String, VecDeque<serde_json::Value>>,
    next_req: u64,
    pub without_id: u64,
    _server: tokio::task::JoinHandle<()>,
}

pub fn read_file(p: &str) -> String {
    std::fs::read_to_string(p).unwrap_or_else(|_| panic!("cannot read {}", p))
}

pub fn token_for(scope: &str) -> String {
    use jsonwebtoken::{encode, Algorithm, EncodingKey, Header};
    let now = SystemTime::now().duration_since(UNIX_EPOCH).unwrap().as_secs();
    let claims = serde_json::json!({"sub": "verif", "iss": "verif", "aud": ["kuksa.val"], "iat": now, "exp": now + 3600,
                                    "scope": scope});
    encode(
        &Header::new(Algorithm::RS256),
        &claims,
        &EncodingKey::from_rsa_pem(read_file("/repo/certificates/jwt/jwt.key").as_bytes()).unwrap(),
    )
    .unwrap()
}

impl VissConn {
    pub async fn start(broker: databroker::broker::DataBroker, open: bool) -> VissConn {
        let port = {
            let l = std::net::TcpListener::bind("127.0.0.1:0").unwrap();
            l.local_addr().unwrap().port()
        };
        let auth = if open {
            databroker::authorization::Authorization::Disabled
        } else {
            databroker::authorization::Authorization::new(read_file("/repo/certificates/jwt/jwt.key.pub")).unwrap()
        };
        let addr: std::net::SocketAddr = format!("127.0.0.1:{}", port).parse().unwrap();
        let server = tokio::spawn(async move {
            let _ = databroker::viss::server::serve(addr, broker, auth).await;
        });
        let mut ws = None;
        for _ in 0..100 {
            match tokio_tungstenite::connect_async(format!("ws://127.0.0.1:{}/", port)).await {
                Ok((s, _)) => {
                    ws = Some(s);
                    break;
                }
                Err(_) => tokio::time::sleep(Duration::from_millis(10)).await,
            }
        }
        VissConn {
            ws: ws.expect("VISS server did not come up"),
            sub_ids: vec![],
            unsubscribed: vec![],
            events: HashMap::new(),
            next_req: 0,
            without_id: 0,
            _server: server,
        }
    }

    fn queue(&mut self, v: serde_json::Value) {
        if std::env::var("VISS_DEBUG").is_ok() {
            eprintln!("VISS<< {}", v);
        }
        if let Some(sid) = v.get("subscriptionId").and_then(|s| s.as_str()) {
            if v.get("action").and_then(|a| a.as_str()) == Some("subscription") {
                self.events.entry(sid.to_string()).or_default().push_back(v);
                return;
            }
        }
        // a message that is neither the awaited reply nor a subscription event
        self.without_id += 1;
    }

    /// send a request, return the reply that carries its request id (None: no such reply within 2 s)
    pub async fn request(&mut self, mut body: serde_json::Value) -> Option<serde_json::Value> {
        self.next_req += 1;
        let rid = format!("r{}", self.next_req);
        body["requestId"] = serde_json::Value::String(rid.clone());
        if self.ws.send(Message::Text(body.to_string())).await.is_err() {
            return None;
        }
        let deadline = tokio::time::Instant::now() + Duration::from_secs(2);
        loop {
            match tokio::time::timeout_at(deadline, self.ws.next()).await {
                Ok(Some(Ok(Message::Text(t)))) => {
                    let v: serde_json::Value = serde_json::from_str(&t).ok()?;
                    if v.get("requestId").and_then(|r| r.as_str()) == Some(&rid) {
                        return Some(v);
                    }
                    self.queue(v);
                }
                Ok(Some(Ok(_))) => continue,
                _ => return None,
            }
        }
    }

    /// barrier: a cheap request whose reply travels through the same outgoing queue as the events; when
    /// it arrives every event the server had produced before has been read (this also defeats the
    /// 40 ms that Nagle's algorithm and delayed acknowledgements can add to a lone small frame)
    pub async fn pump(&mut self) {
        let _ = self
            .request(serde_json::json!({"action": "unsubscribe", "subscriptionId": "00000000-0000-0000-0000-00000000b411"}))
            .await;
    }
}

fn reason_code(r: &str) -> Tok {
    match r {
        "bad_request" => 1,
        "token_expired" => 2,
        "token_invalid" => 3,
        "token_missing" => 4,
        "read_only" => 5,
        "user_forbidden" => 6,
        "invalid_path" => 7,
        "invalid_subscription_id" => 8,
        "internal_server_error" => 9,
        _ => 0,
    }
}

fn err_line(v: &serde_json::Value) -> Option<Vec<Tok>> {
    let e = v.get("error")?;
    Some(vec![1, e.get("number")?.as_i64()? as Tok, reason_code(e.get("reason")?.as_str()?)])
}

/// epoch milliseconds of "YYYY-MM-DDTHH:MM:SS.mmmZ"
fn parse_ts_ms(s: &str) -> Option<i128> {
    let b = s.as_bytes();
    if b.len() < 24 || b[10] != b'T' || !s.ends_with('Z') {
        return None;
    }
    let n = |a: usize, z: usize| s.get(a..z)?.parse::<i64>().ok();
    let (y, m, d, hh, mm, ss, ms) = (n(0, 4)?, n(5, 7)?, n(8, 10)?, n(11, 13)?, n(14, 16)?, n(17, 19)?, n(20, 23)?);
    // days from civil (Howard Hinnant)
    let y2 = if m <= 2 { y - 1 } else { y };
    let era = if y2 >= 0 { y2 } else { y2 - 399 } / 400;
    let yoe = y2 - era * 400;
    let doy = (153 * (if m > 2 { m - 3 } else { m + 9 }) + 2) / 5 + d - 1;
    let doe = yoe * 365 + yoe / 4 - yoe / 100 + doy;
    let days = era * 146097 + doe - 719468;
    Some((((days * 24 + hh) * 60 + mm) * 60 + ss) as i128 * 1000 + ms as i128)
}

fn ms_of(t: SystemTime) -> i128 {
    t.duration_since(UNIX_EPOCH).map(|d| d.as_millis() as i128).unwrap_or(0)
}

/// the operation (1-based) whose window contains the millisecond `ms`
fn ts_index_ms(w: &World, ms: i128, cur_start: SystemTime) -> Tok {
    for (k, (s, e)) in w.windows.iter().enumerate() {
        if ms_of(*s) <= ms && ms <= ms_of(*e) {
            return (k + 1) as Tok;
        }
    }
    if ms >= ms_of(cur_start) {
        return (w.windows.len() + 1) as Tok;
    }
    -7
}

/// the array type whose elements have the scalar type of `dt` (arrays map to themselves)
fn array_type_of(dt: &DataType) -> DataType {
    match dt {
        DataType::String => DataType::StringArray,
        DataType::Bool => DataType::BoolArray,
        DataType::Int8 => DataType::Int8Array,
        DataType::Int16 => DataType::Int16Array,
        DataType::Int32 => DataType::Int32Array,
        DataType::Int64 => DataType::Int64Array,
        DataType::Uint8 => DataType::Uint8Array,
        DataType::Uint16 => DataType::Uint16Array,
        DataType::Uint32 => DataType::Uint32Array,
        DataType::Uint64 => DataType::Uint64Array,
        DataType::Float => DataType::FloatArray,
        DataType::Double => DataType::DoubleArray,
        other => other.clone(),
    }
}

/// the typed value a VISS value text denotes for a signal of the given type (the client's reading)
fn typed(dt: &DataType, v: &serde_json::Value) -> Option<DataValue> {
    if v.is_null() {
        return Some(DataValue::NotAvailable);
    }
    let scalar = |t: &DataType, s: &str| -> Option<DataValue> {
        Some(match t {
            DataType::String => DataValue::String(s.to_string()),
            DataType::Bool => DataValue::Bool(s.parse().ok()?),
            DataType::Int8 | DataType::Int16 | DataType::Int32 => DataValue::Int32(s.parse().ok()?),
            DataType::Int64 => DataValue::Int64(s.parse().ok()?),
            DataType::Uint8 | DataType::Uint16 | DataType::Uint32 => DataValue::Uint32(s.parse().ok()?),
            DataType::Uint64 => DataValue::Uint64(s.parse().ok()?),
            DataType::Float => DataValue::Float(s.parse().ok()?),
            DataType::Double => DataValue::Double(s.parse().ok()?),
            _ => return None,
        })
    };
    if let Some(s) = v.as_str() {
        return scalar(dt, s);
    }
    let arr: Vec<&str> = v.as_array()?.iter().map(|x| x.as_str()).collect::<Option<_>>()?;
    macro_rules! all {
        ($t:expr, $variant:ident, $inner:ident) => {{
            let mut out = Vec::new();
            for s in &arr {
                match scalar(&$t, s)? {
                    DataValue::$inner(x) => out.push(x),
                    _ => return None,
                }
            }
            Some(DataValue::$variant(out))
        }};
    }
    match dt {
        DataType::StringArray => all!(DataType::String, StringArray, String),
        DataType::BoolArray => all!(DataType::Bool, BoolArray, Bool),
        DataType::Int8Array | DataType::Int16Array | DataType::Int32Array => all!(DataType::Int32, Int32Array, Int32),
        DataType::Int64Array => all!(DataType::Int64, Int64Array, Int64),
        DataType::Uint8Array | DataType::Uint16Array | DataType::Uint32Array => all!(DataType::Uint32, Uint32Array, Uint32),
        DataType::Uint64Array => all!(DataType::Uint64, Uint64Array, Uint64),
        DataType::FloatArray => all!(DataType::Float, FloatArray, Float),
        DataType::DoubleArray => all!(DataType::Double, DoubleArray, Double),
        _ => None,
    }
}

async fn enc_dp_json(w: &World, path: &str, dp: &serde_json::Value, start: SystemTime, out: &mut Vec<Tok>) -> Option<()> {
    let all = crate::util::all();
    let meta = w.broker.authorized_access(&all).get_metadata_by_path(path).await?;
    let v = typed(&meta.data_type, dp.get("value")?)?;
    enc_value(&v, out);
    let ms = parse_ts_ms(dp.get("ts")?.as_str()?)?;
    out.push(ts_index_ms(w, ms, start));
    Some(())
}

fn token_json(w: &World, c: &mut Cur) -> Option<Option<String>> {
    match c.next()? {
        // 3 t: the token t presented to a server that runs with authorization disabled
        3 => {
            if !w.viss_open {
                return None;
            }
            token_json(w, c)
        }
        0 => Some(None),
        1 => {
            let k = c.next()?;
            let scope = if k < 0 { String::new() } else { w.scopes.get(k as usize).cloned().unwrap_or_default() };
            Some(Some(token_for(&scope)))
        }
        _ => Some(Some("abc.def.ghi".to_string())),
    }
}

pub async fn step_viss(w: &mut World, op: Tok, c: &mut Cur<'_>, start: SystemTime) -> Vec<Vec<Tok>> {
    let bad = vec![vec![-1]];
    if w.viss.is_none() {
        w.viss = Some(VissConn::start(w.broker.clone(), w.viss_open).await);
    }
    let mut conn = w.viss.take().unwrap();
    let out = match op {
        50 | 52 => {
            let (Some(tok), Some(path)) = (token_json(w, c), c.string()) else {
                w.viss = Some(conn);
                return bad;
            };
            let mut body = serde_json::json!({"action": if op == 50 { "get" } else { "subscribe" }, "path": path});
            if let Some(t) = tok {
                body["authorization"] = serde_json::Value::String(t);
            }
            match conn.request(body).await {
                None => vec![vec![-88]],
                Some(v) => {
                    if let Some(e) = err_line(&v) {
                        vec![e]
                    } else if op == 50 {
                        let mut o = vec![0];
                        let dp = v.get("data").and_then(|d| d.get("dp")).cloned().unwrap_or(serde_json::Value::Null);
                        match enc_dp_json(w, &path, &dp, start, &mut o).await {
                            Some(()) => vec![o],
                            None => vec![vec![-5]], // a reply the client cannot read as a value of the signal's type
                        }
                    } else {
                        match v.get("subscriptionId").and_then(|s| s.as_str()) {
                            Some(sid) => {
                                conn.sub_ids.push(sid.to_string());
                                conn.unsubscribed.push(false);
                                vec![vec![0, (conn.sub_ids.len() - 1) as Tok]]
                            }
                            None => vec![vec![-5]],
                        }
                    }
                }
            }
        }
        51 => {
            let (Some(tok), Some(path)) = (token_json(w, c), c.string()) else {
                w.viss = Some(conn);
                return bad;
            };
            let value = match c.next() {
                Some(0) => serde_json::Value::Null,
                Some(1) => match c.string() {
                    Some(s) => serde_json::Value::String(s),
                    None => {
                        w.viss = Some(conn);
                        return bad;
                    }
                },
                Some(2) => {
                    let n = c.next().unwrap_or(0);
                    let mut a = Vec::new();
                    for _ in 0..n {
                        match c.string() {
                            Some(s) => a.push(serde_json::Value::String(s)),
                            None => {
                                w.viss = Some(conn);
                                return bad;
                            }
                        }
                    }
                    serde_json::Value::Array(a)
                }
                _ => {
                    w.viss = Some(conn);
                    return bad;
                }
            };
            let mut body = serde_json::json!({"action": "set", "path": path, "value": value});
            if let Some(t) = tok {
                body["authorization"] = serde_json::Value::String(t);
            }
            match conn.request(body).await {
                None => vec![vec![-88]],
                Some(v) => match err_line(&v) {
                    Some(e) => vec![e],
                    None => vec![vec![0]],
                },
            }
        }
        53 => {
            let Some(h) = c.next() else {
                w.viss = Some(conn);
                return bad;
            };
            let sid = conn.sub_ids.get(h as usize).cloned().unwrap_or_else(|| "00000000-0000-0000-0000-000000000000".to_string());
            match conn.request(serde_json::json!({"action": "unsubscribe", "subscriptionId": sid})).await {
                None => vec![vec![-88]],
                Some(v) => match err_line(&v) {
                    Some(e) => vec![e],
                    None => {
                        if let Some(u) = conn.unsubscribed.get_mut(h as usize) {
                            *u = true;
                        }
                        vec![vec![0]]
                    }
                },
            }
        }
        54 => {
            let (Some(h), Some(k)) = (c.next(), c.next()) else {
                w.viss = Some(conn);
                return bad;
            };
            conn.pump().await;
            match conn.sub_ids.get(h as usize).cloned() {
                Some(sid) if !conn.unsubscribed[h as usize] => {
                    let mut lines = Vec::new();
                    for _ in 0..k {
                        let Some(ev) = conn.events.get_mut(&sid).and_then(|q| q.pop_front()) else { break };
                        if let Some(e) = ev.get("error") {
                            lines.push(vec![121, e.get("number").and_then(|n| n.as_i64()).unwrap_or(0) as Tok]);
                        } else {
                            let mut o = vec![120];
                            let data = ev.get("data").cloned().unwrap_or(serde_json::Value::Null);
                            let path = data.get("path").and_then(|p| p.as_str()).unwrap_or("").to_string();
                            let dp = data.get("dp").cloned().unwrap_or(serde_json::Value::Null);
                            match enc_dp_json(w, &path, &dp, start, &mut o).await {
                                Some(()) => lines.push(o),
                                None => lines.push(vec![-5]),
                            }
                        }
                    }
                    let n = lines.len() as Tok;
                    lines.push(vec![101, n, 0]);
                    lines
                }
                _ => bad.clone(),
            }
        }
        56 => {
            // VMETA path: get with the static-metadata filter (no token needed); the tree is flattened again
            let Some(path) = c.string() else {
                w.viss = Some(conn);
                return bad;
            };
            let body = serde_json::json!({"action": "get", "path": path, "filter": {"type": "static-metadata"}});
            match conn.request(body).await {
                None => vec![vec![-88]],
                Some(v) => {
                    if let Some(e) = err_line(&v) {
                        vec![e]
                    } else {
                        let prefix = match path.rfind('.') {
                            Some(i) => path[..=i].to_string(),
                            None => String::new(),
                        };
                        let mut leaves: Vec<(String, serde_json::Value)> = Vec::new();
                        fn walk(m: &serde_json::Map<String, serde_json::Value>, at: &str, out: &mut Vec<(String, serde_json::Value)>) {
                            for (k, node) in m {
                                let name = format!("{}{}", at, k);
                                if node.get("type").and_then(|t| t.as_str()) == Some("branch") {
                                    if let Some(ch) = node.get("children").and_then(|c| c.as_object()) {
                                        walk(ch, &format!("{}.", name), out);
                                    }
                                } else {
                                    out.push((name, node.clone()));
                                }
                            }
                        }
                        match v.get("metadata").and_then(|m| m.as_object()) {
                            None => vec![vec![-5]],
                            Some(m) => {
                                walk(m, &prefix, &mut leaves);
                                let all = crate::util::all();
                                let mut rows: Vec<Vec<Tok>> = Vec::new();
                                let mut unreadable = false;
                                for (full, node) in leaves {
                                    let acc = w.broker.authorized_access(&all);
                                    let Some(id) = acc.get_id_by_path(&full).await else {
                                        rows.push(vec![205, -1]);
                                        continue;
                                    };
                                    let et = match node.get("type").and_then(|t| t.as_str()) {
                                        Some("attribute") => 1,
                                        Some("sensor") => 2,
                                        Some("actuator") => 3,
                                        _ => -1,
                                    };
                                    // "int8[]" -> DATA_TYPE_INT8_ARRAY: the numbering of kuksa.val.v1
                                    let dt = node
                                        .get("datatype")
                                        .and_then(|t| t.as_str())
                                        .map(|t| format!("DATA_TYPE_{}", t.to_uppercase().replace("[]", "_ARRAY")))
                                        .and_then(|n| databroker_proto::kuksa::val::v1::DataType::from_str_name(&n))
                                        .map(|d| d as Tok)
                                        .unwrap_or(-1);
                                    let mut o = vec![205, id as Tok, et, dt];
                                    match node.get("allowed") {
                                        None => o.push(0),
                                        Some(a) => {
                                            // the allowed list is an array of the signal's scalar type
                                            let real = acc.get_metadata(id).await.map(|m| m.data_type.clone());
                                            let arr_t = real.as_ref().map(array_type_of);
                                            match arr_t.and_then(|t| typed(&t, a)) {
                                                Some(val) => {
                                                    o.push(1);
                                                    enc_value(&val, &mut o);
                                                }
                                                None => unreadable = true,
                                            }
                                        }
                                    }
                                    // description as registered?
                                    let desc = node.get("description").and_then(|d| d.as_str()).unwrap_or("");
                                    o.push(match w.reg.get(&id) {
                                        Some((d, _)) => (desc == d) as Tok,
                                        None => 1,
                                    });
                                    rows.push(o);
                                }
                                if unreadable {
                                    vec![vec![-5]]
                                } else {
                                    rows.sort_by_key(|r| r[1]);
                                    let mut out = vec![vec![0, rows.len() as Tok]];
                                    out.extend(rows);
                                    out
                                }
                            }
                        }
                    }
                }
            }
        }
        55 => {
            // a raw text frame: is there a reply, and does it carry the request id the text contains?
            let Some(text) = c.string() else {
                w.viss = Some(conn);
                return bad;
            };
            let want: Option<String> = serde_json::from_str::<serde_json::Value>(&text)
                .ok()
                .and_then(|v| v.get("requestId").and_then(|r| r.as_str()).map(|s| s.to_string()));
            if conn.ws.send(Message::Text(text)).await.is_err() {
                vec![vec![0, 0]]
            } else {
                let deadline = tokio::time::Instant::now() + Duration::from_secs(2);
                let mut res = vec![0, 0];
                loop {
                    match tokio::time::timeout_at(deadline, conn.ws.next()).await {
                        Ok(Some(Ok(Message::Text(t)))) => {
                            let Ok(v) = serde_json::from_str::<serde_json::Value>(&t) else { continue };
                            if v.get("action").and_then(|a| a.as_str()) == Some("subscription") {
                                conn.queue(v);
                                continue;
                            }
                            let got = v.get("requestId").and_then(|r| r.as_str()).map(|s| s.to_string());
                            res = vec![1, (got.is_some() && got == want) as Tok];
                            break;
                        }
                        Ok(Some(Ok(_))) => continue,
                        _ => break,
                    }
                }
                vec![res]
            }
        }
        _ => bad.clone(),
    };
    w.viss = Some(conn);
    out
}

/// after every operation of the VISS family: let the server's forwarding tasks run and read the socket
pub async fn after_op(w: &mut World) {
    if let Some(conn) = w.viss.as_mut() {
        conn.pump().await;
    }
}

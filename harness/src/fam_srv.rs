//! Real-server family (C06, C18): the databroker's own gRPC server (grpc::server::
//! serve_with_incoming_shutdown, with its interceptor) on a loopback TCP listener, driven by tonic
//! clients with freshly signed tokens.
//!
//! case lines:
//!   [0 mode]                              mode 0: authorization disabled, 1: enabled (jwt.key.pub)
//!   [1 rpc variant k header...]           one call of RPC `rpc` (0..21) in request shape `variant`,
//!                                         writing value k where the RPC writes; header as below
//!   [2]                                   dump: value of the signal each writing RPC writes to
//!   [4 rpc variant k header...]           the call of [1 ...] made twice with ONE token: now, and again after the
//!                                         token's expiry instant (header exp = seconds from now, 2) has passed
//! header ::= 0 | 1 alg key sig claims aud exp scope scheme | 2 | 3
//! output: per call [code panics] (gRPC status code; panics counted by the panic hook so far),
//!         per dump [700 rpc value...]
use crate::codec::{enc_value, Cur, Tok};
use crate::util::*;
use databroker::broker::DataBroker;
use databroker::grpc::server::{self, Api};
use databroker::types::{ChangeType, DataType, DataValue, EntryType};
use databroker_proto::kuksa::val::v1 as p1;
use databroker_proto::kuksa::val::v2 as p2;
use databroker_proto::sdv::databroker::v1 as ps;
use std::collections::HashMap;
use std::sync::atomic::{AtomicI64, Ordering};
use std::time::{Duration, SystemTime, UNIX_EPOCH};
use tokio_stream::wrappers::TcpListenerStream;
use tonic::transport::Channel;

pub static PANICS: AtomicI64 = AtomicI64::new(0);

pub const WRITERS: [Tok; 7] = [1, 2, 12, 16, 20, 21, 13];

pub fn sig_name(rpc: Tok) -> String {
    format!("Srv.R{}", rpc)
}

fn read_file(p: &str) -> String {
    std::fs::read_to_string(p).unwrap_or_else(|_| panic!("cannot read {}", p))
}

fn b64(bytes: &[u8]) -> String {
    // base64url without padding
    const T: &[u8; 64] = b"ABCDEFGHIJKLMNOPQRSTUVWXYZabcdefghijklmnopqrstuvwxyz0123456789-_";
    let mut out = String::new();
    for ch in bytes.chunks(3) {
        let b = [ch[0], *ch.get(1).unwrap_or(&0), *ch.get(2).unwrap_or(&0)];
        let n = ((b[0] as u32) << 16) | ((b[1] as u32) << 8) | b[2] as u32;
        out.push(T[(n >> 18) as usize & 63] as char);
        out.push(T[(n >> 12) as usize & 63] as char);
        if ch.len() > 1 {
            out.push(T[(n >> 6) as usize & 63] as char);
        }
        if ch.len() > 2 {
            out.push(T[n as usize & 63] as char);
        }
    }
    out
}

/// header value for a token spec; None = no authorization header
fn auth_header(c: &mut Cur) -> Option<Option<String>> {
    let kind = c.next()?;
    match kind {
        0 => return Some(None),
        2 => return Some(Some("Bearer abc.def".to_string())),
        3 => return Some(Some("Bearer ".to_string())),
        _ => {}
    }
    let (alg, key, sig, claims, aud, exp, scope, scheme) =
        (c.next()?, c.next()?, c.next()?, c.next()?, c.next()?, c.next()?, c.next()?, c.next()?);
    let now = SystemTime::now().duration_since(UNIX_EPOCH).unwrap().as_secs() as i64;
    let mut m = serde_json::Map::new();
    let j = |x: &str| serde_json::Value::from(x);
    let ji = |x: i64| serde_json::Value::from(x);
    if claims != 1 {
        m.insert("sub".into(), j("verif"));
    }
    if claims != 2 {
        m.insert("iss".into(), j("verif issuer"));
    }
    if claims != 3 {
        if claims == 8 {
            m.insert("iat".into(), j("yesterday"));
        } else {
            m.insert("iat".into(), ji(now - 10));
        }
    }
    if claims != 4 {
        // two sentinels: an expiry at the largest i64 / u64 number of seconds
        if exp == 1 << 62 {
            m.insert("exp".into(), ji(i64::MAX));
        } else if exp == (1 << 62) + 1 {
            m.insert("exp".into(), serde_json::Value::from(u64::MAX));
        } else {
            m.insert("exp".into(), ji(now + exp as i64));
        }
    }
    if claims != 5 {
        m.insert(
            "scope".into(),
            j(match scope {
                0 => "read actuate provide create",
                1 => "bogus:thing",
                _ => "read:Vehicle.*x",
            }),
        );
    }
    if claims != 6 {
        if claims == 7 {
            m.insert("aud".into(), j("kuksa.val"));
        } else {
            m.insert(
                "aud".into(),
                match aud {
                    0 => serde_json::json!(["kuksa.val"]),
                    1 => serde_json::json!(["other"]),
                    2 => serde_json::json!(["x", "kuksa.val"]),
                    _ => serde_json::json!([]),
                },
            );
        }
    }
    let payload = serde_json::Value::Object(m.clone());
    let key_pem = read_file(if key == 0 { "/repo/certificates/jwt/jwt.key" } else { "/repo/certificates/Server.key" });
    use jsonwebtoken::{encode, Algorithm, EncodingKey, Header};
    let mut token = match alg {
        1 => encode(
            &Header::new(Algorithm::HS256),
            &payload,
            &EncodingKey::from_secret(read_file("/repo/certificates/jwt/jwt.key.pub").as_bytes()),
        )
        .unwrap(),
        2 => format!(
            "{}.{}.",
            b64(br#"{"alg":"none","typ":"JWT"}"#),
            b64(serde_json::to_string(&payload).unwrap().as_bytes())
        ),
        a => encode(
            &Header::new(match a {
                0 => Algorithm::RS256,
                3 => Algorithm::RS384,
                _ => Algorithm::RS512,
            }),
            &payload,
            &EncodingKey::from_rsa_pem(key_pem.as_bytes()).unwrap(),
        )
        .unwrap(),
    };
    match sig {
        1 => {
            token.truncate(token.len().saturating_sub(4));
        }
        2 => {
            // flip one character in the middle of the signature (an empty signature gets one character)
            let dot = token.rfind('.').unwrap_or(0);
            if dot + 1 >= token.len() {
                token.push('A');
            } else {
                let pos = dot + 1 + (token.len() - dot - 1) / 2;
                let ch = token.as_bytes()[pos];
                let repl = if ch == b'A' { 'B' } else { 'A' };
                token.replace_range(pos..pos + 1, &repl.to_string());
            }
        }
        3 => {
            // payload replaced after signing (a later expiry), signature kept
            m.insert("exp".into(), ji(now + 999_999));
            let parts: Vec<&str> = token.split('.').collect();
            token = format!(
                "{}.{}.{}",
                parts.first().copied().unwrap_or(""),
                b64(serde_json::to_string(&serde_json::Value::Object(m)).unwrap().as_bytes()),
                parts.get(2).copied().unwrap_or("")
            );
        }
        4 => {
            let parts: Vec<&str> = token.split('.').collect();
            token = format!(
                "{}.{}.{}",
                b64(br#"{"typ":"JWT","alg":"RS256","x":1}"#),
                parts.get(1).copied().unwrap_or(""),
                parts.get(2).copied().unwrap_or("")
            );
        }
        _ => {}
    }
    Some(Some(match scheme {
        0 => format!("Bearer {}", token),
        1 => format!("bearer {}", token),
        2 => format!("Basic {}", token),
        3 => format!("Bearer{}", token),
        _ => token,
    }))
}

pub fn with_auth<T>(msg: T, hdr: &Option<String>) -> tonic::Request<T> {
    let mut r = tonic::Request::new(msg);
    if let Some(h) = hdr {
        if let Ok(v) = h.parse() {
            r.metadata_mut().insert("authorization", v);
        }
    }
    r
}

pub fn code_of<T>(r: Result<T, tonic::Status>) -> Tok {
    match r {
        Ok(_) => 0,
        Err(s) => code_num(s.code()),
    }
}

pub async fn first<T>(r: Result<tonic::Response<tonic::Streaming<T>>, tonic::Status>) -> Tok {
    match r {
        Err(s) => code_num(s.code()),
        Ok(resp) => {
            let mut st = resp.into_inner();
            match tokio::time::timeout(Duration::from_millis(300), st.message()).await {
                Ok(Ok(_)) => 0,
                Ok(Err(s)) => code_num(s.code()),
                Err(_) => 0, // opened, nothing to read yet
            }
        }
    }
}

pub fn v2_dp(k: Tok) -> p2::Datapoint {
    p2::Datapoint { timestamp: None, value: Some(p2::Value { typed_value: Some(p2::value::TypedValue::Int32(k as i32)) }) }
}

pub fn sdv_dp(k: Tok) -> ps::Datapoint {
    ps::Datapoint { timestamp: None, value: Some(ps::datapoint::Value::Int32Value(k as i32)) }
}

pub fn v2_sig(name: &str) -> Option<p2::SignalId> {
    Some(p2::SignalId { signal: Some(p2::signal_id::Signal::Path(name.to_string())) })
}

pub fn v1_update(name: &str, k: Tok) -> p1::EntryUpdate {
    p1::EntryUpdate {
        entry: Some(p1::DataEntry {
            path: name.to_string(),
            value: Some(p1::Datapoint { timestamp: None, value: Some(p1::datapoint::Value::Int32(k as i32)) }),
            actuator_target: None,
            metadata: None,
        }),
        fields: vec![p1::Field::Value as i32],
    }
}

/// one call; `ids` maps signal names to ids
pub async fn call(ch: &Channel, rpc: Tok, variant: Tok, k: Tok, hdr: &Option<String>, ids: &HashMap<String, i32>) -> Tok {
    let name = sig_name(rpc);
    let id = *ids.get(&name).unwrap_or(&0);
    let mut v1 = p1::val_client::ValClient::new(ch.clone());
    let mut v2 = p2::val_client::ValClient::new(ch.clone());
    let mut sb = ps::broker_client::BrokerClient::new(ch.clone());
    let mut sc = ps::collector_client::CollectorClient::new(ch.clone());
    if variant != 0 {
        return crate::fam_shapes::call_shape(ch, rpc, variant, k, hdr, ids).await;
    }
    match rpc {
        0 => code_of(
            v1.get(with_auth(
                p1::GetRequest {
                    entries: vec![p1::EntryRequest {
                        path: name,
                        view: p1::View::CurrentValue as i32,
                        fields: vec![p1::Field::Value as i32],
                    }],
                },
                hdr,
            ))
            .await,
        ),
        1 => code_of(v1.set(with_auth(p1::SetRequest { updates: vec![v1_update(&name, k)] }, hdr)).await),
        2 => {
            let reqs = vec![p1::StreamedUpdateRequest { updates: vec![v1_update(&name, k)] }];
            first(v1.streamed_update(with_auth(tokio_stream::iter(reqs), hdr)).await).await
        }
        3 => {
            first(
                v1.subscribe(with_auth(
                    p1::SubscribeRequest {
                        entries: vec![p1::SubscribeEntry {
                            path: name,
                            view: p1::View::CurrentValue as i32,
                            fields: vec![p1::Field::Value as i32],
                        }],
                    },
                    hdr,
                ))
                .await,
            )
            .await
        }
        4 => code_of(v1.get_server_info(with_auth(p1::GetServerInfoRequest {}, hdr)).await),
        5 => code_of(v2.get_value(with_auth(p2::GetValueRequest { signal_id: v2_sig(&name) }, hdr)).await),
        6 => code_of(v2.get_values(with_auth(p2::GetValuesRequest { signal_ids: vec![v2_sig(&name).unwrap()] }, hdr)).await),
        7 => first(v2.subscribe(with_auth(p2::SubscribeRequest { signal_paths: vec![name], buffer_size: 0 }, hdr)).await).await,
        8 => {
            first(v2.subscribe_by_id(with_auth(p2::SubscribeByIdRequest { signal_ids: vec![id], buffer_size: 0 }, hdr)).await)
                .await
        }
        9 => code_of(
            v2.actuate(with_auth(p2::ActuateRequest { signal_id: v2_sig(&name), value: v2_dp(k).value }, hdr)).await,
        ),
        10 => code_of(
            v2.batch_actuate(with_auth(
                p2::BatchActuateRequest {
                    actuate_requests: vec![p2::ActuateRequest { signal_id: v2_sig(&name), value: v2_dp(k).value }],
                },
                hdr,
            ))
            .await,
        ),
        11 => code_of(v2.list_metadata(with_auth(p2::ListMetadataRequest { root: "Srv".into(), filter: "".into() }, hdr)).await),
        12 => code_of(
            v2.publish_value(with_auth(p2::PublishValueRequest { signal_id: v2_sig(&name), data_point: Some(v2_dp(k)) }, hdr))
                .await,
        ),
        13 => {
            let mut dps = HashMap::new();
            dps.insert(id, v2_dp(k));
            let reqs = vec![p2::OpenProviderStreamRequest {
                action: Some(p2::open_provider_stream_request::Action::PublishValuesRequest(p2::PublishValuesRequest {
                    request_id: 1,
                    data_points: dps,
                })),
            }];
            first(v2.open_provider_stream(with_auth(tokio_stream::iter(reqs), hdr)).await).await
        }
        14 => code_of(v2.get_server_info(with_auth(p2::GetServerInfoRequest {}, hdr)).await),
        15 => code_of(sb.get_datapoints(with_auth(ps::GetDatapointsRequest { datapoints: vec![name] }, hdr)).await),
        16 => {
            let mut m = HashMap::new();
            m.insert(name, sdv_dp(k));
            code_of(sb.set_datapoints(with_auth(ps::SetDatapointsRequest { datapoints: m }, hdr)).await)
        }
        17 => first(sb.subscribe(with_auth(ps::SubscribeRequest { query: format!("SELECT {}", name) }, hdr)).await).await,
        18 => code_of(sb.get_metadata(with_auth(ps::GetMetadataRequest { names: vec![name] }, hdr)).await),
        19 => code_of(
            sc.register_datapoints(with_auth(
                ps::RegisterDatapointsRequest {
                    list: vec![ps::RegistrationMetadata {
                        name: format!("Srv.New{}", k),
                        data_type: ps::DataType::Int32 as i32,
                        description: "d".into(),
                        change_type: ps::ChangeType::OnChange as i32,
                    }],
                },
                hdr,
            ))
            .await,
        ),
        20 => {
            let mut m = HashMap::new();
            m.insert(id, sdv_dp(k));
            code_of(sc.update_datapoints(with_auth(ps::UpdateDatapointsRequest { datapoints: m }, hdr)).await)
        }
        21 => {
            let mut m = HashMap::new();
            m.insert(id, sdv_dp(k));
            let reqs = vec![ps::StreamDatapointsRequest { datapoints: m }];
            first(sc.stream_datapoints(with_auth(tokio_stream::iter(reqs), hdr)).await).await
        }
        _ => -1,
    }
}

pub struct Srv {
    pub broker: DataBroker,
    pub channel: Channel,
    pub ids: HashMap<String, i32>,
    stop: Option<tokio::sync::oneshot::Sender<()>>,
    task: Option<tokio::task::JoinHandle<()>>,
}

impl Srv {
    pub async fn start(auth: bool) -> Srv {
        let broker = new_broker();
        let mut ids = HashMap::new();
        {
            let all = all();
            let acc = broker.authorized_access(&all);
            for rpc in 0..22 {
                let et = if rpc == 9 || rpc == 10 { EntryType::Actuator } else { EntryType::Sensor };
                let id = acc
                    .add_entry(sig_name(rpc), DataType::Int32, ChangeType::OnChange, et, "d".into(), None, None, None, None)
                    .await
                    .unwrap();
                ids.insert(sig_name(rpc), id);
            }
        }
        let authorization = if auth {
            databroker::authorization::Authorization::new(read_file("/repo/certificates/jwt/jwt.key.pub")).unwrap()
        } else {
            databroker::authorization::Authorization::Disabled
        };
        let listener = tokio::net::TcpListener::bind("127.0.0.1:0").await.unwrap();
        let port = listener.local_addr().unwrap().port();
        let (tx, rx) = tokio::sync::oneshot::channel::<()>();
        let b2 = broker.clone();
        let task = tokio::spawn(async move {
            let _ = server::serve_with_incoming_shutdown(
                TcpListenerStream::new(listener),
                b2,
                server::ServerTLS::Disabled,
                &[Api::KuksaValV1, Api::KuksaValV2, Api::SdvDatabrokerV1],
                authorization,
                async {
                    let _ = rx.await;
                },
            )
            .await;
        });
        let mut channel = None;
        for _ in 0..50 {
            match Channel::from_shared(format!("http://127.0.0.1:{}", port)).unwrap().connect().await {
                Ok(c) => {
                    channel = Some(c);
                    break;
                }
                Err(_) => tokio::time::sleep(Duration::from_millis(20)).await,
            }
        }
        Srv { broker, channel: channel.expect("server did not come up"), ids, stop: Some(tx), task: Some(task) }
    }

    pub async fn dump(&self) -> Vec<Vec<Tok>> {
        let all = all();
        let acc = self.broker.authorized_access(&all);
        let mut lines = Vec::new();
        for rpc in WRITERS {
            let mut o = vec![700, rpc];
            match acc.get_entry_by_path(&sig_name(rpc)).await {
                Ok(e) => enc_value(&e.datapoint.value, &mut o),
                Err(_) => o.push(-1),
            }
            lines.push(o);
        }
        // registrations made through the collector
        let mut o = vec![701];
        let mut n = 0;
        for k in 0..200 {
            if acc.get_entry_by_path(&format!("Srv.New{}", k)).await.is_ok() {
                n += 1;
                o.push(k);
            }
        }
        o.insert(1, n);
        lines.push(o);
        lines
    }

    pub async fn stop(mut self) {
        if let Some(tx) = self.stop.take() {
            let _ = tx.send(());
        }
        if let Some(t) = self.task.take() {
            let _ = tokio::time::timeout(Duration::from_secs(2), t).await;
        }
    }
}

pub fn install_panic_hook() {
    std::panic::set_hook(Box::new(|_| {
        PANICS.fetch_add(1, Ordering::SeqCst);
    }));
}

pub fn run_case(case: &[Vec<Tok>]) -> Vec<Vec<Tok>> {
    install_panic_hook();
    let rt = tokio::runtime::Builder::new_multi_thread().worker_threads(2).enable_all().build().unwrap();
    rt.block_on(async {
        let mut out = Vec::new();
        let mode = case.first().and_then(|l| l.get(1)).copied().unwrap_or(0);
        let srv = Srv::start(mode != 0).await;
        for l in &case[1..] {
            let mut c = Cur::new(l);
            match c.next() {
                Some(1) => {
                    let (Some(rpc), Some(variant), Some(k)) = (c.next(), c.next(), c.next()) else {
                        out.push(vec![-1]);
                        continue;
                    };
                    let Some(hdr) = auth_header(&mut c) else {
                        out.push(vec![-1]);
                        continue;
                    };
                    let code = match tokio::time::timeout(Duration::from_secs(5), call(&srv.channel, rpc, variant, k, &hdr, &srv.ids)).await
                    {
                        Ok(c) => c,
                        Err(_) => -88, // no answer
                    };
                    out.push(vec![code, PANICS.load(Ordering::SeqCst) as Tok]);
                }
                Some(2) => out.extend(srv.dump().await),
                Some(4) => {
                    // one token (its header text built once, expiring `exp` seconds from now), used now and used again
                    // after its expiry instant has passed
                    let (Some(rpc), Some(variant), Some(k)) = (c.next(), c.next(), c.next()) else {
                        out.push(vec![-1]);
                        continue;
                    };
                    let exp_in = l.get(10).copied().unwrap_or(2).max(1) as u64;
                    let Some(hdr) = auth_header(&mut c) else {
                        out.push(vec![-1]);
                        continue;
                    };
                    let built = std::time::Instant::now();
                    for round in 0..2 {
                        if round == 1 {
                            let wait = Duration::from_millis(exp_in * 1000 + 1300).saturating_sub(built.elapsed());
                            tokio::time::sleep(wait).await;
                        }
                        let code = match tokio::time::timeout(Duration::from_secs(5), call(&srv.channel, rpc, variant, k, &hdr, &srv.ids)).await {
                            Ok(c) => c,
                            Err(_) => -88,
                        };
                        out.push(vec![code, PANICS.load(Ordering::SeqCst) as Tok]);
                    }
                }
                Some(3) => {
                    // probe: the broker still serves a write, a read of it, and a metadata listing
                    let k = c.next().unwrap_or(1);
                    let none = None;
                    let w = tokio::time::timeout(Duration::from_secs(5), call(&srv.channel, 12, 0, k, &none, &srv.ids)).await;
                    let mut v2 = p2::val_client::ValClient::new(srv.channel.clone());
                    let r = tokio::time::timeout(
                        Duration::from_secs(5),
                        v2.get_value(p2::GetValueRequest { signal_id: v2_sig(&sig_name(12)) }),
                    )
                    .await;
                    let read_ok = match r {
                        Ok(Ok(resp)) => {
                            resp.into_inner().data_point.and_then(|d| d.value).and_then(|v| v.typed_value)
                                == Some(p2::value::TypedValue::Int32(k as i32))
                        }
                        _ => false,
                    };
                    let m = tokio::time::timeout(Duration::from_secs(5), call(&srv.channel, 11, 0, k, &none, &srv.ids)).await;
                    let ok = matches!(w, Ok(0)) && read_ok && matches!(m, Ok(0));
                    out.push(vec![900, ok as Tok, PANICS.load(Ordering::SeqCst) as Tok]);
                }
                _ => out.push(vec![-1]),
            }
        }
        srv.stop().await;
        out
    })
}

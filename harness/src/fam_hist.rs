//! History family (C01, C03, C04, C07, C09, C10, C16): drives the in-process broker API
//! (AuthorizedAccess) with the operation lines documented in coq/Model/BrokerRun.v and prints the
//! same canonical lines.
use crate::codec::{enc_value, Cur, Tok};
use crate::util::*;
use databroker::authorization::jwt::Claims;
use databroker::broker::{
    ActuationChange, ActuationError, ActuationProvider, DataBroker, Datapoint, EntryUpdate,
    EntryUpdates, Field, ReadError, RegistrationError, SubscriptionError,
};
use databroker::permissions::{Permission, PermissionBuilder, Permissions};
use databroker::types::DataValue;
use futures::{FutureExt, Stream, StreamExt};
use std::collections::{HashMap, HashSet};
use std::convert::TryFrom;
use std::pin::Pin;
use std::sync::atomic::{AtomicBool, Ordering};
use std::sync::{Arc, Mutex};
use std::time::{Duration, SystemTime};

pub struct RecProvider {
    pub inbox: Arc<Mutex<Vec<Vec<(i32, DataValue)>>>>,
    pub avail: Arc<AtomicBool>,
}

#[async_trait::async_trait]
impl ActuationProvider for RecProvider {
    async fn actuate(&self, changes: Vec<ActuationChange>) -> Result<(), (ActuationError, String)> {
        self.inbox
            .lock()
            .unwrap()
            .push(changes.into_iter().map(|c| (c.id, c.data_value)).collect());
        Ok(())
    }
    fn is_available(&self) -> bool {
        self.avail.load(Ordering::SeqCst)
    }
}

pub fn build_perms(scope: &str, expires: Option<SystemTime>) -> Option<Permissions> {
    // validity is decided by the real scope parser
    // built through serde so that the harness does not depend on the exact field set of `Claims`
    let claims: Claims = serde_json::from_value(serde_json::json!({
        "sub": "s", "iss": "i", "aud": ["kuksa.val"], "iat": 0, "exp": 4102444800u64, "scope": scope,
    }))
    .ok()?;
    Permissions::try_from(claims)
    .ok()?;
    // the same construction as TryFrom<Claims>, with a sub-second expiry instant
    let mut b = PermissionBuilder::new();
    for chunk in scope.split_whitespace() {
        let (act, path) = match chunk.split_once(':') {
            Some((a, p)) => (a, Some(p.to_string())),
            None => (chunk, None),
        };
        let perm = match path {
            Some(p) => Permission::Glob(p),
            None => Permission::All,
        };
        b = match act {
            "read" => b.add_read_permission(perm),
            "actuate" => b.add_actuate_permission(perm),
            "provide" => b.add_provide_permission(perm),
            _ => b.add_create_permission(perm),
        };
    }
    if let Some(t) = expires {
        b = b.expires_at(t);
    }
    b.build().ok()
}

pub fn read_err(e: &ReadError) -> Tok {
    match e {
        ReadError::NotFound => 1,
        ReadError::PermissionDenied => 2,
        ReadError::PermissionExpired => 3,
    }
}

pub fn act_err(e: &ActuationError) -> Tok {
    match e {
        ActuationError::NotFound => 1,
        ActuationError::WrongType => 2,
        ActuationError::OutOfBounds => 3,
        ActuationError::UnsupportedType => 4,
        ActuationError::PermissionDenied => 5,
        ActuationError::PermissionExpired => 6,
        ActuationError::ProviderNotAvailable => 7,
        ActuationError::ProviderAlreadyExists => 8,
        ActuationError::TransmissionFailure => 9,
    }
}

pub type SubStream = Pin<Box<dyn Stream<Item = EntryUpdates> + Send>>;
type QueryStream = Pin<Box<dyn Stream<Item = databroker::broker::QueryResponse> + Send>>;

pub struct World {
    pub broker: DataBroker,
    pub perms: Vec<Permissions>,
    pub none: Permissions,
    pub subs: Vec<Option<SubStream>>,
    pub qsubs: Vec<Option<QueryStream>>,
    pub viss: Option<crate::fam_viss::VissConn>,
    pub grpc: Option<crate::fam_prov::Grpc>,
    pub sprovs: HashMap<usize, crate::fam_prov::ProvStream>,
    /// description and unit every signal was registered with (by this harness): id -> (description, unit)
    pub reg: HashMap<i32, (String, Option<String>)>,
    /// providers behind an in-process provider stream that is read only when nothing else can move and at dumps
    pub lazy: Vec<crate::fam_prov::LazyProv>,
    pub v1streams: HashMap<Tok, crate::fam_prov::V1Stream>,
    pub sdvstreams: HashMap<Tok, crate::fam_prov::SdvStream>,
    pub scopes: Vec<String>,
    pub ms_windows: bool,
    /// the VISS server of this case runs with authorization disabled (some VISS operation carries token kind 3)
    pub viss_open: bool,
    pub provs: Vec<(Arc<Mutex<Vec<Vec<(i32, DataValue)>>>>, Arc<AtomicBool>)>,
    pub ids: Vec<i32>,
    pub windows: Vec<(SystemTime, SystemTime)>,
    pub t0: Option<SystemTime>,
    pub delay: Duration,
    pub ticked: bool,
    pub late: bool,
}

impl World {
    pub fn new(delay: Duration) -> Self {
        World {
            broker: new_broker(),
            perms: vec![],
            none: databroker::permissions::ALLOW_NONE.clone(),
            subs: vec![],
            qsubs: vec![],
            viss: None,
            grpc: None,
            sprovs: HashMap::new(),
            reg: HashMap::new(),
            lazy: Vec::new(),
            v1streams: HashMap::new(),
            sdvstreams: HashMap::new(),
            scopes: vec![],
            ms_windows: false,
            viss_open: false,
            provs: vec![],
            ids: vec![],
            windows: vec![],
            t0: None,
            delay,
            ticked: false,
            late: false,
        }
    }
    pub fn perm(&self, k: Tok) -> Permissions {
        if k < 0 {
            return self.none.clone();
        }
        self.perms.get(k as usize).cloned().unwrap_or_else(|| self.none.clone())
    }
    /// index (1-based operation counter) of the operation during which `ts` was taken
    pub fn ts_index(&self, ts: SystemTime, cur_start: SystemTime) -> Tok {
        for (k, (s, e)) in self.windows.iter().enumerate() {
            if *s <= ts && ts <= *e {
                return (k + 1) as Tok;
            }
        }
        if ts >= cur_start {
            return (self.windows.len() + 1) as Tok;
        }
        -7
    }
    pub fn enc_dp(&self, d: &Datapoint, cur: SystemTime, out: &mut Vec<Tok>) {
        enc_value(&d.value, out);
        out.push(self.ts_index(d.ts, cur));
    }
}

fn fields_of_mask(m: Tok) -> HashSet<Field> {
    let mut s = HashSet::new();
    if m & 1 != 0 {
        s.insert(Field::Datapoint);
    }
    if m & 2 != 0 {
        s.insert(Field::ActuatorTarget);
    }
    if m & 4 != 0 {
        s.insert(Field::MetadataUnit);
    }
    s
}

fn mask_of(f: &HashSet<Field>) -> Tok {
    let mut m = 0;
    if f.contains(&Field::Datapoint) {
        m |= 1;
    }
    if f.contains(&Field::ActuatorTarget) {
        m |= 2;
    }
    if f.contains(&Field::MetadataUnit) {
        m |= 4;
    }
    m
}

pub fn enc_message(w: &World, m: &EntryUpdates, cur: SystemTime) -> Vec<Tok> {
    let mut ups: Vec<_> = m.updates.iter().collect();
    ups.sort_by_key(|u| u.id);
    let mut out = vec![100, ups.len() as Tok];
    for u in ups {
        out.push(u.id as Tok);
        out.push(mask_of(&u.fields));
        match &u.update.datapoint {
            Some(d) => {
                out.push(1);
                w.enc_dp(d, cur, &mut out)
            }
            None => out.push(0),
        }
        match &u.update.actuator_target {
            None => out.push(0),
            Some(None) => out.push(1),
            Some(Some(d)) => {
                out.push(2);
                w.enc_dp(d, cur, &mut out)
            }
        }
    }
    out
}

/// the description and unit a signal of this name is registered with
pub fn reg_texts(name: &str) -> (String, Option<String>) {
    let unit = if name.len() % 2 == 0 { Some(format!("u{}/s", name.len())) } else { None };
    (format!("about {}", name), unit)
}

/// everything the query subscribers have been sent, in subscription order
fn drain_queries(w: &mut World) -> Vec<Vec<Tok>> {
    let mut lines = Vec::new();
    for (h, slot) in w.qsubs.iter_mut().enumerate() {
        if let Some(st) = slot.as_mut() {
            while let Some(Some(m)) = st.next().now_or_never() {
                let mut o = vec![110, h as Tok, m.fields.len() as Tok];
                for f in &m.fields {
                    crate::codec::enc_str(&f.name, &mut o);
                    enc_value(&f.value, &mut o);
                }
                lines.push(o);
            }
        }
    }
    lines
}

pub async fn step(w: &mut World, l: &[Tok]) -> Vec<Vec<Tok>> {
    let mut start = SystemTime::now();
    if let Some((_, e)) = w.windows.last() {
        let ms = |t: SystemTime| t.duration_since(std::time::UNIX_EPOCH).map(|d| d.as_millis()).unwrap_or(0);
        // VISS timestamps have millisecond resolution: there the windows are separated by a millisecond boundary
        while start <= *e || (w.ms_windows && ms(start) <= ms(*e)) {
            start = SystemTime::now();
        }
    }
    // a panicking operation is reported as [-77]; the history goes on (the broker must keep serving)
    let out = match std::panic::AssertUnwindSafe(step_inner(w, l, start)).catch_unwind().await {
        Ok(o) => o,
        Err(_) => vec![vec![-77]],
    };
    if w.ms_windows {
        crate::fam_viss::after_op(w).await;
    }
    let end = SystemTime::now();
    w.windows.push((start, end));
    // make operation windows disjoint: the clock must have advanced before the next operation starts
    while SystemTime::now() <= end {
        std::hint::spin_loop();
    }
    out
}

async fn step_inner(w: &mut World, l: &[Tok], start: SystemTime) -> Vec<Vec<Tok>> {
    let bad = vec![vec![-1]];
    let mut c = Cur::new(l);
    let Some(op) = c.next() else { return bad };
    let out: Vec<Vec<Tok>> = match op {
        0 => {
            let (Some(expflag), Some(scope)) = (c.next(), c.string()) else { return bad };
            let exp = if expflag != 0 {
                if w.t0.is_none() {
                    w.t0 = Some(SystemTime::now() + w.delay);
                }
                w.t0
            } else {
                None
            };
            match build_perms(&scope, exp) {
                Some(p) => {
                    w.perms.push(p);
                    w.scopes.push(scope.clone());
                    vec![vec![1]]
                }
                None => vec![vec![0]],
            }
        }
        1 => {
            let (Some(p), Some(name)) = (c.next(), c.string()) else { return bad };
            let (Some(dt), Some(ct), Some(et)) = (
                c.data_type(),
                c.next().and_then(crate::codec::dec_change_type),
                c.next().and_then(crate::codec::dec_entry_type),
            ) else {
                return bad;
            };
            let (Some(mn), Some(mx), Some(al)) = (c.opt_value(), c.opt_value(), c.opt_value()) else {
                return bad;
            };
            let perms = w.perm(p);
            // every signal gets a description of its own and, every second one, a unit: each API has to report them
            // as registered (the flags on the metadata lines)
            let (description, unit) = reg_texts(&name);
            let r = w
                .broker
                .authorized_access(&perms)
                .add_entry(name, dt, ct, et, description.clone(), mn, mx, al, unit.clone())
                .await;
            match r {
                Ok(id) => {
                    if !w.ids.contains(&id) {
                        w.ids.push(id);
                    }
                    // a second registration of a path leaves the first one's texts in place
                    w.reg.entry(id).or_insert((description, unit));
                    vec![vec![0, id as Tok]]
                }
                Err(e) => vec![vec![
                    1,
                    match e {
                        RegistrationError::ValidationError => 1,
                        RegistrationError::PermissionDenied => 2,
                        RegistrationError::PermissionExpired => 3,
                    },
                ]],
            }
        }
        2 => {
            let (Some(p), Some(n)) = (c.next(), c.next()) else { return bad };
            let mut ups = Vec::new();
            for _ in 0..n {
                let (Some(id), Some(fl)) = (c.next(), c.next()) else { return bad };
                let mut u = EntryUpdate::default();
                if fl & 1 != 0 {
                    let Some(v) = c.value() else { return bad };
                    u.datapoint = Some(Datapoint { ts: SystemTime::now(), source_ts: None, value: v });
                }
                if fl & 2 != 0 {
                    let Some(v) = c.value() else { return bad };
                    u.actuator_target =
                        Some(Some(Datapoint { ts: SystemTime::now(), source_ts: None, value: v }));
                } else if fl & 4 != 0 {
                    u.actuator_target = Some(None);
                }
                if fl & 8 != 0 {
                    u.description = Some("changed".to_string());
                }
                ups.push((id as i32, u));
            }
            let perms = w.perm(p);
            let r = w.broker.authorized_access(&perms).update_entries(ups).await;
            let errs = r.err().unwrap_or_default();
            let mut o = vec![errs.len() as Tok];
            for (id, e) in errs {
                o.push(id as Tok);
                o.push(crate::fam_validate::err_code(&e));
            }
            let mut lines = vec![o];
            lines.extend(drain_queries(w));
            lines
        }
        3 => {
            let (Some(p), Some(id)) = (c.next(), c.next()) else { return bad };
            let perms = w.perm(p);
            match w.broker.authorized_access(&perms).get_entry_by_id(id as i32).await {
                Ok(e) => {
                    let mut o = vec![0];
                    w.enc_dp(&e.datapoint, start, &mut o);
                    match &e.actuator_target {
                        None => o.push(0),
                        Some(d) => {
                            o.push(1);
                            w.enc_dp(d, start, &mut o)
                        }
                    }
                    vec![o]
                }
                Err(e) => vec![vec![1, read_err(&e)]],
            }
        }
        4 => {
            let (Some(p), Some(bf), Some(buf), Some(n)) = (c.next(), c.next(), c.next(), c.next()) else {
                return bad;
            };
            let mut es = HashMap::new();
            for _ in 0..n {
                let (Some(id), Some(m)) = (c.next(), c.next()) else { return bad };
                es.insert(id as i32, fields_of_mask(m));
            }
            let perms = w.perm(p);
            let r = w
                .broker
                .authorized_access(&perms)
                .subscribe(es, if bf == 0 { None } else { Some(buf as usize) })
                .await;
            match r {
                Ok(s) => {
                    w.subs.push(Some(Box::pin(s)));
                    vec![vec![0, (w.subs.len() - 1) as Tok]]
                }
                Err(e) => vec![vec![
                    1,
                    match e {
                        SubscriptionError::NotFound => 1,
                        SubscriptionError::InvalidInput => 2,
                        SubscriptionError::InvalidBufferSize => 3,
                        SubscriptionError::InternalError => 4,
                    },
                ]],
            }
        }
        5 => {
            let (Some(h), Some(k)) = (c.next(), c.next()) else { return bad };
            let mut lines = Vec::new();
            let mut ended = 0;
            let mut taken = w.subs.get_mut(h as usize).and_then(|s| s.take());
            if let Some(st) = taken.as_mut() {
                for _ in 0..k {
                    match st.next().now_or_never() {
                        Some(Some(m)) => lines.push(enc_message(w, &m, start)),
                        Some(None) => {
                            ended = 1;
                            break;
                        }
                        None => break,
                    }
                }
            } else {
                return bad;
            }
            w.subs[h as usize] = taken;
            let n = lines.len() as Tok;
            lines.push(vec![101, n, if n == k { 0 } else { ended }]);
            lines
        }
        6 => {
            let Some(h) = c.next() else { return bad };
            if let Some(s) = w.subs.get_mut(h as usize) {
                *s = None;
            }
            vec![vec![0]]
        }
        7 => {
            let (Some(p), Some(n)) = (c.next(), c.next()) else { return bad };
            let mut ids = Vec::new();
            for _ in 0..n {
                let Some(id) = c.next() else { return bad };
                ids.push(id as i32);
            }
            let inbox = Arc::new(Mutex::new(Vec::new()));
            let avail = Arc::new(AtomicBool::new(true));
            let prov = RecProvider { inbox: inbox.clone(), avail: avail.clone() };
            let perms = w.perm(p);
            match w.broker.authorized_access(&perms).provide_actuation(ids, Box::new(prov)).await {
                Ok(()) => {
                    w.provs.push((inbox, avail));
                    vec![vec![0, (w.provs.len() - 1) as Tok]]
                }
                Err((e, _)) => vec![vec![1, act_err(&e)]],
            }
        }
        8 => {
            let Some(h) = c.next() else { return bad };
            if let Some((_, a)) = w.provs.get(h as usize) {
                a.store(false, Ordering::SeqCst);
            }
            // a provider behind the in-process OpenProviderStream handler goes away by dropping its response stream:
            // the handler's Provider then reports itself unavailable (sender closed), at once
            w.lazy.retain(|l| l.handle != h as usize);
            vec![vec![0]]
        }
        9 => {
            let (Some(p), Some(id), Some(v)) = (c.next(), c.next(), c.value()) else { return bad };
            let perms = w.perm(p);
            let b = w.broker.clone();
            let r = crate::fam_prov::with_lazy_drain(&mut w.lazy, async move { b.authorized_access(&perms).actuate(&(id as i32), &v).await }).await;
            match r {
                Ok(()) => vec![vec![0]],
                Err((e, _)) => vec![vec![1, act_err(&e)]],
            }
        }
        10 => {
            let (Some(p), Some(n)) = (c.next(), c.next()) else { return bad };
            let mut cs = Vec::new();
            for _ in 0..n {
                let (Some(id), Some(v)) = (c.next(), c.value()) else { return bad };
                cs.push(ActuationChange { id: id as i32, data_value: v });
            }
            let perms = w.perm(p);
            let b = w.broker.clone();
            let r = crate::fam_prov::with_lazy_drain(&mut w.lazy, async move { b.authorized_access(&perms).batch_actuate(cs).await }).await;
            match r {
                Ok(()) => vec![vec![0]],
                Err((e, _)) => vec![vec![1, act_err(&e)]],
            }
        }
        11 => {
            w.broker.verif_housekeeping_step().await;
            vec![vec![0]]
        }
        12 => {
            w.broker.shutdown().await;
            vec![vec![0]]
        }
        13 => {
            if let Some(t0) = w.t0 {
                if SystemTime::now() >= t0 {
                    w.late = !w.ticked;
                } else {
                    let d = t0.duration_since(SystemTime::now()).unwrap_or_default();
                    tokio::time::sleep(d + Duration::from_millis(2)).await;
                }
            }
            w.ticked = true;
            vec![vec![0]]
        }
        14 => {
            crate::fam_prov::sync_streams(w).await;
            let all = all();
            let acc = w.broker.authorized_access(&all);
            let mut lines = Vec::new();
            for id in w.ids.clone() {
                if let Ok(e) = acc.get_entry_by_id(id).await {
                    let mut o = vec![200, id as Tok];
                    w.enc_dp(&e.datapoint, start, &mut o);
                    match &e.actuator_target {
                        None => o.push(0),
                        Some(d) => {
                            o.push(1);
                            w.enc_dp(d, start, &mut o)
                        }
                    }
                    lines.push(o);
                }
            }
            for (h, (inbox, _)) in w.provs.iter().enumerate() {
                let ib = inbox.lock().unwrap();
                let mut o = vec![300, h as Tok, ib.len() as Tok];
                for call in ib.iter() {
                    o.push(call.len() as Tok);
                    for (id, v) in call {
                        o.push(*id as Tok);
                        enc_value(v, &mut o);
                    }
                }
                lines.push(o);
            }
            lines.push(vec![399]);
            lines
        }
        20..=34 => crate::fam_api::step_api(w, op, &mut c, start).await,
        40 => {
            // SUBQ p extras sql_text <syntax tree, read by the model only>
            let (Some(p), Some(_extras), Some(sql)) = (c.next(), c.next(), c.string()) else { return bad };
            let perms = w.perm(p);
            let r = w.broker.authorized_access(&perms).subscribe_query(&sql).await;
            match r {
                Ok(s) => {
                    w.qsubs.push(Some(Box::pin(s)));
                    let mut lines = vec![vec![0, (w.qsubs.len() - 1) as Tok]];
                    lines.extend(drain_queries(w));
                    lines
                }
                Err(databroker::broker::QueryError::CompilationError(msg)) => {
                    let kind = msg.split('(').next().unwrap_or("");
                    vec![vec![
                        1,
                        match kind {
                            "UnknownField" => 1,
                            "TypeError" => 2,
                            "UnsupportedOperator" => 3,
                            "UnsupportedOperation" => 4,
                            "ParseError" => 5,
                            "MalformedNumber" => 6,
                            "InvalidLogic" => 7,
                            "InvalidComparison" => 8,
                            _ => 9,
                        },
                    ]]
                }
                Err(databroker::broker::QueryError::InternalError) => vec![vec![1, 10]],
            }
        }
        42 => {
            // SUBQS: the query subscription of operation 40 opened through sdv.databroker.v1 Broker::Subscribe
            let (Some(p), Some(_extras), Some(sql)) = (c.next(), c.next(), c.string()) else { return bad };
            let perms = w.perm(p);
            use databroker_proto::sdv::databroker::v1 as ps;
            let mut rq = tonic::Request::new(ps::SubscribeRequest { query: sql });
            rq.extensions_mut().insert(perms);
            match ps::broker_server::Broker::subscribe(&w.broker, rq).await {
                Ok(resp) => {
                    let st = resp.into_inner().filter_map(|item| async move {
                        let reply = item.ok()?;
                        let mut fields: Vec<databroker::broker::QueryField> = reply
                            .fields
                            .into_iter()
                            .map(|(name, dp)| databroker::broker::QueryField {
                                name,
                                value: match crate::fam_api::from_sdv_value(&dp.value) {
                                    Ok(Some(v)) => v,
                                    Ok(None) => DataValue::String("!no value".into()),
                                    Err(1) => DataValue::NotAvailable,
                                    Err(k) => DataValue::String(format!("!failure {}", k)),
                                },
                            })
                            .collect();
                        fields.sort_by(|a, b| a.name.cmp(&b.name));
                        Some(databroker::broker::QueryResponse { fields })
                    });
                    w.qsubs.push(Some(Box::pin(st)));
                    let mut lines = vec![vec![0, (w.qsubs.len() - 1) as Tok]];
                    lines.extend(drain_queries(w));
                    lines
                }
                Err(status) => {
                    // Status::new(InvalidArgument, format!("{e:?}")): CompilationError("Kind(...)") | InternalError
                    let msg = status.message().to_string();
                    let kind = msg.split("(\"").nth(1).unwrap_or("").split('(').next().unwrap_or("").to_string();
                    if status.code() != tonic::Code::InvalidArgument {
                        vec![vec![1, 100 + crate::util::code_num(status.code())]]
                    } else if msg.starts_with("InternalError") {
                        vec![vec![1, 10]]
                    } else {
                        vec![vec![
                            1,
                            match kind.as_str() {
                                "UnknownField" => 1,
                                "TypeError" => 2,
                                "UnsupportedOperator" => 3,
                                "UnsupportedOperation" => 4,
                                "ParseError" => 5,
                                "MalformedNumber" => 6,
                                "InvalidLogic" => 7,
                                "InvalidComparison" => 8,
                                _ => 9,
                            },
                        ]]
                    }
                }
            }
        }
        50..=56 => crate::fam_viss::step_viss(w, op, &mut c, start).await,
        60..=64 => crate::fam_prov::step_prov(w, op, &mut c).await,
        41 => {
            let Some(h) = c.next() else { return bad };
            if let Some(s) = w.qsubs.get_mut(h as usize) {
                *s = None;
            }
            vec![vec![0]]
        }
        _ => bad,
    };
    out
}

pub fn run_case(case: &[Vec<Tok>]) -> Vec<Vec<Tok>> {
    run_case_with(case, false)
}

pub fn run_case_with(case: &[Vec<Tok>], ms_windows: bool) -> Vec<Vec<Tok>> {
    let rt = rt();
    let mut delay = Duration::from_millis(40);
    for _attempt in 0..6 {
        // unconstrained: tokio's cooperative budget would otherwise make resource polls return
        // Pending spuriously after 128 operations inside this single task
        let (out, ok) = rt.block_on(tokio::task::unconstrained(async {
            let mut w = World::new(delay);
            w.ms_windows = ms_windows;
            w.viss_open = case.iter().any(|l| matches!(l.first(), Some(50..=52)) && l.get(1) == Some(&3));
            let mut out = Vec::new();
            for l in case {
                out.extend(step(&mut w, l).await);
            }
            // the expiry instant must not have passed before the TICK (or before the end, if there is none)
            let ok = !w.late && (w.ticked || w.t0.map_or(true, |t| SystemTime::now() < t));
            (out, ok)
        }));
        if ok {
            return out;
        }
        delay *= 4;
    }
    vec![vec![-66]]
}

//! Concurrency families.
//!  fam 11 (lock traces): runs one broker operation / control path in isolation with the hooks on
//!         and prints the lock program observed:  (1 lock mode) = Acq, (2 lock) = Down, (3 lock) = Rel
//!         with lock 0 = Db (database), 1 = Subs (subscriptions); mode 0 = R, 1 = W.
//!  fam 12 (schedules): polls the real futures of a set of operations under chosen schedules
//!         (stateless DFS / seeded random / exact replay) and evaluates the end-state predicates of
//!         C08, C10, C11, C16.
use crate::codec::{Cur, Tok};
use crate::fam_hist::RecProvider;
use databroker::broker::{
    ActuationChange, DataBroker, Datapoint, EntryUpdate, EntryUpdates, Field, QueryResponse,
};
use databroker::permissions::ALLOW_ALL;
use databroker::types::{ChangeType, DataType, DataValue, EntryType};
use databroker::verif;
use futures::task::noop_waker;
use futures::{FutureExt, Stream, StreamExt};
use std::cell::RefCell;
use std::collections::{HashMap, HashSet};
use std::future::Future;
use std::pin::Pin;
use std::rc::Rc;
use std::sync::atomic::AtomicBool;
use std::sync::{Arc, Mutex};
use std::task::{Context, Poll};
use std::time::SystemTime;

type Task = Pin<Box<dyn Future<Output = Tok>>>;
type SubStream = Pin<Box<dyn Stream<Item = EntryUpdates>>>;
type QStream = Pin<Box<dyn Stream<Item = QueryResponse>>>;

fn block_on<T>(mut f: Pin<Box<dyn Future<Output = T> + '_>>) -> T {
    let w = noop_waker();
    let mut cx = Context::from_waker(&w);
    loop {
        if let Poll::Ready(v) = f.as_mut().poll(&mut cx) {
            return v;
        }
    }
}

fn upd(v: i32) -> EntryUpdate {
    EntryUpdate {
        datapoint: Some(Datapoint { ts: SystemTime::now(), source_ts: None, value: DataValue::Int32(v) }),
        ..Default::default()
    }
}

fn prov() -> Box<RecProvider> {
    Box::new(RecProvider {
        inbox: Arc::new(Mutex::new(Vec::new())),
        avail: Arc::new(AtomicBool::new(true)),
    })
}

/// broker with three Int32 actuators (ids 0,1,2); change type given
fn setup(ct: ChangeType) -> DataBroker {
    let b = DataBroker::default();
    block_on(Box::pin(async {
        let a = b.authorized_access(&ALLOW_ALL);
        for n in ["Vehicle.A", "Vehicle.B", "Vehicle.C"] {
            a.add_entry(
                n.into(),
                DataType::Int32,
                ct.clone(),
                EntryType::Actuator,
                "d".into(),
                None,
                None,
                None,
                None,
            )
            .await
            .unwrap();
        }
    }));
    b
}

fn translate(log: &[verif::Event]) -> Vec<Tok> {
    let mut out = Vec::new();
    for e in log {
        let parts: Vec<&str> = e.what.split(' ').collect();
        let lock = |s: &str| if s == "Db" { 0 } else { 1 };
        let mode = |s: &str| if s == "R" { 0 } else { 1 };
        match parts[0] {
            "acq" => out.extend([1, lock(parts[1]), mode(parts[2])]),
            "sec" => out.extend([1, lock(parts[1]), mode(parts[2]), 3, lock(parts[1])]),
            "down" => out.extend([2, lock(parts[1])]),
            "rel" => out.extend([3, lock(parts[1])]),
            _ => {} // req / try
        }
    }
    out
}

/// fam 11: one scenario per line: [scenario]
pub fn run_trace_line(l: &[Tok]) -> Vec<Tok> {
    let Some(&sc) = l.first() else { return vec![-1] };
    verif::enable(false);
    let b = setup(ChangeType::Continuous);
    let a = b.authorized_access(&ALLOW_ALL);
    let none = databroker::permissions::ALLOW_NONE.clone();
    let denied = b.authorized_access(&none);
    // preparation that must not be part of the trace
    let mut keep_stream: Option<SubStream> = None;
    let mut keep_q: Option<Pin<Box<dyn Stream<Item = databroker::broker::QueryResponse>>>> = None;
    match sc {
        3 => {
            // a subscriber that has gone away: the next notification fails and triggers cleanup
            let s = block_on(Box::pin(a.subscribe(HashMap::from([(0, HashSet::from([Field::Datapoint]))]), None)))
                .unwrap();
            drop(s);
        }
        4 => {
            let s = block_on(Box::pin(a.subscribe_query("SELECT Vehicle.A WHERE LAG(Vehicle.A) <> Vehicle.A")));
            keep_q = s.ok().map(|s| Box::pin(s) as _);
            block_on(Box::pin(a.update_entries([(0, upd(1))]))).ok();
        }
        10 | 12 | 14 => {
            block_on(Box::pin(a.provide_actuation(vec![0, 1], prov()))).unwrap();
        }
        _ => {}
    }
    verif::enable(true);
    verif::set_current(0);
    let fut: Pin<Box<dyn Future<Output = ()> + '_>> = match sc {
        0 => Box::pin(async { a.get_entry_by_id(0).await.ok(); }),
        1 => Box::pin(async {
            a.add_entry("Vehicle.New".into(), DataType::Int32, ChangeType::OnChange, EntryType::Sensor,
                "d".into(), None, None, None, None).await.ok();
        }),
        2 | 3 | 4 => Box::pin(async { a.update_entries([(0, upd(7))]).await.ok(); }),
        5 => Box::pin(async {
            keep_stream = a.subscribe(HashMap::from([(0, HashSet::from([Field::Datapoint]))]), Some(5))
                .await.ok().map(|s| Box::pin(s) as SubStream);
        }),
        6 => Box::pin(async { let _ = a.subscribe(HashMap::new(), None).await.is_ok(); }),
        7 => Box::pin(async {
            keep_q = a.subscribe_query("SELECT Vehicle.A").await.ok().map(|s| Box::pin(s) as _);
        }),
        8 => Box::pin(async { let _ = a.subscribe_query("SELECT Vehicle.Nope").await.is_ok(); }),
        9 | 10 => Box::pin(async { let _ = a.provide_actuation(vec![0], prov()).await.is_ok(); }),
        11 => Box::pin(async { let _ = denied.provide_actuation(vec![0], prov()).await.is_ok(); }),
        12 => Box::pin(async { let _ = a.actuate(&0, &DataValue::Int32(1)).await.is_ok(); }),
        13 => Box::pin(async { let _ = a.actuate(&0, &DataValue::Bool(true)).await.is_ok(); }),
        14 => Box::pin(async {
            let _ = a.batch_actuate(vec![
                ActuationChange { id: 0, data_value: DataValue::Int32(1) },
                ActuationChange { id: 1, data_value: DataValue::Int32(2) },
            ]).await.is_ok();
        }),
        15 => Box::pin(async {
            let _ = a.batch_actuate(vec![
                ActuationChange { id: 0, data_value: DataValue::Int32(1) },
                ActuationChange { id: 9, data_value: DataValue::Int32(2) },
            ]).await.is_ok();
        }),
        16 => Box::pin(async { b.verif_housekeeping_step().await; }),
        17 => Box::pin(async { b.shutdown().await; }),
        18 => Box::pin(async { a.get_datapoint(0).await.ok(); a.get_metadata(0).await; a.get_id_by_path("Vehicle.A").await; }),
        _ => return vec![-1],
    };
    block_on(fut);
    let log = verif::take_log();
    verif::enable(false);
    drop(keep_stream);
    drop(keep_q);
    translate(&log)
}

// ------------------------------------------------------------------ schedules
#[derive(Clone, Debug, PartialEq)]
enum Outcome {
    Done(Vec<Tok>),
    Deadlock,
}

struct Scenario {
    tasks: Vec<Task>,
    streams: Rc<RefCell<Vec<(usize, i32, SubStream)>>>, // (task index, id, stream)
    qstreams: Rc<RefCell<Vec<(i32, QStream, Vec<i32>)>>>, // (id, stream of a query subscriber that stays, values read so far)
    broker: DataBroker,
}

/// task kinds: 1 update(id, value)  2 subscribe(id)  3 subscribe_query(id)  4 housekeeping
///             5 provide(id, id2 or -1)  6 actuate(id)  7 batch(id, id2)  8 add_entry(name index)
///             9 get(id)  10 shutdown  11 subscribe(id) and drop the stream  12 subscribe_query(id) and drop the stream
///             13 subscribe_query(id), the subscriber stays and reads lazily (only when nothing else can move, and
///                at the end)  14 burst(id, first value): twelve updates of one signal in a row
///             15 provide(id) by a provider that is already gone (registered, unavailable, not yet cleaned up)
fn make(spec: &[(Tok, Tok, Tok)], on_change: bool) -> Scenario {
    let b = setup(if on_change { ChangeType::OnChange } else { ChangeType::Continuous });
    // an owner for actuator 2 so that actuate/batch on it can succeed
    block_on(Box::pin(async {
        b.authorized_access(&ALLOW_ALL).provide_actuation(vec![2], prov()).await.unwrap();
    }));
    let streams: Rc<RefCell<Vec<(usize, i32, SubStream)>>> = Rc::new(RefCell::new(Vec::new()));
    let qstreams: Rc<RefCell<Vec<(i32, QStream, Vec<i32>)>>> = Rc::new(RefCell::new(Vec::new()));
    let mut tasks: Vec<Task> = Vec::new();
    for (k, &(kind, x, y)) in spec.iter().enumerate() {
        let bb = b.clone();
        let st = streams.clone();
        let qst = qstreams.clone();
        let t: Task = match kind {
            1 => Box::pin(async move {
                let a = bb.authorized_access(&ALLOW_ALL);
                a.update_entries([(x as i32, upd(y as i32))]).await.is_ok() as Tok
            }),
            2 => Box::pin(async move {
                let a = bb.authorized_access(&ALLOW_ALL);
                match a.subscribe(HashMap::from([(x as i32, HashSet::from([Field::Datapoint]))]), Some(1000)).await {
                    Ok(s) => {
                        st.borrow_mut().push((k, x as i32, Box::pin(s)));
                        1
                    }
                    Err(_) => 0,
                }
            }),
            3 => Box::pin(async move {
                let a = bb.authorized_access(&ALLOW_ALL);
                let name = ["Vehicle.A", "Vehicle.B", "Vehicle.C"][(x as usize) % 3];
                let r = a.subscribe_query(&format!("SELECT {name}")).await;
                let ok = r.is_ok();
                // keep the receiver alive until the end of the run
                if let Ok(s) = r {
                    std::mem::forget(Box::pin(s));
                }
                ok as Tok
            }),
            4 => Box::pin(async move {
                bb.verif_housekeeping_step().await;
                1
            }),
            5 => Box::pin(async move {
                let a = bb.authorized_access(&ALLOW_ALL);
                let mut ids = vec![x as i32];
                if y >= 0 {
                    ids.push(y as i32);
                }
                a.provide_actuation(ids, prov()).await.is_ok() as Tok
            }),
            6 => Box::pin(async move {
                let a = bb.authorized_access(&ALLOW_ALL);
                a.actuate(&(x as i32), &DataValue::Int32(5)).await.is_ok() as Tok
            }),
            7 => Box::pin(async move {
                let a = bb.authorized_access(&ALLOW_ALL);
                a.batch_actuate(vec![
                    ActuationChange { id: x as i32, data_value: DataValue::Int32(5) },
                    ActuationChange { id: y as i32, data_value: DataValue::Int32(6) },
                ])
                .await
                .is_ok() as Tok
            }),
            8 => Box::pin(async move {
                let a = bb.authorized_access(&ALLOW_ALL);
                let name = format!("Vehicle.New{}", x);
                match a
                    .add_entry(name, DataType::Int32, ChangeType::OnChange, EntryType::Sensor, "d".into(), None, None, None, None)
                    .await
                {
                    Ok(id) => 1000 + id as Tok,
                    Err(_) => 0,
                }
            }),
            9 => Box::pin(async move {
                let a = bb.authorized_access(&ALLOW_ALL);
                a.get_datapoint(x as i32).await.is_ok() as Tok
            }),
            11 => Box::pin(async move {
                // a change subscriber that goes away at once: registered, its receiver dropped
                let a = bb.authorized_access(&ALLOW_ALL);
                a.subscribe(HashMap::from([(x as i32, HashSet::from([Field::Datapoint]))]), Some(1000)).await.is_ok() as Tok
            }),
            12 => Box::pin(async move {
                // a query subscriber that goes away at once
                let a = bb.authorized_access(&ALLOW_ALL);
                let name = ["Vehicle.A", "Vehicle.B", "Vehicle.C"][(x as usize) % 3];
                a.subscribe_query(&format!("SELECT {name}")).await.is_ok() as Tok
            }),
            13 => Box::pin(async move {
                let a = bb.authorized_access(&ALLOW_ALL);
                let idx = (x as usize) % 3;
                let name = ["Vehicle.A", "Vehicle.B", "Vehicle.C"][idx];
                match a.subscribe_query(&format!("SELECT {name}")).await {
                    Ok(s) => {
                        qst.borrow_mut().push((idx as i32, Box::pin(s), Vec::new()));
                        1
                    }
                    Err(_) => 0,
                }
            }),
            15 => {
                // a provider that is gone already (its stream closed) but still registered until housekeeping runs:
                // part of the initial state, not of the schedule
                let dead = Box::new(RecProvider { inbox: Arc::new(Mutex::new(Vec::new())), avail: Arc::new(AtomicBool::new(false)) });
                let ok = block_on(Box::pin(async { bb.authorized_access(&ALLOW_ALL).provide_actuation(vec![x as i32], dead).await.is_ok() }));
                Box::pin(async move { 2 * ok as Tok })
            }
            14 => Box::pin(async move {
                let a = bb.authorized_access(&ALLOW_ALL);
                let mut ok = 1;
                for v in 0..12 {
                    if a.update_entries([(x as i32, upd((y + v) as i32))]).await.is_err() {
                        ok = 0;
                    }
                }
                ok
            }),
            _ => Box::pin(async move {
                bb.shutdown().await;
                1
            }),
        };
        tasks.push(t);
    }
    Scenario { tasks, streams, qstreams, broker: b }
}

/// runs under a schedule prefix, then lowest-index-first; returns outcome, the schedule actually
/// taken and, per step, the set of tasks that were unfinished (the alternatives)
fn run(spec: &[(Tok, Tok, Tok)], on_change: bool, prefix: &[usize], rng: &mut Option<u64>)
    -> (Outcome, Vec<usize>, Vec<Vec<usize>>, Vec<Tok>) {
    verif::enable(false);
    let mut sc = make(spec, on_change);
    verif::enable(true);
    let n = sc.tasks.len();
    let mut results: Vec<Option<Tok>> = vec![None; n];
    let w = noop_waker();
    let mut cx = Context::from_waker(&w);
    let mut taken = vec![];
    let mut branches = vec![];
    let mut step = 0;
    let mut verdict = vec![];
    loop {
        let unfinished: Vec<usize> = (0..n).filter(|i| results[*i].is_none()).collect();
        if unfinished.is_empty() {
            break;
        }
        let mut order: Vec<usize> = vec![];
        if step < prefix.len() && unfinished.contains(&prefix[step]) {
            order.push(prefix[step]);
        } else if let Some(state) = rng.as_mut() {
            *state = state.wrapping_mul(6364136223846793005).wrapping_add(1442695040888963407);
            order.push(unfinished[((*state >> 33) as usize) % unfinished.len()]);
        }
        for u in &unfinished {
            if !order.contains(u) {
                order.push(*u);
            }
        }
        let mut progressed = None;
        for &i in &order {
            verif::set_current(i);
            let before = verif::log_len();
            match sc.tasks[i].as_mut().poll(&mut cx) {
                Poll::Ready(s) => {
                    results[i] = Some(s);
                    progressed = Some(i);
                }
                Poll::Pending => {
                    if verif::log_len() > before {
                        progressed = Some(i);
                    }
                }
            }
            if progressed.is_some() {
                break;
            }
        }
        if progressed.is_none() && drain_queries(&sc) > 0 {
            // nothing could move, but a lazy query subscriber had unread responses: it reads them now (clients
            // keep draining their streams), which may unblock a writer waiting for room in its channel
            continue;
        }
        match progressed {
            None => {
                verif::enable(false);
                std::mem::forget(sc);
                return (Outcome::Deadlock, taken, branches, vec![1]);
            }
            Some(i) => {
                taken.push(i);
                branches.push(unfinished.clone());
            }
        }
        step += 1;
        if step > 10_000 {
            verif::enable(false);
            std::mem::forget(sc);
            return (Outcome::Deadlock, taken, branches, vec![1]);
        }
    }
    verif::enable(false);
    let res: Vec<Tok> = results.into_iter().map(|r| r.unwrap()).collect();
    // ---- end-state predicates
    // C10: overlapping claims that both succeeded
    let claims: Vec<(usize, Vec<Tok>)> = spec
        .iter()
        .enumerate()
        .filter(|(k, s)| s.0 == 5 && res[*k] == 1)
        .map(|(k, s)| (k, if s.2 >= 0 { vec![s.1, s.2] } else { vec![s.1] }))
        .collect();
    for i in 0..claims.len() {
        for j in i + 1..claims.len() {
            if claims[i].1.iter().any(|x| claims[j].1.contains(x)) {
                verdict = vec![4, claims[i].0 as Tok, claims[j].0 as Tok];
            }
        }
    }
    // a claim that overlaps the pre-existing owner of actuator 2 must have been refused
    for (k, ids) in &claims {
        if ids.contains(&2) {
            verdict = vec![4, *k as Tok, -1];
        }
    }
    // C16: concurrent registrations of different names got different ids, same names the same id
    let regs: Vec<(Tok, Tok)> = spec.iter().enumerate().filter(|(_, s)| s.0 == 8).map(|(k, s)| (s.1, res[k])).collect();
    for i in 0..regs.len() {
        for j in i + 1..regs.len() {
            if (regs[i].0 == regs[j].0) != (regs[i].1 == regs[j].1) || regs[i].1 == 0 {
                verdict = vec![5, regs[i].1, regs[j].1];
            }
        }
    }
    // C08: every subscriber's last value equals the stored value; any two subscribers of the same
    // signal saw the changes in the same order
    let had_shutdown = spec.iter().any(|s| s.0 == 10);
    let mut seqs: Vec<(i32, Vec<i32>)> = Vec::new();
    {
        let mut streams = sc.streams.borrow_mut();
        for (_k, id, st) in streams.iter_mut() {
            let mut seq = Vec::new();
            while let Some(Some(m)) = st.next().now_or_never() {
                for u in m.updates {
                    if u.id == *id {
                        if let Some(d) = u.update.datapoint {
                            seq.push(match d.value {
                                DataValue::Int32(v) => v,
                                _ => -1,
                            });
                        }
                    }
                }
            }
            seqs.push((*id, seq));
        }
    }
    drain_queries(&sc);
    if !had_shutdown {
        for (id, _st, seq) in sc.qstreams.borrow().iter() {
            let stored = block_on(Box::pin(async {
                sc.broker.authorized_access(&ALLOW_ALL).get_datapoint(*id).await.map(|d| d.value)
            }));
            let stored = match stored {
                Ok(DataValue::Int32(v)) => v,
                _ => -1,
            };
            if seq.last().copied().unwrap_or(-2) != stored {
                verdict = vec![2, *id as Tok, seq.last().copied().unwrap_or(-2) as Tok, stored as Tok];
            }
        }
        for (id, seq) in &seqs {
            let stored = block_on(Box::pin(async {
                sc.broker.authorized_access(&ALLOW_ALL).get_datapoint(*id).await.map(|d| d.value)
            }));
            let stored = match stored {
                Ok(DataValue::Int32(v)) => v,
                _ => -1,
            };
            if seq.last().copied().unwrap_or(-2) != stored {
                verdict = vec![2, *id as Tok, seq.last().copied().unwrap_or(-2) as Tok, stored as Tok];
            }
        }
        for i in 0..seqs.len() {
            for j in i + 1..seqs.len() {
                if seqs[i].0 != seqs[j].0 {
                    continue;
                }
                let mut a = seqs[i].1.clone();
                let mut b = seqs[j].1.clone();
                a.dedup();
                b.dedup();
                let (short, long) = if a.len() <= b.len() { (&a, &b) } else { (&b, &a) };
                if !long.ends_with(short) {
                    verdict = vec![3, seqs[i].0 as Tok];
                }
            }
        }
    }
    std::mem::forget(sc);
    (Outcome::Done(res), taken, branches, verdict)
}

/// a lazy query subscriber reads what is waiting for it; returns the number of responses read
fn drain_queries(sc: &Scenario) -> usize {
    let mut n = 0;
    for (_id, st, seq) in sc.qstreams.borrow_mut().iter_mut() {
        while let Some(Some(r)) = st.next().now_or_never() {
            n += 1;
            seq.push(match r.fields.first().map(|f| &f.value) {
                Some(DataValue::Int32(v)) => *v,
                _ => -1,
            });
        }
    }
    n
}

/// fam 12 line: mode limit seed onchange ntasks (kind a b)* [schedule...]
/// out: explored distinct bad  verdict...  | schedule
pub fn run_sched_line(l: &[Tok]) -> Vec<Tok> {
    let mut c = Cur::new(l);
    let (Some(mode), Some(limit), Some(seed), Some(onch), Some(nt)) = (c.next(), c.next(), c.next(), c.next(), c.next()) else {
        return vec![-1];
    };
    let mut spec = Vec::new();
    for _ in 0..nt {
        let (Some(k), Some(a), Some(b)) = (c.next(), c.next(), c.next()) else { return vec![-1] };
        spec.push((k, a, b));
    }
    let mut sched: Vec<usize> = Vec::new();
    while let Some(x) = c.next() {
        sched.push(x as usize);
    }
    let on_change = onch != 0;
    let mut runs: Tok = 0;
    let mut bads: Tok = 0;
    let mut first_bad: Option<(Vec<usize>, Vec<Tok>)> = None;
    let mut seen = HashSet::new();
    match mode {
        2 => {
            let (_o, taken, _b, verdict) = run(&spec, on_change, &sched, &mut None);
            runs = 1;
            seen.insert(taken.clone());
            if !verdict.is_empty() {
                bads = 1;
                first_bad = Some((taken, verdict));
            }
        }
        1 => {
            let mut state = seed as u64 ^ 0x9E3779B97F4A7C15;
            for _ in 0..limit {
                state = state.wrapping_mul(6364136223846793005).wrapping_add(1);
                let mut r = Some(state);
                let (_o, taken, _b, verdict) = run(&spec, on_change, &[], &mut r);
                runs += 1;
                seen.insert(taken.clone());
                if !verdict.is_empty() {
                    bads += 1;
                    if first_bad.is_none() {
                        first_bad = Some((taken, verdict));
                    }
                }
            }
        }
        _ => {
            let mut stack: Vec<Vec<usize>> = vec![vec![]];
            while let Some(prefix) = stack.pop() {
                if runs >= limit {
                    break;
                }
                let (_o, taken, branches, verdict) = run(&spec, on_change, &prefix, &mut None);
                runs += 1;
                if !seen.insert(taken.clone()) {
                    continue;
                }
                if !verdict.is_empty() {
                    bads += 1;
                    if first_bad.is_none() {
                        first_bad = Some((taken.clone(), verdict));
                    }
                }
                for pos in prefix.len()..taken.len() {
                    for &alt in &branches[pos] {
                        if alt != taken[pos] {
                            let mut p = taken[..pos].to_vec();
                            p.push(alt);
                            stack.push(p);
                        }
                    }
                }
            }
        }
    }
    let mut out = vec![runs, seen.len() as Tok, bads];
    if let Some((s, v)) = first_bad {
        out.push(v.len() as Tok);
        out.extend(v);
        out.extend(s.iter().map(|x| *x as Tok));
    } else {
        out.push(0);
    }
    out
}

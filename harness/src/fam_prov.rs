//! kuksa.val.v2 OpenProviderStream on the databroker's own tonic server (loopback), inside the history
//! family: a provider claims actuators and publishes values through its stream, and what the broker
//! forwards to it (BatchActuateStreamRequest) is recorded in the same inbox a core provider has.
//!   60 SPROV p n sig*                       -> [0 handle] | [1 status]
//!   61 SPUB  p h n (id vflag [value])*      -> [0 nerr (id code)*] | [1 status]
//!   62 V1STR p n (update as in V1SET)*       -> [0 nerr (k code)*] | [1 status]     kuksa.val.v1 StreamedUpdate
//!   63 SDVSTR p n (id vflag [value])*        -> [0 nerr (id code)*] | [1 status]    sdv Collector StreamDatapoints
//!   64 LPROV p n sig*                       -> [0 handle] | [1 status]   a provider like 60, but behind the handler called
//!      in process (its request stream is a fixed list, tonic-mock) and LAZY: what the broker sends it stays unread
//!      in the handler's 10-slot channel until an operation cannot move any more or the state is dumped
//! (62 / 63: principal p keeps ONE stream open for the whole case; every operation is one request message on it)
//! The server runs with authorization enabled; principal p presents a freshly signed token carrying its scope.
use crate::codec::{Cur, Tok};
use crate::fam_api::{from_v2_value, v2_value};
use crate::fam_hist::World;
use crate::fam_srv::with_auth;
use crate::util::code_num;
use databroker::types::DataValue;
use databroker_proto::kuksa::val::v1 as p1;
use databroker_proto::kuksa::val::v2 as p2;
use databroker_proto::sdv::databroker::v1 as ps;
use std::collections::HashMap;
use std::sync::{Arc, Mutex};
use std::time::Duration;
use tokio_stream::wrappers::{ReceiverStream, TcpListenerStream};
use tonic::transport::Channel;

pub struct Grpc {
    pub channel: Channel,
    _stop: tokio::sync::oneshot::Sender<()>,
}

pub struct ProvStream {
    tx: tokio::sync::mpsc::Sender<p2::OpenProviderStreamRequest>,
    rx: tonic::Streaming<p2::OpenProviderStreamResponse>,
    next_req: i32,
    inbox: Arc<Mutex<Vec<Vec<(i32, DataValue)>>>>,
    /// PublishValuesResponses read while waiting for something else: request id -> per-id error codes
    answers: HashMap<i32, Vec<(i32, Tok)>>,
    dead: bool,
}

pub struct V1Stream {
    tx: tokio::sync::mpsc::Sender<p1::StreamedUpdateRequest>,
    rx: tonic::Streaming<p1::StreamedUpdateResponse>,
}

pub struct SdvStream {
    tx: tokio::sync::mpsc::Sender<ps::StreamDatapointsRequest>,
    rx: tonic::Streaming<ps::StreamDatapointsReply>,
}

pub struct LazyProv {
    pub handle: usize,
    rx: std::pin::Pin<Box<dyn futures::Stream<Item = Result<p2::OpenProviderStreamResponse, tonic::Status>> + Send>>,
    inbox: Arc<Mutex<Vec<Vec<(i32, DataValue)>>>>,
}

impl LazyProv {
    /// reads at most `max` messages that are ready now
    fn drain(&mut self, max: usize) -> usize {
        use futures::{FutureExt, StreamExt};
        use p2::open_provider_stream_response::Action as A;
        let mut n = 0;
        while n < max {
            match self.rx.next().now_or_never() {
                Some(Some(Ok(m))) => {
                    n += 1;
                    if let Some(A::BatchActuateStreamRequest(r)) = m.action {
                        let call = r
                            .actuate_requests
                            .into_iter()
                            .map(|a| {
                                let id = match a.signal_id.and_then(|s| s.signal) {
                                    Some(p2::signal_id::Signal::Id(i)) => i,
                                    _ => -1,
                                };
                                (id, from_v2_value(&a.value).unwrap_or(DataValue::NotAvailable))
                            })
                            .collect();
                        self.inbox.lock().unwrap().push(call);
                    }
                }
                _ => break,
            }
        }
        n
    }
}

/// runs an operation of the broker while lazy providers exist: when it has not finished after 30 ms (a provider's
/// channel is full and the broker waits for room) every lazy provider reads ONE message, as a slow but living
/// client would, and the operation is awaited further
pub async fn with_lazy_drain<T>(lazy: &mut [LazyProv], fut: impl std::future::Future<Output = T>) -> T {
    tokio::pin!(fut);
    loop {
        match tokio::time::timeout(Duration::from_millis(30), &mut fut).await {
            Ok(v) => return v,
            Err(_) => {
                if lazy.is_empty() {
                    return fut.await;
                }
                for l in lazy.iter_mut() {
                    l.drain(1);
                }
            }
        }
    }
}

/// the id no generated request uses: a datapoint for it is answered UNKNOWN_DATAPOINT, which is the barrier
const BARRIER_ID: i32 = i32::MIN;

impl Grpc {
    pub async fn start(broker: databroker::broker::DataBroker) -> Grpc {
        use databroker::grpc::server::{self, Api};
        let authorization =
            databroker::authorization::Authorization::new(crate::fam_viss::read_file("/repo/certificates/jwt/jwt.key.pub")).unwrap();
        let listener = tokio::net::TcpListener::bind("127.0.0.1:0").await.unwrap();
        let port = listener.local_addr().unwrap().port();
        let (tx, rx) = tokio::sync::oneshot::channel::<()>();
        tokio::spawn(async move {
            let _ = server::serve_with_incoming_shutdown(
                TcpListenerStream::new(listener),
                broker,
                server::ServerTLS::Disabled,
                &[Api::KuksaValV1, Api::KuksaValV2, Api::SdvDatabrokerV1],
                authorization,
                async {
                    let _ = rx.await;
                },
            )
            .await;
        });
        let mut channel = None;
        for _ in 0..100 {
            match Channel::from_shared(format!("http://127.0.0.1:{}", port)).unwrap().connect().await {
                Ok(c) => {
                    channel = Some(c);
                    break;
                }
                Err(_) => tokio::time::sleep(Duration::from_millis(10)).await,
            }
        }
        Grpc { channel: channel.expect("gRPC server did not come up"), _stop: tx }
    }
}

fn err_code(e: &p2::Error) -> Tok {
    e.code as Tok
}

impl ProvStream {
    /// reads the stream until the PublishValuesResponse with request id `want` arrives (None: the stream
    /// ended or nothing came within 2 s); actuation requests met on the way go to the inbox
    async fn read_until(&mut self, want: i32) -> Option<Vec<(i32, Tok)>> {
        use p2::open_provider_stream_response::Action as A;
        if let Some(a) = self.answers.remove(&want) {
            return Some(a);
        }
        let deadline = tokio::time::Instant::now() + Duration::from_secs(2);
        loop {
            match tokio::time::timeout_at(deadline, self.rx.message()).await {
                Ok(Ok(Some(m))) => match m.action {
                    Some(A::BatchActuateStreamRequest(r)) => {
                        let call = r
                            .actuate_requests
                            .into_iter()
                            .map(|a| {
                                let id = match a.signal_id.and_then(|s| s.signal) {
                                    Some(p2::signal_id::Signal::Id(i)) => i,
                                    _ => -1,
                                };
                                (id, from_v2_value(&a.value).unwrap_or(DataValue::NotAvailable))
                            })
                            .collect();
                        self.inbox.lock().unwrap().push(call);
                    }
                    Some(A::PublishValuesResponse(r)) => {
                        let mut errs: Vec<(i32, Tok)> = r.status.iter().map(|(i, e)| (*i, err_code(e))).collect();
                        errs.sort();
                        if r.request_id == want {
                            return Some(errs);
                        }
                        self.answers.insert(r.request_id, errs);
                    }
                    _ => {}
                },
                _ => {
                    self.dead = true;
                    return None;
                }
            }
        }
    }

    /// barrier: a publish of an id that cannot exist is answered with an error response, which travels
    /// behind everything the broker queued for this provider before
    pub async fn sync(&mut self) {
        if self.dead {
            return;
        }
        self.next_req += 1;
        let k = -self.next_req;
        let mut dps = HashMap::new();
        dps.insert(i32::MAX, p2::Datapoint { timestamp: None, value: None });
        let req = p2::OpenProviderStreamRequest {
            action: Some(p2::open_provider_stream_request::Action::PublishValuesRequest(p2::PublishValuesRequest {
                request_id: k,
                data_points: dps,
            })),
        };
        if self.tx.send(req).await.is_err() {
            self.dead = true;
            return;
        }
        let _ = self.read_until(k).await;
    }
}

fn token_header(w: &World, p: Tok) -> Option<String> {
    let scope = if p < 0 { String::new() } else { w.scopes.get(p as usize).cloned().unwrap_or_default() };
    Some(format!("Bearer {}", crate::fam_viss::token_for(&scope)))
}

pub async fn step_prov(w: &mut World, op: Tok, c: &mut Cur<'_>) -> Vec<Vec<Tok>> {
    let bad = vec![vec![-1]];
    // the databroker's own server (whose start also starts the 1 s housekeeping task) is needed by the operations that
    // go over the wire; the in-process provider of operation 64 must NOT start it: its scenarios lose providers and
    // count on housekeeping running only when the history says so
    if w.grpc.is_none() && op != 64 {
        w.grpc = Some(Grpc::start(w.broker.clone()).await);
    }
    match op {
        60 => {
            let (Some(p), Some(n)) = (c.next(), c.next()) else { return bad };
            let mut identifiers = Vec::new();
            for _ in 0..n {
                match c.next() {
                    Some(0) | Some(1) => identifiers.push(p2::SignalId { signal: None }),
                    Some(2) => match c.string() {
                        Some(s) => identifiers.push(p2::SignalId { signal: Some(p2::signal_id::Signal::Path(s)) }),
                        None => return bad,
                    },
                    Some(3) => match c.next() {
                        Some(i) => identifiers.push(p2::SignalId { signal: Some(p2::signal_id::Signal::Id(i as i32)) }),
                        None => return bad,
                    },
                    _ => return bad,
                }
            }
            let hdr = token_header(w, p);
            let channel = w.grpc.as_ref().unwrap().channel.clone();
            let mut client = p2::val_client::ValClient::new(channel);
            let (tx, rx) = tokio::sync::mpsc::channel(64);
            let first = p2::OpenProviderStreamRequest {
                action: Some(p2::open_provider_stream_request::Action::ProvideActuationRequest(p2::ProvideActuationRequest {
                    actuator_identifiers: identifiers,
                })),
            };
            if tx.send(first).await.is_err() {
                return bad;
            }
            let resp = match client.open_provider_stream(with_auth(ReceiverStream::new(rx), &hdr)).await {
                Err(s) => return vec![vec![1, code_num(s.code())]],
                Ok(r) => r,
            };
            let mut st = resp.into_inner();
            match tokio::time::timeout(Duration::from_secs(2), st.message()).await {
                Ok(Ok(Some(m))) => match m.action {
                    Some(p2::open_provider_stream_response::Action::ProvideActuationResponse(_)) => {
                        let inbox = Arc::new(Mutex::new(Vec::new()));
                        let avail = Arc::new(std::sync::atomic::AtomicBool::new(true));
                        w.provs.push((inbox.clone(), avail));
                        let h = w.provs.len() - 1;
                        w.sprovs.insert(h, ProvStream { tx, rx: st, next_req: 0, inbox, answers: HashMap::new(), dead: false });
                        vec![vec![0, h as Tok]]
                    }
                    _ => vec![vec![-5]],
                },
                Ok(Err(s)) => vec![vec![1, code_num(s.code())]],
                Ok(Ok(None)) => vec![vec![-6]],
                Err(_) => vec![vec![-88]],
            }
        }
        61 => {
            let (Some(_p), Some(h), Some(n)) = (c.next(), c.next(), c.next()) else { return bad };
            let mut dps = HashMap::new();
            for _ in 0..n {
                let (Some(id), Some(v)) = (c.next(), c.opt_value()) else { return bad };
                dps.insert(id as i32, p2::Datapoint { timestamp: None, value: v.as_ref().map(v2_value) });
            }
            let Some(ps) = w.sprovs.get_mut(&(h as usize)) else { return bad };
            ps.next_req += 1;
            let k = ps.next_req;
            let req = p2::OpenProviderStreamRequest {
                action: Some(p2::open_provider_stream_request::Action::PublishValuesRequest(p2::PublishValuesRequest {
                    request_id: k,
                    data_points: dps,
                })),
            };
            if ps.tx.send(req).await.is_err() {
                return vec![vec![-6]];
            }
            // a fully accepted publish is not answered at all: the barrier tells "no answer" from "not yet"
            ps.sync().await;
            if ps.dead {
                return vec![vec![-6]];
            }
            let errs = ps.answers.remove(&k).unwrap_or_default();
            let mut o = vec![0, errs.len() as Tok];
            for (i, e) in errs {
                o.push(i as Tok);
                o.push(e);
            }
            vec![o]
        }
        64 => {
            let (Some(p), Some(n)) = (c.next(), c.next()) else { return bad };
            let mut identifiers = Vec::new();
            for _ in 0..n {
                match c.next() {
                    Some(0) | Some(1) => identifiers.push(p2::SignalId { signal: None }),
                    Some(2) => match c.string() {
                        Some(s) => identifiers.push(p2::SignalId { signal: Some(p2::signal_id::Signal::Path(s)) }),
                        None => return bad,
                    },
                    Some(3) => match c.next() {
                        Some(i) => identifiers.push(p2::SignalId { signal: Some(p2::signal_id::Signal::Id(i as i32)) }),
                        None => return bad,
                    },
                    _ => return bad,
                }
            }
            let first = p2::OpenProviderStreamRequest {
                action: Some(p2::open_provider_stream_request::Action::ProvideActuationRequest(p2::ProvideActuationRequest {
                    actuator_identifiers: identifiers,
                })),
            };
            let mut rq = tonic_mock::streaming_request(vec![first]);
            rq.extensions_mut().insert(w.perm(p));
            let resp = match p2::val_server::Val::open_provider_stream(&w.broker, rq).await {
                Err(s) => return vec![vec![1, code_num(s.code())]],
                Ok(r) => r,
            };
            let mut st: std::pin::Pin<Box<dyn futures::Stream<Item = Result<p2::OpenProviderStreamResponse, tonic::Status>> + Send>> =
                Box::pin(resp.into_inner());
            use futures::StreamExt;
            match tokio::time::timeout(Duration::from_secs(2), st.next()).await {
                Ok(Some(Ok(m))) => match m.action {
                    Some(p2::open_provider_stream_response::Action::ProvideActuationResponse(_)) => {
                        let inbox = Arc::new(Mutex::new(Vec::new()));
                        let avail = Arc::new(std::sync::atomic::AtomicBool::new(true));
                        w.provs.push((inbox.clone(), avail));
                        let h = w.provs.len() - 1;
                        w.lazy.push(LazyProv { handle: h, rx: st, inbox });
                        vec![vec![0, h as Tok]]
                    }
                    _ => vec![vec![-5]],
                },
                Ok(Some(Err(s))) => vec![vec![1, code_num(s.code())]],
                Ok(None) => vec![vec![-6]],
                Err(_) => vec![vec![-88]],
            }
        }
        62 => {
            let (Some(p), Some(n)) = (c.next(), c.next()) else { return bad };
            let cts = crate::fam_api::client_ts(w);
            let Some((updates, paths)) = crate::fam_api::parse_v1_updates(c, n, &cts) else { return bad };
            if !w.v1streams.contains_key(&p) {
                let hdr = token_header(w, p);
                let channel = w.grpc.as_ref().unwrap().channel.clone();
                let mut client = p1::val_client::ValClient::new(channel);
                let (tx, rx) = tokio::sync::mpsc::channel(64);
                match client.streamed_update(with_auth(ReceiverStream::new(rx), &hdr)).await {
                    Err(s) => return vec![vec![1, code_num(s.code())]],
                    Ok(r) => {
                        w.v1streams.insert(p, V1Stream { tx, rx: r.into_inner() });
                    }
                }
            }
            // the elements whose path names no signal (or that have no entry), in request order
            let mut nonres: Vec<usize> = Vec::new();
            for (i, path) in paths.iter().enumerate() {
                match path {
                    None => nonres.push(i),
                    Some(x) => {
                        if crate::fam_api::block_id(w, x).await < 0 {
                            nonres.push(i)
                        }
                    }
                }
            }
            let st = w.v1streams.get_mut(&p).unwrap();
            if st.tx.send(p1::StreamedUpdateRequest { updates }).await.is_err() {
                return vec![vec![-6]];
            }
            let resp = match tokio::time::timeout(Duration::from_secs(2), st.rx.message()).await {
                Ok(Ok(Some(m))) => m,
                Ok(Err(s)) => return vec![vec![1, code_num(s.code())]],
                Ok(Ok(None)) => return vec![vec![-6]],
                Err(_) => return vec![vec![-88]],
            };
            // the message-level error repeats the first element error
            let top = resp.error.as_ref().map(|e| e.code as Tok);
            let first = resp.errors.first().and_then(|e| e.error.as_ref()).map(|e| e.code as Tok);
            if top != first {
                return vec![vec![-7]];
            }
            let mut errs: Vec<(Tok, Tok)> = Vec::new();
            let mut ui = 0;
            for e in &resp.errors {
                let code = e.error.as_ref().map(|x| x.code as Tok).unwrap_or(-1);
                let id = if e.path.is_empty() { -1 } else { crate::fam_api::block_id(w, &e.path).await };
                if id < 0 {
                    if ui < nonres.len() {
                        // an element without entry is reported with an empty path, an unknown path with that path
                        let want = paths[nonres[ui]].clone().unwrap_or_default();
                        if want != e.path {
                            return vec![vec![-9]];
                        }
                        errs.push((-(nonres[ui] as Tok + 1), code));
                        ui += 1;
                    } else {
                        errs.push((-1000, code));
                    }
                } else {
                    errs.push((id, code));
                }
            }
            errs.sort_by_key(|e| e.0);
            let mut o = vec![0, errs.len() as Tok];
            for (a, c) in errs {
                o.push(a);
                o.push(c);
            }
            vec![o]
        }
        63 => {
            let (Some(p), Some(n)) = (c.next(), c.next()) else { return bad };
            let cts = crate::fam_api::client_ts(w);
            let mut dps = HashMap::new();
            for _ in 0..n {
                let (Some(id), Some(v)) = (c.next(), c.opt_value()) else { return bad };
                dps.insert(id as i32, ps::Datapoint { timestamp: cts.clone(), value: v.as_ref().and_then(crate::fam_api::sdv_value) });
            }
            if !w.sdvstreams.contains_key(&p) {
                let hdr = token_header(w, p);
                let channel = w.grpc.as_ref().unwrap().channel.clone();
                let mut client = ps::collector_client::CollectorClient::new(channel);
                let (tx, rx) = tokio::sync::mpsc::channel(64);
                match client.stream_datapoints(with_auth(ReceiverStream::new(rx), &hdr)).await {
                    Err(s) => return vec![vec![1, code_num(s.code())]],
                    Ok(r) => {
                        w.sdvstreams.insert(p, SdvStream { tx, rx: r.into_inner() });
                    }
                }
            }
            let st = w.sdvstreams.get_mut(&p).unwrap();
            if st.tx.send(ps::StreamDatapointsRequest { datapoints: dps }).await.is_err() {
                return vec![vec![-6]];
            }
            // a fully accepted message is not answered: a second message naming only an id that cannot exist is,
            // and its reply travels behind the reply to the first
            let mut barrier = HashMap::new();
            barrier.insert(BARRIER_ID, ps::Datapoint { timestamp: None, value: None });
            if st.tx.send(ps::StreamDatapointsRequest { datapoints: barrier }).await.is_err() {
                return vec![vec![-6]];
            }
            let mut errs: Vec<(Tok, Tok)> = Vec::new();
            let mut replies = 0;
            loop {
                match tokio::time::timeout(Duration::from_secs(2), st.rx.message()).await {
                    Ok(Ok(Some(m))) => {
                        if m.errors.len() == 1 && m.errors.contains_key(&BARRIER_ID) {
                            break;
                        }
                        replies += 1;
                        errs.extend(m.errors.into_iter().map(|(a, c)| (a as Tok, c as Tok)));
                    }
                    Ok(Err(s)) => return vec![vec![1, code_num(s.code())]],
                    Ok(Ok(None)) => return vec![vec![-6]],
                    Err(_) => return vec![vec![-88]],
                }
            }
            if replies > 1 {
                return vec![vec![-7]];
            }
            errs.sort_by_key(|e| e.0);
            let mut o = vec![0, errs.len() as Tok];
            for (a, c) in errs {
                o.push(a);
                o.push(c);
            }
            vec![o]
        }
        _ => bad,
    }
}

/// before the state is dumped: everything the broker has queued for the stream providers is read
pub async fn sync_streams(w: &mut World) {
    // the handler tasks of the lazy providers get a chance to forward, then everything readable is read
    for _ in 0..3 {
        tokio::task::yield_now().await;
        for l in w.lazy.iter_mut() {
            l.drain(1000);
        }
    }
    let mut hs: Vec<usize> = w.sprovs.keys().copied().collect();
    hs.sort();
    for h in hs {
        if let Some(ps) = w.sprovs.get_mut(&h) {
            ps.sync().await;
        }
    }
}

//! gRPC handlers of kuksa.val.v1 / kuksa.val.v2 / sdv.databroker.v1 called as trait methods on the
//! real DataBroker (Permissions in the request extensions, as the interceptor does).
//! Operation lines and canonical outputs: coq/Model/ApiRun.v.
use crate::codec::{enc_str, enc_value, Cur, Tok};
use crate::fam_hist::World;
use crate::util::*;
use databroker::types::DataValue;
use databroker_proto::kuksa::val::v1 as p1;
use databroker_proto::kuksa::val::v2 as p2;
use databroker_proto::sdv::databroker::v1 as ps;
use futures::StreamExt;
use std::collections::HashMap;
use std::time::SystemTime;

fn status(s: &tonic::Status) -> Vec<Vec<Tok>> {
    vec![vec![code_num(s.code())]]
}

// ---------------------------------------------------------------- value conversions (test glue)
pub fn v2_value(v: &DataValue) -> p2::Value {
    use p2::value::TypedValue as T;
    p2::Value {
        typed_value: match v.clone() {
            DataValue::NotAvailable => None,
            DataValue::Bool(x) => Some(T::Bool(x)),
            DataValue::String(x) => Some(T::String(x)),
            DataValue::Int32(x) => Some(T::Int32(x)),
            DataValue::Int64(x) => Some(T::Int64(x)),
            DataValue::Uint32(x) => Some(T::Uint32(x)),
            DataValue::Uint64(x) => Some(T::Uint64(x)),
            DataValue::Float(x) => Some(T::Float(x)),
            DataValue::Double(x) => Some(T::Double(x)),
            DataValue::BoolArray(values) => Some(T::BoolArray(p2::BoolArray { values })),
            DataValue::StringArray(values) => Some(T::StringArray(p2::StringArray { values })),
            DataValue::Int32Array(values) => Some(T::Int32Array(p2::Int32Array { values })),
            DataValue::Int64Array(values) => Some(T::Int64Array(p2::Int64Array { values })),
            DataValue::Uint32Array(values) => Some(T::Uint32Array(p2::Uint32Array { values })),
            DataValue::Uint64Array(values) => Some(T::Uint64Array(p2::Uint64Array { values })),
            DataValue::FloatArray(values) => Some(T::FloatArray(p2::FloatArray { values })),
            DataValue::DoubleArray(values) => Some(T::DoubleArray(p2::DoubleArray { values })),
        },
    }
}

pub fn from_v2_value(v: &Option<p2::Value>) -> Option<DataValue> {
    use p2::value::TypedValue as T;
    let tv = v.as_ref()?.typed_value.as_ref()?;
    Some(match tv.clone() {
        T::Bool(x) => DataValue::Bool(x),
        T::String(x) => DataValue::String(x),
        T::Int32(x) => DataValue::Int32(x),
        T::Int64(x) => DataValue::Int64(x),
        T::Uint32(x) => DataValue::Uint32(x),
        T::Uint64(x) => DataValue::Uint64(x),
        T::Float(x) => DataValue::Float(x),
        T::Double(x) => DataValue::Double(x),
        T::BoolArray(a) => DataValue::BoolArray(a.values),
        T::StringArray(a) => DataValue::StringArray(a.values),
        T::Int32Array(a) => DataValue::Int32Array(a.values),
        T::Int64Array(a) => DataValue::Int64Array(a.values),
        T::Uint32Array(a) => DataValue::Uint32Array(a.values),
        T::Uint64Array(a) => DataValue::Uint64Array(a.values),
        T::FloatArray(a) => DataValue::FloatArray(a.values),
        T::DoubleArray(a) => DataValue::DoubleArray(a.values),
    })
}

pub fn v1_value(v: &DataValue) -> Option<p1::datapoint::Value> {
    use p1::datapoint::Value as T;
    Some(match v.clone() {
        DataValue::NotAvailable => return None,
        DataValue::Bool(x) => T::Bool(x),
        DataValue::String(x) => T::String(x),
        DataValue::Int32(x) => T::Int32(x),
        DataValue::Int64(x) => T::Int64(x),
        DataValue::Uint32(x) => T::Uint32(x),
        DataValue::Uint64(x) => T::Uint64(x),
        DataValue::Float(x) => T::Float(x),
        DataValue::Double(x) => T::Double(x),
        DataValue::BoolArray(values) => T::BoolArray(p1::BoolArray { values }),
        DataValue::StringArray(values) => T::StringArray(p1::StringArray { values }),
        DataValue::Int32Array(values) => T::Int32Array(p1::Int32Array { values }),
        DataValue::Int64Array(values) => T::Int64Array(p1::Int64Array { values }),
        DataValue::Uint32Array(values) => T::Uint32Array(p1::Uint32Array { values }),
        DataValue::Uint64Array(values) => T::Uint64Array(p1::Uint64Array { values }),
        DataValue::FloatArray(values) => T::FloatArray(p1::FloatArray { values }),
        DataValue::DoubleArray(values) => T::DoubleArray(p1::DoubleArray { values }),
    })
}

pub fn from_v1_value(v: &Option<p1::datapoint::Value>) -> Option<DataValue> {
    use p1::datapoint::Value as T;
    Some(match v.clone()? {
        T::Bool(x) => DataValue::Bool(x),
        T::String(x) => DataValue::String(x),
        T::Int32(x) => DataValue::Int32(x),
        T::Int64(x) => DataValue::Int64(x),
        T::Uint32(x) => DataValue::Uint32(x),
        T::Uint64(x) => DataValue::Uint64(x),
        T::Float(x) => DataValue::Float(x),
        T::Double(x) => DataValue::Double(x),
        T::BoolArray(a) => DataValue::BoolArray(a.values),
        T::StringArray(a) => DataValue::StringArray(a.values),
        T::Int32Array(a) => DataValue::Int32Array(a.values),
        T::Int64Array(a) => DataValue::Int64Array(a.values),
        T::Uint32Array(a) => DataValue::Uint32Array(a.values),
        T::Uint64Array(a) => DataValue::Uint64Array(a.values),
        T::FloatArray(a) => DataValue::FloatArray(a.values),
        T::DoubleArray(a) => DataValue::DoubleArray(a.values),
    })
}

pub fn sdv_value(v: &DataValue) -> Option<ps::datapoint::Value> {
    use ps::datapoint::Value as T;
    Some(match v.clone() {
        DataValue::NotAvailable => return None,
        DataValue::Bool(x) => T::BoolValue(x),
        DataValue::String(x) => T::StringValue(x),
        DataValue::Int32(x) => T::Int32Value(x),
        DataValue::Int64(x) => T::Int64Value(x),
        DataValue::Uint32(x) => T::Uint32Value(x),
        DataValue::Uint64(x) => T::Uint64Value(x),
        DataValue::Float(x) => T::FloatValue(x),
        DataValue::Double(x) => T::DoubleValue(x),
        DataValue::BoolArray(values) => T::BoolArray(ps::BoolArray { values }),
        DataValue::StringArray(values) => T::StringArray(ps::StringArray { values }),
        DataValue::Int32Array(values) => T::Int32Array(ps::Int32Array { values }),
        DataValue::Int64Array(values) => T::Int64Array(ps::Int64Array { values }),
        DataValue::Uint32Array(values) => T::Uint32Array(ps::Uint32Array { values }),
        DataValue::Uint64Array(values) => T::Uint64Array(ps::Uint64Array { values }),
        DataValue::FloatArray(values) => T::FloatArray(ps::FloatArray { values }),
        DataValue::DoubleArray(values) => T::DoubleArray(ps::DoubleArray { values }),
    })
}

/// sdv datapoint -> (value | failure code)
pub fn from_sdv_value(v: &Option<ps::datapoint::Value>) -> Result<Option<DataValue>, Tok> {
    use ps::datapoint::Value as T;
    Ok(Some(match v.clone() {
        None => return Ok(None),
        Some(T::FailureValue(f)) => return Err(f as Tok),
        Some(T::BoolValue(x)) => DataValue::Bool(x),
        Some(T::StringValue(x)) => DataValue::String(x),
        Some(T::Int32Value(x)) => DataValue::Int32(x),
        Some(T::Int64Value(x)) => DataValue::Int64(x),
        Some(T::Uint32Value(x)) => DataValue::Uint32(x),
        Some(T::Uint64Value(x)) => DataValue::Uint64(x),
        Some(T::FloatValue(x)) => DataValue::Float(x),
        Some(T::DoubleValue(x)) => DataValue::Double(x),
        Some(T::BoolArray(a)) => DataValue::BoolArray(a.values),
        Some(T::StringArray(a)) => DataValue::StringArray(a.values),
        Some(T::Int32Array(a)) => DataValue::Int32Array(a.values),
        Some(T::Int64Array(a)) => DataValue::Int64Array(a.values),
        Some(T::Uint32Array(a)) => DataValue::Uint32Array(a.values),
        Some(T::Uint64Array(a)) => DataValue::Uint64Array(a.values),
        Some(T::FloatArray(a)) => DataValue::FloatArray(a.values),
        Some(T::DoubleArray(a)) => DataValue::DoubleArray(a.values),
    }))
}

fn ts_of(w: &World, t: &Option<prost_types_ts::Timestamp>, cur: SystemTime) -> Tok {
    match t {
        Some(ts) => {
            let st = std::time::UNIX_EPOCH
                + std::time::Duration::new(ts.seconds.max(0) as u64, ts.nanos.max(0) as u32);
            w.ts_index(st, cur)
        }
        None => -8,
    }
}

mod prost_types_ts {
    pub use prost_types::Timestamp;
}

fn enc_opt_dp(out: &mut Vec<Tok>, v: Option<DataValue>, ts: Tok) {
    match v {
        None => {
            out.push(0);
            out.push(ts)
        }
        Some(v) => {
            out.push(1);
            enc_value(&v, out);
            out.push(ts)
        }
    }
}

fn enc_opt_val(out: &mut Vec<Tok>, v: Option<DataValue>) {
    match v {
        None => out.push(0),
        Some(v) => {
            out.push(1);
            enc_value(&v, out)
        }
    }
}

// ---------------------------------------------------------------- decoding helpers
fn sig(c: &mut Cur) -> Option<Option<p2::SignalId>> {
    Some(match c.next()? {
        0 => None,
        1 => Some(p2::SignalId { signal: None }),
        2 => Some(p2::SignalId { signal: Some(p2::signal_id::Signal::Path(c.string()?)) }),
        _ => Some(p2::SignalId { signal: Some(p2::signal_id::Signal::Id(c.next()? as i32)) }),
    })
}

/// 0 | 1 0 | 1 1 value   ->  None | Some(None) | Some(Some(v))
fn opt_opt_value(c: &mut Cur) -> Option<Option<Option<DataValue>>> {
    Some(match c.next()? {
        0 => None,
        _ => Some(c.opt_value()?),
    })
}

/// n x (pathflag [path] fields vflag [value] tflag [value]) -> the EntryUpdates and the path each one names
pub fn parse_v1_updates(
    c: &mut Cur,
    n: Tok,
    cts: &Option<prost_types::Timestamp>,
) -> Option<(Vec<p1::EntryUpdate>, Vec<Option<String>>)> {
    let mut updates = Vec::new();
    let mut paths: Vec<Option<String>> = Vec::new();
    for _ in 0..n {
        let pf = c.next()?;
        let path = if pf == 0 { None } else { Some(c.string()?) };
        let fields = c.next()?;
        let v = opt_opt_value(c)?;
        let t = opt_opt_value(c)?;
        let mk = |x: Option<DataValue>| p1::Datapoint {
            timestamp: cts.clone(),
            value: x.as_ref().and_then(v1_value),
        };
        let mut fl = Vec::new();
        if fields & 1 != 0 {
            fl.push(p1::Field::Value as i32);
        }
        if fields & 2 != 0 {
            fl.push(p1::Field::ActuatorTarget as i32);
        }
        paths.push(path.clone());
        updates.push(p1::EntryUpdate {
            entry: path.map(|path| p1::DataEntry {
                path,
                value: v.map(mk),
                actuator_target: t.map(mk),
                metadata: None,
            }),
            fields: fl,
        });
    }
    Some((updates, paths))
}

/// the client-side timestamp the handler-level writes of this operation carry (every second operation)
pub fn client_ts(w: &World) -> Option<prost_types::Timestamp> {
    // mostly the year 2001; now and then a time no calendar library can print (9e12 s after / before the epoch still
    // fits a SystemTime) or the year 10000: whatever the broker does with a client's timestamp, it has to go on
    // answering every reader of that signal
    let n = w.windows.len() as i64;
    match w.windows.len() % 12 {
        2 => Some(prost_types::Timestamp { seconds: 9_000_000_000_000 + n, nanos: 1 }),
        6 => Some(prost_types::Timestamp { seconds: -9_000_000_000_000 - n, nanos: 999_999_999 }),
        10 => Some(prost_types::Timestamp { seconds: 253_402_300_800 + n, nanos: 0 }),
        k if k % 2 == 0 => Some(prost_types::Timestamp { seconds: 1_000_000_000 + n, nanos: 123_000_000 }),
        _ => None,
    }
}

pub async fn step_api(w: &mut World, op: Tok, c: &mut Cur<'_>, start: SystemTime) -> Vec<Vec<Tok>> {
    let bad = vec![vec![-1]];
    let Some(p) = c.next() else { return bad };
    let perms = w.perm(p);
    let b = w.broker.clone();
    // every second operation sends its datapoints with a client-side ("source") timestamp from the year 2001: the
    // broker keeps it aside and must go on reporting the time at which IT received the value
    let cts = client_ts(w);
    match op {
        20 => {
            let (Some(view), Some(path)) = (c.next(), c.string()) else { return bad };
            // optional: explicitly requested fields (1 Value, 2 ActuatorTarget, 4 Metadata)
            let mask = c.next().unwrap_or(0);
            let mut fields = Vec::new();
            if mask & 1 != 0 {
                fields.push(p1::Field::Value as i32);
            }
            if mask & 2 != 0 {
                fields.push(p1::Field::ActuatorTarget as i32);
            }
            if mask & 4 != 0 {
                fields.push(p1::Field::Metadata as i32);
            }
            if mask & 8 != 0 {
                fields.push(p1::Field::MetadataDataType as i32);
            }
            if mask & 16 != 0 {
                fields.push(p1::Field::MetadataEntryType as i32);
            }
            if mask & 32 != 0 {
                fields.push(p1::Field::MetadataValueRestriction as i32);
            }
            if mask & 64 != 0 {
                fields.push(p1::Field::MetadataUnit as i32);
                fields.push(p1::Field::MetadataDescription as i32);
            }
            let r = p1::val_server::Val::get(
                &b,
                req(
                    p1::GetRequest {
                        entries: vec![p1::EntryRequest { path, view: view as i32, fields }],
                    },
                    Some(&perms),
                ),
            )
            .await;
            match r {
                Err(s) => status(&s),
                Ok(resp) => {
                    let resp = resp.into_inner();
                    let code = resp.errors.first().and_then(|e| e.error.as_ref()).map(|e| e.code as Tok).unwrap_or(0);
                    let mut rows: Vec<(Tok, Vec<Tok>)> = Vec::new();
                    for e in &resp.entries {
                        let id = block_id(w, &e.path).await;
                        let mut o = vec![203, id];
                        match &e.value {
                            Some(dp) => {
                                o.push(1);
                                enc_opt_dp(&mut o, from_v1_value(&dp.value), ts_of(w, &dp.timestamp, start))
                            }
                            None => o.push(0),
                        }
                        match &e.actuator_target {
                            Some(dp) => {
                                o.push(1);
                                enc_opt_dp(&mut o, from_v1_value(&dp.value), ts_of(w, &dp.timestamp, start))
                            }
                            None => o.push(0),
                        }
                        match &e.metadata {
                            Some(m) => {
                                o.push(1);
                                o.push(m.data_type as Tok);
                                o.push(m.entry_type as Tok);
                                enc_restriction_v1(&mut o, &m.value_restriction);
                                // description / unit: as registered when the request names them (all metadata, or
                                // the unit + description fields), absent otherwise
                                let named = mask & (4 | 64) != 0 || view == 3 || view == 20;
                                match w.reg.get(&(id as i32)) {
                                    Some((d, u)) => {
                                        let (wd, wu) = if named { (Some(d.clone()), u.clone()) } else { (None, None) };
                                        o.push((m.description == wd) as Tok);
                                        o.push((m.unit == wu) as Tok);
                                    }
                                    None => o.extend([1, 1]),
                                }
                            }
                            None => o.push(0),
                        }
                        rows.push((id, o));
                    }
                    rows.sort_by_key(|r| r.0);
                    let mut out = vec![vec![code, rows.len() as Tok]];
                    out.extend(rows.into_iter().map(|r| r.1));
                    out
                }
            }
        }
        21 => {
            let Some(n) = c.next() else { return bad };
            let Some((updates, paths)) = parse_v1_updates(c, n, &cts) else { return bad };
            let r = p1::val_server::Val::set(&b, req(p1::SetRequest { updates }, Some(&perms))).await;
            match r {
                Err(s) => status(&s),
                Ok(resp) => {
                    let resp = resp.into_inner();
                    // 404s come first, in request order; then update errors
                    let mut errs: Vec<(Tok, Tok)> = Vec::new();
                    let mut unknown_idx: Vec<usize> = Vec::new();
                    for (i, p) in paths.iter().enumerate() {
                        if let Some(p) = p {
                            if block_id(w, p).await < 0 {
                                unknown_idx.push(i);
                            }
                        }
                    }
                    let mut ui = 0;
                    for e in &resp.errors {
                        let code = e.error.as_ref().map(|x| x.code as Tok).unwrap_or(-1);
                        let id = block_id(w, &e.path).await;
                        if id < 0 && ui < unknown_idx.len() {
                            errs.push((-(unknown_idx[ui] as Tok + 1), code));
                            ui += 1;
                        } else {
                            errs.push((id, code));
                        }
                    }
                    errs.sort_by_key(|e| e.0);
                    let mut o = vec![0, errs.len() as Tok];
                    for (a, c) in errs {
                        o.push(a);
                        o.push(c);
                    }
                    vec![o]
                }
            }
        }
        22 => {
            let Some(s) = sig(c) else { return bad };
            match p2::val_server::Val::get_value(&b, req(p2::GetValueRequest { signal_id: s }, Some(&perms))).await {
                Err(s) => status(&s),
                Ok(r) => {
                    let mut o = vec![0];
                    match r.into_inner().data_point {
                        Some(dp) => enc_opt_dp(&mut o, from_v2_value(&dp.value), ts_of(w, &dp.timestamp, start)),
                        None => o.push(-4),
                    }
                    vec![o]
                }
            }
        }
        23 => {
            let Some(n) = c.next() else { return bad };
            let mut ids = Vec::new();
            for _ in 0..n {
                match sig(c) {
                    Some(Some(s)) => ids.push(s),
                    Some(None) => ids.push(p2::SignalId { signal: None }),
                    None => return bad,
                }
            }
            match p2::val_server::Val::get_values(&b, req(p2::GetValuesRequest { signal_ids: ids }, Some(&perms))).await {
                Err(s) => status(&s),
                Ok(r) => {
                    let dps = r.into_inner().data_points;
                    let mut o = vec![0, dps.len() as Tok];
                    for dp in dps {
                        enc_opt_dp(&mut o, from_v2_value(&dp.value), ts_of(w, &dp.timestamp, start));
                    }
                    vec![o]
                }
            }
        }
        24 => {
            let (Some(s), Some(dp)) = (sig(c), opt_opt_value(c)) else { return bad };
            let data_point = dp.map(|v| p2::Datapoint {
                timestamp: cts.clone(),
                value: v.as_ref().map(v2_value),
            });
            match p2::val_server::Val::publish_value(&b, req(p2::PublishValueRequest { signal_id: s, data_point }, Some(&perms))).await {
                Err(s) => status(&s),
                Ok(_) => vec![vec![0]],
            }
        }
        25 => {
            let (Some(s), Some(v)) = (sig(c), opt_opt_value(c)) else { return bad };
            let value = v.map(|x| match x {
                Some(x) => v2_value(&x),
                None => p2::Value { typed_value: None },
            });
            match p2::val_server::Val::actuate(&b, req(p2::ActuateRequest { signal_id: s, value }, Some(&perms))).await {
                Err(s) => status(&s),
                Ok(_) => vec![vec![0]],
            }
        }
        26 => {
            let Some(n) = c.next() else { return bad };
            let mut reqs = Vec::new();
            for _ in 0..n {
                let (Some(s), Some(v)) = (sig(c), opt_opt_value(c)) else { return bad };
                let value = v.map(|x| match x {
                    Some(x) => v2_value(&x),
                    None => p2::Value { typed_value: None },
                });
                reqs.push(p2::ActuateRequest { signal_id: s, value });
            }
            match p2::val_server::Val::batch_actuate(&b, req(p2::BatchActuateRequest { actuate_requests: reqs }, Some(&perms))).await {
                Err(s) => status(&s),
                Ok(_) => vec![vec![0]],
            }
        }
        27 => {
            let Some(root) = c.string() else { return bad };
            match p2::val_server::Val::list_metadata(&b, req(p2::ListMetadataRequest { root, filter: String::new() }, Some(&perms))).await {
                Err(s) => status(&s),
                Ok(r) => {
                    let mut ms = r.into_inner().metadata;
                    ms.sort_by_key(|m| m.id);
                    let mut out = vec![vec![0, ms.len() as Tok]];
                    for m in ms {
                        let mut o = vec![201, m.id as Tok, m.data_type as Tok, m.entry_type as Tok];
                        enc_opt_val(&mut o, from_v2_value(&m.min));
                        enc_opt_val(&mut o, from_v2_value(&m.max));
                        enc_opt_val(&mut o, from_v2_value(&m.allowed_values));
                        // description / unit as registered? (v2 reports an absent unit as the empty string)
                        match w.reg.get(&m.id) {
                            Some((d, u)) => {
                                o.push((m.description == *d) as Tok);
                                o.push((m.unit == u.clone().unwrap_or_default()) as Tok);
                            }
                            None => o.extend([1, 1]),
                        }
                        out.push(o);
                    }
                    out
                }
            }
        }
        28 => {
            let Some(n) = c.next() else { return bad };
            let mut names = Vec::new();
            for _ in 0..n {
                let Some(s) = c.string() else { return bad };
                names.push(s);
            }
            match ps::broker_server::Broker::get_datapoints(&b, req(ps::GetDatapointsRequest { datapoints: names.clone() }, Some(&perms))).await {
                Err(s) => status(&s),
                Ok(r) => {
                    let map = r.into_inner().datapoints;
                    let mut out = vec![vec![0, names.len() as Tok]];
                    for nme in names {
                        let mut o = vec![204];
                        enc_str(&nme, &mut o);
                        match map.get(&nme) {
                            Some(dp) => match from_sdv_value(&dp.value) {
                                Ok(v) => {
                                    o.push(1);
                                    enc_opt_dp(&mut o, v, ts_of(w, &dp.timestamp, start))
                                }
                                Err(f) => {
                                    o.push(0);
                                    o.push(f)
                                }
                            },
                            None => o.push(-4),
                        }
                        out.push(o);
                    }
                    out
                }
            }
        }
        29 => {
            let Some(n) = c.next() else { return bad };
            let mut dps = HashMap::new();
            let mut names = Vec::new();
            for _ in 0..n {
                let (Some(name), Some(v)) = (c.string(), c.opt_value()) else { return bad };
                names.push(name.clone());
                dps.insert(name, ps::Datapoint { timestamp: cts.clone(), value: v.as_ref().and_then(sdv_value) });
            }
            match ps::broker_server::Broker::set_datapoints(&b, req(ps::SetDatapointsRequest { datapoints: dps }, Some(&perms))).await {
                Err(s) => status(&s),
                Ok(r) => {
                    let errors = r.into_inner().errors;
                    let mut errs: Vec<(Tok, Tok)> = Vec::new();
                    for (i, name) in names.iter().enumerate() {
                        if let Some(code) = errors.get(name) {
                            let id = block_id(w, name).await;
                            // rejected before the update (unknown / not an actuator) or by the update
                            let pre = id < 0 || !is_actuator(w, id).await;
                            errs.push((if pre { -(i as Tok + 1) } else { id }, *code as Tok));
                        }
                    }
                    errs.sort_by_key(|e| e.0);
                    let mut o = vec![0, errs.len() as Tok];
                    for (a, c) in errs {
                        o.push(a);
                        o.push(c);
                    }
                    vec![o]
                }
            }
        }
        30 => {
            let Some(n) = c.next() else { return bad };
            let mut dps = HashMap::new();
            for _ in 0..n {
                let (Some(id), Some(v)) = (c.next(), c.opt_value()) else { return bad };
                dps.insert(id as i32, ps::Datapoint { timestamp: cts.clone(), value: v.as_ref().and_then(sdv_value) });
            }
            match ps::collector_server::Collector::update_datapoints(&b, req(ps::UpdateDatapointsRequest { datapoints: dps }, Some(&perms))).await {
                Err(s) => status(&s),
                Ok(r) => {
                    let mut errs: Vec<(Tok, Tok)> = r.into_inner().errors.into_iter().map(|(a, c)| (a as Tok, c as Tok)).collect();
                    errs.sort_by_key(|e| e.0);
                    let mut o = vec![0, errs.len() as Tok];
                    for (a, c) in errs {
                        o.push(a);
                        o.push(c);
                    }
                    vec![o]
                }
            }
        }
        31 => {
            let Some(n) = c.next() else { return bad };
            let mut list = Vec::new();
            let mut names = Vec::new();
            for _ in 0..n {
                let (Some(name), Some(dt), Some(ct)) = (c.string(), c.next(), c.next()) else { return bad };
                names.push(name.clone());
                list.push(ps::RegistrationMetadata {
                    description: crate::fam_hist::reg_texts(&name).0,
                    name,
                    data_type: dt as i32,
                    change_type: ct as i32,
                });
            }
            let r = ps::collector_server::Collector::register_datapoints(&b, req(ps::RegisterDatapointsRequest { list }, Some(&perms))).await;
            // ids handed out by registrations must be known to the DUMP even when the reply is an error
            for nme in &names {
                let id = block_id(w, nme).await;
                if id >= 0 && !w.ids.contains(&(id as i32)) {
                    w.ids.push(id as i32);
                }
                if id >= 0 {
                    // registered through sdv: that description, no unit (an existing signal keeps its texts)
                    w.reg.entry(id as i32).or_insert((crate::fam_hist::reg_texts(nme).0, None));
                }
            }
            match r {
                Err(s) => status(&s),
                Ok(r) => {
                    let res = r.into_inner().results;
                    let mut o = vec![0, names.len() as Tok];
                    for nme in names {
                        enc_str(&nme, &mut o);
                        o.push(res.get(&nme).map(|x| *x as Tok).unwrap_or(-4));
                    }
                    vec![o]
                }
            }
        }
        32 => {
            let Some(n) = c.next() else { return bad };
            let mut names = Vec::new();
            for _ in 0..n {
                let Some(s) = c.string() else { return bad };
                names.push(s);
            }
            match ps::broker_server::Broker::get_metadata(&b, req(ps::GetMetadataRequest { names }, Some(&perms))).await {
                Err(s) => status(&s),
                Ok(r) => {
                    let mut ms = r.into_inner().list;
                    ms.sort_by_key(|m| m.id);
                    let mut out = vec![vec![0, ms.len() as Tok]];
                    for m in ms {
                        let mut o = vec![202, m.id as Tok, m.data_type as Tok, m.entry_type as Tok, m.change_type as Tok];
                        enc_str(&m.name, &mut o);
                        enc_opt_val(&mut o, sdv_restriction(&m.min));
                        enc_opt_val(&mut o, sdv_restriction(&m.max));
                        enc_opt_val(&mut o, sdv_allowed(&m.allowed));
                        // description as registered? (sdv metadata has no unit)
                        o.push(match w.reg.get(&m.id) {
                            Some((d, _)) => (m.description == *d) as Tok,
                            None => 1,
                        });
                        out.push(o);
                    }
                    out
                }
            }
        }
        // ---- subscriptions through the handlers: the proto stream is read back into the core's message
        //      type, so that RECV / DROP and the canonical message lines of the history family apply
        33 => {
            let Some(n) = c.next() else { return bad };
            let mut entries = Vec::new();
            for _ in 0..n {
                let (Some(mask), Some(path)) = (c.next(), c.string()) else { return bad };
                let mut fields = Vec::new();
                if mask & 1 != 0 {
                    fields.push(p1::Field::Value as i32);
                }
                if mask & 2 != 0 {
                    fields.push(p1::Field::ActuatorTarget as i32);
                }
                if mask & 4 != 0 {
                    fields.push(p1::Field::MetadataUnit as i32);
                }
                // fields the handler ignores
                fields.push(p1::Field::MetadataDescription as i32);
                fields.push(99);
                entries.push(p1::SubscribeEntry { path, view: 0, fields });
            }
            let ids = path_ids(w).await;
            let request = p1::SubscribeRequest { entries };
            match p1::val_server::Val::subscribe(&b, req(request, Some(&perms))).await {
                Err(s) => vec![vec![1, code_num(s.code())]],
                Ok(r) => {
                    let st = r.into_inner().map(move |m| match m {
                        Ok(m) => v1_to_core(m, &ids),
                        Err(_) => databroker::broker::EntryUpdates::default(),
                    });
                    w.subs.push(Some(Box::pin(st)));
                    vec![vec![0, (w.subs.len() - 1) as Tok]]
                }
            }
        }
        34 => {
            let (Some(buf), Some(n)) = (c.next(), c.next()) else { return bad };
            let mut paths = Vec::new();
            let mut nums = Vec::new();
            for _ in 0..n {
                match c.next() {
                    Some(2) => match c.string() {
                        Some(s) => paths.push(s),
                        None => return bad,
                    },
                    Some(3) => match c.next() {
                        Some(i) => nums.push(i as i32),
                        None => return bad,
                    },
                    _ => return bad,
                }
            }
            if !paths.is_empty() && !nums.is_empty() {
                return bad;
            }
            let ids = path_ids(w).await;
            if nums.is_empty() {
                let request = p2::SubscribeRequest { signal_paths: paths, buffer_size: buf as u32 };
                match p2::val_server::Val::subscribe(&b, req(request, Some(&perms))).await {
                    Err(s) => vec![vec![1, code_num(s.code())]],
                    Ok(r) => {
                        let st = r.into_inner().map(move |m| match m {
                            Ok(m) => v2_to_core(m.entries.into_iter().filter_map(|(p, d)| ids.get(&p).map(|i| (*i, d))).collect()),
                            Err(_) => databroker::broker::EntryUpdates::default(),
                        });
                        w.subs.push(Some(Box::pin(st)));
                        vec![vec![0, (w.subs.len() - 1) as Tok]]
                    }
                }
            } else {
                let request = p2::SubscribeByIdRequest { signal_ids: nums, buffer_size: buf as u32 };
                match p2::val_server::Val::subscribe_by_id(&b, req(request, Some(&perms))).await {
                    Err(s) => vec![vec![1, code_num(s.code())]],
                    Ok(r) => {
                        let st = r.into_inner().map(move |m| match m {
                            Ok(m) => v2_to_core(m.entries.into_iter().collect()),
                            Err(_) => databroker::broker::EntryUpdates::default(),
                        });
                        w.subs.push(Some(Box::pin(st)));
                        vec![vec![0, (w.subs.len() - 1) as Tok]]
                    }
                }
            }
        }
        _ => bad,
    }
}

/// path -> id of every registered signal (the client's view of the catalogue)
async fn path_ids(w: &World) -> HashMap<String, i32> {
    let all = all();
    let mut m = HashMap::new();
    w.broker
        .authorized_access(&all)
        .for_each_entry(|e| {
            m.insert(e.metadata().path.clone(), e.metadata().id);
        })
        .await;
    m
}

fn sys_time(t: &Option<prost_types_ts::Timestamp>) -> SystemTime {
    match t {
        Some(ts) => std::time::UNIX_EPOCH + std::time::Duration::new(ts.seconds.max(0) as u64, ts.nanos.max(0) as u32),
        None => std::time::UNIX_EPOCH,
    }
}

/// a kuksa.val.v1 SubscribeResponse read back as the core's message
fn v1_to_core(m: p1::SubscribeResponse, ids: &HashMap<String, i32>) -> databroker::broker::EntryUpdates {
    use databroker::broker::{ChangeNotification, Datapoint, EntryUpdate, Field};
    let conv = |d: p1::Datapoint| Datapoint {
        ts: sys_time(&d.timestamp),
        source_ts: None,
        value: from_v1_value(&d.value).unwrap_or(DataValue::NotAvailable),
    };
    let mut updates = Vec::new();
    for u in m.updates {
        let Some(e) = u.entry else { continue };
        let id = ids.get(&e.path).copied().unwrap_or(-1);
        let fields: std::collections::HashSet<Field> = u
            .fields
            .iter()
            .filter_map(|f| match *f {
                2 => Some(Field::Datapoint),
                3 => Some(Field::ActuatorTarget),
                16 => Some(Field::MetadataUnit),
                _ => None,
            })
            .collect();
        let actuator_target = if fields.contains(&Field::ActuatorTarget) { Some(e.actuator_target.map(conv)) } else { None };
        updates.push(ChangeNotification {
            id,
            update: EntryUpdate { datapoint: e.value.map(conv), actuator_target, ..Default::default() },
            fields,
        });
    }
    databroker::broker::EntryUpdates { updates }
}

/// a kuksa.val.v2 Subscribe(ById)Response read back as the core's message
fn v2_to_core(entries: Vec<(i32, p2::Datapoint)>) -> databroker::broker::EntryUpdates {
    use databroker::broker::{ChangeNotification, Datapoint, EntryUpdate, Field};
    let updates = entries
        .into_iter()
        .map(|(id, d)| ChangeNotification {
            id,
            update: EntryUpdate {
                datapoint: Some(Datapoint {
                    ts: sys_time(&d.timestamp),
                    source_ts: None,
                    value: from_v2_value(&d.value).unwrap_or(DataValue::NotAvailable),
                }),
                ..Default::default()
            },
            fields: [Field::Datapoint].into_iter().collect(),
        })
        .collect();
    databroker::broker::EntryUpdates { updates }
}

pub async fn block_id(w: &World, path: &str) -> Tok {
    let all = all();
    match w.broker.authorized_access(&all).get_id_by_path(path).await {
        Some(id) => id as Tok,
        None => -1,
    }
}

async fn is_actuator(w: &World, id: Tok) -> bool {
    let all = all();
    match w.broker.authorized_access(&all).get_metadata(id as i32).await {
        Some(m) => m.entry_type == databroker::types::EntryType::Actuator,
        None => false,
    }
}

fn sdv_restriction(v: &Option<ps::ValueRestriction>) -> Option<DataValue> {
    use ps::value_restriction::TypedValue as T;
    Some(match v.as_ref()?.typed_value.clone()? {
        T::String(x) => DataValue::String(x),
        T::Bool(x) => DataValue::Bool(x),
        T::Int32(x) => DataValue::Int32(x),
        T::Int64(x) => DataValue::Int64(x),
        T::Uint32(x) => DataValue::Uint32(x),
        T::Uint64(x) => DataValue::Uint64(x),
        T::Float(x) => DataValue::Float(x),
        T::Double(x) => DataValue::Double(x),
    })
}

fn sdv_allowed(v: &Option<ps::Allowed>) -> Option<DataValue> {
    use ps::allowed::Values as T;
    Some(match v.as_ref()?.values.clone()? {
        T::StringValues(a) => DataValue::StringArray(a.values),
        T::Int32Values(a) => DataValue::Int32Array(a.values),
        T::Int64Values(a) => DataValue::Int64Array(a.values),
        T::Uint32Values(a) => DataValue::Uint32Array(a.values),
        T::Uint64Values(a) => DataValue::Uint64Array(a.values),
        T::FloatValues(a) => DataValue::FloatArray(a.values),
        T::DoubleValues(a) => DataValue::DoubleArray(a.values),
    })
}

fn enc_restriction_v1(o: &mut Vec<Tok>, r: &Option<p1::ValueRestriction>) {
    use p1::value_restriction::Type as T;
    let oz = |o: &mut Vec<Tok>, x: Option<Tok>| match x {
        None => o.push(0),
        Some(z) => {
            o.push(1);
            o.push(z)
        }
    };
    match r.as_ref().and_then(|r| r.r#type.clone()) {
        None => o.push(0),
        Some(T::String(s)) => {
            o.push(1);
            o.push(s.allowed_values.len() as Tok);
            for v in &s.allowed_values {
                enc_str(v, o);
            }
        }
        Some(T::Signed(s)) => {
            o.push(2);
            oz(o, s.min.map(|x| x as Tok));
            oz(o, s.max.map(|x| x as Tok));
            o.push(s.allowed_values.len() as Tok);
            o.extend(s.allowed_values.iter().map(|x| *x as Tok));
        }
        Some(T::Unsigned(s)) => {
            o.push(3);
            oz(o, s.min.map(|x| x as Tok));
            oz(o, s.max.map(|x| x as Tok));
            o.push(s.allowed_values.len() as Tok);
            o.extend(s.allowed_values.iter().map(|x| *x as Tok));
        }
        Some(T::FloatingPoint(s)) => {
            o.push(4);
            oz(o, s.min.map(|x| x.to_bits() as Tok));
            oz(o, s.max.map(|x| x.to_bits() as Tok));
            o.push(s.allowed_values.len() as Tok);
            o.extend(s.allowed_values.iter().map(|x| x.to_bits() as Tok));
        }
    }
}

//! helpers shared by the handler-level families
use databroker::broker::DataBroker;
use databroker::permissions::{Permissions, ALLOW_ALL};

pub fn rt() -> tokio::runtime::Runtime {
    tokio::runtime::Builder::new_current_thread()
        .enable_all()
        .build()
        .expect("runtime")
}

pub fn req<T>(msg: T, perms: Option<&Permissions>) -> tonic::Request<T> {
    let mut r = tonic::Request::new(msg);
    if let Some(p) = perms {
        r.extensions_mut().insert(p.clone());
    }
    r
}

pub fn all() -> Permissions {
    ALLOW_ALL.clone()
}

/// gRPC status code -> HTTP-like class number used in canonical outputs
pub fn code_num(c: tonic::Code) -> i128 {
    c as i32 as i128
}

pub fn new_broker() -> DataBroker {
    DataBroker::new("v", "c")
}

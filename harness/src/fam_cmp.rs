//! C13: DataValue comparison functions, one call per case line.
use crate::codec::{Cur, Tok};

pub fn run_line(t: &[Tok]) -> Vec<Tok> {
    let mut c = Cur::new(t);
    let op = match c.next() {
        Some(o) => o,
        None => return vec![-1],
    };
    let (a, b) = match (c.value(), c.value()) {
        (Some(a), Some(b)) if c.done() => (a, b),
        _ => return vec![-1],
    };
    let r = match op {
        0 => a.greater_than(&b),
        1 => a.greater_than_equal(&b),
        2 => a.less_than(&b),
        3 => a.less_than_equal(&b),
        _ => a.equals(&b),
    };
    match r {
        Err(_) => vec![0],
        Ok(x) => vec![1, x as Tok],
    }
}

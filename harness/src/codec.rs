//! Integer-token codec shared with the Coq model (coq/Model/Values.v).
use databroker::types::{ChangeType, DataType, DataValue, EntryType};

pub type Tok = i128;

pub struct Cur<'a> {
    pub t: &'a [Tok],
    pub i: usize,
}

impl<'a> Cur<'a> {
    pub fn new(t: &'a [Tok]) -> Self {
        Cur { t, i: 0 }
    }
    pub fn next(&mut self) -> Option<Tok> {
        let v = self.t.get(self.i).copied();
        self.i += 1;
        v
    }
    pub fn done(&self) -> bool {
        self.i >= self.t.len()
    }
    pub fn take(&mut self, n: usize) -> Option<&'a [Tok]> {
        if self.i + n > self.t.len() {
            return None;
        }
        let s = &self.t[self.i..self.i + n];
        self.i += n;
        Some(s)
    }
    pub fn bytes(&mut self) -> Option<Vec<u8>> {
        let n = self.next()? as usize;
        Some(self.take(n)?.iter().map(|b| *b as u8).collect())
    }
    pub fn string(&mut self) -> Option<String> {
        String::from_utf8(self.bytes()?).ok()
    }
    pub fn arr(&mut self) -> Option<&'a [Tok]> {
        let n = self.next()? as usize;
        self.take(n)
    }
    pub fn value(&mut self) -> Option<DataValue> {
        let k = self.next()?;
        Some(match k {
            0 => DataValue::NotAvailable,
            1 => DataValue::Bool(self.next()? != 0),
            2 => DataValue::String(self.string()?),
            3 => DataValue::Int32(self.next()? as i32),
            4 => DataValue::Int64(self.next()? as i64),
            5 => DataValue::Uint32(self.next()? as u32),
            6 => DataValue::Uint64(self.next()? as u64),
            7 => DataValue::Float(f32::from_bits(self.next()? as u32)),
            8 => DataValue::Double(f64::from_bits(self.next()? as u64)),
            9 => DataValue::BoolArray(self.arr()?.iter().map(|x| *x != 0).collect()),
            10 => {
                let n = self.next()? as usize;
                let mut v = Vec::new();
                for _ in 0..n {
                    v.push(self.string()?);
                }
                DataValue::StringArray(v)
            }
            11 => DataValue::Int32Array(self.arr()?.iter().map(|x| *x as i32).collect()),
            12 => DataValue::Int64Array(self.arr()?.iter().map(|x| *x as i64).collect()),
            13 => DataValue::Uint32Array(self.arr()?.iter().map(|x| *x as u32).collect()),
            14 => DataValue::Uint64Array(self.arr()?.iter().map(|x| *x as u64).collect()),
            15 => DataValue::FloatArray(
                self.arr()?.iter().map(|x| f32::from_bits(*x as u32)).collect(),
            ),
            16 => DataValue::DoubleArray(
                self.arr()?.iter().map(|x| f64::from_bits(*x as u64)).collect(),
            ),
            _ => return None,
        })
    }
    pub fn data_type(&mut self) -> Option<DataType> {
        dec_data_type(self.next()?)
    }
    pub fn opt_value(&mut self) -> Option<Option<DataValue>> {
        match self.next()? {
            0 => Some(None),
            _ => Some(Some(self.value()?)),
        }
    }
}

pub fn enc_str(s: &str, out: &mut Vec<Tok>) {
    out.push(s.len() as Tok);
    out.extend(s.bytes().map(|b| b as Tok));
}

pub fn enc_value(v: &DataValue, out: &mut Vec<Tok>) {
    match v {
        DataValue::NotAvailable => out.push(0),
        DataValue::Bool(b) => {
            out.push(1);
            out.push(*b as Tok)
        }
        DataValue::String(s) => {
            out.push(2);
            enc_str(s, out)
        }
        DataValue::Int32(x) => {
            out.push(3);
            out.push(*x as Tok)
        }
        DataValue::Int64(x) => {
            out.push(4);
            out.push(*x as Tok)
        }
        DataValue::Uint32(x) => {
            out.push(5);
            out.push(*x as Tok)
        }
        DataValue::Uint64(x) => {
            out.push(6);
            out.push(*x as Tok)
        }
        DataValue::Float(x) => {
            out.push(7);
            out.push(x.to_bits() as Tok)
        }
        DataValue::Double(x) => {
            out.push(8);
            out.push(x.to_bits() as Tok)
        }
        DataValue::BoolArray(l) => {
            out.push(9);
            out.push(l.len() as Tok);
            out.extend(l.iter().map(|b| *b as Tok))
        }
        DataValue::StringArray(l) => {
            out.push(10);
            out.push(l.len() as Tok);
            for s in l {
                enc_str(s, out)
            }
        }
        DataValue::Int32Array(l) => {
            out.push(11);
            out.push(l.len() as Tok);
            out.extend(l.iter().map(|x| *x as Tok))
        }
        DataValue::Int64Array(l) => {
            out.push(12);
            out.push(l.len() as Tok);
            out.extend(l.iter().map(|x| *x as Tok))
        }
        DataValue::Uint32Array(l) => {
            out.push(13);
            out.push(l.len() as Tok);
            out.extend(l.iter().map(|x| *x as Tok))
        }
        DataValue::Uint64Array(l) => {
            out.push(14);
            out.push(l.len() as Tok);
            out.extend(l.iter().map(|x| *x as Tok))
        }
        DataValue::FloatArray(l) => {
            out.push(15);
            out.push(l.len() as Tok);
            out.extend(l.iter().map(|x| x.to_bits() as Tok))
        }
        DataValue::DoubleArray(l) => {
            out.push(16);
            out.push(l.len() as Tok);
            out.extend(l.iter().map(|x| x.to_bits() as Tok))
        }
    }
}

pub const DATA_TYPES: [DataType; 24] = [
    DataType::String,
    DataType::Bool,
    DataType::Int8,
    DataType::Int16,
    DataType::Int32,
    DataType::Int64,
    DataType::Uint8,
    DataType::Uint16,
    DataType::Uint32,
    DataType::Uint64,
    DataType::Float,
    DataType::Double,
    DataType::StringArray,
    DataType::BoolArray,
    DataType::Int8Array,
    DataType::Int16Array,
    DataType::Int32Array,
    DataType::Int64Array,
    DataType::Uint8Array,
    DataType::Uint16Array,
    DataType::Uint32Array,
    DataType::Uint64Array,
    DataType::FloatArray,
    DataType::DoubleArray,
];

pub fn dec_data_type(z: Tok) -> Option<DataType> {
    if z < 0 {
        return None;
    }
    DATA_TYPES.get(z as usize).cloned()
}
pub fn data_type_code(t: &DataType) -> Tok {
    DATA_TYPES.iter().position(|x| x == t).unwrap() as Tok
}
pub fn dec_entry_type(z: Tok) -> Option<EntryType> {
    match z {
        0 => Some(EntryType::Sensor),
        1 => Some(EntryType::Attribute),
        2 => Some(EntryType::Actuator),
        _ => None,
    }
}
pub fn entry_type_code(t: &EntryType) -> Tok {
    match t {
        EntryType::Sensor => 0,
        EntryType::Attribute => 1,
        EntryType::Actuator => 2,
    }
}
pub fn dec_change_type(z: Tok) -> Option<ChangeType> {
    match z {
        0 => Some(ChangeType::Static),
        1 => Some(ChangeType::OnChange),
        2 => Some(ChangeType::Continuous),
        _ => None,
    }
}

(* C05 — a scope string grants exactly the signals it names.  Theorems only. *)
From Coq Require Import ZArith Bool List.
From KD Require Import Model.Values Model.Perm Proofs.Perm.

(* grammar: exactly action[:seg(.seg)*] with seg = [A-Z][A-Za-z0-9]* | '*' *)
Theorem c05_grammar_sound : forall c sc, parse_one c = Some sc -> wf_scope sc /\ c = render sc.
Proof. exact grammar_sound. Qed.
Print Assumptions c05_grammar_sound.

Theorem c05_grammar_complete : forall sc, wf_scope sc -> parse_one (render sc) = Some sc.
Proof. exact grammar_complete. Qed.
Print Assumptions c05_grammar_complete.

(* one unknown action or malformed path invalidates the whole claim *)
Theorem c05_all_or_nothing : forall s exp c,
  In c (split_ws s) -> parse_one c = None -> perms_of_claims s exp = None.
Proof. exact bad_claim_no_permissions. Qed.
Print Assumptions c05_all_or_nothing.

(* each '*' stands for exactly one path level *)
Theorem c05_star_one_level : forall p path,
  has_star p = true -> covers p path = true ->
  length path = length p /\ Forall2 seg_rel p path.
Proof. exact star_one_level. Qed.
Print Assumptions c05_star_one_level.

(* 'action:Path' covers that node and everything below it, and nothing else *)
Theorem c05_branch_rule : forall p path,
  has_star p = false ->
  (covers p path = true <-> exists pre rest, path = pre ++ rest /\ Forall2 seg_rel p pre).
Proof. exact branch_rule. Qed.
Print Assumptions c05_branch_rule.

(* a name is never matched partially *)
Theorem c05_no_partial_name : forall p path i n,
  covers p path = true -> nth_error p i = Some (SName n) -> nth_error path i = Some n.
Proof. exact no_partial_name. Qed.
Print Assumptions c05_no_partial_name.

(* actions do not leak: a write right needs an unexpired covering scope of its own action *)
Theorem c05_write_needs_own_action : forall sc exp p now path a,
  perms_of_claims sc exp = Some p ->
  (a = AActuate \/ a = AProvide \/ a = ACreate) ->
  (match a with AActuate => can_write_actuator_target | AProvide => can_write_datapoint
              | _ => can_create end) p now path = POk ->
  expired p now = false /\
  exists ss s, parse_scope sc = Some ss /\ In s ss /\ sc_action s = a /\ scope_covers s path = true.
Proof. exact write_needs_own_action. Qed.
Print Assumptions c05_write_needs_own_action.

(* ... beyond the documented 'includes read' *)
Theorem c05_read_iff_any_action : forall sc exp p now path,
  perms_of_claims sc exp = Some p ->
  (can_read p now path = POk <->
   expired p now = false /\
   exists ss s, parse_scope sc = Some ss /\ In s ss /\ scope_covers s path = true).
Proof. exact read_iff_any_action. Qed.
Print Assumptions c05_read_iff_any_action.

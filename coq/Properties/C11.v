(* C11 — no deadlock.  Theorems only (proved in Proofs/Conc.v). *)
From Coq Require Import List Arith Bool.
Import ListNotations.
From KD Require Import Model.Conc Proofs.Conc.

(* generic: any number of tasks running any well-bracketed, lock-ordered programs over FIFO
   write-preferring read/write locks never reach a state in which a task is unfinished and no
   step is possible *)
Theorem c11_fifo_rw_deadlock_free : forall ps c,
  Forall (fun p => wf p = true) ps -> reach ps c ->
  (exists i t, nth_error (fst c) i = Some t /\ unfinished t) -> ~ stuck c.
Proof. exact fifo_rw_deadlock_free. Qed.
Print Assumptions c11_fifo_rw_deadlock_free.

(* the lock programs of all broker operations (checked against recorded traces on every run)
   are well-bracketed and ordered database-before-subscriptions *)
Theorem c11_ops_well_ordered : forallb wf all_lock_programs = true.
Proof. exact ops_well_ordered. Qed.
Print Assumptions c11_ops_well_ordered.

(* hence any concurrent mix of broker operations runs to completion under a fair scheduler *)
Theorem c11_every_call_completes : forall ps c,
  (forall p, In p ps -> In p all_lock_programs) -> reach ps c ->
  (exists i t, nth_error (fst c) i = Some t /\ unfinished t) -> ~ stuck c.
Proof. exact broker_ops_deadlock_free. Qed.
Print Assumptions c11_every_call_completes.

(* a writer is alone: the basis of treating a write section as one atomic action (C08, C10, C16) *)
Theorem c11_mutual_exclusion : forall ps c,
  Forall (fun p => wf p = true) ps -> reach ps c -> Inv c /\ Excl c.
Proof. exact mutual_exclusion. Qed.
Print Assumptions c11_mutual_exclusion.

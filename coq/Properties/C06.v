(* C06 — only authentic, unexpired, correctly addressed tokens open any RPC.  Theorems only. *)
From Coq Require Import ZArith Bool List.
From KD Require Import Model.Values Model.Auth Proofs.Auth.
Open Scope Z_scope.

Theorem c06_admitted_iff : forall t,
  admitted (HToken t) = true <->
  t_alg t = 0 /\ t_key t = 0 /\ t_sig t = 0 /\ t_claims t = 0 /\ (t_aud t = 0 \/ t_aud t = 2)
  /\ 0 < t_exp t /\ t_scope t = 0 /\ t_scheme t = 0.
Proof. exact admitted_iff. Qed.
Print Assumptions c06_admitted_iff.

Theorem c06_no_token_not_admitted :
  admitted HNone = false /\ admitted HGarbage = false /\ admitted HEmpty = false.
Proof. exact no_token_not_admitted. Qed.
Print Assumptions c06_no_token_not_admitted.

(* every RPC, whatever it is, answers UNAUTHENTICATED and changes nothing *)
Theorem c06_refused_unless_admitted : forall st rpc k h,
  admitted h = false -> call true st rpc k h = (st, UNAUTHENTICATED).
Proof. exact refused_unless_admitted. Qed.
Print Assumptions c06_refused_unless_admitted.

Theorem c06_tampering_invalidates : forall t t',
  admitted (HToken t) = true ->
  t_alg t' <> t_alg t \/ t_key t' <> t_key t \/ t_sig t' <> t_sig t \/ t_claims t' <> t_claims t
  \/ t_scope t' <> t_scope t \/ t_scheme t' <> t_scheme t \/ t_exp t' <= 0
  \/ (t_aud t' <> 0 /\ t_aud t' <> 2) ->
  admitted (HToken t') = false.
Proof. exact tampering_invalidates. Qed.
Print Assumptions c06_tampering_invalidates.

Theorem c06_disabled_serves_all : forall st rpc k h, call false st rpc k h = serve st rpc k.
Proof. exact disabled_serves_all. Qed.
Print Assumptions c06_disabled_serves_all.

Theorem c06_admitted_is_served : forall st rpc k h,
  admitted h = true -> call true st rpc k h = serve st rpc k.
Proof. exact admitted_is_served. Qed.
Print Assumptions c06_admitted_is_served.

Theorem c06_served_is_never_an_access_error : forall st rpc k,
  snd (serve st rpc k) <> UNAUTHENTICATED /\ snd (serve st rpc k) <> PERMISSION_DENIED.
Proof. exact served_is_never_an_access_error. Qed.
Print Assumptions c06_served_is_never_an_access_error.

(* ---------- the VISS socket (Model/Viss.v; TokOpen: the server runs with authorization disabled) ---------- *)
From KD Require Model.Perm Model.Broker Model.BrokerRun Model.Api Model.ApiRun Model.Viss Proofs.Viss.

(* authorization enabled: no token / a token that does not verify opens nothing and changes nothing *)
Theorem c06_viss_token_required : forall st path,
  Viss.viss_get st Viss.TokNone path = inr Viss.VTokenMissing /\ Viss.viss_get st Viss.TokBad path = inr Viss.VTokenInvalid
  /\ (forall x, Viss.viss_set st Viss.TokNone path x = (st, Viss.SetErr Viss.VTokenMissing))
  /\ (forall x, Viss.viss_set st Viss.TokBad path x = (st, Viss.SetErr Viss.VTokenInvalid))
  /\ Viss.viss_subscribe st Viss.TokNone path = (st, inr Viss.VTokenMissing)
  /\ Viss.viss_subscribe st Viss.TokBad path = (st, inr Viss.VTokenInvalid).
Proof. exact Proofs.Viss.viss_token_required. Qed.
Print Assumptions c06_viss_token_required.

(* authorization disabled: whatever the request carries, it is served with full rights *)
Theorem c06_viss_disabled_get : forall st path d,
  Api.too_long path = false ->
  (Viss.viss_get st Viss.TokOpen path = inl d <-> Api.v2_get_value st Perm.allow_all (Api.SigPath path) = Api.RValue d).
Proof. exact Proofs.Viss.viss_open_get_is_v2_get. Qed.
Print Assumptions c06_viss_disabled_get.

Theorem c06_viss_disabled_get_refusal : forall st path e,
  Viss.viss_get st Viss.TokOpen path = inr e -> e = Viss.VNotFound.
Proof. exact Proofs.Viss.viss_open_get_refusal. Qed.
Print Assumptions c06_viss_disabled_get_refusal.

Theorem c06_viss_disabled_subscribe : forall st path st' e,
  Viss.viss_subscribe st Viss.TokOpen path = (st', inr e) -> e <> Viss.VTokenMissing /\ e <> Viss.VTokenInvalid.
Proof. exact Proofs.Viss.viss_open_subscribe_not_token_error. Qed.
Print Assumptions c06_viss_disabled_subscribe.

(* the same header text presented again after the token's expiry instant is refused, whatever it was answered before:
   no verdict on a token outlives the token *)
Theorem c06_same_token_after_expiry_refused : forall st rpc k h, snd (call true st rpc k (expire h)) = UNAUTHENTICATED.
Proof. exact reuse_after_expiry_refused. Qed.
Print Assumptions c06_same_token_after_expiry_refused.


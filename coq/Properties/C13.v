(* C13 — cross-type numeric comparison agrees with the numbers' true order.
   This file contains only the property theorems; each is closed by `exact` of a lemma
   from Proofs/, followed by Print Assumptions. Statements are frozen in Pins/C13.v. *)
From Coq Require Import ZArith Reals.
From Flocq Require Import Core.
From KD Require Import Model.Values Model.Compare Proofs.CompareFloat Proofs.Compare.

(* an answer of greater_than is the exact order of the numbers represented (NaN: false) *)
Theorem c13_gt_correct : forall a b r,
  wf_value a -> wf_value b -> gt a b = Some r ->
  exists xa xb, xval a = Some xa /\ xval b = Some xb /\ (r = true <-> xgt xa xb).
Proof. exact gt_correct. Qed.
Print Assumptions c13_gt_correct.

Theorem c13_lt_correct : forall a b r,
  wf_value a -> wf_value b -> lt a b = Some r ->
  exists xa xb, xval a = Some xa /\ xval b = Some xb /\ (r = true <-> xgt xb xa).
Proof. exact lt_correct. Qed.
Print Assumptions c13_lt_correct.

(* equals answers true only for finite numbers less than the broker's epsilon apart *)
Theorem c13_eq_tolerance : forall a b xa xb,
  wf_value a -> wf_value b -> xval a = Some xa -> xval b = Some xb ->
  eq a b = Some true -> xclose (veps a b) xa xb.
Proof. exact eq_tolerance. Qed.
Print Assumptions c13_eq_tolerance.

(* equality holds for identical (finite) numbers, across kinds, whenever equals answers *)
Theorem c13_eq_same : forall a b v r,
  wf_value a -> wf_value b -> xval a = Some (XFin v) -> xval b = Some (XFin v) ->
  eq a b = Some r -> r = true.
Proof. exact eq_same. Qed.
Print Assumptions c13_eq_same.

Theorem c13_gte_true : forall a b xa xb,
  wf_value a -> wf_value b -> xval a = Some xa -> xval b = Some xb ->
  gte a b = Some true -> xgt xa xb \/ xclose (veps a b) xa xb.
Proof. exact gte_true. Qed.
Print Assumptions c13_gte_true.

Theorem c13_gte_false : forall a b xa xb,
  wf_value a -> wf_value b -> xval a = Some xa -> xval b = Some xb ->
  gte a b = Some false -> ~ xgt xa xb /\ (forall v, xa = XFin v -> xb = XFin v -> False).
Proof. exact gte_false. Qed.
Print Assumptions c13_gte_false.

Theorem c13_lte_true : forall a b xa xb,
  wf_value a -> wf_value b -> xval a = Some xa -> xval b = Some xb ->
  lte a b = Some true -> xgt xb xa \/ xclose (veps a b) xa xb.
Proof. exact lte_true. Qed.
Print Assumptions c13_lte_true.

(* it declines only for non-numeric operands or the documented unrepresentable conversion *)
Theorem c13_declines_only : forall a b,
  gt a b = None -> is_numeric a = false \/ is_numeric b = false \/ wide_vs_float a b = true.
Proof. exact gt_declines. Qed.
Print Assumptions c13_declines_only.

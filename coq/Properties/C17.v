(* C17 — loading a VSS file yields exactly its leaves, with their declared metadata.  Theorems only;
   each is closed by `exact` of a lemma of Proofs/Vss.v (Proofs/Api.v for the initial value). *)
From Coq Require Import ZArith Bool List.
From KD Require Import Model.Values Model.Compare Model.Validate Model.Perm Model.Glob Model.Broker
     Model.BrokerRun Model.Api Model.FloatLit Model.Vss Proofs.Broker Proofs.Api Proofs.Vss.
Open Scope Z_scope.

(* whatever is registered is a sensor / attribute / actuator node the loader reaches through
   branches, under the dot-joined names of its ancestors, with the entry built from its own
   declarations; a branch never becomes a signal *)
Theorem c17_only_leaves : forall f es q e,
  parse_vss f = Some es -> In (q, e) es ->
  exists i hc f' et, reach_root f q (Node i hc f') /\ n_type i = Present (type_of_kind et)
                     /\ leaf_entry i et = Some e.
Proof. exact parse_vss_sound. Qed.
Print Assumptions c17_only_leaves.

(* every leaf the loader reaches is registered under its path *)
Theorem c17_every_leaf : forall f es q i hc f' et,
  parse_vss f = Some es -> reach_root f q (Node i hc f') -> n_type i = Present (type_of_kind et) ->
  exists e, leaf_entry i et = Some e /\ exists e', In (q, e') es.
Proof. exact parse_vss_complete. Qed.
Print Assumptions c17_every_leaf.

(* the registered entry carries the declared data type, entry type, description, comment, unit, the
   declared or documented-default change type, and min / max / allowed / default converted for that type *)
Theorem c17_declared_metadata : forall i et e,
  leaf_entry i et = Some e ->
  n_dtype i = Present (de_dtype e) /\ de_etype e = et /\ n_desc i = Present (de_desc e)
  /\ de_comment e = n_comment i /\ de_unit e = n_unit i
  /\ de_ctype e = match n_ctype i with Present c => c | _ => default_change_type et end
  /\ opt_conv (single_of_json (de_dtype e)) (n_min i) = Some (de_min e)
  /\ opt_conv (single_of_json (de_dtype e)) (n_max i) = Some (de_max e)
  /\ match n_allowed i with
     | Absent => de_allowed e = None
     | Invalid => False
     | Present l => exists a, allowed_of_json (de_dtype e) l = Some a /\ de_allowed e = Some a
     end
  /\ match et with
     | Attribute => opt_conv (value_of_json (de_dtype e)) (n_default i) = Some (de_default e)
     | _ => de_default e = None
     end.
Proof. exact leaf_entry_fields. Qed.
Print Assumptions c17_declared_metadata.

Theorem c17_default_change_type : forall et,
  default_change_type et = match et with Attribute => Static | _ => Continuous end.
Proof. exact default_change_type_documented. Qed.
Print Assumptions c17_default_change_type.

(* typed extraction: integers exactly and only inside the declared type's range; float only finite;
   a JSON value of another kind never converts *)
Theorem c17_integer_exact : forall t rng j v,
  int_range t = Some rng -> scalar_of_json t j = Some v ->
  exists z, (j = JNum (JPos z) \/ j = JNum (JNeg z)) /\ rng z = true /\ unwrap_num v = Some z.
Proof. exact integer_declaration_exact. Qed.
Print Assumptions c17_integer_exact.

Theorem c17_float_finite : forall j v,
  scalar_of_json TFloat j = Some v -> exists n b, j = JNum n /\ v = VF32 b /\ f32_finite b = true.
Proof. exact float_declaration_finite. Qed.
Print Assumptions c17_float_finite.

Theorem c17_wrong_kind : forall t,
  (forall s, scalar_of_json t (JStr s) <> None -> t = TString)
  /\ (forall b, scalar_of_json t (JBool b) <> None -> t = TBool)
  /\ (forall l, scalar_of_json t (JArr l) = None) /\ scalar_of_json t JObj = None.
Proof. exact wrong_json_kind_rejected. Qed.
Print Assumptions c17_wrong_kind.

(* malformed documents are rejected as a whole *)
Theorem c17_unconvertible_leaf_rejected : forall f q i hc f' et,
  reach_root f q (Node i hc f') -> n_type i = Present (type_of_kind et) -> leaf_entry i et = None ->
  parse_vss f = None.
Proof. exact leaf_without_conversion_rejected. Qed.
Print Assumptions c17_unconvertible_leaf_rejected.

Theorem c17_unconvertible_iff : forall i et,
  leaf_entry i et = None <->
  (forall dt, n_dtype i <> Present dt) \/ (forall d, n_desc i <> Present d) \/
  exists dt, n_dtype i = Present dt /\
    (~ fits_single dt (n_min i) \/ ~ fits_single dt (n_max i)
     \/ (match n_allowed i with Absent => False | Invalid => True | Present l => allowed_of_json dt l = None end)
     \/ (et = Attribute /\ ~ fits_value dt (n_default i))).
Proof. exact leaf_entry_none_iff. Qed.
Print Assumptions c17_unconvertible_iff.

Theorem c17_branch_without_children_rejected : forall f q i f',
  reach_root f q (Node i false f') -> n_type i = Present NBranch -> parse_vss f = None.
Proof. exact branch_without_children_rejected. Qed.
Print Assumptions c17_branch_without_children_rejected.

Theorem c17_untyped_node_rejected : forall f q i hc f',
  reach_root f q (Node i hc f') -> (forall t, n_type i <> Present t) -> parse_vss f = None.
Proof. exact node_without_valid_type_rejected. Qed.
Print Assumptions c17_untyped_node_rejected.

(* start-up: the accepted default of an attribute is its first value, exactly *)
Theorem c17_default_is_initial_value : forall st p id v ch db',
  update_one (st_db st) p (st_now st) (st_clock st) id (dp_upd v) = (db', inl ch) ->
  f_dp ch = true ->
  exists e', lookup_id (entries db') id = Some e' /\ d_value (e_dp e') = v.
Proof. exact publish_stores_the_value. Qed.
Print Assumptions c17_default_is_initial_value.

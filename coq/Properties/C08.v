(* C08 — subscribers converge to the stored value under every interleaving.  Theorems only
   (proved in Proofs/Converge.v over Model/ConcSub.v). *)
From Coq Require Import List Arith Bool ZArith.
Import ListNotations.
From KD Require Import Model.Conc Model.ConcSub Proofs.Converge.
Open Scope nat_scope.

(* any number of publishers (update_entries), subscribers (subscribe) and housekeeping runs, in any
   interleaving at lock-acquisition granularity and under ANY grant order of the locks: once every
   call has returned, the last value each live subscriber was sent is the stored value *)
Theorem c08_converge : forall ks v0 c,
  creach ks v0 c -> all_finished ks c ->
  forall s, In s (sh_subs (c_shared c)) -> s_alive s = true ->
            exists front, s_sent s = front ++ [sh_v (c_shared c)].
Proof. exact converge. Qed.
Print Assumptions c08_converge.

(* what any live subscriber was sent after its snapshot is a suffix of one global notification
   sequence (so any two subscribers agree on their common part), and once idle that sequence is
   the order in which the store applied the changes *)
Theorem c08_same_order : forall ks v0 c,
  creach ks v0 c ->
  (forall s, In s (sh_subs (c_shared c)) -> s_alive s = true ->
             exists x n, n <= length (sh_notified (c_shared c)) /\
                         s_sent s = x :: skipn n (sh_notified (c_shared c))) /\
  (all_finished ks c -> sh_notified (c_shared c) = sh_hist (c_shared c)).
Proof. exact same_order. Qed.
Print Assumptions c08_same_order.

(* commit order and notification order coincide at every moment: at most one change is applied
   but not yet notified *)
Theorem c08_commit_order : forall ks v0 c,
  creach ks v0 c ->
  (pending ks c /\ sh_hist (c_shared c) = sh_notified (c_shared c) ++ [sh_v (c_shared c)]) \/
  (~ pending ks c /\ sh_hist (c_shared c) = sh_notified (c_shared c)).
Proof. exact hist_is_notified_plus_pending. Qed.
Print Assumptions c08_commit_order.

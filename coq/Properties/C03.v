(* C03 — no value is disclosed without read permission, or after the token expired.  Theorems only. *)
From Coq Require Import ZArith Bool List.
From KD Require Import Model.Values Model.Validate Model.Perm Model.Glob Model.Broker Model.BrokerRun Proofs.Broker.
Open Scope Z_scope.

(* a read hands out an entry only to a caller who may read its path right now *)
Theorem c03_read_needs_permission : forall db p now id e,
  read_entry db p now id = inl e ->
  lookup_id (entries db) id = Some e /\ can_read p now (path_segs (e_meta e)) = POk.
Proof. exact read_entry_ok. Qed.
Print Assumptions c03_read_needs_permission.

(* initial snapshot and change notifications carry only what the subscriber may read when they
   are built, and what they carry is the stored state *)
Theorem c03_snapshot_readable : forall db p now es, Forall (notif_ok db p now) (build_snapshot db p now es).
Proof. exact build_snapshot_ok. Qed.
Print Assumptions c03_snapshot_readable.

Theorem c03_notification_readable : forall db p now w l,
  build_notifs db p now w = Some l -> Forall (notif_ok db p now) l.
Proof. exact build_notifs_ok. Qed.
Print Assumptions c03_notification_readable.

(* for every history: no message ever put into a subscriber's stream names a signal outside the
   subscriber's scopes *)
Theorem c03_no_disclosure : forall h, subs_covered (run_history h).
Proof. exact history_subs_covered. Qed.
Print Assumptions c03_no_disclosure.

(* an open subscription stops delivering once its token has expired, and housekeeping removes it *)
Theorem c03_expired_sub_gets_nothing : forall db now changed s,
  expired (cs_perms s) now = true ->
  (forall id f, In (id, f) changed -> exists e, lookup_id (entries db) id = Some e) ->
  cs_sent (fst (notify_change db now changed s)) = cs_sent s.
Proof. exact expired_sub_gets_nothing. Qed.
Print Assumptions c03_expired_sub_gets_nothing.

Theorem c03_expired_sub_removed : forall now s,
  cs_registered s = true -> expired (cs_perms s) now = true ->
  cs_registered (cleanup_csub now s) = false.
Proof. exact cleanup_expired_sub. Qed.
Print Assumptions c03_expired_sub_removed.

(* ---------- through the handlers (Model/Api.v) ---------- *)
From KD Require Model.Api Proofs.Api.

(* a kuksa.val.v1 subscription is opened only if every selected signal is readable by the subscriber; it is then
   the core subscription of exactly those signals, to which the theorems above apply *)
Theorem c03_v1_subscribe_only_readable : forall st p path fl st' h,
  Api.v1_subscribe st p path fl = (st', inl h) ->
  exists es, Api.v1_sub_entries st p path fl = inl es /\ subscribe st p es None = (st', inl h) /\
             forall id f, In (id, f) es ->
               exists e, In (id, e) (entries (st_db st)) /\ f = fl /\
                         can_read p (st_now st) (path_segs (e_meta e)) = POk.
Proof. exact Proofs.Api.v1_subscribe_only_readable. Qed.
Print Assumptions c03_v1_subscribe_only_readable.

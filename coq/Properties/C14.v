(* C14 — wildcard requests return the documented set of signals.  Theorems only. *)
From Coq Require Import ZArith Bool List.
From KD Require Import Model.Values Model.Perm Model.Glob Proofs.Glob.
Open Scope Z_scope.

(* no signal outside the most liberal reading of the pattern is ever returned
   (v1 Get, v1 Subscribe, v2 ListMetadata and the raw matcher; any tree, any pattern) *)
Theorem c14_sound_liberal : forall api pat tree st sel i,
  select api pat tree = (st, sel) -> In i sel ->
  exists rp x, request_pattern pat = Some rp /\ 0 <= i /\
               nth_error tree (Z.to_nat i) = Some x /\ lib rp x = true.
Proof. exact select_sound. Qed.
Print Assumptions c14_sound_liberal.

(* every signal inside the strict documented reading is returned (supported patterns,
   prefix-free trees; the single-segment-leaf class of finding F12 is carved out) *)
Theorem c14_complete_strict : forall api pat tree rp i x,
  (api = 0 \/ api = 1 \/ api = 2) -> Z.of_nat (length pat) <= max_request_path_length ->
  matcher_accepts pat = true -> request_pattern pat = Some rp -> mixes rp = false ->
  prefix_free tree -> 0 <= i -> nth_error tree (Z.to_nat i) = Some x -> x <> [] ->
  strict rp x = true -> ~ single_segment_leaf rp x ->
  fst (select api pat tree) = 0 /\ In i (snd (select api pat tree)).
Proof. exact select_complete. Qed.
Print Assumptions c14_complete_strict.

(* a syntactically invalid pattern is rejected as a bad request and matches nothing *)
Theorem c14_invalid_rejected : forall api pat tree,
  matcher_accepts pat = false -> api <> 4 -> select api pat tree = (400, []).
Proof. exact invalid_rejected. Qed.
Print Assumptions c14_invalid_rejected.

(* witness of the carved-out class (known finding F12) *)
Theorem c14_single_segment_leaf_refuted :
  select 0 [65] [[[65]]] = (404, []) /\ strict [PName [65]] [[65]] = true.
Proof. exact single_segment_leaf_missed. Qed.
Print Assumptions c14_single_segment_leaf_refuted.

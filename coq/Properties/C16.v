(* C16 — signal identity.  Theorems only. *)
From Coq Require Import ZArith Bool List.
From KD Require Import Model.Values Model.Validate Model.Perm Model.Glob Model.Broker Model.BrokerRun Proofs.Broker Proofs.Interleave.
Open Scope Z_scope.

(* in every state reachable by any history of fewer than 2^31-1 operations, paths and ids are
   mutually inverse, every id is below the counter, and the counter grew by at most one per
   operation (the AtomicI32 wrap-around is modelled; the bound keeps it out of reach) *)
Theorem c16_bijection_inv : forall h,
  Z.of_nat (length h) < 2147483647 ->
  db_inv (st_db (run_history h)) /\ next_id (st_db (run_history h)) <= Z.of_nat (length h).
Proof. exact history_identity_inv. Qed.
Print Assumptions c16_bijection_inv.

Theorem c16_one_id_per_path_one_path_per_id : forall db,
  db_inv db ->
  (forall p id1 id2, lookup_path (path_to_id db) p = Some id1 ->
                     lookup_path (path_to_id db) p = Some id2 -> id1 = id2) /\
  (forall id1 id2 e1 e2, lookup_id (entries db) id1 = Some e1 -> lookup_id (entries db) id2 = Some e2 ->
                         m_path (e_meta e1) = m_path (e_meta e2) -> id1 = id2).
Proof. exact db_inv_injective. Qed.
Print Assumptions c16_one_id_per_path_one_path_per_id.

(* id, path and metadata of a registered signal never change, whatever happens later *)
Theorem c16_stable : forall h1 h2 id e,
  lookup_id (entries (st_db (run_history h1))) id = Some e ->
  exists e', lookup_id (entries (st_db (run_history (h1 ++ h2)))) id = Some e' /\ e_meta e' = e_meta e.
Proof. exact history_meta_immutable. Qed.
Print Assumptions c16_stable.

(* registering an existing path again returns the same id and leaves everything untouched *)
Theorem c16_idempotent : forall db p now clock name dt ct et mn mx al id,
  lookup_path (path_to_id db) name = Some id -> valid_path name = true ->
  can_create p now (split_on dot name) = POk ->
  add_entry db p now clock name dt ct et mn mx al = (db, inl id).
Proof. exact add_idempotent. Qed.
Print Assumptions c16_idempotent.

(* a refused registration (invalid name, inconsistent allowed type, no create right) consumes no id *)
Theorem c16_refusal_consumes_nothing : forall db p now clock name dt ct et mn mx al db' e,
  add_entry db p now clock name dt ct et mn mx al = (db', inr e) -> db' = db.
Proof. exact add_refusal_no_effect. Qed.
Print Assumptions c16_refusal_consumes_nothing.

(* concurrent registrations: every interleaving of registrations (each is one database.write()
   section, checked against the recorded lock trace) keeps paths and ids mutually inverse, so
   different paths get different ids *)
Theorem c16_concurrent_distinct : forall (regs : list (state -> state)) st0 ts st,
  (forall f, In f regs -> exists p name dt ct et mn mx al, f = reg_section p name dt ct et mn mx al) ->
  db_inv (st_db st0) -> next_id (st_db st0) + Z.of_nat (length regs) < 2147483647 ->
  ireach state (map (fun f => [f]) regs, st0) (ts, st) -> db_inv (st_db st).
Proof. exact registrations_all_schedules. Qed.
Print Assumptions c16_concurrent_distinct.

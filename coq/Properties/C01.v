(* C01 — latest-value store.  Theorems only (proved in Proofs/Broker.v). *)
From Coq Require Import ZArith Bool List.
From KD Require Import Model.Values Model.Validate Model.Perm Model.Glob Model.Broker Model.BrokerRun Proofs.Broker
     Model.Api Model.ApiRun Proofs.Api.
Open Scope Z_scope.

(* A batch that addresses each signal at most once: the response tells the writer exactly what
   happened — an id in the error list is untouched (value, timestamp, target), every other
   addressed id carries the requested change with the timestamp of this operation (unless it
   repeats the current value of a non-continuous signal), and nothing else changed. *)
Theorem c01_batch_contract : forall us db p now clock db' changed errs,
  NoDup (map fst us) ->
  apply_updates db p now clock us [] [] = (db', changed, errs) ->
  (forall id u, In (id, u) us ->
     (In id (map fst errs) -> lookup_id (entries db') id = lookup_id (entries db) id) /\
     (~ In id (map fst errs) ->
        exists e, lookup_id (entries db) id = Some e /\
                  lookup_id (entries db') id = Some (spec_apply e u clock))) /\
  (forall j, ~ In j (map fst us) -> lookup_id (entries db') j = lookup_id (entries db) j).
Proof. exact batch_contract. Qed.
Print Assumptions c01_batch_contract.

(* element level, for any batch: a rejected element changes nothing at all *)
Theorem c01_rejected_untouched : forall db p now clock id u err db',
  update_one db p now clock id u = (db', inr err) -> db' = db.
Proof. exact rejected_element_no_effect. Qed.
Print Assumptions c01_rejected_untouched.

(* an accepted element: exactly the requested change on exactly that entry, after passing the
   permission and validation checks *)
Theorem c01_accepted_takes_effect : forall db p now clock id u ch db',
  update_one db p now clock id u = (db', inl ch) ->
  exists e,
    lookup_id (entries db) id = Some e /\
    u_meta u = false /\
    (forall v, u_dp u = Some v -> can_write_datapoint p now (path_segs (e_meta e)) = POk) /\
    (forall t, u_target u = Some t -> can_write_actuator_target p now (path_segs (e_meta e)) = POk) /\
    (forall v, diff_dp e (u_dp u) = Some v -> validate_datapoint_value (vmeta_of (e_meta e)) v = None) /\
    (forall t, u_target u = Some (Some t) -> validate_datapoint_value (vmeta_of (e_meta e)) t = None) /\
    db' = {| next_id := next_id db; path_to_id := path_to_id db;
             entries := replace_id (entries db) id (spec_apply e u clock) |} /\
    ch = {| f_dp := match diff_dp e (u_dp u) with Some _ => true | None => false end;
            f_target := match u_target u with Some _ => true | None => false end;
            f_unit := false |}.
Proof. exact update_one_ok. Qed.
Print Assumptions c01_accepted_takes_effect.

(* a signal never written reads as NotAvailable (with the registration timestamp) *)
Theorem c01_new_signal_not_available : forall db p now clock name dt ct et mn mx al db' r,
  add_entry db p now clock name dt ct et mn mx al = (db', r) ->
  (db' = db /\ (forall id, r = inl id -> lookup_path (path_to_id db) name = Some id)) \/
  (exists e, r = inl (next_id db) /\
     lookup_path (path_to_id db) name = None /\ valid_path name = true /\
     can_create p now (split_on dot name) = POk /\ validate_allowed_type dt al = None /\
     m_id (e_meta e) = next_id db /\ m_path (e_meta e) = name /\ m_dtype (e_meta e) = dt /\
     m_etype (e_meta e) = et /\ m_ctype (e_meta e) = ct /\ m_min (e_meta e) = mn /\
     m_max (e_meta e) = mx /\ m_allowed (e_meta e) = al /\
     d_value (e_dp e) = VNA /\ d_ts (e_dp e) = clock /\ e_target e = None /\
     db' = {| next_id := wrap_i32 (next_id db + 1); path_to_id := (name, next_id db) :: path_to_id db;
              entries := entries db ++ [(next_id db, e)] |}).
Proof. exact add_entry_cases. Qed.
Print Assumptions c01_new_signal_not_available.

(* ---------- the client streams (kuksa.val.v1 StreamedUpdate, sdv StreamDatapoints) ---------- *)
(* a message of sdv StreamDatapoints is exactly one UpdateDatapoints *)
Theorem c01_sdv_stream_is_update : forall st p l, sdv_stream_msg st p l = sdv_update st p l.
Proof. exact sdv_stream_msg_is_update. Qed.
Print Assumptions c01_sdv_stream_is_update.
(* a StreamedUpdate message changes the store exactly as one core batch of the elements it can forward: those
   that name a registered signal and carry no target for a non-actuator, unchanged and in request order; the
   elements it turns away have no influence on the others *)
Theorem c01_v1_stream_is_core : forall st p l,
  fst (v1_stream_msg st p l) = fst (update_entries st p (filter_map (v1_forwardable (st_db st)) l)).
Proof. exact v1_stream_msg_is_core. Qed.
Print Assumptions c01_v1_stream_is_core.
(* every element of the message is either forwarded to the core or answered with an error of its own *)
Theorem c01_v1_stream_every_element : forall st l,
  (length (snd (v1_stream_resolve (st_db st) l [] [] 0)) + length (filter_map (v1_forwardable (st_db st)) l)
   = length l)%nat.
Proof. exact v1_stream_every_element_answered_or_forwarded. Qed.
Print Assumptions c01_v1_stream_every_element.
(* where Set does not refuse the request as a whole, Set and StreamedUpdate hand the same batch to the core *)
Theorem c01_v1_set_stream_same_core : forall st l ups nf,
  v1_set_resolve (st_db st) l [] [] 0 = inl (ups, nf) ->
  fst (v1_stream_resolve (st_db st) l [] [] 0) = ups.
Proof. exact v1_set_stream_same_core. Qed.
Print Assumptions c01_v1_set_stream_same_core.


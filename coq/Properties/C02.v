(* C02 — type, range and allowed-value integrity.  Theorems only; statements frozen in Pins/C02.v.
   (The store/forward invariants over histories are stated in Properties/C01.v and C09.v on top
   of these decision-level theorems.) *)
From Coq Require Import ZArith Bool List.
From KD Require Import Model.Values Model.Compare Model.Validate Proofs.Compare Proofs.Validate
     Model.Perm Model.Glob Model.Broker Model.BrokerRun Proofs.Broker Proofs.Store Proofs.StoreDomain.

(* a value other than NotAvailable is accepted by validate()/validate_actuator_value()
   if and only if it lies in the signal's declared domain *)
Theorem c02_validate_iff_domain : forall m v,
  is_na v = false -> (validate_datapoint_value m v = None <-> in_domainb m v = true).
Proof. exact validate_iff_domain. Qed.
Print Assumptions c02_validate_iff_domain.

(* what the domain means: carrier kind, 8/16-bit range, min/max in the exact order of the
   numbers (up to the broker's epsilon), IEEE-equal to an allowed member *)
Theorem c02_domain_meaning : forall m v,
  in_domainb m v = true ->
  shape_ok (vm_type m) v = true /\ Forall (elem_in_domain m) (elems v).
Proof. exact domain_meaning. Qed.
Print Assumptions c02_domain_meaning.

(* NotAvailable is the only value outside the domain that can be accepted *)
Theorem c02_na_only_exception : forall m v,
  validate_datapoint_value m v = None -> v = VNA \/ in_domainb m v = true.
Proof.
  intros m v H. destruct (is_na v) eqn:E.
  - left. destruct v; try discriminate; reflexivity.
  - right. apply (validate_iff_domain m v E). exact H.
Qed.
Print Assumptions c02_na_only_exception.

Theorem c02_na_iff_no_allowed : forall m,
  validate_datapoint_value m VNA = None <-> vm_allowed m = None.
Proof. exact validate_na. Qed.
Print Assumptions c02_na_iff_no_allowed.

(* ---------- over histories (Proofs/Store.v, Proofs/StoreDomain.v) ---------- *)
(* the store invariant: in every state reachable by ANY finite history of operations (registrations, update
   batches by any principal, subscriptions, claims, actuations, housekeeping, shutdown) the current value, the
   previous value (LAG) and the target of every signal are NotAvailable or lie in the signal's declared domain *)
Theorem c02_store_inv : forall h id e,
  lookup_id (entries (st_db (run_history h))) id = Some e ->
  in_domain_or_na (vmeta_of (e_meta e)) (d_value (e_dp e)) /\
  in_domain_or_na (vmeta_of (e_meta e)) (d_value (e_lag e)) /\
  (forall d, e_target e = Some d -> in_domain_or_na (vmeta_of (e_meta e)) (d_value d)).
Proof. exact history_store_in_domain. Qed.
Print Assumptions c02_store_inv.

(* ... hence so is whatever a reader (get, snapshot, notification, query input) is handed *)
Theorem c02_read_in_domain : forall h p now id e,
  read_entry (st_db (run_history h)) p now id = inl e ->
  in_domain_or_na (vmeta_of (e_meta e)) (d_value (e_dp e)) /\
  (forall d, e_target e = Some d -> in_domain_or_na (vmeta_of (e_meta e)) (d_value d)).
Proof. exact history_read_in_domain. Qed.
Print Assumptions c02_read_in_domain.

(* a value forwarded to a provider has passed the actuator validation of its signal *)
Theorem c02_forwarded_validated : forall st p id v st',
  actuate st p id v = (st', None) ->
  exists e, read_entry (st_db st) p (st_now st) id = inl e /\
            validate_actuator_value (vmeta_of (e_meta e)) v = None.
Proof. exact actuate_forwards_validated. Qed.
Print Assumptions c02_forwarded_validated.


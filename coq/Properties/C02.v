(* C02 — type, range and allowed-value integrity.  Theorems only; statements frozen in Pins/C02.v.
   (The store/forward invariants over histories are stated in Properties/C01.v and C09.v on top
   of these decision-level theorems.) *)
From Coq Require Import ZArith Bool List.
From KD Require Import Model.Values Model.Compare Model.Validate Proofs.Compare Proofs.Validate.

(* a value other than NotAvailable is accepted by validate()/validate_actuator_value()
   if and only if it lies in the signal's declared domain *)
Theorem c02_validate_iff_domain : forall m v,
  is_na v = false -> (validate_datapoint_value m v = None <-> in_domainb m v = true).
Proof. exact validate_iff_domain. Qed.
Print Assumptions c02_validate_iff_domain.

(* what the domain means: carrier kind, 8/16-bit range, min/max in the exact order of the
   numbers (up to the broker's epsilon), IEEE-equal to an allowed member *)
Theorem c02_domain_meaning : forall m v,
  in_domainb m v = true ->
  shape_ok (vm_type m) v = true /\ Forall (elem_in_domain m) (elems v).
Proof. exact domain_meaning. Qed.
Print Assumptions c02_domain_meaning.

(* NotAvailable is the only value outside the domain that can be accepted *)
Theorem c02_na_only_exception : forall m v,
  validate_datapoint_value m v = None -> v = VNA \/ in_domainb m v = true.
Proof.
  intros m v H. destruct (is_na v) eqn:E.
  - left. destruct v; try discriminate; reflexivity.
  - right. apply (validate_iff_domain m v E). exact H.
Qed.
Print Assumptions c02_na_only_exception.

Theorem c02_na_iff_no_allowed : forall m,
  validate_datapoint_value m VNA = None <-> vm_allowed m = None.
Proof. exact validate_na. Qed.
Print Assumptions c02_na_iff_no_allowed.

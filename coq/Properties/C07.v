(* C07 — change subscriptions.  Theorems only. *)
From Coq Require Import ZArith Bool List.
From KD Require Import Model.Values Model.Validate Model.Perm Model.Glob Model.Broker Model.BrokerRun Proofs.Broker.
Open Scope Z_scope.

(* one update request gives a subscriber at most one message; if one is sent it is non-empty,
   carries exactly (a subset of) the subscribed fields that changed with the committed values,
   and only to a registered subscription with a live receiver *)
Theorem c07_at_most_one_message : forall db now changed s,
  cs_sent (fst (notify_change db now changed s)) = cs_sent s \/
  exists m, m <> [] /\ cs_sent (fst (notify_change db now changed s)) = cs_sent s ++ [m] /\
            Forall (notif_ok db (cs_perms s) now) m /\
            (forall n, In n m -> exists f, In (n_id n, f) (watched (cs_entries s) changed) /\ n_fields n = f) /\
            cs_registered s = true /\ cs_open s = true.
Proof. exact notify_change_sent. Qed.
Print Assumptions c07_at_most_one_message.

(* writes that are rejected, touch other signals or fields, or repeat the current value of an
   on-change signal leave `watched` empty: no message *)
Theorem c07_nothing_watched_no_message : forall db now changed s,
  watched (cs_entries s) changed = [] -> fst (notify_change db now changed s) = s.
Proof. exact watched_nil_no_message. Qed.
Print Assumptions c07_nothing_watched_no_message.

Theorem c07_rejected_batch_changes_nothing : forall us db p now clock changed errs db' changed' errs',
  apply_updates db p now clock us changed errs = (db', changed', errs') ->
  length errs' = (length errs + length us)%nat -> db' = db /\ changed' = changed.
Proof. exact apply_updates_all_rejected. Qed.
Print Assumptions c07_rejected_batch_changes_nothing.

(* a reader that falls behind loses only the oldest messages: the next message it gets is not
   older than its position, is still retained by the ring, and is among the newest `cap` ones;
   order is preserved because the position only moves forward *)
Theorem c07_lag_loses_only_oldest : forall s s' m,
  recv_one s = (s', Some m) ->
  exists pos, cs_pos s <= pos /\ Z.of_nat (length (cs_sent s)) - cs_cap s <= pos /\
              pos < Z.of_nat (length (cs_sent s)) /\
              nth_error (cs_sent s) (Z.to_nat pos) = Some m /\ cs_pos s' = pos + 1 /\
              cs_sent s' = cs_sent s.
Proof. exact recv_one_spec. Qed.
Print Assumptions c07_lag_loses_only_oldest.

(* the ring allocated for buffer_size b retains at least b + 1 messages *)
Theorem c07_capacity : forall n, n <= 2 ^ 64 -> n <= npow2 n.
Proof. exact npow2_ge. Qed.
Print Assumptions c07_capacity.

(* a subscription is removed by housekeeping only when its receiver is gone or its token expired *)
Theorem c07_ends_only_on : forall now s,
  cs_registered s = true -> cs_registered (cleanup_csub now s) = false ->
  cs_open s = false \/ expired (cs_perms s) now = true.
Proof. exact cleanup_csub_unregisters. Qed.
Print Assumptions c07_ends_only_on.

(* ---------- through the handlers (Model/Api.v) ---------- *)
From KD Require Model.Api Proofs.Api.

(* kuksa.val.v2 Subscribe / SubscribeById: the subscription is the core subscription of exactly the signals the
   request names (duplicates collapsed), Datapoint field, with the request's buffer size *)
Theorem c07_v2_subscribe_is_core : forall st p l buf st' h,
  Api.v2_subscribe st p l buf = (st', inl h) ->
  exists ids, Api.v2_resolve_all (st_db st) l = inl ids /\
              subscribe st p (map (fun id => (id, Api.dp_only)) (Api.nodup_z ids)) (Some buf) = (st', inl h).
Proof. exact Proofs.Api.v2_subscribe_entries. Qed.
Print Assumptions c07_v2_subscribe_is_core.

(* a refused handler subscription registers nothing *)
Theorem c07_refused_handler_subscription_no_effect : forall st p,
  (forall path fl st' c, Api.v1_subscribe st p path fl = (st', inr c) -> st' = st) /\
  (forall l buf st' c, Api.v2_subscribe st p l buf = (st', inr c) -> st' = st).
Proof. exact Proofs.Api.handler_subscribe_refused_no_effect. Qed.
Print Assumptions c07_refused_handler_subscription_no_effect.

(* kuksa.val.v1 Subscribe with several entries: every signal an entry selects is subscribed with at least that
   entry's fields, whatever the other entries of the request say about the same signal (the union, not the first) *)
Theorem c07_v1_multi_entry_union : forall st p l es,
  Api.v1_sub_all st p l [] = inl es ->
  forall path fl sel id f, In (path, fl) l -> Api.v1_sub_entries st p path fl = inl sel -> In (id, f) sel ->
  exists g, In (id, g) es /\
            (f_dp f = true -> f_dp g = true) /\ (f_target f = true -> f_target g = true) /\
            (f_unit f = true -> f_unit g = true).
Proof. exact (fun st p l es H => proj2 (Proofs.Api.v1_sub_all_union st p l [] es H)). Qed.
Print Assumptions c07_v1_multi_entry_union.


(* C04 — no state change without the matching write permission.  Theorems only. *)
From Coq Require Import ZArith Bool List.
From KD Require Import Model.Values Model.Validate Model.Perm Model.Glob Model.Broker Model.BrokerRun Proofs.Broker.
Open Scope Z_scope.

(* across any update batch: a signal's value (and lag value) is unchanged unless the caller may
   write its datapoint, and its target unchanged unless the caller may write its target *)
Theorem c04_write_needs_right : forall us db p now clock changed errs db' changed' errs' id e e',
  apply_updates db p now clock us changed errs = (db', changed', errs') ->
  lookup_id (entries db) id = Some e -> lookup_id (entries db') id = Some e' ->
  (can_write_datapoint p now (path_segs (e_meta e)) <> POk -> e_dp e' = e_dp e /\ e_lag e' = e_lag e) /\
  (can_write_actuator_target p now (path_segs (e_meta e)) <> POk -> e_target e' = e_target e).
Proof. exact apply_updates_needs_permission. Qed.
Print Assumptions c04_write_needs_right.

(* no request can alter an existing signal's id, path, data type, entry type (or any metadata) *)
Theorem c04_meta_immutable : forall h1 h2 id e,
  lookup_id (entries (st_db (run_history h1))) id = Some e ->
  exists e', lookup_id (entries (st_db (run_history (h1 ++ h2)))) id = Some e' /\ e_meta e' = e_meta e.
Proof. exact history_meta_immutable. Qed.
Print Assumptions c04_meta_immutable.

(* a batch in which every element is refused changes neither the database nor the set of
   changed fields that drives notifications *)
Theorem c04_denied_no_effect : forall us db p now clock changed errs db' changed' errs',
  apply_updates db p now clock us changed errs = (db', changed', errs') ->
  length errs' = (length errs + length us)%nat -> db' = db /\ changed' = changed.
Proof. exact apply_updates_all_rejected. Qed.
Print Assumptions c04_denied_no_effect.

(* a refused claim registers nothing; a failed actuation forwards nothing *)
Theorem c04_refused_claim_no_effect : forall st p ids st' e,
  provide_actuation st p ids = (st', inr e) -> st' = st.
Proof. exact provide_refused_no_effect. Qed.
Print Assumptions c04_refused_claim_no_effect.

Theorem c04_failed_batch_no_effect : forall st p cs st' e,
  batch_actuate st p cs = (st', Some e) -> st' = st.
Proof. exact batch_all_or_nothing. Qed.
Print Assumptions c04_failed_batch_no_effect.

From KD Require Proofs.Store.
(* 'each unexpired at the time of the request': whatever its scopes (blanket ones included), a token that has expired
   changes no value, previous value or target of any signal through any update batch ... *)
Theorem c04_expired_token_changes_nothing : forall us db p now clock changed errs db' changed' errs' id e e',
  expired p now = true ->
  apply_updates db p now clock us changed errs = (db', changed', errs') ->
  lookup_id (entries db) id = Some e -> lookup_id (entries db') id = Some e' -> e' = e.
Proof. exact Proofs.Store.expired_token_changes_nothing. Qed.
Print Assumptions c04_expired_token_changes_nothing.

(* ... and registers no signal *)
Theorem c04_expired_token_registers_nothing : forall db p now clock name dt ct et mn mx al db' r,
  expired p now = true -> add_entry db p now clock name dt ct et mn mx al = (db', r) -> db' = db.
Proof. exact Proofs.Store.expired_token_registers_nothing. Qed.
Print Assumptions c04_expired_token_registers_nothing.


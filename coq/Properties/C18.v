(* C18 — every request gets an answer.  Theorems only (the modelled part: message parts that may
   be absent, error answers that leave the store alone, the query executor's unreachable arm). *)
From Coq Require Import ZArith Bool List.
From KD Require Import Model.Values Model.Compare Model.Validate Model.Perm Model.Glob Model.Broker
     Model.BrokerRun Model.Api Model.FloatLit Model.Query Proofs.Broker Proofs.Query Proofs.Total.
Open Scope Z_scope.

Theorem c18_get_without_signal_id : forall st p,
  v2_get_value st p SigAbsent = RStatus INVALID_ARGUMENT /\ v2_get_value st p SigEmpty = RStatus INVALID_ARGUMENT.
Proof. exact v2_get_absent. Qed.
Print Assumptions c18_get_without_signal_id.

Theorem c18_publish_with_missing_parts : forall st p s,
  v2_publish st p s None = (st, RStatus INVALID_ARGUMENT)
  /\ (forall w, v2_publish st p SigAbsent (Some w) = (st, RStatus INVALID_ARGUMENT))
  /\ (forall w, v2_publish st p SigEmpty (Some w) = (st, RStatus INVALID_ARGUMENT)).
Proof. exact v2_publish_absent. Qed.
Print Assumptions c18_publish_with_missing_parts.

Theorem c18_actuate_with_missing_parts : forall st p s,
  v2_actuate st p s None = (st, RStatus INVALID_ARGUMENT)
  /\ (forall w, v2_actuate st p SigAbsent (Some w) = (st, RStatus INVALID_ARGUMENT))
  /\ (forall w, v2_actuate st p SigEmpty (Some w) = (st, RStatus INVALID_ARGUMENT)).
Proof. exact v2_actuate_absent. Qed.
Print Assumptions c18_actuate_with_missing_parts.

Theorem c18_batch_with_missing_signal : forall st p s r,
  v2_batch_actuate st p ((SigAbsent, s) :: r) = (st, RStatus INVALID_ARGUMENT)
  /\ v2_batch_actuate st p ((SigEmpty, s) :: r) = (st, RStatus INVALID_ARGUMENT).
Proof. exact v2_batch_absent. Qed.
Print Assumptions c18_batch_with_missing_signal.

Theorem c18_absent_value_is_not_available : from_wire None = VNA.
Proof. exact absent_value_is_not_available. Qed.
Print Assumptions c18_absent_value_is_not_available.

(* the broker keeps serving afterwards: an error answer leaves the store exactly as it was *)
Theorem c18_publish_error_keeps_store : forall st p s dp st' code,
  v2_publish st p s dp = (st', RStatus code) -> code <> OK -> st_db st' = st_db st.
Proof. exact v2_publish_error_keeps_store. Qed.
Print Assumptions c18_publish_error_keeps_store.

Theorem c18_actuate_error_keeps_state : forall st p s v st' code,
  v2_actuate st p s v = (st', RStatus code) -> code <> OK -> st' = st.
Proof. exact v2_actuate_error_keeps_state. Qed.
Print Assumptions c18_actuate_error_keeps_state.

Theorem c18_batch_error_keeps_state : forall st p l st' code,
  v2_batch_actuate st p l = (st', RStatus code) -> code <> OK -> st' = st.
Proof. exact v2_batch_error_keeps_state. Qed.
Print Assumptions c18_batch_error_keeps_state.

Theorem c18_rejected_update_untouched : forall db p now clock id u err db',
  update_one db p now clock id u = (db', inr err) -> db' = db.
Proof. exact update_one_err. Qed.
Print Assumptions c18_rejected_update_untouched.

(* the query executor: the arm guarded by debug_assert!(false) is unreachable from compiled queries *)
Theorem c18_executor_never_unresolved : forall schema q cq,
  compile_query schema q = Ok cq ->
  (forall w, c_where cq = Some w -> no_unres w = true)
  /\ Forall (fun '(e, _) => no_unres e = true) (c_proj cq).
Proof. exact compiled_query_never_unresolved. Qed.
Print Assumptions c18_executor_never_unresolved.

Theorem c18_odd_function_calls_refused : forall schema n,
  compile_expr schema (QLagN n) = Err EUnsupportedOperator
  /\ compile_expr schema QFun = Err EUnsupportedOperator
  /\ (forall e, compile_expr schema (QNeg e) = Err EUnsupportedOperator).
Proof. exact odd_function_calls_refused. Qed.
Print Assumptions c18_odd_function_calls_refused.

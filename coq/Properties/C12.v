(* C12 — query subscriptions evaluate the documented SQL subset faithfully.  Theorems only; each is
   closed by `exact` of a lemma of Proofs/Query.v.  Statements are frozen in Pins/C12.v. *)
From Coq Require Import ZArith Reals Bool List.
From KD Require Import Model.Values Model.Compare Model.Validate Model.Perm Model.Glob Model.Broker
     Model.BrokerRun Model.FloatLit Model.Query Model.QueryRun
     Proofs.CompareFloat Proofs.Compare Proofs.Broker Proofs.Query.
Open Scope Z_scope.

(* what is accepted at subscribe time is well-typed: a boolean WHERE, comparisons between two
   numbers (or, for = and <>, two strings or two booleans), AND/OR/NOT over booleans, every number
   literal typed after the operand it is compared with and inside that type's range *)
Theorem c12_accepted_is_well_typed : forall schema q cq,
  compile_query schema q = Ok cq ->
  (forall w, c_where cq = Some w -> wtb w = true /\ get_type w = Some TBool)
  /\ Forall (fun '(e, _) => wtb e = true) (c_proj cq).
Proof. exact compile_query_wt. Qed.
Print Assumptions c12_accepted_is_well_typed.

(* ... and contains no unresolved literal: the executor's "unresolved literal" arm is unreachable *)
Theorem c12_well_typed_is_resolved : forall e, wtb e = true -> no_unres e = true.
Proof. exact wtb_no_unres. Qed.
Print Assumptions c12_well_typed_is_resolved.

(* a query using a construct outside the subset, a wildcard, or an unknown signal is refused *)
Theorem c12_refused_at_subscribe_time : forall schema q,
  bad_query schema q = true -> refused (compile_query schema q).
Proof. exact bad_query_refused. Qed.
Print Assumptions c12_refused_at_subscribe_time.

(* the executor's verdict on a condition agrees with its SQL reading over the exact numbers:
   true only if it holds reading float equality liberally (within the broker's tolerance),
   false only if it fails reading float equality strictly *)
Theorem c12_condition_sound : forall rho e,
  wf_rho rho -> lits_wf e -> sqlq e = true ->
  forall b, exec rho e = Some (VBool b) ->
            (b = true -> holds rho true e) /\ (b = false -> ~ holds rho false e).
Proof. exact exec_sound. Qed.
Print Assumptions c12_condition_sound.

(* when no float takes part in an equality-like comparison the verdict IS the SQL truth value *)
Theorem c12_condition_exact : forall rho e b,
  wf_rho rho -> lits_wf e -> sqlq e = true -> crisp rho e ->
  exec rho e = Some (VBool b) -> (b = true <-> holds rho true e).
Proof. exact exec_exact. Qed.
Print Assumptions c12_condition_exact.

(* a response goes out in an update round exactly when the subscription is live, a signal the
   query refers to is among the changed datapoints, and the query yields a row *)
Theorem c12_trigger_iff : forall db now ch s fs,
  (exists lags, notify_query db now (Some ch) s = QSent fs lags) <->
  qs_registered s = true /\ qs_open s = true /\ changes_match db (qs_query s) ch = true
  /\ run_query (valuation db (qs_perms s) now) (qs_query s) = Some fs.
Proof. exact notify_sends_iff. Qed.
Print Assumptions c12_trigger_iff.

Theorem c12_changes_match_iff : forall db c ch,
  changes_match db c ch = true <->
  exists id f e, In (id, f) ch /\ f_dp f = true /\ lookup_id (entries db) id = Some e
                 /\ name_in (m_path (e_meta e)) (query_inputs c) = true.
Proof. exact changes_match_iff. Qed.
Print Assumptions c12_changes_match_iff.

(* a row exists only if the condition evaluated to true; it carries one field per selected
   expression, in order, under its alias, its signal name, or field_<index>, with the executor's value *)
Theorem c12_row : forall rho c fs,
  run_query rho c = Some fs ->
  match c_where c with Some w => exec rho w = Some (VBool true) | None => True end
  /\ exec_proj rho 0 (c_proj c) = Some fs /\ fs <> [].
Proof. exact run_query_some. Qed.
Print Assumptions c12_row.

Theorem c12_fields : forall rho l i fs,
  exec_proj rho i l = Some fs ->
  length fs = length l /\
  forall k e a, nth_error l k = Some (e, a) ->
    exists v, exec rho e = Some v /\ nth_error fs k = Some (field_name (i + Z.of_nat k) e a, v).
Proof. exact exec_proj_fields. Qed.
Print Assumptions c12_fields.

(* the query sees exactly what its subscriber may read *)
Theorem c12_visible_values : forall db p now name id e,
  lookup_path (path_to_id db) name = Some id -> lookup_id (entries db) id = Some e ->
  valuation db p now name =
  match can_read p now (path_segs (e_meta e)) with
  | POk => (d_value (e_dp e), d_value (e_lag e))
  | _ => (VNA, VNA)
  end.
Proof. exact valuation_visible. Qed.
Print Assumptions c12_visible_values.

(* LAG: the write that changes a signal moves its previous datapoint into the lag slot *)
Theorem c12_lag_is_previous : forall db p now clock id u ch db' e,
  update_one db p now clock id u = (db', inl ch) -> f_dp ch = true ->
  lookup_id (entries db) id = Some e ->
  exists e', lookup_id (entries db') id = Some e' /\ e_lag e' = e_dp e
             /\ exists v, u_dp u = Some v /\ e_dp e' = {| d_ts := clock; d_value := v |}.
Proof. exact changed_datapoint_sets_lag. Qed.
Print Assumptions c12_lag_is_previous.

(* a subquery used as an operand (of a comparison, BETWEEN, NOT, ...) is refused at subscribe time: it is only an item of
   the SELECT list (finding F29: it used to be accepted and evaluated as its position among the statement's subqueries) *)
Theorem c12_subquery_operand_refused : forall schema : list Z -> option data_type,
  compile_expr schema QSub = Err EUnsupportedOperation /\
  (forall op a, compile_expr schema (QBin op QSub a) = Err EUnsupportedOperation) /\
  (forall a neg hi, (exists c, compile_expr schema a = Ok c) ->
                    compile_expr schema (QBetween a neg QSub hi) = Err EUnsupportedOperation).
Proof. exact subquery_operand_refused. Qed.
Print Assumptions c12_subquery_operand_refused.


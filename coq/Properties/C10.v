(* C10 — an actuator has at most one live provider.  Theorems only. *)
From Coq Require Import ZArith Bool List.
From KD Require Import Model.Values Model.Validate Model.Perm Model.Glob Model.Broker Model.BrokerRun Proofs.Broker Proofs.Interleave.
Open Scope Z_scope.

Theorem c10_exclusive_seq : forall h, claims_disjoint (st_asubs (run_history h)).
Proof. exact history_claims_disjoint. Qed.
Print Assumptions c10_exclusive_seq.

Theorem c10_refused_registers_nothing : forall st p ids st' e,
  provide_actuation st p ids = (st', inr e) -> st' = st.
Proof. exact provide_refused_no_effect. Qed.
Print Assumptions c10_refused_registers_nothing.

Theorem c10_actuate_fails_when_owner_lost : forall st p id v a,
  find_owner (st_asubs st) id = Some a ->
  (as_available a = false \/ expired (as_perms a) (st_now st) = true) ->
  exists e, actuate st p id v = (st, Some e).
Proof. exact actuate_fails_when_owner_lost. Qed.
Print Assumptions c10_actuate_fails_when_owner_lost.

Theorem c10_release_on_loss : forall now a,
  as_registered a = true -> (as_available a = false \/ expired (as_perms a) now = true) ->
  as_registered (cleanup_asub now a) = false.
Proof. exact cleanup_releases_lost_claim. Qed.
Print Assumptions c10_release_on_loss.

(* whatever the timing: every interleaving (at critical-section granularity) of any number of
   claims, actuations, provider losses, housekeeping runs and shutdown keeps live claims disjoint.
   provide_actuation's scan and push are ONE write section (checked against the recorded lock
   trace on every run); a writer is alone (c11_mutual_exclusion). *)
Theorem c10_exclusive_all_schedules : forall (ops : list conc_action) st0 ts st,
  claims_disjoint (st_asubs st0) ->
  ireach state (map sections ops, st0) (ts, st) -> claims_disjoint (st_asubs st).
Proof. exact claims_disjoint_all_schedules. Qed.
Print Assumptions c10_exclusive_all_schedules.

(* Extraction of the executable model.  Only ExtrOcamlBasic's directives are used
   (Extract Inductive for bool, option, unit, prod, list, sumbool, sumor, comparison...);
   no Extract Constant; numbers stay the Coq inductives. *)
From Coq Require Import Extraction ExtrOcamlBasic.
From KD Require Import Model.Driver.
Extraction Language OCaml.
Extraction "model.ml" Driver.run.

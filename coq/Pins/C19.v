From Coq Require Import ZArith Bool List.
From KD Require Import Model.Values Model.Validate Model.Perm Model.Glob Model.Broker Model.Api Model.Errors
     Proofs.Broker Proofs.Errors Properties.C19.
Open Scope Z_scope.
Check c19_vocabularies_agree :
  (forall e, class_of_grpc (update_status e) = Some (cls_update e)) /\
  (forall e, class_of_v1 (v1_update_code e) = Some (cls_update e)) /\
  (forall e, In (cls_update e) (classes_of_sdv_error (sdv_update_code e))) /\
  (forall e, class_of_grpc (read_status e) = Some (cls_read e)) /\
  (forall e, class_of_grpc (act_status e) = cls_act e).
Check c19_read_class : forall db p now id e,
  read_entry db p now id = inr e -> In (cls_read e) (causes_read db p now id).
Check c19_read_served : forall db p now id,
  causes_read db p now id = [] -> exists e, read_entry db p now id = inl e.
Check c19_update_class : forall db p now clock id u err db',
  update_one db p now clock id u = (db', inr err) -> In (cls_update err) (causes_update db p now id u).
Check c19_update_served : forall db p now clock id u,
  causes_update db p now id u = [] -> exists db' ch, update_one db p now clock id u = (db', inl ch).
Check c19_actuate_class : forall st p id v st' err,
  actuate st p id v = (st', Some err) ->
  exists c, cls_act err = Some c /\ In c (causes_actuate st p id v).
Check c19_actuate_served : forall st p id v,
  causes_actuate st p id v = [] -> snd (actuate st p id v) = None.
Check c19_v2_get_class : forall st p s code,
  v2_get_value st p s = RStatus code ->
  exists c, class_of_grpc code = Some c /\ In c (causes_v2_get st p s).
Check c19_v2_get_served : forall st p s,
  causes_v2_get st p s = [] -> exists d, v2_get_value st p s = RValue d.
Check c19_v2_publish_class : forall st p s dp st' code,
  v2_publish st p s dp = (st', RStatus code) -> code <> OK ->
  exists c, class_of_grpc code = Some c /\ In c (causes_v2_publish st p s dp).
Check c19_claim_already_exists : forall st p ids st',
  provide_actuation st p ids = (st', inr AAlreadyExists) ->
  exists id a, In id ids /\ In a (st_asubs st) /\ as_registered a = true /\ In id (as_ids a).
Check c19_claim_served : forall st p ids,
  first_error (can_actuate_id (st_db st) p (st_now st)) ids = None ->
  (forall id a, In id ids -> In a (st_asubs st) -> as_registered a = true -> ~ In id (as_ids a)) ->
  exists h, snd (provide_actuation st p ids) = inl h.

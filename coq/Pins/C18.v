From Coq Require Import ZArith Bool List.
From KD Require Import Model.Values Model.Compare Model.Validate Model.Perm Model.Glob Model.Broker
     Model.BrokerRun Model.Api Model.FloatLit Model.Query Proofs.Broker Proofs.Query Proofs.Total Properties.C18.
Open Scope Z_scope.
Check c18_get_without_signal_id : forall st p,
  v2_get_value st p SigAbsent = RStatus INVALID_ARGUMENT /\ v2_get_value st p SigEmpty = RStatus INVALID_ARGUMENT.
Check c18_publish_with_missing_parts : forall st p s,
  v2_publish st p s None = (st, RStatus INVALID_ARGUMENT)
  /\ (forall w, v2_publish st p SigAbsent (Some w) = (st, RStatus INVALID_ARGUMENT))
  /\ (forall w, v2_publish st p SigEmpty (Some w) = (st, RStatus INVALID_ARGUMENT)).
Check c18_actuate_with_missing_parts : forall st p s,
  v2_actuate st p s None = (st, RStatus INVALID_ARGUMENT)
  /\ (forall w, v2_actuate st p SigAbsent (Some w) = (st, RStatus INVALID_ARGUMENT))
  /\ (forall w, v2_actuate st p SigEmpty (Some w) = (st, RStatus INVALID_ARGUMENT)).
Check c18_batch_with_missing_signal : forall st p s r,
  v2_batch_actuate st p ((SigAbsent, s) :: r) = (st, RStatus INVALID_ARGUMENT)
  /\ v2_batch_actuate st p ((SigEmpty, s) :: r) = (st, RStatus INVALID_ARGUMENT).
Check c18_absent_value_is_not_available : from_wire None = VNA.
Check c18_publish_error_keeps_store : forall st p s dp st' code,
  v2_publish st p s dp = (st', RStatus code) -> code <> OK -> st_db st' = st_db st.
Check c18_actuate_error_keeps_state : forall st p s v st' code,
  v2_actuate st p s v = (st', RStatus code) -> code <> OK -> st' = st.
Check c18_batch_error_keeps_state : forall st p l st' code,
  v2_batch_actuate st p l = (st', RStatus code) -> code <> OK -> st' = st.
Check c18_rejected_update_untouched : forall db p now clock id u err db',
  update_one db p now clock id u = (db', inr err) -> db' = db.
Check c18_executor_never_unresolved : forall schema q cq,
  compile_query schema q = Ok cq ->
  (forall w, c_where cq = Some w -> no_unres w = true)
  /\ Forall (fun '(e, _) => no_unres e = true) (c_proj cq).
Check c18_odd_function_calls_refused : forall schema n,
  compile_expr schema (QLagN n) = Err EUnsupportedOperator
  /\ compile_expr schema QFun = Err EUnsupportedOperator
  /\ (forall e, compile_expr schema (QNeg e) = Err EUnsupportedOperator).

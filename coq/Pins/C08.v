From Coq Require Import List Arith Bool ZArith.
Import ListNotations.
From KD Require Import Model.Conc Model.ConcSub Proofs.Converge Properties.C08.
Open Scope nat_scope.
Check c08_converge : forall ks v0 c,
  creach ks v0 c -> all_finished ks c ->
  forall s, In s (sh_subs (c_shared c)) -> s_alive s = true ->
            exists front, s_sent s = front ++ [sh_v (c_shared c)].
Check c08_same_order : forall ks v0 c,
  creach ks v0 c ->
  (forall s, In s (sh_subs (c_shared c)) -> s_alive s = true ->
             exists x n, n <= length (sh_notified (c_shared c)) /\
                         s_sent s = x :: skipn n (sh_notified (c_shared c))) /\
  (all_finished ks c -> sh_notified (c_shared c) = sh_hist (c_shared c)).
Check c08_commit_order : forall ks v0 c,
  creach ks v0 c ->
  (pending ks c /\ sh_hist (c_shared c) = sh_notified (c_shared c) ++ [sh_v (c_shared c)]) \/
  (~ pending ks c /\ sh_hist (c_shared c) = sh_notified (c_shared c)).

From Coq Require Import ZArith Bool List.
From KD Require Import Model.Values Model.Compare Model.Validate Proofs.Compare Proofs.Validate Properties.C02.
Check c02_validate_iff_domain : forall m v,
  is_na v = false -> (validate_datapoint_value m v = None <-> in_domainb m v = true).
Check c02_domain_meaning : forall m v,
  in_domainb m v = true ->
  shape_ok (vm_type m) v = true /\ Forall (elem_in_domain m) (elems v).
Check c02_na_only_exception : forall m v,
  validate_datapoint_value m v = None -> v = VNA \/ in_domainb m v = true.
Check c02_na_iff_no_allowed : forall m,
  validate_datapoint_value m VNA = None <-> vm_allowed m = None.

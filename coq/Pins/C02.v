From Coq Require Import ZArith Bool List.
From KD Require Import Model.Values Model.Compare Model.Validate Proofs.Compare Proofs.Validate
     Model.Perm Model.Glob Model.Broker Model.BrokerRun Proofs.Broker Proofs.Store Proofs.StoreDomain Properties.C02.
Check c02_validate_iff_domain : forall m v,
  is_na v = false -> (validate_datapoint_value m v = None <-> in_domainb m v = true).
Check c02_domain_meaning : forall m v,
  in_domainb m v = true ->
  shape_ok (vm_type m) v = true /\ Forall (elem_in_domain m) (elems v).
Check c02_na_only_exception : forall m v,
  validate_datapoint_value m v = None -> v = VNA \/ in_domainb m v = true.
Check c02_na_iff_no_allowed : forall m,
  validate_datapoint_value m VNA = None <-> vm_allowed m = None.
Check c02_store_inv : forall h id e,
  lookup_id (entries (st_db (run_history h))) id = Some e ->
  in_domain_or_na (vmeta_of (e_meta e)) (d_value (e_dp e)) /\
  in_domain_or_na (vmeta_of (e_meta e)) (d_value (e_lag e)) /\
  (forall d, e_target e = Some d -> in_domain_or_na (vmeta_of (e_meta e)) (d_value d)).
Check c02_read_in_domain : forall h p now id e,
  read_entry (st_db (run_history h)) p now id = inl e ->
  in_domain_or_na (vmeta_of (e_meta e)) (d_value (e_dp e)) /\
  (forall d, e_target e = Some d -> in_domain_or_na (vmeta_of (e_meta e)) (d_value d)).
Check c02_forwarded_validated : forall st p id v st',
  actuate st p id v = (st', None) ->
  exists e, read_entry (st_db st) p (st_now st) id = inl e /\
            validate_actuator_value (vmeta_of (e_meta e)) v = None.

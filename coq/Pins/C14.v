From Coq Require Import ZArith Bool List.
From KD Require Import Model.Values Model.Perm Model.Glob Proofs.Glob Properties.C14.
Open Scope Z_scope.
Check c14_sound_liberal : forall api pat tree st sel i,
  select api pat tree = (st, sel) -> In i sel ->
  exists rp x, request_pattern pat = Some rp /\ 0 <= i /\
               nth_error tree (Z.to_nat i) = Some x /\ lib rp x = true.
Check c14_complete_strict : forall api pat tree rp i x,
  (api = 0 \/ api = 1 \/ api = 2) -> Z.of_nat (length pat) <= max_request_path_length ->
  matcher_accepts pat = true -> request_pattern pat = Some rp -> mixes rp = false ->
  prefix_free tree -> 0 <= i -> nth_error tree (Z.to_nat i) = Some x -> x <> [] ->
  strict rp x = true -> ~ single_segment_leaf rp x ->
  fst (select api pat tree) = 0 /\ In i (snd (select api pat tree)).
Check c14_invalid_rejected : forall api pat tree,
  matcher_accepts pat = false -> api <> 4 -> select api pat tree = (400, []).
Check c14_single_segment_leaf_refuted :
  select 0 [65] [[[65]]] = (404, []) /\ strict [PName [65]] [[65]] = true.

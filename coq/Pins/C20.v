From Coq Require Import ZArith Bool List.
From KD Require Import Model.Values Model.Compare Model.Validate Model.Perm Model.Glob Model.Broker
     Model.BrokerRun Model.Api Model.ApiRun Model.FloatLit Model.Query Model.Viss Proofs.Broker Proofs.Viss Properties.C20.
Open Scope Z_scope.
Check c20_get_same_rights_and_value : forall st k path d,
  too_long path = false ->
  (viss_get st (TokOf k) path = inl d <-> v2_get_value st (get_perm st k) (SigPath path) = RValue d).
Check c20_get_same_refusal : forall st k path e,
  too_long path = false ->
  viss_get st (TokOf k) path = inr e ->
  exists code, v2_get_value st (get_perm st k) (SigPath path) = RStatus code /\
    match e with
    | VNotFound => code = NOT_FOUND
    | VForbidden => code = PERMISSION_DENIED
    | VTokenExpired => code = UNAUTHENTICATED
    | _ => False
    end.
Check c20_get_reads_store : forall st k path d,
  viss_get st (TokOf k) path = inl d ->
  exists id e, lookup_path (path_to_id (st_db st)) path = Some id /\ lookup_id (entries (st_db st)) id = Some e
               /\ can_read (get_perm st k) (st_now st) (path_segs (e_meta e)) = Perm.POk /\ d = e_dp e.
Check c20_token_required : forall st path,
  viss_get st TokNone path = inr VTokenMissing /\ viss_get st TokBad path = inr VTokenInvalid
  /\ (forall x, viss_set st TokNone path x = (st, SetErr VTokenMissing))
  /\ (forall x, viss_set st TokBad path x = (st, SetErr VTokenInvalid))
  /\ viss_subscribe st TokNone path = (st, inr VTokenMissing)
  /\ viss_subscribe st TokBad path = (st, inr VTokenInvalid).
Check c20_set_accepted_iff : forall st k path x st',
  viss_set st (TokOf k) path x = (st', SetOk) <->
  exists id e v,
    lookup_path (path_to_id (st_db st)) path = Some id /\ lookup_id (entries (st_db st)) id = Some e
    /\ m_etype (e_meta e) = Actuator /\ parse_text (m_dtype (e_meta e)) x = TOk v
    /\ update_entries st (get_perm st k) [(id, target_upd v)] = (st', []).
Check c20_refused_set_keeps_store : forall st t path x st' e,
  viss_set st t path x = (st', SetErr e) -> st_db st' = st_db st.
Check c20_int_text_roundtrip :
  (forall z, in_i32 z = true -> parse_scalar TInt32 (dec_text z) = TOk (VI32 z))
  /\ (forall z, in_i64 z = true -> parse_scalar TInt64 (dec_text z) = TOk (VI64 z))
  /\ (forall z, in_u32 z = true -> parse_scalar TUint32 (dec_text z) = TOk (VU32 z))
  /\ (forall z, in_u64 z = true -> parse_scalar TUint64 (dec_text z) = TOk (VU64 z)).
Check c20_int_text_out_of_range : forall z,
  - 10 ^ 20 < z < 10 ^ 20 ->
  (in_i32 z = false -> parse_scalar TInt32 (dec_text z) = TErr)
  /\ (in_i64 z = false -> parse_scalar TInt64 (dec_text z) = TErr).
Check c20_wrong_kind_text : forall t,
  (forall l, base_of t = None -> parse_text t (VTArray l) = TErr)
  /\ (forall s b, base_of t = Some b -> parse_text t (VTScalar s) = TErr)
  /\ parse_text t VTNone = TErr.
Check c20_unsubscribe_stops : forall st h s,
  find_csub st h = Some s -> cs_open s = true ->
  exists st', viss_step st [53; h] = Some (st', [[0]]) /\
              forall s', find_csub st' h = Some s' -> cs_open s' = false.
Check c20_metadata_sound : forall st path line,
  In line (tl (viss_metadata st path)) ->
  exists id e, In (id, e) (entries (st_db st)) /\ bytes_prefix path (m_path (e_meta e)) = true /\
               line = [205; id; kuksa_entry_type (m_etype (e_meta e)); kuksa_data_type (m_dtype (e_meta e))]
                      ++ enc_opt_val (m_allowed (e_meta e)) ++ [1].
Check c20_metadata_complete : forall st path id e,
  In (id, e) (entries (st_db st)) -> bytes_prefix path (m_path (e_meta e)) = true ->
  In ([205; id; kuksa_entry_type (m_etype (e_meta e)); kuksa_data_type (m_dtype (e_meta e))]
      ++ enc_opt_val (m_allowed (e_meta e)) ++ [1]) (tl (viss_metadata st path)).

From Coq Require Import ZArith Bool List.
From KD Require Import Model.Values Model.Validate Model.Perm Model.Glob Model.Broker Model.BrokerRun Proofs.Broker Proofs.Interleave Properties.C16.
Open Scope Z_scope.
Check c16_bijection_inv : forall h,
  Z.of_nat (length h) < 2147483647 ->
  db_inv (st_db (run_history h)) /\ next_id (st_db (run_history h)) <= Z.of_nat (length h).
Check c16_one_id_per_path_one_path_per_id : forall db,
  db_inv db ->
  (forall p id1 id2, lookup_path (path_to_id db) p = Some id1 ->
                     lookup_path (path_to_id db) p = Some id2 -> id1 = id2) /\
  (forall id1 id2 e1 e2, lookup_id (entries db) id1 = Some e1 -> lookup_id (entries db) id2 = Some e2 ->
                         m_path (e_meta e1) = m_path (e_meta e2) -> id1 = id2).
Check c16_stable : forall h1 h2 id e,
  lookup_id (entries (st_db (run_history h1))) id = Some e ->
  exists e', lookup_id (entries (st_db (run_history (h1 ++ h2)))) id = Some e' /\ e_meta e' = e_meta e.
Check c16_idempotent : forall db p now clock name dt ct et mn mx al id,
  lookup_path (path_to_id db) name = Some id -> valid_path name = true ->
  can_create p now (split_on dot name) = POk ->
  add_entry db p now clock name dt ct et mn mx al = (db, inl id).
Check c16_refusal_consumes_nothing : forall db p now clock name dt ct et mn mx al db' e,
  add_entry db p now clock name dt ct et mn mx al = (db', inr e) -> db' = db.
Check c16_concurrent_distinct : forall (regs : list (state -> state)) st0 ts st,
  (forall f, In f regs -> exists p name dt ct et mn mx al, f = reg_section p name dt ct et mn mx al) ->
  db_inv (st_db st0) -> next_id (st_db st0) + Z.of_nat (length regs) < 2147483647 ->
  ireach state (map (fun f => [f]) regs, st0) (ts, st) -> db_inv (st_db st).

From Coq Require Import ZArith Bool List.
From KD Require Import Model.Values Model.Perm Proofs.Perm Properties.C05.
Check c05_grammar_sound : forall c sc, parse_one c = Some sc -> wf_scope sc /\ c = render sc.
Check c05_grammar_complete : forall sc, wf_scope sc -> parse_one (render sc) = Some sc.
Check c05_all_or_nothing : forall s exp c,
  In c (split_ws s) -> parse_one c = None -> perms_of_claims s exp = None.
Check c05_star_one_level : forall p path,
  has_star p = true -> covers p path = true ->
  length path = length p /\ Forall2 seg_rel p path.
Check c05_branch_rule : forall p path,
  has_star p = false ->
  (covers p path = true <-> exists pre rest, path = pre ++ rest /\ Forall2 seg_rel p pre).
Check c05_no_partial_name : forall p path i n,
  covers p path = true -> nth_error p i = Some (SName n) -> nth_error path i = Some n.
Check c05_write_needs_own_action : forall sc exp p now path a,
  perms_of_claims sc exp = Some p ->
  (a = AActuate \/ a = AProvide \/ a = ACreate) ->
  (match a with AActuate => can_write_actuator_target | AProvide => can_write_datapoint
              | _ => can_create end) p now path = POk ->
  expired p now = false /\
  exists ss s, parse_scope sc = Some ss /\ In s ss /\ sc_action s = a /\ scope_covers s path = true.
Check c05_read_iff_any_action : forall sc exp p now path,
  perms_of_claims sc exp = Some p ->
  (can_read p now path = POk <->
   expired p now = false /\
   exists ss s, parse_scope sc = Some ss /\ In s ss /\ scope_covers s path = true).

From Coq Require Import ZArith Bool List.
From KD Require Import Model.Values Model.Validate Model.Perm Model.Glob Model.Broker Model.BrokerRun
     Model.Api Model.ApiRun Proofs.Broker Proofs.Api Properties.C15.
Open Scope Z_scope.
Check c15_roundtrip_broker : forall v, from_wire (to_wire v) = v.
Check c15_roundtrip_wire : forall w, w <> Some VNA -> to_wire (from_wire w) = w.
Check c15_payload_unchanged : forall v w, to_wire v = Some w -> w = v.
Check c15_absent_is_absent : forall v, to_wire v = None <-> v = VNA.
Check c15_stored_as_sent : forall st p id v ch db',
  update_one (st_db st) p (st_now st) (st_clock st) id (dp_upd v) = (db', inl ch) ->
  f_dp ch = true ->
  exists e', lookup_id (entries db') id = Some e' /\ d_value (e_dp e') = v.
Check c15_cross_api_v2 : forall st p id e,
  lookup_id (entries (st_db st)) id = Some e ->
  can_read p (st_now st) (path_segs (e_meta e)) = POk ->
  v2_get_value st p (SigId id) = RValue (e_dp e).
Check c15_cross_api_sdv : forall st p id e,
  lookup_path (path_to_id (st_db st)) (m_path (e_meta e)) = Some id ->
  lookup_id (entries (st_db st)) id = Some e ->
  can_read p (st_now st) (path_segs (e_meta e)) = POk ->
  sdv_get st p [m_path (e_meta e)] = RNamed [(m_path (e_meta e), inl (e_dp e))].
Check c15_api_refines_core : forall st a, fst (api_run st a) = exec_all st (api_core st a).
Check c15_meta_tables_injective :
  (forall a b, kuksa_data_type a = kuksa_data_type b -> a = b) /\
  (forall a b, sdv_data_type a = sdv_data_type b -> a = b) /\
  (forall t, sdv_data_type_of (sdv_data_type t) = Some t) /\
  (forall a b, kuksa_entry_type a = kuksa_entry_type b -> a = b) /\
  (forall a b, sdv_entry_type a = sdv_entry_type b -> a = b).
Check c15_negative_zero_refuted :
  exists db' ch, update_one f14_db allow_all 0 2 0 (dp_upd (VF64 9223372036854775808)) = (db', inl ch)
                 /\ f_dp ch = false
                 /\ option_map (fun e => d_value (e_dp e)) (lookup_id (entries db') 0) = Some (VF64 0).

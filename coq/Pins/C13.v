(* Frozen statements of the C13 theorems: a weakened statement no longer type-checks here. *)
From Coq Require Import ZArith Reals.
From Flocq Require Import Core.
From KD Require Import Model.Values Model.Compare Proofs.CompareFloat Proofs.Compare Properties.C13.

Check c13_gt_correct : forall a b r,
  wf_value a -> wf_value b -> gt a b = Some r ->
  exists xa xb, xval a = Some xa /\ xval b = Some xb /\ (r = true <-> xgt xa xb).
Check c13_lt_correct : forall a b r,
  wf_value a -> wf_value b -> lt a b = Some r ->
  exists xa xb, xval a = Some xa /\ xval b = Some xb /\ (r = true <-> xgt xb xa).
Check c13_eq_tolerance : forall a b xa xb,
  wf_value a -> wf_value b -> xval a = Some xa -> xval b = Some xb ->
  eq a b = Some true -> xclose (veps a b) xa xb.
Check c13_eq_same : forall a b v r,
  wf_value a -> wf_value b -> xval a = Some (XFin v) -> xval b = Some (XFin v) ->
  eq a b = Some r -> r = true.
Check c13_gte_true : forall a b xa xb,
  wf_value a -> wf_value b -> xval a = Some xa -> xval b = Some xb ->
  gte a b = Some true -> xgt xa xb \/ xclose (veps a b) xa xb.
Check c13_gte_false : forall a b xa xb,
  wf_value a -> wf_value b -> xval a = Some xa -> xval b = Some xb ->
  gte a b = Some false -> ~ xgt xa xb /\ (forall v, xa = XFin v -> xb = XFin v -> False).
Check c13_lte_true : forall a b xa xb,
  wf_value a -> wf_value b -> xval a = Some xa -> xval b = Some xb ->
  lte a b = Some true -> xgt xb xa \/ xclose (veps a b) xa xb.
Check c13_declines_only : forall a b,
  gt a b = None -> is_numeric a = false \/ is_numeric b = false \/ wide_vs_float a b = true.

From Coq Require Import ZArith Bool List Permutation.
From KD Require Import Model.Values Model.Validate Model.Perm Model.Glob Model.Broker Model.BrokerRun Proofs.Broker Properties.C09.
Open Scope Z_scope.
Check c09_actuate : forall st p id v st' r,
  actuate st p id v = (st', r) ->
  match r with
  | Some _ => st' = st
  | None =>
    exists e a, read_entry (st_db st) p (st_now st) id = inl e /\
      can_write_actuator_target p (st_now st) (path_segs (e_meta e)) = POk /\
      m_etype (e_meta e) = Actuator /\
      validate_actuator_value (vmeta_of (e_meta e)) v = None /\
      find_owner (st_asubs st) id = Some a /\ as_registered a = true /\ In id (as_ids a) /\
      expired (as_perms a) (st_now st) = false /\ as_available a = true /\
      st' = set_asubs st (deliver (st_asubs st) (as_handle a) [(id, v)])
  end.
Check c09_batch_all_or_nothing : forall st p cs st' e,
  batch_actuate st p cs = (st', Some e) -> st' = st.
Check c09_batch_success : forall st p cs st',
  batch_actuate st p cs = (st', None) ->
  (forall id v, In (id, v) cs ->
     can_actuate_id (st_db st) p (st_now st) id = None /\
     validate_actuation (st_db st) p (st_now st) id v = None) /\
  exists calls,
    resolve_owners (st_now st) (st_asubs st) (group_by_id cs) = inl calls /\
    Permutation (concat (map snd calls)) cs /\
    st' = set_asubs st (fold_left (fun l '(h, call) => deliver l h call) calls (st_asubs st)).
Check c09_deliver_exact : forall l h call a,
  In a (deliver l h call) ->
  exists a0, In a0 l /\ as_handle a = as_handle a0 /\ as_ids a = as_ids a0 /\ as_perms a = as_perms a0 /\
             as_available a = as_available a0 /\ as_registered a = as_registered a0 /\
             as_inbox a = if as_handle a0 =? h then as_inbox a0 ++ [call] else as_inbox a0.
Check c09_value_untouched : forall st p id v, st_db (fst (actuate st p id v)) = st_db st.
Check c09_batch_value_untouched : forall st p cs, st_db (fst (batch_actuate st p cs)) = st_db st.
From KD Require Model.Api.
Check c09_stream_claim_is_core : forall st p l st' h,
  Api.v2_provide st p l = (st', inl h) ->
  exists ids, Api.resolve_paths (st_db st) (Api.sig_paths l) = Some ids /\
              provide_actuation st p (Api.sig_ids l ++ ids) = (st', inl h).
Check c09_stream_claim_refused_no_effect : forall st p l st' c,
  Api.v2_provide st p l = (st', inr c) -> st' = st.
Check c09_stream_publish_is_core : forall st p l,
  fst (Api.v2_stream_publish st p l) = fst (update_entries st p (Api.stream_updates l)) /\
  map fst (snd (Api.v2_stream_publish st p l)) = map fst (snd (update_entries st p (Api.stream_updates l))).
Check c09_handler_batch_pairs : forall db l cs,
  Api.v2_batch_resolve db l = inl cs ->
  Forall2 (fun x c => Api.v2_resolve_actuator db (fst x) = inl (fst c) /\
                      exists w, snd x = Some w /\ snd c = Api.from_wire w) l cs.
Check c09_handler_batch_served : forall st p l st',
  Api.v2_batch_actuate st p l = (st', Api.RStatus Api.OK) ->
  exists cs, Forall2 (Proofs.Api.names_pair (st_db st)) l cs /\ batch_actuate st p cs = (st', None).
Check c09_handler_batch_refused_no_effect : forall st p l st' c,
  Api.v2_batch_actuate st p l = (st', Api.RStatus c) -> c <> Api.OK -> st' = st.
Check c09_handler_actuate_served : forall st p s v st',
  Api.v2_actuate st p s v = (st', Api.RStatus Api.OK) ->
  exists id w, Api.v2_resolve_actuator (st_db st) s = inl id /\ v = Some w /\
               actuate st p id (Api.from_wire w) = (st', None).

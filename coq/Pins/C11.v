From Coq Require Import List Arith Bool.
Import ListNotations.
From KD Require Import Model.Conc Proofs.Conc Properties.C11.
Check c11_fifo_rw_deadlock_free : forall ps c,
  Forall (fun p => wf p = true) ps -> reach ps c ->
  (exists i t, nth_error (fst c) i = Some t /\ unfinished t) -> ~ stuck c.
Check c11_ops_well_ordered : forallb wf all_lock_programs = true.
Check c11_every_call_completes : forall ps c,
  (forall p, In p ps -> In p all_lock_programs) -> reach ps c ->
  (exists i t, nth_error (fst c) i = Some t /\ unfinished t) -> ~ stuck c.
Check c11_mutual_exclusion : forall ps c,
  Forall (fun p => wf p = true) ps -> reach ps c -> Inv c /\ Excl c.

From Coq Require Import ZArith Bool List.
From KD Require Import Model.Values Model.Validate Model.Perm Model.Glob Model.Broker Model.BrokerRun Proofs.Broker Properties.C03.
Open Scope Z_scope.
Check c03_read_needs_permission : forall db p now id e,
  read_entry db p now id = inl e ->
  lookup_id (entries db) id = Some e /\ can_read p now (path_segs (e_meta e)) = POk.
Check c03_snapshot_readable : forall db p now es, Forall (notif_ok db p now) (build_snapshot db p now es).
Check c03_notification_readable : forall db p now w l,
  build_notifs db p now w = Some l -> Forall (notif_ok db p now) l.
Check c03_no_disclosure : forall h, subs_covered (run_history h).
Check c03_expired_sub_gets_nothing : forall db now changed s,
  expired (cs_perms s) now = true ->
  (forall id f, In (id, f) changed -> exists e, lookup_id (entries db) id = Some e) ->
  cs_sent (fst (notify_change db now changed s)) = cs_sent s.
Check c03_expired_sub_removed : forall now s,
  cs_registered s = true -> expired (cs_perms s) now = true ->
  cs_registered (cleanup_csub now s) = false.
From KD Require Model.Api.
Check c03_v1_subscribe_only_readable : forall st p path fl st' h,
  Api.v1_subscribe st p path fl = (st', inl h) ->
  exists es, Api.v1_sub_entries st p path fl = inl es /\ subscribe st p es None = (st', inl h) /\
             forall id f, In (id, f) es ->
               exists e, In (id, e) (entries (st_db st)) /\ f = fl /\
                         can_read p (st_now st) (path_segs (e_meta e)) = POk.

From Coq Require Import ZArith Bool List.
From KD Require Import Model.Values Model.Validate Model.Perm Model.Glob Model.Broker Model.BrokerRun Proofs.Broker Properties.C04.
Open Scope Z_scope.
Check c04_write_needs_right : forall us db p now clock changed errs db' changed' errs' id e e',
  apply_updates db p now clock us changed errs = (db', changed', errs') ->
  lookup_id (entries db) id = Some e -> lookup_id (entries db') id = Some e' ->
  (can_write_datapoint p now (path_segs (e_meta e)) <> POk -> e_dp e' = e_dp e /\ e_lag e' = e_lag e) /\
  (can_write_actuator_target p now (path_segs (e_meta e)) <> POk -> e_target e' = e_target e).
Check c04_meta_immutable : forall h1 h2 id e,
  lookup_id (entries (st_db (run_history h1))) id = Some e ->
  exists e', lookup_id (entries (st_db (run_history (h1 ++ h2)))) id = Some e' /\ e_meta e' = e_meta e.
Check c04_denied_no_effect : forall us db p now clock changed errs db' changed' errs',
  apply_updates db p now clock us changed errs = (db', changed', errs') ->
  length errs' = (length errs + length us)%nat -> db' = db /\ changed' = changed.
Check c04_refused_claim_no_effect : forall st p ids st' e,
  provide_actuation st p ids = (st', inr e) -> st' = st.
Check c04_failed_batch_no_effect : forall st p cs st' e,
  batch_actuate st p cs = (st', Some e) -> st' = st.
Check c04_expired_token_changes_nothing : forall us db p now clock changed errs db' changed' errs' id e e',
  expired p now = true ->
  apply_updates db p now clock us changed errs = (db', changed', errs') ->
  lookup_id (entries db) id = Some e -> lookup_id (entries db') id = Some e' -> e' = e.
Check c04_expired_token_registers_nothing : forall db p now clock name dt ct et mn mx al db' r,
  expired p now = true -> add_entry db p now clock name dt ct et mn mx al = (db', r) -> db' = db.

From Coq Require Import ZArith Reals Bool List.
From KD Require Import Model.Values Model.Compare Model.Validate Model.Perm Model.Glob Model.Broker
     Model.BrokerRun Model.FloatLit Model.Query Model.QueryRun
     Proofs.CompareFloat Proofs.Compare Proofs.Broker Proofs.Query Properties.C12.
Open Scope Z_scope.
Check c12_accepted_is_well_typed : forall schema q cq,
  compile_query schema q = Ok cq ->
  (forall w, c_where cq = Some w -> wtb w = true /\ get_type w = Some TBool)
  /\ Forall (fun '(e, _) => wtb e = true) (c_proj cq).
Check c12_well_typed_is_resolved : forall e, wtb e = true -> no_unres e = true.
Check c12_refused_at_subscribe_time : forall schema q,
  bad_query schema q = true -> refused (compile_query schema q).
Check c12_condition_sound : forall rho e,
  wf_rho rho -> lits_wf e -> sqlq e = true ->
  forall b, exec rho e = Some (VBool b) ->
            (b = true -> holds rho true e) /\ (b = false -> ~ holds rho false e).
Check c12_condition_exact : forall rho e b,
  wf_rho rho -> lits_wf e -> sqlq e = true -> crisp rho e ->
  exec rho e = Some (VBool b) -> (b = true <-> holds rho true e).
Check c12_trigger_iff : forall db now ch s fs,
  (exists lags, notify_query db now (Some ch) s = QSent fs lags) <->
  qs_registered s = true /\ qs_open s = true /\ changes_match db (qs_query s) ch = true
  /\ run_query (valuation db (qs_perms s) now) (qs_query s) = Some fs.
Check c12_changes_match_iff : forall db c ch,
  changes_match db c ch = true <->
  exists id f e, In (id, f) ch /\ f_dp f = true /\ lookup_id (entries db) id = Some e
                 /\ name_in (m_path (e_meta e)) (query_inputs c) = true.
Check c12_row : forall rho c fs,
  run_query rho c = Some fs ->
  match c_where c with Some w => exec rho w = Some (VBool true) | None => True end
  /\ exec_proj rho 0 (c_proj c) = Some fs /\ fs <> [].
Check c12_fields : forall rho l i fs,
  exec_proj rho i l = Some fs ->
  length fs = length l /\
  forall k e a, nth_error l k = Some (e, a) ->
    exists v, exec rho e = Some v /\ nth_error fs k = Some (field_name (i + Z.of_nat k) e a, v).
Check c12_visible_values : forall db p now name id e,
  lookup_path (path_to_id db) name = Some id -> lookup_id (entries db) id = Some e ->
  valuation db p now name =
  match can_read p now (path_segs (e_meta e)) with
  | POk => (d_value (e_dp e), d_value (e_lag e))
  | _ => (VNA, VNA)
  end.
Check c12_lag_is_previous : forall db p now clock id u ch db' e,
  update_one db p now clock id u = (db', inl ch) -> f_dp ch = true ->
  lookup_id (entries db) id = Some e ->
  exists e', lookup_id (entries db') id = Some e' /\ e_lag e' = e_dp e
             /\ exists v, u_dp u = Some v /\ e_dp e' = {| d_ts := clock; d_value := v |}.
Check c12_subquery_operand_refused : forall schema : list Z -> option data_type,
  compile_expr schema QSub = Err EUnsupportedOperation /\
  (forall op a, compile_expr schema (QBin op QSub a) = Err EUnsupportedOperation) /\
  (forall a neg hi, (exists c, compile_expr schema a = Ok c) ->
                    compile_expr schema (QBetween a neg QSub hi) = Err EUnsupportedOperation).

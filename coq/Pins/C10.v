From Coq Require Import ZArith Bool List.
From KD Require Import Model.Values Model.Validate Model.Perm Model.Glob Model.Broker Model.BrokerRun Proofs.Broker Proofs.Interleave Properties.C10.
Open Scope Z_scope.
Check c10_exclusive_seq : forall h, claims_disjoint (st_asubs (run_history h)).
Check c10_refused_registers_nothing : forall st p ids st' e,
  provide_actuation st p ids = (st', inr e) -> st' = st.
Check c10_actuate_fails_when_owner_lost : forall st p id v a,
  find_owner (st_asubs st) id = Some a ->
  (as_available a = false \/ expired (as_perms a) (st_now st) = true) ->
  exists e, actuate st p id v = (st, Some e).
Check c10_release_on_loss : forall now a,
  as_registered a = true -> (as_available a = false \/ expired (as_perms a) now = true) ->
  as_registered (cleanup_asub now a) = false.
Check c10_exclusive_all_schedules : forall (ops : list conc_action) st0 ts st,
  claims_disjoint (st_asubs st0) ->
  ireach state (map sections ops, st0) (ts, st) -> claims_disjoint (st_asubs st).

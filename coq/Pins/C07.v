From Coq Require Import ZArith Bool List.
From KD Require Import Model.Values Model.Validate Model.Perm Model.Glob Model.Broker Model.BrokerRun Proofs.Broker Properties.C07.
Open Scope Z_scope.
Check c07_at_most_one_message : forall db now changed s,
  cs_sent (fst (notify_change db now changed s)) = cs_sent s \/
  exists m, m <> [] /\ cs_sent (fst (notify_change db now changed s)) = cs_sent s ++ [m] /\
            Forall (notif_ok db (cs_perms s) now) m /\
            (forall n, In n m -> exists f, In (n_id n, f) (watched (cs_entries s) changed) /\ n_fields n = f) /\
            cs_registered s = true /\ cs_open s = true.
Check c07_nothing_watched_no_message : forall db now changed s,
  watched (cs_entries s) changed = [] -> fst (notify_change db now changed s) = s.
Check c07_rejected_batch_changes_nothing : forall us db p now clock changed errs db' changed' errs',
  apply_updates db p now clock us changed errs = (db', changed', errs') ->
  length errs' = (length errs + length us)%nat -> db' = db /\ changed' = changed.
Check c07_lag_loses_only_oldest : forall s s' m,
  recv_one s = (s', Some m) ->
  exists pos, cs_pos s <= pos /\ Z.of_nat (length (cs_sent s)) - cs_cap s <= pos /\
              pos < Z.of_nat (length (cs_sent s)) /\
              nth_error (cs_sent s) (Z.to_nat pos) = Some m /\ cs_pos s' = pos + 1 /\
              cs_sent s' = cs_sent s.
Check c07_capacity : forall n, n <= 2 ^ 64 -> n <= npow2 n.
Check c07_ends_only_on : forall now s,
  cs_registered s = true -> cs_registered (cleanup_csub now s) = false ->
  cs_open s = false \/ expired (cs_perms s) now = true.
From KD Require Model.Api.
Check c07_v2_subscribe_is_core : forall st p l buf st' h,
  Api.v2_subscribe st p l buf = (st', inl h) ->
  exists ids, Api.v2_resolve_all (st_db st) l = inl ids /\
              subscribe st p (map (fun id => (id, Api.dp_only)) (Api.nodup_z ids)) (Some buf) = (st', inl h).
Check c07_refused_handler_subscription_no_effect : forall st p,
  (forall path fl st' c, Api.v1_subscribe st p path fl = (st', inr c) -> st' = st) /\
  (forall l buf st' c, Api.v2_subscribe st p l buf = (st', inr c) -> st' = st).
Check c07_v1_multi_entry_union : forall st p l es,
  Api.v1_sub_all st p l [] = inl es ->
  forall path fl sel id f, In (path, fl) l -> Api.v1_sub_entries st p path fl = inl sel -> In (id, f) sel ->
  exists g, In (id, g) es /\
            (f_dp f = true -> f_dp g = true) /\ (f_target f = true -> f_target g = true) /\
            (f_unit f = true -> f_unit g = true).

(* Proofs/Compare.v — correctness of Model/Compare.v against the exact order of the numbers
   represented (C13). *)
From Coq Require Import ZArith Reals Lia Lra Bool List.
From Flocq Require Import Core IEEE754.BinarySingleNaN.
From KD Require Import Model.Values Model.Compare Proofs.CompareFloat.
Open Scope Z_scope.

(* the number a numeric operand denotes *)
Definition xnum (n : num) : xr :=
  match n with
  | NI32 z | NI64 z | NU32 z | NU64 z => XFin (IZR z)
  | NF32 x => xr_of x
  | NF64 x => xr_of x
  end.

(* operands carry integers inside the range of their kind *)
Definition wf_num (n : num) : Prop :=
  match n with
  | NI32 z => in_i32 z = true | NI64 z => in_i64 z = true
  | NU32 z => in_u32 z = true | NU64 z => in_u64 z = true
  | _ => True
  end.

Lemma in_i32_53 z : in_i32 z = true -> Z.abs z < 2 ^ 53.
Proof. unfold in_i32. intros H. apply andb_prop in H. lia. Qed.
Lemma in_u32_53 z : in_u32 z = true -> Z.abs z < 2 ^ 53.
Proof. unfold in_u32. intros H. apply andb_prop in H. lia. Qed.
Lemma in_u32_nonneg z : in_u32 z = true -> 0 <= z.
Proof. unfold in_u32. intros H. apply andb_prop in H. lia. Qed.
Lemma in_u64_nonneg z : in_u64 z = true -> 0 <= z.
Proof. unfold in_u64. intros H. apply andb_prop in H. lia. Qed.

Lemma try_i32_some z z' : try_i32 z = Some z' -> z' = z /\ in_i32 z = true.
Proof. unfold try_i32. destruct (in_i32 z); intros H; inversion H; auto. Qed.
Lemma try_u32_some z z' : try_u32 z = Some z' -> z' = z /\ in_u32 z = true.
Proof. unfold try_u32. destruct (in_u32 z); intros H; inversion H; auto. Qed.

Lemma gtb_IZR x y : (x >? y) = true <-> (IZR y < IZR x)%R.
Proof.
  rewrite Z.gtb_lt. split; [apply IZR_lt | apply lt_IZR].
Qed.

Lemma bool_iff_true (b : bool) (P : Prop) : (b = true <-> P) -> forall r, Some b = Some r -> (r = true <-> P).
Proof. intros H r E. inversion E. subst. exact H. Qed.

Ltac xsimp :=
  repeat match goal with
  | H : try_i32 _ = Some _ |- _ => apply try_i32_some in H; destruct H as [? H]; subst
  | H : try_u32 _ = Some _ |- _ => apply try_u32_some in H; destruct H as [? H]; subst
  end;
  cbn [xnum];
  rewrite ?f64_of_f32_exact;
  repeat match goal with
  | H : in_i32 ?z = true |- context [f64_of_Z ?z] => rewrite (xr_f64_of_Z z (in_i32_53 z H))
  | H : in_u32 ?z = true |- context [f64_of_Z ?z] => rewrite (xr_f64_of_Z z (in_u32_53 z H))
  end.

Theorem gt_num_correct a b r :
  wf_num a -> wf_num b -> gt_num a b = Some r -> (r = true <-> xgt (xnum a) (xnum b)).
Proof.
  intros Wa Wb.
  destruct a as [x|x|x|x|x|x], b as [y|y|y|y|y|y]; cbn [gt_num wf_num] in *;
    try (apply bool_iff_true; cbn [xnum xgt]; apply gtb_IZR);
    try (destruct (x <? 0) eqn:Hneg; [| apply bool_iff_true; cbn [xnum xgt]; apply gtb_IZR]);
    try (destruct (y <? 0) eqn:Hneg; [| apply bool_iff_true; cbn [xnum xgt]; apply gtb_IZR]);
    try (destruct (try_i32 x) eqn:Ht; [|discriminate]);
    try (destruct (try_u32 x) eqn:Ht; [|discriminate]);
    try (destruct (try_i32 y) eqn:Ht; [|discriminate]);
    try (destruct (try_u32 y) eqn:Ht; [|discriminate]);
    try (apply bool_iff_true;
         rewrite fgt_correct;
         xsimp; reflexivity).
  all: intros E; inversion E; subst r; cbn [xnum xgt]; apply Z.ltb_lt in Hneg.
  all: try (apply in_u64_nonneg in Wb); try (apply in_u64_nonneg in Wa).
  all: split; intros H; try discriminate; try reflexivity.
  all: try (apply lt_IZR in H; lia).
  all: apply IZR_lt; lia.
Qed.

(* ---------- equality with tolerance ---------- *)
Lemma xr_fin_inv {p e} (x : binary_float p e) v :
  xr_of x = XFin v -> is_finite x = true /\ B2R x = v.
Proof. destruct x; simpl; intros H; inversion H; auto. Qed.

Lemma close64_xr (p q : f64) :
  close64 p q = true ->
  exists ra rb, xr_of p = XFin ra /\ xr_of q = XFin rb /\ (Rabs (ra - rb) < bpow radix2 (-52))%R.
Proof.
  intros H. apply close64_sound in H. destruct H as (Fp & Fq & L).
  exists (B2R p), (B2R q). rewrite (xr_of_finite p Fp), (xr_of_finite q Fq). auto.
Qed.

Lemma close32_xr (p q : f32) :
  close32 p q = true ->
  exists ra rb, xr_of p = XFin ra /\ xr_of q = XFin rb /\ (Rabs (ra - rb) < bpow radix2 (-23))%R.
Proof.
  intros H. apply close32_sound in H. destruct H as (Fp & Fq & L).
  exists (B2R p), (B2R q). rewrite (xr_of_finite p Fp), (xr_of_finite q Fq). auto.
Qed.

Lemma close64_xr_same (p q : f64) v : xr_of p = XFin v -> xr_of q = XFin v -> close64 p q = true.
Proof.
  intros Hp Hq. apply xr_fin_inv in Hp. apply xr_fin_inv in Hq.
  destruct Hp as [Fp Vp], Hq as [Fq Vq]. apply close64_same; auto. congruence.
Qed.

Lemma close32_xr_same (p q : f32) v : xr_of p = XFin v -> xr_of q = XFin v -> close32 p q = true.
Proof.
  intros Hp Hq. apply xr_fin_inv in Hp. apply xr_fin_inv in Hq.
  destruct Hp as [Fp Vp], Hq as [Fq Vq]. apply close32_same; auto. congruence.
Qed.

Definition eps_of (a b : num) : R :=
  match a, b with
  | NF32 _, NF32 _ => bpow radix2 (-23)
  | _, _ => bpow radix2 (-52)
  end.

Lemma eps_of_pos a b : (0 < eps_of a b)%R.
Proof. destruct a, b; unfold eps_of; apply bpow_gt_0. Qed.

Lemma eqb_some_true x y : Some (x =? y) = Some true -> x = y.
Proof. intros H. inversion H as [E]. apply Z.eqb_eq in E. exact E. Qed.

Theorem eq_num_tolerance a b :
  wf_num a -> wf_num b -> eq_num a b = Some true ->
  exists ra rb, xnum a = XFin ra /\ xnum b = XFin rb /\ (Rabs (ra - rb) < eps_of a b)%R.
Proof.
  intros Wa Wb.
  assert (Hint : forall x y, Some (x =? y) = Some true ->
            exists ra rb, XFin (IZR x) = XFin ra /\ XFin (IZR y) = XFin rb
                          /\ (Rabs (ra - rb) < bpow radix2 (-52))%R).
  { intros x y E. apply eqb_some_true in E. subst y. exists (IZR x), (IZR x).
    repeat split. rewrite Rminus_diag_eq, Rabs_R0 by reflexivity. apply bpow_gt_0. }
  destruct a as [x|x|x|x|x|x], b as [y|y|y|y|y|y]; cbn [eq_num wf_num eps_of xnum] in *;
    try (apply Hint);
    try (destruct (x <? 0) eqn:Hneg; [discriminate | apply Hint]);
    try (destruct (y <? 0) eqn:Hneg; [discriminate | apply Hint]);
    try (destruct (try_i32 x) eqn:Ht; [|discriminate]);
    try (destruct (try_u32 x) eqn:Ht; [|discriminate]);
    try (destruct (try_i32 y) eqn:Ht; [|discriminate]);
    try (destruct (try_u32 y) eqn:Ht; [|discriminate]);
    intros E; inversion E as [E']; clear E;
    first [apply close64_xr in E' | apply close32_xr in E'];
    destruct E' as (ra & rb & Ha & Hb & L); exists ra, rb;
    revert Ha Hb; xsimp; intros Ha Hb; auto.
Qed.

Theorem eq_num_same a b v r :
  wf_num a -> wf_num b -> xnum a = XFin v -> xnum b = XFin v -> eq_num a b = Some r -> r = true.
Proof.
  intros Wa Wb.
  assert (Hint : forall x y, XFin (IZR x) = XFin v -> XFin (IZR y) = XFin v ->
                             Some (x =? y) = Some r -> r = true).
  { intros x y Hx Hy E. inversion Hx as [Hx']. inversion Hy as [Hy']. rewrite <- Hy' in Hx'.
    apply eq_IZR in Hx'. subst y. rewrite Z.eqb_refl in E. inversion E. reflexivity. }
  assert (Hneg1 : forall x y, x < 0 -> 0 <= y -> XFin (IZR x) = XFin v -> XFin (IZR y) = XFin v -> False).
  { intros x y Hx Hy E1 E2. inversion E1 as [E1']. inversion E2 as [E2']. rewrite <- E2' in E1'.
    apply eq_IZR in E1'. lia. }
  destruct a as [x|x|x|x|x|x], b as [y|y|y|y|y|y]; cbn [eq_num wf_num xnum] in *;
    try (apply Hint);
    try (destruct (x <? 0) eqn:Hneg; [apply Z.ltb_lt in Hneg; apply in_u64_nonneg in Wb;
           intros E1 E2; exfalso; eapply (Hneg1 x y); eauto | apply Hint]);
    try (destruct (y <? 0) eqn:Hneg; [apply Z.ltb_lt in Hneg; apply in_u64_nonneg in Wa;
           intros E1 E2; exfalso; eapply (Hneg1 y x); eauto | apply Hint]);
    try (destruct (try_i32 x) eqn:Ht; [|discriminate]);
    try (destruct (try_u32 x) eqn:Ht; [|discriminate]);
    try (destruct (try_i32 y) eqn:Ht; [|discriminate]);
    try (destruct (try_u32 y) eqn:Ht; [|discriminate]);
    intros Ha Hb E; inversion E as [E']; clear E;
    first [apply (close64_xr_same _ _ v) | apply (close32_xr_same _ _ v)];
    xsimp; assumption.
Qed.

(* ---------- value level (what DataValue::* computes) ---------- *)
Definition xval (v : value) : option xr := option_map xnum (num_of v).

Definition wf_value (v : value) : Prop :=
  match num_of v with Some n => wf_num n | None => True end.

(* i64 outside the i32 range / u64 outside the u32 range *)
Definition wide (v : value) : bool :=
  match v with
  | VI64 z => negb (in_i32 z)
  | VU64 z => negb (in_u32 z)
  | _ => false
  end.
Definition is_float (v : value) : bool :=
  match v with VF32 _ | VF64 _ => true | _ => false end.
(* the documented unrepresentable conversion *)
Definition wide_vs_float (a b : value) : bool :=
  (wide a && is_float b) || (wide b && is_float a).

Lemma gt_correct a b r :
  wf_value a -> wf_value b -> gt a b = Some r ->
  exists xa xb, xval a = Some xa /\ xval b = Some xb /\ (r = true <-> xgt xa xb).
Proof.
  unfold gt, xval, wf_value. destruct (num_of a) as [na|]; [|discriminate].
  destruct (num_of b) as [nb|]; [|discriminate]. intros Wa Wb H.
  exists (xnum na), (xnum nb). repeat split; try (apply (gt_num_correct na nb r Wa Wb H)).
Qed.

Lemma lt_correct a b r :
  wf_value a -> wf_value b -> lt a b = Some r ->
  exists xa xb, xval a = Some xa /\ xval b = Some xb /\ (r = true <-> xgt xb xa).
Proof.
  unfold lt. intros Wa Wb H. destruct (gt_correct b a r Wb Wa H) as (xb & xa & Hb & Ha & E).
  exists xa, xb. auto.
Qed.

Definition veps (a b : value) : R :=
  match a, b with VF32 _, VF32 _ => bpow radix2 (-23) | _, _ => bpow radix2 (-52) end.

Definition xclose (eps : R) (xa xb : xr) : Prop :=
  exists ra rb, xa = XFin ra /\ xb = XFin rb /\ (Rabs (ra - rb) < eps)%R.

Lemma eq_numeric_inv a b na nb :
  num_of a = Some na -> num_of b = Some nb -> eq a b = eq_num na nb.
Proof.
  intros Ha Hb. unfold eq. rewrite Ha, Hb.
  destruct a; try discriminate; destruct b; try discriminate; reflexivity.
Qed.

Lemma veps_eps_of a b na nb :
  num_of a = Some na -> num_of b = Some nb -> veps a b = eps_of na nb.
Proof.
  destruct a; simpl; intros Ha; inversion Ha; subst;
  destruct b; simpl; intros Hb; inversion Hb; subst; reflexivity.
Qed.

Lemma eq_tolerance a b xa xb :
  wf_value a -> wf_value b -> xval a = Some xa -> xval b = Some xb ->
  eq a b = Some true -> xclose (veps a b) xa xb.
Proof.
  unfold xval, wf_value. destruct (num_of a) as [na|] eqn:Ha; [|discriminate].
  destruct (num_of b) as [nb|] eqn:Hb; [|discriminate]. simpl.
  intros Wa Wb Ea Eb. inversion Ea; inversion Eb; subst.
  rewrite (eq_numeric_inv a b na nb Ha Hb), (veps_eps_of a b na nb Ha Hb).
  apply eq_num_tolerance; assumption.
Qed.

Lemma eq_same a b v r :
  wf_value a -> wf_value b -> xval a = Some (XFin v) -> xval b = Some (XFin v) ->
  eq a b = Some r -> r = true.
Proof.
  unfold xval, wf_value. destruct (num_of a) as [na|] eqn:Ha; [|discriminate].
  destruct (num_of b) as [nb|] eqn:Hb; [|discriminate]. simpl.
  intros Wa Wb Ea Eb. injection Ea as Ea. injection Eb as Eb.
  rewrite (eq_numeric_inv a b na nb Ha Hb). intros E.
  exact (eq_num_same na nb v r Wa Wb Ea Eb E).
Qed.

Lemma gt_num_none_eq_num_none na nb : gt_num na nb = None -> eq_num na nb = None.
Proof.
  destruct na as [x|x|x|x|x|x], nb as [y|y|y|y|y|y]; cbn [gt_num eq_num]; try discriminate;
    try (destruct (x <? 0); discriminate); try (destruct (y <? 0); discriminate);
    try (destruct (try_i32 x); [discriminate|reflexivity]);
    try (destruct (try_u32 x); [discriminate|reflexivity]);
    try (destruct (try_i32 y); [discriminate|reflexivity]);
    try (destruct (try_u32 y); [discriminate|reflexivity]).
Qed.

Lemma gte_true a b xa xb :
  wf_value a -> wf_value b -> xval a = Some xa -> xval b = Some xb ->
  gte a b = Some true -> xgt xa xb \/ xclose (veps a b) xa xb.
Proof.
  intros Wa Wb Ha Hb. unfold gte. destruct (gt a b) as [[|]|] eqn:G.
  - intros _. left. destruct (gt_correct a b true Wa Wb G) as (xa' & xb' & Ha' & Hb' & E).
    rewrite Ha in Ha'. rewrite Hb in Hb'. inversion Ha'; inversion Hb'; subst. apply E. reflexivity.
  - intros E. right. eapply eq_tolerance; eauto.
  - intros E. right. eapply eq_tolerance; eauto.
Qed.

Lemma gte_false a b xa xb :
  wf_value a -> wf_value b -> xval a = Some xa -> xval b = Some xb ->
  gte a b = Some false -> ~ xgt xa xb /\ (forall v, xa = XFin v -> xb = XFin v -> False).
Proof.
  intros Wa Wb Ha Hb. unfold gte. destruct (gt a b) as [[|]|] eqn:G; try discriminate.
  - intros E. split.
    + destruct (gt_correct a b false Wa Wb G) as (xa' & xb' & Ha' & Hb' & Eg).
      rewrite Ha in Ha'. rewrite Hb in Hb'. inversion Ha'; inversion Hb'; subst.
      intros X. apply Eg in X. discriminate.
    + intros v Hxa Hxb. subst. pose proof (eq_same a b v false Wa Wb Ha Hb E). discriminate.
  - intros E. exfalso. unfold gt in G. unfold xval in Ha, Hb.
    destruct (num_of a) as [na|] eqn:Na; [|discriminate].
    destruct (num_of b) as [nb|] eqn:Nb; [|discriminate].
    rewrite (eq_numeric_inv a b na nb Na Nb) in E.
    rewrite (gt_num_none_eq_num_none na nb G) in E. discriminate.
Qed.

(* lte is gte with the operands swapped, except that `equals` keeps its argument order *)
Lemma lte_true a b xa xb :
  wf_value a -> wf_value b -> xval a = Some xa -> xval b = Some xb ->
  lte a b = Some true -> xgt xb xa \/ xclose (veps a b) xa xb.
Proof.
  intros Wa Wb Ha Hb. unfold lte, lt. destruct (gt b a) as [[|]|] eqn:G.
  - intros _. left. destruct (gt_correct b a true Wb Wa G) as (xb' & xa' & Hb' & Ha' & E).
    rewrite Ha in Ha'. rewrite Hb in Hb'. inversion Ha'; inversion Hb'; subst. apply E. reflexivity.
  - intros E. right. eapply eq_tolerance; eauto.
  - intros E. right. eapply eq_tolerance; eauto.
Qed.

(* ---------- declining ---------- *)
Lemma gt_declines a b :
  gt a b = None -> is_numeric a = false \/ is_numeric b = false \/ wide_vs_float a b = true.
Proof.
  unfold gt, is_numeric. destruct (num_of a) as [na|] eqn:Na; [|auto].
  destruct (num_of b) as [nb|] eqn:Nb; [|auto]. intros G. right. right.
  destruct a; try discriminate; destruct b; try discriminate;
    cbn [num_of] in Na, Nb; injection Na as Na; injection Nb as Nb; subst;
    cbn [gt_num] in G; try discriminate;
    try (destruct (_ <? 0); discriminate);
    unfold wide_vs_float, wide, is_float, try_i32, try_u32 in *;
    repeat match goal with
    | H : match (if ?c then _ else _) with Some _ => _ | None => _ end = None |- _ =>
        destruct c; try discriminate
    end; reflexivity.
Qed.

Lemma gt_answers a b :
  is_numeric a = true -> is_numeric b = true -> wide_vs_float a b = false ->
  exists r, gt a b = Some r.
Proof.
  intros Ha Hb W. destruct (gt a b) as [r|] eqn:G; [eauto|].
  apply gt_declines in G. destruct G as [G|[G|G]]; congruence.
Qed.

(* ---------- non-vacuity: concrete operands meeting the hypotheses ---------- *)
Example gt_nonvacuous :
  gt (VU64 9223372036854775808) (VI64 (-1)) = Some true
  /\ gt (VI64 16777217) (VF32 1266679808) = Some true          (* 2^24+1 > 16777216f32 *)
  /\ gt (VF64 4841369599423283200) (VI32 2147483647) = Some true  (* 2^32 as f64 *)
  /\ gt (VI64 4294967296) (VF64 0) = None.
Proof. vm_compute. auto. Qed.

Example eq_nonvacuous :
  eq (VI32 1) (VF32 1065353216) = Some true
  /\ eq (VF64 4607182418800017408) (VF64 4607182418800017409) = Some false
  /\ eq (VF32 2139095040) (VF32 2139095040) = Some false     (* inf: outside the equality domain *)
  /\ wf_value (VI32 1) /\ wf_value (VF32 1065353216).
Proof. vm_compute. auto. Qed.

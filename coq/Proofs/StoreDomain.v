(* Proofs/StoreDomain.v — the store invariant of Proofs/Store.v read through the declarative domain of
   Proofs/Validate.v: every value stored in any reachable state is NotAvailable or lies in the declared domain
   of its signal (carrier kind, narrow range, min/max in the exact order of the numbers, allowed list). *)
From Coq Require Import ZArith Bool List.
From KD Require Import Model.Values Model.Compare Model.Validate Model.Perm Model.Glob Model.Broker
     Model.BrokerRun Proofs.Compare Proofs.Validate Proofs.Broker Proofs.Store.
Open Scope Z_scope.

Definition in_domain_or_na (m : vmeta) (v : value) : Prop := v = VNA \/ in_domainb m v = true.

Lemma value_ok_domain m v : value_ok m v -> in_domain_or_na m v.
Proof.
  intros [H|H]; [left; exact H|].
  destruct (is_na v) eqn:E.
  - left. destruct v; try discriminate; reflexivity.
  - right. apply (validate_iff_domain m v E). exact H.
Qed.

Theorem history_store_in_domain h id e :
  lookup_id (entries (st_db (run_history h))) id = Some e ->
  in_domain_or_na (vmeta_of (e_meta e)) (d_value (e_dp e)) /\
  in_domain_or_na (vmeta_of (e_meta e)) (d_value (e_lag e)) /\
  (forall d, e_target e = Some d -> in_domain_or_na (vmeta_of (e_meta e)) (d_value d)).
Proof.
  intros L. destruct (history_store_ok h id e L) as (Hd & Hl & Ht).
  split; [apply value_ok_domain; exact Hd|]. split; [apply value_ok_domain; exact Hl|].
  intros d Ed. rewrite Ed in Ht. apply value_ok_domain. exact Ht.
Qed.

(* whatever a reader is handed in a reachable state lies in the domain *)
Theorem history_read_in_domain h p now id e :
  read_entry (st_db (run_history h)) p now id = inl e ->
  in_domain_or_na (vmeta_of (e_meta e)) (d_value (e_dp e)) /\
  (forall d, e_target e = Some d -> in_domain_or_na (vmeta_of (e_meta e)) (d_value d)).
Proof.
  intros R. unfold read_entry in R.
  destruct (lookup_id (entries (st_db (run_history h))) id) as [e0|] eqn:L; [|discriminate].
  destruct (can_read p now (path_segs (e_meta e0))); try discriminate.
  inversion R; subst. destruct (history_store_in_domain h id e L) as (A & _ & C). split; assumption.
Qed.

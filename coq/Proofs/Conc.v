(* Proofs/Conc.v — FIFO read/write locks + lock-ordered, well-bracketed programs never get
   stuck (C11), for any number of tasks and any programs. *)
From Coq Require Import List Arith Bool Lia PeanoNat.
Import ListNotations.
From KD Require Import Model.Conc.

(* The invariant *)
Record Inv (c:tasks*locks) : Prop := {
  i_wf : forall i t, nth_error (fst c) i = Some t -> wf (prog t) = true /\ pc t <= length (prog t);
  i_hold : forall i t l, nth_error (fst c) i = Some t ->
           forall h, theld t = Some h ->
           (forall m, In (i,m) (holders (snd c l)) -> hget h l <> None) /\
           (hget h l <> None -> exists m, In (i,m) (holders (snd c l)));
  i_holdtid : forall l i m, In (i,m) (holders (snd c l)) -> exists t, nth_error (fst c) i = Some t;
  i_queue : forall l i m, In (i,m) (queue (snd c l)) ->
            exists t, nth_error (fst c) i = Some t /\ waiting t = true /\ nth_error (prog t) (pc t) = Some (Acq l m);
  i_wait : forall i t, nth_error (fst c) i = Some t -> waiting t = true ->
            exists l m, nth_error (prog t) (pc t) = Some (Acq l m) /\ In (i,m) (queue (snd c l));
  i_qnodup : forall l, NoDup (map fst (queue (snd c l)))
}.

(* ---------- static lemmas ---------- *)
Lemma srun_app h p q : srun h (p ++ q) = match srun h p with Some h' => srun h' q | None => None end.
Proof. revert h; induction p as [|i p IH]; intros h; simpl; [reflexivity|].
  destruct (sstep h i); [apply IH|reflexivity]. Qed.

Lemma srun_prefix p k h0 hf : srun h0 p = Some hf -> exists h, srun h0 (firstn k p) = Some h.
Proof. intros H. rewrite <- (firstn_skipn k p) in H. rewrite srun_app in H.
  destruct (srun h0 (firstn k p)); [eauto|discriminate]. Qed.

Lemma srun_at p k h0 hf h i : srun h0 p = Some hf -> srun h0 (firstn k p) = Some h ->
  nth_error p k = Some i -> exists h', sstep h i = Some h'.
Proof. intros H Hk Hn.
  assert (Hs: p = firstn k p ++ i :: skipn (S k) p).
  { clear -Hn. revert k Hn; induction p as [|a p IH]; intros [|k] Hn; simpl in *; try discriminate.
    - now inversion Hn. - f_equal. now apply IH. }
  rewrite Hs, srun_app, Hk in H. simpl in H. destruct (sstep h i); [eauto|discriminate]. Qed.

Lemma all_lt_hget h l : all_lt h l = true -> forall k, hget h k <> None -> k < l.
Proof. unfold all_lt. induction h as [|[a m] h IH]; simpl; intros H k Hk; [exfalso; apply Hk; reflexivity|].
  apply andb_true_iff in H as [Ha Hh]. apply Nat.ltb_lt in Ha; simpl in Ha.
  destruct (Nat.eqb a k) eqn:E; [apply Nat.eqb_eq in E; subst; exact Ha | now apply IH]. Qed.

Lemma wf_full p : wf p = true -> srun [] p = Some [].
Proof. unfold wf. destruct (srun [] p) as [[|x l]|]; intros H; try discriminate; reflexivity. Qed.

(* ---------- progress ---------- *)
Definition stuck (c:tasks*locks) := forall c', ~ step c c'.

Lemma incompatible_has_holder m hs : compatible m hs = false -> exists u mu, In (u,mu) hs.
Proof. destruct m; simpl.
  - induction hs as [|[u mu] hs IH]; simpl; [discriminate|]. intros _. exists u, mu. now left.
  - destruct hs as [|[u mu] hs]; [discriminate|]. intros _. exists u, mu. now left. Qed.

Lemma theld_defined c i t : Inv c -> nth_error (fst c) i = Some t -> exists h, theld t = Some h.
Proof. intros I Ht. destruct (i_wf c I i t Ht) as [Hwf _]. apply wf_full in Hwf.
  unfold theld. eapply srun_prefix; eauto. Qed.

Lemma unfinished_not_waiting_steps c i t : Inv c -> nth_error (fst c) i = Some t -> unfinished t ->
  waiting t = false -> ~ stuck c.
Proof. intros I Ht Hu Hw S. destruct c as [ts ls]; simpl in *.
  unfold unfinished in Hu. destruct (nth_error (prog t) (pc t)) as [ins|] eqn:E.
  2:{ apply nth_error_None in E. lia. }
  destruct ins as [l m|l|l|].
  - eapply S. eapply s_enq; eauto.
  - eapply S. eapply s_down; eauto.
  - eapply S. eapply s_rel; eauto.
  - eapply S. eapply s_act; eauto. Qed.

(* if stuck and everyone unfinished is waiting, a waiter on l yields a waiter on a larger lock *)
Lemma chain c : Inv c -> stuck c ->
  (forall i t, nth_error (fst c) i = Some t -> unfinished t -> waiting t = true) ->
  forall i t l m, nth_error (fst c) i = Some t -> waiting t = true ->
    nth_error (prog t) (pc t) = Some (Acq l m) ->
    exists u tu l' m', nth_error (fst c) u = Some tu /\ waiting tu = true /\
      nth_error (prog tu) (pc tu) = Some (Acq l' m') /\ l < l'.
Proof. intros I S AW i t l m Ht Hw Hat.
  destruct (i_wait c I i t Ht Hw) as (l0 & m0 & Hat0 & Hq). rewrite Hat in Hat0. inversion Hat0; subst l0 m0; clear Hat0.
  destruct (queue (snd c l)) as [|[j mj] q] eqn:EQ; [inversion Hq|].
  destruct (i_queue c I l j mj) as (tj & Htj & Hwj & Hatj). { rewrite EQ. now left. }
  destruct (compatible mj (holders (snd c l))) eqn:EC.
  { exfalso. destruct c as [ts ls]. eapply S. eapply s_grant; eauto. }
  apply incompatible_has_holder in EC as (u & mu & Hu).
  destruct (i_holdtid c I l u mu Hu) as (tu & Htu).
  destruct (theld_defined c u tu I Htu) as (h & Hh).
  destruct (i_hold c I u tu l Htu h Hh) as [H1 _]. specialize (H1 mu Hu).
  destruct (i_wf c I u tu Htu) as [Hwf Hle].
  assert (Hun: unfinished tu).
  { unfold unfinished. destruct (Nat.eq_dec (pc tu) (length (prog tu))) as [E|E]; [|lia].
    exfalso. unfold theld in Hh. rewrite E, firstn_all in Hh. rewrite (wf_full _ Hwf) in Hh. inversion Hh; subst h. now apply H1. }
  pose proof (AW u tu Htu Hun) as Hwu.
  destruct (i_wait c I u tu Htu Hwu) as (l' & m' & Hatu & _).
  exists u, tu, l', m'. repeat split; auto.
  destruct (srun_at (prog tu) (pc tu) [] [] h (Acq l' m') (wf_full _ Hwf) Hh Hatu) as (h' & Hs).
  simpl in Hs. destruct (all_lt h l') eqn:EA; [|discriminate].
  eapply all_lt_hget; eauto. Qed.

(* locks mentioned are bounded, so the chain cannot go on *)
Definition instr_lock (i:instr) : nat := match i with Acq l _ | Down l | Rel l => l | Act => 0 end.
Definition bound_prog (p:program) := fold_right Nat.max 0 (map instr_lock p).
Definition bound (ts:tasks) := fold_right Nat.max 0 (map (fun t => bound_prog (prog t)) ts).

Lemma bound_prog_nth p k i : nth_error p k = Some i -> instr_lock i <= bound_prog p.
Proof. unfold bound_prog. revert k; induction p as [|a p IH]; intros [|k] H; simpl in *; try discriminate.
  - inversion H; subst. lia. - specialize (IH k H). lia. Qed.
Lemma bound_nth ts i t : nth_error ts i = Some t -> bound_prog (prog t) <= bound ts.
Proof. unfold bound. revert i; induction ts as [|a ts IH]; intros [|i] H; simpl in *; try discriminate.
  - inversion H; subst. lia. - specialize (IH i H). lia. Qed.

Theorem progress c : Inv c -> (exists i t, nth_error (fst c) i = Some t /\ unfinished t) -> ~ stuck c.
Proof. intros I (i & t & Ht & Hu) S.
  (* either someone unfinished is not waiting, or all are *)
  assert (D: (exists j tj, nth_error (fst c) j = Some tj /\ unfinished tj /\ waiting tj = false) \/
             (forall j tj, nth_error (fst c) j = Some tj -> unfinished tj -> waiting tj = true)).
  { clear -c. generalize (fst c) as ts. intros ts.
    assert (G: forall base:nat, (exists j tj, nth_error ts j = Some tj /\ unfinished tj /\ waiting tj = false) \/
             (forall j tj, nth_error ts j = Some tj -> unfinished tj -> waiting tj = true)).
    { intros _. induction ts as [|a ts IH].
      - right. intros [|j] tj H; discriminate.
      - destruct IH as [(j & tj & A & B & C)|IH].
        + left. exists (S j), tj. auto.
        + destruct (waiting a) eqn:Ew.
          * right. intros [|j] tj H Hun; simpl in H; [inversion H; subst; auto| eauto].
          * destruct (lt_dec (pc a) (length (prog a))) as [L|L].
            -- left. exists 0, a. auto.
            -- right. intros [|j] tj H Hun; simpl in H; [inversion H; subst; unfold unfinished in Hun; lia| eauto]. }
    exact (G 0). }
  destruct D as [(j & tj & A & B & C)|AW].
  { eapply unfinished_not_waiting_steps; eauto. }
  pose proof (AW i t Ht Hu) as Hw.
  destruct (i_wait c I i t Ht Hw) as (l & m & Hat & _).
  (* iterate chain beyond the bound *)
  assert (K: forall n i t l m, nth_error (fst c) i = Some t -> waiting t = true ->
             nth_error (prog t) (pc t) = Some (Acq l m) -> bound (fst c) - l <= n -> False).
  { induction n as [|n IH]; intros i0 t0 l0 m0 H0 W0 A0 Hb;
      destruct (chain c I S AW i0 t0 l0 m0 H0 W0 A0) as (u & tu & l' & m' & Hu' & Wu & Au & Hlt);
      pose proof (bound_prog_nth _ _ _ Au) as B1; pose proof (bound_nth _ _ _ Hu') as B2; simpl in B1.
    - lia.
    - eapply (IH u tu l' m'); eauto. lia. }
  eapply K; eauto. Qed.

(* ---------- preservation ---------- *)
Lemma tupd_0 a ts t' : tupd (a::ts) 0 t' = t' :: ts. Proof. reflexivity. Qed.
Lemma tupd_S a ts i t' : tupd (a::ts) (S i) t' = a :: tupd ts i t'. Proof. reflexivity. Qed.
Lemma nth_tupd_eq ts i t t' : nth_error ts i = Some t -> nth_error (tupd ts i t') i = Some t'.
Proof. revert i; induction ts as [|a ts IH]; intros [|i] H; simpl in H; try discriminate.
  - reflexivity. - rewrite tupd_S. simpl. now apply IH. Qed.
Lemma nth_tupd_neq ts i j t t' : nth_error ts i = Some t -> i <> j -> nth_error (tupd ts i t') j = nth_error ts j.
Proof. revert i j; induction ts as [|a ts IH]; intros [|i] [|j] H N; simpl in H; try discriminate; try congruence.
  - reflexivity. - rewrite tupd_S. reflexivity. - rewrite tupd_S. simpl. apply IH; auto. Qed.

Lemma firstn_S_nth {A} (p:list A) k i : nth_error p k = Some i -> firstn (S k) p = firstn k p ++ [i].
Proof. revert k; induction p as [|a p IH]; intros [|k] H; simpl in *; try discriminate.
  - now inversion H. - f_equal. now apply IH. Qed.

Lemma theld_step p k w w' ins h : nth_error p k = Some ins -> theld {|prog:=p; pc:=k; waiting:=w|} = Some h ->
  theld {|prog:=p; pc:=S k; waiting:=w'|} = sstep h ins.
Proof. unfold theld; cbn [prog pc]. intros Hn Hh. rewrite (firstn_S_nth _ _ _ Hn), srun_app, Hh. simpl.
  destruct (sstep h ins); reflexivity. Qed.

Lemma hget_hdel h l k : hget (hdel h l) k = if Nat.eqb k l then None else hget h k.
Proof. induction h as [|[a m] h IH]; simpl. - destruct (Nat.eqb k l); reflexivity.
  - destruct (Nat.eqb a l) eqn:E1.
    + rewrite IH. destruct (Nat.eqb k l) eqn:E2; auto. destruct (Nat.eqb a k) eqn:E3; auto.
      apply Nat.eqb_eq in E1, E3. subst. rewrite Nat.eqb_refl in E2. discriminate.
    + simpl. destruct (Nat.eqb a k) eqn:E3.
      * apply Nat.eqb_eq in E3; subst. rewrite E1. reflexivity.
      * apply IH. Qed.
Lemma hget_hset h l m k : hget (hset h l m) k = if Nat.eqb k l then Some m else hget h k.
Proof. unfold hset; simpl. rewrite hget_hdel. rewrite (Nat.eqb_sym l k). destruct (Nat.eqb k l); reflexivity. Qed.

Lemma in_remove_tid i j m hs : In (j,m) (remove_tid i hs) <-> j <> i /\ In (j,m) hs.
Proof. unfold remove_tid. rewrite filter_In. simpl. split; intros [A B]; split; auto.
  - apply negb_true_iff, Nat.eqb_neq in B. exact B. - apply negb_true_iff, Nat.eqb_neq. exact A. Qed.

Lemma upd_same ls l s : upd ls l s l = s. Proof. unfold upd. now rewrite Nat.eqb_refl. Qed.
Lemma upd_other ls l s k : k <> l -> upd ls l s k = ls k.
Proof. unfold upd. intros H. apply Nat.eqb_neq in H. now rewrite H. Qed.

Lemma not_waiting_if_not_acq c i t : Inv c -> nth_error (fst c) i = Some t ->
  (forall l m, nth_error (prog t) (pc t) <> Some (Acq l m)) -> waiting t = false.
Proof. intros I Ht H. destruct (waiting t) eqn:E; auto. destruct (i_wait c I i t Ht E) as (l & m & A & _). exfalso. eapply H; eauto. Qed.

Lemma not_in_queue_if_not_waiting c i t l m : Inv c -> nth_error (fst c) i = Some t -> waiting t = false -> ~ In (i,m) (queue (snd c l)).
Proof. intros I Ht Hw Hin. destruct (i_queue c I l i m Hin) as (t' & Ht' & W & _). rewrite Ht in Ht'. inversion Ht'; subst. congruence. Qed.

Ltac tcase j i Ht := destruct (Nat.eq_dec i j) as [?|?];
  [subst j; rewrite (nth_tupd_eq _ _ _ _ Ht) | rewrite (nth_tupd_neq _ _ _ _ _ Ht) by assumption].
Ltac lcase k l := destruct (Nat.eq_dec k l) as [?|?]; [subst k; rewrite ?upd_same | rewrite ?upd_other by assumption].

Lemma inv_step c c' : Inv c -> step c c' -> Inv c'.
Proof.
  intros I St. revert I.
  destruct St as [ts ls i t l m Hn Hi Hw | ts ls i t l m q Hn Hi Hw Hq Hc | ts ls i t l Hn Hi | ts ls i t l Hn Hi | ts ls i t Hn Hi]; intros I; simpl in *.
  - (* enq *)
    pose proof (not_in_queue_if_not_waiting _ _ _ l m I Hn Hw) as NQ; simpl in NQ.
    constructor; simpl.
    + intros j tj. tcase j i Hn; intros E; [inversion E; subst; simpl; apply (i_wf _ I i t Hn) | apply (i_wf _ I j tj E)].
    + intros j tj k. tcase j i Hn; intros E h Hh.
      * inversion E; subst tj; clear E. assert (Hh': theld t = Some h) by exact Hh.
        destruct (i_hold _ I i t k Hn h Hh') as [A B]; simpl in A, B. lcase k l; simpl; auto.
      * destruct (i_hold _ I j tj k E h Hh) as [A B]; simpl in A, B. lcase k l; simpl; auto.
    + intros k j mj. lcase k l; simpl; intros Hin; destruct (i_holdtid _ I _ j mj Hin) as (tj & Htj); simpl in Htj;
        (destruct (Nat.eq_dec i j); [subst j; eexists; apply (nth_tupd_eq _ _ _ _ Hn) | eexists; rewrite (nth_tupd_neq _ _ _ _ _ Hn) by assumption; eauto]).
    + intros k j mj. lcase k l; simpl; intros Hin.
      * apply in_app_or in Hin as [Hin|[Hin|[]]].
        -- destruct (i_queue _ I l j mj Hin) as (tj & Htj & W & A); simpl in Htj.
           assert (j <> i) by (intros ->; rewrite Hn in Htj; inversion Htj; subst; congruence).
           exists tj. rewrite (nth_tupd_neq _ _ _ _ _ Hn) by auto. auto.
        -- inversion Hin; subst. eexists. rewrite (nth_tupd_eq _ _ _ _ Hn). simpl. auto.
      * destruct (i_queue _ I k j mj Hin) as (tj & Htj & W & A); simpl in Htj.
        assert (j <> i) by (intros ->; rewrite Hn in Htj; inversion Htj; subst; congruence).
        exists tj. rewrite (nth_tupd_neq _ _ _ _ _ Hn) by auto. auto.
    + intros j tj. tcase j i Hn; intros E W.
      * inversion E; subst; simpl. exists l, m. split; auto. rewrite upd_same; simpl. apply in_or_app. right. now left.
      * destruct (i_wait _ I j tj E W) as (k & mk & A & B); simpl in B. exists k, mk. split; auto.
        lcase k l; simpl; auto. apply in_or_app; now left.
    + intros k. lcase k l; simpl; [|apply (i_qnodup _ I k)].
      rewrite map_app; simpl. pose proof (i_qnodup _ I l) as ND; simpl in ND.
      apply NoDup_app_remove_r with (l':=nil) || idtac.
      assert (Hni: ~ In i (map fst (queue (ls l)))).
      { intros Hx. apply in_map_iff in Hx as ([j mj] & Ej & Hj); simpl in Ej; subst j.
        eapply (not_in_queue_if_not_waiting (ts,ls) i t l mj I Hn Hw); exact Hj. }
      clear -ND Hni. induction (map fst (queue (ls l))) as [|a q IH]; simpl.
      * constructor; [intros []|constructor].
      * inversion ND; subst. constructor.
        -- intros Hin. apply in_app_or in Hin as [Hin|[Hin|[]]]; [contradiction|]. subst. apply Hni. now left.
        -- apply IH; auto. intros Hx. apply Hni. now right.
  - (* grant *)
    pose proof (i_qnodup _ I l) as ND; simpl in ND. rewrite Hq in ND; simpl in ND. inversion ND as [|? ? Hniq NDq]; subst.
    assert (NIO: forall k mk, k <> l -> ~ In (i,mk) (queue (ls k))).
    { intros k mk Nk Hin. destruct (i_queue _ I k i mk Hin) as (t' & Ht' & _ & A); simpl in Ht'. rewrite Hn in Ht'; inversion Ht'; subst t'. rewrite Hi in A. inversion A; congruence. }
    destruct (theld_defined _ _ _ I Hn) as (h & Hh).
    assert (Hs: sstep h (Acq l m) = Some (hset h l m) /\ all_lt h l = true).
    { destruct (i_wf _ I i t Hn) as [Hwf _]. destruct (srun_at _ _ _ _ _ _ (wf_full _ Hwf) Hh Hi) as (h' & Hs). simpl in *. destruct (all_lt h l); [auto|discriminate]. }
    destruct Hs as [Hs Hlt].
    constructor; simpl.
    + intros j tj. tcase j i Hn; intros E; [inversion E; subst; simpl; destruct (i_wf _ I i t Hn); split; auto; apply Nat.le_succ_l, nth_error_Some; congruence | apply (i_wf _ I j tj E)].
    + intros j tj k. tcase j i Hn; intros E h' Hh'.
      * inversion E; subst tj; clear E.
        assert (E2: Some h' = sstep h (Acq l m)).
        { rewrite <- Hh'. destruct t as [p k0 w]; cbn [prog pc waiting] in *. eapply theld_step; eauto. }
        rewrite Hs in E2. inversion E2; subst h'. rewrite hget_hset.
        destruct (i_hold _ I i t k Hn h Hh) as [A B]; simpl in A, B.
        lcase k l; simpl; [rewrite Nat.eqb_refl | apply Nat.eqb_neq in n; rewrite n; auto].
        split; [intros; discriminate | intros _; exists m; now left].
      * destruct (i_hold _ I j tj k E h' Hh') as [A B]; simpl in A, B. lcase k l; simpl; auto.
        split.
        -- intros mj [Ein|Hin]; [inversion Ein; congruence | eauto].
        -- intros Hg. destruct (B Hg) as (mj & Hin). exists mj. now right.
    + intros k j mj. lcase k l; simpl; intros Hin.
      * destruct Hin as [Ein|Hin].
        -- inversion Ein; subst. eexists. apply (nth_tupd_eq _ _ _ _ Hn).
        -- destruct (i_holdtid _ I _ j mj Hin) as (tj & Htj); simpl in Htj.
           destruct (Nat.eq_dec i j); [subst j; eexists; apply (nth_tupd_eq _ _ _ _ Hn) | eexists; rewrite (nth_tupd_neq _ _ _ _ _ Hn) by assumption; eauto].
      * destruct (i_holdtid _ I _ j mj Hin) as (tj & Htj); simpl in Htj.
        destruct (Nat.eq_dec i j); [subst j; eexists; apply (nth_tupd_eq _ _ _ _ Hn) | eexists; rewrite (nth_tupd_neq _ _ _ _ _ Hn) by assumption; eauto].
    + intros k j mj. lcase k l; simpl; intros Hin.
      * assert (j <> i). { intros ->. apply Hniq. apply in_map_iff. exists (i,mj). auto. }
        destruct (i_queue _ I l j mj) as (tj & Htj & W & A); simpl; [rewrite Hq; now right|]. simpl in Htj.
        exists tj. rewrite (nth_tupd_neq _ _ _ _ _ Hn) by auto. auto.
      * assert (j <> i). { intros ->. eapply NIO; eauto. }
        destruct (i_queue _ I k j mj Hin) as (tj & Htj & W & A); simpl in Htj.
        exists tj. rewrite (nth_tupd_neq _ _ _ _ _ Hn) by auto. auto.
    + intros j tj. tcase j i Hn; intros E W; [inversion E; subst; simpl in W; discriminate|].
      destruct (i_wait _ I j tj E W) as (k & mk & A & B); simpl in B. exists k, mk. split; auto.
      lcase k l; simpl; auto. rewrite Hq in B. destruct B as [B|B]; [inversion B; congruence|auto].
    + intros k. lcase k l; simpl; [exact NDq | apply (i_qnodup _ I k)].
  - (* down *)
    assert (Hw: waiting t = false) by (eapply (not_waiting_if_not_acq (ts,ls)); eauto; intros; rewrite Hi; discriminate).
    destruct (theld_defined _ _ _ I Hn) as (h & Hh).
    assert (Hs: sstep h (Down l) = Some (hset h l R)).
    { destruct (i_wf _ I i t Hn) as [Hwf _]. destruct (srun_at _ _ _ _ _ _ (wf_full _ Hwf) Hh Hi) as (h' & Hs). simpl in *. destruct (hget h l) as [[|]|]; try discriminate. reflexivity. }
    constructor; simpl.
    + intros j tj. tcase j i Hn; intros E; [inversion E; subst; simpl; destruct (i_wf _ I i t Hn); split; auto; apply Nat.le_succ_l, nth_error_Some; congruence | apply (i_wf _ I j tj E)].
    + intros j tj k. tcase j i Hn; intros E h' Hh'.
      * inversion E; subst tj; clear E.
        assert (E2: Some h' = sstep h (Down l)).
        { rewrite <- Hh'. destruct t as [p k0 w]; cbn [prog pc waiting] in *. eapply theld_step; eauto. }
        rewrite Hs in E2. inversion E2; subst h'. rewrite hget_hset.
        destruct (i_hold _ I i t k Hn h Hh) as [A B]; simpl in A, B.
        lcase k l; simpl; [rewrite Nat.eqb_refl | apply Nat.eqb_neq in n; rewrite n; auto].
        split; [intros; discriminate | intros _; exists R; now left].
      * destruct (i_hold _ I j tj k E h' Hh') as [A B]; simpl in A, B. lcase k l; simpl; auto.
        split.
        -- intros mj [Ein|Hin]; [inversion Ein; congruence | apply in_remove_tid in Hin as [_ Hin]; eauto].
        -- intros Hg. destruct (B Hg) as (mj & Hin). exists mj. right. apply in_remove_tid. auto.
    + intros k j mj. lcase k l; simpl; intros Hin.
      * destruct Hin as [Ein|Hin].
        -- inversion Ein; subst. eexists. apply (nth_tupd_eq _ _ _ _ Hn).
        -- apply in_remove_tid in Hin as [Nj Hin]. destruct (i_holdtid _ I _ j mj Hin) as (tj & Htj); simpl in Htj.
           eexists; rewrite (nth_tupd_neq _ _ _ _ _ Hn) by auto; eauto.
      * destruct (i_holdtid _ I _ j mj Hin) as (tj & Htj); simpl in Htj.
        destruct (Nat.eq_dec i j); [subst j; eexists; apply (nth_tupd_eq _ _ _ _ Hn) | eexists; rewrite (nth_tupd_neq _ _ _ _ _ Hn) by assumption; eauto].
    + intros k j mj Hin. assert (Hin': In (j,mj) (queue (ls k))) by (revert Hin; lcase k l; simpl; auto).
      assert (j <> i). { intros ->. eapply (not_in_queue_if_not_waiting (ts,ls)); eauto. }
      destruct (i_queue _ I k j mj Hin') as (tj & Htj & W & A); simpl in Htj.
      exists tj. rewrite (nth_tupd_neq _ _ _ _ _ Hn) by auto. auto.
    + intros j tj. tcase j i Hn; intros E W; [inversion E; subst; simpl in W; discriminate|].
      destruct (i_wait _ I j tj E W) as (k & mk & A & B); simpl in B. exists k, mk. split; auto. lcase k l; simpl; auto.
    + intros k. lcase k l; simpl; apply (i_qnodup _ I _).
  - (* rel *)
    assert (Hw: waiting t = false) by (eapply (not_waiting_if_not_acq (ts,ls)); eauto; intros; rewrite Hi; discriminate).
    destruct (theld_defined _ _ _ I Hn) as (h & Hh).
    assert (Hs: sstep h (Rel l) = Some (hdel h l)).
    { destruct (i_wf _ I i t Hn) as [Hwf _]. destruct (srun_at _ _ _ _ _ _ (wf_full _ Hwf) Hh Hi) as (h' & Hs). simpl in *. destruct (hget h l); try discriminate. reflexivity. }
    constructor; simpl.
    + intros j tj. tcase j i Hn; intros E; [inversion E; subst; simpl; destruct (i_wf _ I i t Hn); split; auto; apply Nat.le_succ_l, nth_error_Some; congruence | apply (i_wf _ I j tj E)].
    + intros j tj k. tcase j i Hn; intros E h' Hh'.
      * inversion E; subst tj; clear E.
        assert (E2: Some h' = sstep h (Rel l)).
        { rewrite <- Hh'. destruct t as [p k0 w]; cbn [prog pc waiting] in *. eapply theld_step; eauto. }
        rewrite Hs in E2. inversion E2; subst h'. rewrite hget_hdel.
        destruct (i_hold _ I i t k Hn h Hh) as [A B]; simpl in A, B.
        lcase k l; simpl; [rewrite Nat.eqb_refl | apply Nat.eqb_neq in n; rewrite n; auto].
        split; [intros mj Hin; apply in_remove_tid in Hin as [N _]; congruence | intros N; congruence].
      * destruct (i_hold _ I j tj k E h' Hh') as [A B]; simpl in A, B. lcase k l; simpl; auto.
        split.
        -- intros mj Hin; apply in_remove_tid in Hin as [_ Hin]; eauto.
        -- intros Hg. destruct (B Hg) as (mj & Hin). exists mj. apply in_remove_tid. auto.
    + intros k j mj. lcase k l; simpl; intros Hin.
      * apply in_remove_tid in Hin as [Nj Hin]. destruct (i_holdtid _ I _ j mj Hin) as (tj & Htj); simpl in Htj.
        eexists; rewrite (nth_tupd_neq _ _ _ _ _ Hn) by auto; eauto.
      * destruct (i_holdtid _ I _ j mj Hin) as (tj & Htj); simpl in Htj.
        destruct (Nat.eq_dec i j); [subst j; eexists; apply (nth_tupd_eq _ _ _ _ Hn) | eexists; rewrite (nth_tupd_neq _ _ _ _ _ Hn) by assumption; eauto].
    + intros k j mj Hin. assert (Hin': In (j,mj) (queue (ls k))) by (revert Hin; lcase k l; simpl; auto).
      assert (j <> i). { intros ->. eapply (not_in_queue_if_not_waiting (ts,ls)); eauto. }
      destruct (i_queue _ I k j mj Hin') as (tj & Htj & W & A); simpl in Htj.
      exists tj. rewrite (nth_tupd_neq _ _ _ _ _ Hn) by auto. auto.
    + intros j tj. tcase j i Hn; intros E W; [inversion E; subst; simpl in W; discriminate|].
      destruct (i_wait _ I j tj E W) as (k & mk & A & B); simpl in B. exists k, mk. split; auto. lcase k l; simpl; auto.
    + intros k. lcase k l; simpl; apply (i_qnodup _ I _).
  - (* act *)
    assert (Hw: waiting t = false) by (eapply (not_waiting_if_not_acq (ts,ls)); eauto; intros; rewrite Hi; discriminate).
    destruct (theld_defined _ _ _ I Hn) as (h & Hh).
    constructor; simpl.
    + intros j tj. tcase j i Hn; intros E; [inversion E; subst; simpl; destruct (i_wf _ I i t Hn); split; auto; apply Nat.le_succ_l, nth_error_Some; congruence | apply (i_wf _ I j tj E)].
    + intros j tj k. tcase j i Hn; intros E h' Hh'.
      * inversion E; subst tj; clear E.
        assert (E2: Some h' = sstep h Act).
        { rewrite <- Hh'. destruct t as [p k0 w]; cbn [prog pc waiting] in *. eapply theld_step; eauto. }
        simpl in E2. inversion E2; subst h'. apply (i_hold _ I i t k Hn h Hh).
      * apply (i_hold _ I j tj k E h' Hh').
    + intros k j mj Hin. destruct (i_holdtid _ I _ j mj Hin) as (tj & Htj); simpl in Htj.
      destruct (Nat.eq_dec i j); [subst j; eexists; apply (nth_tupd_eq _ _ _ _ Hn) | eexists; rewrite (nth_tupd_neq _ _ _ _ _ Hn) by assumption; eauto].
    + intros k j mj Hin.
      assert (j <> i). { intros ->. eapply (not_in_queue_if_not_waiting (ts,ls)); eauto. }
      destruct (i_queue _ I k j mj Hin) as (tj & Htj & W & A); simpl in Htj.
      exists tj. rewrite (nth_tupd_neq _ _ _ _ _ Hn) by auto. auto.
    + intros j tj. tcase j i Hn; intros E W; [inversion E; subst; simpl in W; discriminate|].
      apply (i_wait _ I j tj E W).
    + apply (i_qnodup _ I).
Qed.

Lemma nth_init ps i t : nth_error (init_tasks ps) i = Some t -> exists p, nth_error ps i = Some p /\ t = {| prog := p; pc := 0; waiting := false |}.
Proof. unfold init_tasks. intros H. rewrite nth_error_map in H. destruct (nth_error ps i); inversion H; eauto. Qed.

Lemma inv_init ps : Forall (fun p => wf p = true) ps -> Inv (init_tasks ps, init_locks).
Proof. intros F. constructor; simpl.
  - intros i t H. destruct (nth_init _ _ _ H) as (p & Hp & ->); simpl. split; [|lia].
    rewrite Forall_forall in F. apply F. eapply nth_error_In; eauto.
  - intros i t l H h Hh. destruct (nth_init _ _ _ H) as (p & Hp & ->). unfold theld in Hh; simpl in Hh. inversion Hh; subst. simpl.
    split; [intros m []| intros N; congruence].
  - intros l i m [].
  - intros l i m [].
  - intros i t H W. destruct (nth_init _ _ _ H) as (p & Hp & ->). discriminate.
  - intros l. constructor.
Qed.

Theorem fifo_rw_deadlock_free ps c :
  Forall (fun p => wf p = true) ps -> reach ps c ->
  (exists i t, nth_error (fst c) i = Some t /\ unfinished t) -> ~ stuck c.
Proof. intros F R. apply progress. induction R; [now apply inv_init | eapply inv_step; eauto]. Qed.


(* ---------- mutual exclusion: a writer is alone ---------- *)
Definition Excl (c : tasks * locks) : Prop :=
  forall l i, In (i, W) (holders (snd c l)) -> holders (snd c l) = [(i, W)].

Lemma compatible_W hs : compatible W hs = true -> hs = [].
Proof. destruct hs; simpl; [reflexivity|discriminate]. Qed.

Lemma compatible_R hs : compatible R hs = true -> forall j, ~ In (j, W) hs.
Proof.
  simpl. intros H j Hin. rewrite forallb_forall in H. specialize (H (j, W) Hin). discriminate.
Qed.

Lemma excl_step c c' : Inv c -> Excl c -> step c c' -> Excl c'.
Proof.
  intros I E St.
  destruct St as [ts ls i t l m Hn Hi Hw | ts ls i t l m q Hn Hi Hw Hq Hc | ts ls i t l Hn Hi
                 | ts ls i t l Hn Hi | ts ls i t Hn Hi]; intros k j Hin; simpl in *.
  - (* enqueue: holders unchanged *)
    revert Hin. lcase k l; simpl; intros Hin; apply (E _ _ Hin).
  - (* grant *)
    revert Hin. lcase k l; simpl; [|intros Hin; apply (E _ _ Hin)].
    intros [Eq|Hin].
    + inversion Eq; subst. apply compatible_W in Hc. rewrite Hc. reflexivity.
    + exfalso. destruct m.
      * eapply compatible_R; eauto.
      * apply compatible_W in Hc. rewrite Hc in Hin. destruct Hin.
  - (* downgrade *)
    revert Hin. lcase k l; simpl; [|intros Hin; apply (E _ _ Hin)].
    intros [Eq|Hin]; [inversion Eq|].
    apply in_remove_tid in Hin. destruct Hin as [Nj Hin]. pose proof (E l j Hin) as Eh.
    (* i holds l (it is about to downgrade it), so i = j: contradiction *)
    exfalso. destruct (theld_defined _ _ _ I Hn) as (h & Hh).
    destruct (i_wf _ I i t Hn) as [Hwf _].
    destruct (srun_at _ _ _ _ _ _ (wf_full _ Hwf) Hh Hi) as (h' & Hs). simpl in Hs.
    destruct (hget h l) as [mm|] eqn:G; [|discriminate].
    destruct (i_hold _ I i t l Hn h Hh) as [_ B]. simpl in B.
    destruct B as (mi & Hmi); [congruence|]. simpl in Eh. rewrite Eh in Hmi. destruct Hmi as [Eq|[]].
    inversion Eq. congruence.
  - (* release *)
    revert Hin. lcase k l; simpl; [|intros Hin; apply (E _ _ Hin)].
    intros Hin. apply in_remove_tid in Hin. destruct Hin as [Nj Hin]. pose proof (E l j Hin) as Eh.
    simpl in Eh. rewrite Eh. simpl. destruct (Nat.eqb j i) eqn:Eji; [apply Nat.eqb_eq in Eji; congruence|reflexivity].
  - (* act *) apply (E _ _ Hin).
Qed.

Theorem mutual_exclusion ps c :
  Forall (fun p => wf p = true) ps -> reach ps c -> Inv c /\ Excl c.
Proof.
  intros F R. induction R as [|c c' R IH St].
  - split; [now apply inv_init|]. intros l i [].
  - destruct IH as [I E]. split; [eapply inv_step; eauto | eapply excl_step; eauto].
Qed.

(* ---------- the broker's operations ---------- *)
Lemma ops_well_ordered : forallb wf all_lock_programs = true.
Proof. vm_compute. reflexivity. Qed.

(* any number of concurrent broker operations, in any mix: never stuck while someone is unfinished *)
Theorem broker_ops_deadlock_free ps c :
  (forall p, In p ps -> In p all_lock_programs) -> reach ps c ->
  (exists i t, nth_error (fst c) i = Some t /\ unfinished t) -> ~ stuck c.
Proof.
  intros Hps. apply fifo_rw_deadlock_free. apply Forall_forall. intros p Hp.
  pose proof ops_well_ordered as H. rewrite forallb_forall in H. apply H. apply Hps. exact Hp.
Qed.

(* the lock-order inversion of the pinned batch_actuate (finding F7) is rejected by wf *)
Example pinned_batch_actuate_ill_ordered :
  wf ([Acq Subs R] ++ sec Db R ++ sec Db R ++ [Act; Rel Subs]) = false.
Proof. vm_compute. reflexivity. Qed.

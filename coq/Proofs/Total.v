(* Proofs/Total.v — C18: requests with missing parts are answered with a status, a request that
   is answered with an error leaves the store as it was, and the query executor's "unresolved
   literal" arm (a debug_assert in the code) cannot be reached from a compiled query. *)
From Coq Require Import ZArith Lia Bool List.
From KD Require Import Model.Values Model.Compare Model.Validate Model.Perm Model.Glob Model.Broker
     Model.BrokerRun Model.Api Model.FloatLit Model.Query Proofs.Broker Proofs.Query.
Open Scope Z_scope.

(* ---------- missing message parts ---------- *)
Lemma v2_get_absent st p : v2_get_value st p SigAbsent = RStatus INVALID_ARGUMENT
                           /\ v2_get_value st p SigEmpty = RStatus INVALID_ARGUMENT.
Proof. split; reflexivity. Qed.

Lemma v2_publish_absent st p s :
  v2_publish st p s None = (st, RStatus INVALID_ARGUMENT)
  /\ (forall w, v2_publish st p SigAbsent (Some w) = (st, RStatus INVALID_ARGUMENT))
  /\ (forall w, v2_publish st p SigEmpty (Some w) = (st, RStatus INVALID_ARGUMENT)).
Proof. repeat split; reflexivity. Qed.

Lemma v2_actuate_absent st p s :
  v2_actuate st p s None = (st, RStatus INVALID_ARGUMENT)
  /\ (forall w, v2_actuate st p SigAbsent (Some w) = (st, RStatus INVALID_ARGUMENT))
  /\ (forall w, v2_actuate st p SigEmpty (Some w) = (st, RStatus INVALID_ARGUMENT)).
Proof. repeat split; reflexivity. Qed.

Lemma v2_batch_absent st p s r :
  v2_batch_actuate st p ((SigAbsent, s) :: r) = (st, RStatus INVALID_ARGUMENT)
  /\ v2_batch_actuate st p ((SigEmpty, s) :: r) = (st, RStatus INVALID_ARGUMENT).
Proof. split; reflexivity. Qed.

(* an absent value (Value without typed_value, Datapoint without value) is NotAvailable *)
Lemma absent_value_is_not_available : from_wire None = VNA.
Proof. reflexivity. Qed.

(* ---------- an error answer leaves the store unchanged ---------- *)
Lemma update_entries_single_error st p id u st' e :
  update_entries st p [(id, u)] = (st', [e]) -> st_db st' = st_db st.
Proof.
  unfold update_entries. cbn [apply_updates].
  destruct (update_one (st_db st) p (st_now st) (st_clock st) id u) as [db1 [ch|err]] eqn:U; cbn [apply_updates rev].
  - intros H. exfalso.
    destruct (existsb snd (map (notify_change db1 (st_now st)
               (if fields_empty ch then [] else changed_insert [] id ch)) (st_csubs st))); inversion H.
  - apply update_one_err in U. subst db1. cbn [app].
    destruct (existsb snd (map (notify_change (st_db st) (st_now st) []) (st_csubs st)));
      intros H; inversion H; reflexivity.
Qed.

Lemma update_entries_single_shape st p id u st' errs :
  update_entries st p [(id, u)] = (st', errs) -> errs = [] \/ exists e, errs = [e].
Proof.
  unfold update_entries. cbn [apply_updates].
  destruct (update_one (st_db st) p (st_now st) (st_clock st) id u) as [db1 [ch|err]]; cbn [apply_updates rev app];
    match goal with |- (if ?c then _ else _, _) = _ -> _ => destruct c end;
    intros H; inversion H; eauto.
Qed.

Theorem v2_publish_error_keeps_store st p s dp st' code :
  v2_publish st p s dp = (st', RStatus code) -> code <> OK -> st_db st' = st_db st.
Proof.
  unfold v2_publish. destruct dp as [w|]; [|intros H; inversion H; reflexivity].
  destruct (v2_get_signal (st_db st) s) as [id|c]; [|intros H; inversion H; reflexivity].
  destruct (update_entries st p [(id, dp_upd (from_wire w))]) as [st1 errs] eqn:U.
  intros H Hc. inversion H; subst.
  destruct (update_entries_single_shape _ _ _ _ _ _ U) as [->|[e ->]].
  - exfalso. apply Hc. reflexivity.
  - exact (update_entries_single_error _ _ _ _ _ _ U).
Qed.

Theorem v2_actuate_error_keeps_state st p s v st' code :
  v2_actuate st p s v = (st', RStatus code) -> code <> OK -> st' = st.
Proof.
  unfold v2_actuate. destruct v as [w|]; [|intros H; inversion H; reflexivity].
  destruct s as [| |path|id].
  - intros H; inversion H; reflexivity.
  - cbn [v2_resolve_actuator]. intros H; inversion H; reflexivity.
  - destruct (v2_resolve_actuator (st_db st) (SigPath path)) as [id|c]; [|intros H; inversion H; reflexivity].
    unfold actuate.
    destruct (can_actuate_id (st_db st) p (st_now st) id); [intros H; inversion H; reflexivity|].
    destruct (validate_actuation (st_db st) p (st_now st) id (from_wire w)); [intros H; inversion H; reflexivity|].
    destruct (owner_ready (st_now st) (find_owner (st_asubs st) id)); [|intros H; inversion H; reflexivity].
    intros H Hc. inversion H; subst. exfalso. apply Hc. reflexivity.
  - cbn [v2_resolve_actuator]. unfold actuate.
    destruct (can_actuate_id (st_db st) p (st_now st) id); [intros H; inversion H; reflexivity|].
    destruct (validate_actuation (st_db st) p (st_now st) id (from_wire w)); [intros H; inversion H; reflexivity|].
    destruct (owner_ready (st_now st) (find_owner (st_asubs st) id)); [|intros H; inversion H; reflexivity].
    intros H Hc. inversion H; subst. exfalso. apply Hc. reflexivity.
Qed.

Theorem v2_batch_error_keeps_state st p l st' code :
  v2_batch_actuate st p l = (st', RStatus code) -> code <> OK -> st' = st.
Proof.
  unfold v2_batch_actuate. destruct (v2_batch_resolve (st_db st) l) as [cs|c]; [|intros H; inversion H; reflexivity].
  destruct (batch_actuate st p cs) as [st1 [e|]] eqn:B.
  - intros H _. inversion H; subst. exact (batch_all_or_nothing _ _ _ _ _ B).
  - intros H Hc. inversion H; subst. exfalso. apply Hc. reflexivity.
Qed.

(* reads never change the state (they are functions of it) — stated for completeness of the list *)
Theorem reads_are_pure st p s : exists r, v2_get_value st p s = r.
Proof. eauto. Qed.

(* ---------- the query executor ---------- *)
(* execution of a compiled condition or projection never meets an unresolved literal *)
Theorem compiled_query_never_unresolved schema q cq :
  compile_query schema q = Ok cq ->
  (forall w, c_where cq = Some w -> no_unres w = true)
  /\ Forall (fun '(e, _) => no_unres e = true) (c_proj cq).
Proof.
  intros H. destruct (compile_query_wt schema q cq H) as [W P]. split.
  - intros w Hw. apply wtb_no_unres. apply (W w Hw).
  - eapply Forall_impl; [|exact P]. intros [e a] He. apply wtb_no_unres. exact He.
Qed.

(* LAG without exactly one plain argument, any other function, and unary minus are answered
   with a compilation error (never an index out of bounds) *)
Theorem odd_function_calls_refused schema n :
  compile_expr schema (QLagN n) = Err EUnsupportedOperator
  /\ compile_expr schema QFun = Err EUnsupportedOperator
  /\ (forall e, compile_expr schema (QNeg e) = Err EUnsupportedOperator).
Proof. repeat split; reflexivity. Qed.

(* Proofs/Errors.v — a reported failure carries the class of one of the causes that apply, and a
   request to which no cause applies is served (C19). *)
From Coq Require Import ZArith Bool List Lia.
From KD Require Import Model.Values Model.Compare Model.Validate Model.Perm Model.Glob Model.Broker
     Model.Api Model.Errors Proofs.Broker.
Open Scope Z_scope.

(* ---------- the vocabularies agree on the class ---------- *)
Lemma grpc_update_class e : class_of_grpc (update_status e) = Some (cls_update e).
Proof. destruct e; reflexivity. Qed.
Lemma v1_update_class e : class_of_v1 (v1_update_code e) = Some (cls_update e).
Proof. destruct e; reflexivity. Qed.
Lemma sdv_update_class e : In (cls_update e) (classes_of_sdv_error (sdv_update_code e)).
Proof. destruct e; simpl; auto. Qed.
Lemma grpc_read_class e : class_of_grpc (read_status e) = Some (cls_read e).
Proof. destruct e; reflexivity. Qed.
Lemma grpc_act_class e : class_of_grpc (act_status e) = cls_act e.
Proof. destruct e; reflexivity. Qed.

(* ---------- reads ---------- *)
Lemma can_read_cases p now path :
  can_read p now path = (if expired p now then PExpired else if read_allowed p path then POk else PDenied).
Proof. reflexivity. Qed.

Theorem read_class db p now id e :
  read_entry db p now id = inr e -> In (cls_read e) (causes_read db p now id).
Proof.
  unfold read_entry, causes_read. destruct (lookup_id (entries db) id) as [x|].
  - rewrite can_read_cases. destruct (expired p now); simpl.
    + intros H. inversion H. simpl. auto.
    + destruct (read_allowed p (path_segs (e_meta x))); simpl; intros H; inversion H. simpl. auto.
  - intros H. inversion H. simpl. auto.
Qed.

Theorem read_served db p now id :
  causes_read db p now id = [] -> exists e, read_entry db p now id = inl e.
Proof.
  unfold read_entry, causes_read. destruct (lookup_id (entries db) id) as [x|]; [|discriminate].
  rewrite can_read_cases. destruct (expired p now); simpl; [discriminate|].
  destruct (read_allowed p (path_segs (e_meta x))); simpl; [eauto|discriminate].
Qed.

(* ---------- validation only ever reports invalid-argument errors ---------- *)
Definition is_validation_error (e : update_error) : Prop := cls_update e = CInvalid.

Lemma check_min_max_err m v e : check_min_max m v = Some e -> is_validation_error e.
Proof.
  unfold check_min_max.
  destruct (vm_min m) as [mn|]; [destruct (gte v mn) as [[|]|]|];
    destruct (vm_max m) as [mx|]; try (destruct (lte v mx) as [[|]|]); intros H; inversion H; reflexivity.
Qed.

Lemma check_elems_err m narrow mk l e : check_elems m narrow mk l = Some e -> is_validation_error e.
Proof.
  induction l as [|x l IH]; simpl; [discriminate|].
  destruct (narrow x); [|intros H; inversion H; reflexivity].
  destruct (check_min_max m (mk x)) eqn:E; [intros H; inversion H; subst; eapply check_min_max_err; eauto|exact IH].
Qed.

Lemma validate_value_err m v e : validate_value m v = Some e -> is_validation_error e.
Proof.
  unfold validate_value. destruct (is_na v); [discriminate|].
  destruct (if scalar_numeric_type (vm_type m) then check_min_max m v else None) eqn:E.
  - intros H. inversion H; subst. destruct (scalar_numeric_type (vm_type m)); [eapply check_min_max_err; eauto|discriminate].
  - destruct (vm_type m); destruct v; intros H; try discriminate H;
      try (inversion H; reflexivity);
      try (eapply check_elems_err; eauto; fail);
      try (match type of H with (if ?c then _ else _) = _ => destruct c; inversion H; reflexivity end).
Qed.

Lemma validate_allowed_err m v e : validate_allowed m v = Some e -> is_validation_error e.
Proof.
  unfold validate_allowed, one_in, all_in. destruct (vm_allowed m) as [a|]; [|discriminate].
  destruct a; destruct v; intros H; try discriminate H; try (inversion H; reflexivity);
    match type of H with (if ?c then _ else _) = _ => destruct c; inversion H; reflexivity end.
Qed.

Lemma validate_error_invalid m v e : validate_datapoint_value m v = Some e -> cls_update e = CInvalid.
Proof.
  unfold validate_datapoint_value. destruct (validate_value m v) eqn:E.
  - intros H. inversion H; subst. eapply validate_value_err; eauto.
  - apply validate_allowed_err.
Qed.

(* ---------- updates ---------- *)
Lemma perm_cases_dp p now path :
  can_write_datapoint p now path =
  (if expired p now then PExpired else if m_match (p_provide p) path then POk else PDenied).
Proof. reflexivity. Qed.
Lemma perm_cases_target p now path :
  can_write_actuator_target p now path =
  (if expired p now then PExpired else if m_match (p_actuate p) path then POk else PDenied).
Proof. reflexivity. Qed.

Theorem update_class db p now clock id u err db' :
  update_one db p now clock id u = (db', inr err) -> In (cls_update err) (causes_update db p now id u).
Proof.
  unfold update_one, causes_update, scope_allows.
  destruct (lookup_id (entries db) id) as [e|]; [|intros H; inversion H; simpl; auto].
  destruct u as [dp tg mt]. cbn [u_meta u_dp u_target].
  destruct mt; [intros H; inversion H; simpl; auto|]. cbn [app].
  rewrite perm_cases_dp, perm_cases_target.
  destruct (expired p now) eqn:Ex; cbn [negb andb perm_to_upd].
  - destruct dp as [v|]; [intros H; inversion H; simpl; auto|].
    destruct tg as [t|]; [intros H; inversion H; simpl; auto|].
    cbn [diff_dp]. intros H. discriminate H.
  - destruct dp as [v|].
    + destruct (m_match (p_provide p) (path_segs (e_meta e))) eqn:Mp; cbn [perm_to_upd negb];
        [|intros H; inversion H; simpl; auto].
      destruct tg as [t|].
      * destruct (m_match (p_actuate p) (path_segs (e_meta e))) eqn:Ma; cbn [perm_to_upd negb];
          [|intros H; inversion H; simpl; auto].
        destruct (diff_dp e (Some v)) as [x|].
        -- destruct (validate_datapoint_value (vmeta_of (e_meta e)) x) as [ev|] eqn:V1.
           ++ intros H. inversion H; subst. erewrite validate_error_invalid by eauto. simpl; auto.
           ++ destruct t as [t|]; [|intros H; discriminate H].
              destruct (validate_datapoint_value (vmeta_of (e_meta e)) t) as [et|] eqn:V2; [|intros H; discriminate H].
              intros H. inversion H; subst. erewrite validate_error_invalid by eauto. simpl; auto.
        -- destruct t as [t|]; [|intros H; discriminate H].
           destruct (validate_datapoint_value (vmeta_of (e_meta e)) t) as [et|] eqn:V2; [|intros H; discriminate H].
           intros H. inversion H; subst. erewrite validate_error_invalid by eauto. simpl; auto.
      * destruct (diff_dp e (Some v)) as [x|]; [|intros H; discriminate H].
        destruct (validate_datapoint_value (vmeta_of (e_meta e)) x) as [ev|] eqn:V1; [|intros H; discriminate H].
        intros H. inversion H; subst. erewrite validate_error_invalid by eauto. simpl; auto.
    + destruct tg as [t|].
      * destruct (m_match (p_actuate p) (path_segs (e_meta e))) eqn:Ma; cbn [perm_to_upd negb];
          [|intros H; inversion H; simpl; auto].
        cbn [diff_dp]. destruct t as [t|]; [|intros H; discriminate H].
        destruct (validate_datapoint_value (vmeta_of (e_meta e)) t) as [et|] eqn:V2; [|intros H; discriminate H].
        intros H. inversion H; subst. erewrite validate_error_invalid by eauto. simpl; auto.
      * cbn [diff_dp]. intros H. discriminate H.
Qed.

Theorem update_served db p now clock id u :
  causes_update db p now id u = [] -> exists db' ch, update_one db p now clock id u = (db', inl ch).
Proof.
  unfold update_one, causes_update, scope_allows.
  destruct (lookup_id (entries db) id) as [e|]; [|discriminate].
  destruct u as [dp tg mt]. cbn [u_meta u_dp u_target].
  intros H.
  apply app_eq_nil in H. destruct H as [H1 H]. apply app_eq_nil in H. destruct H as [H2 H].
  apply app_eq_nil in H. destruct H as [H3 H]. apply app_eq_nil in H. destruct H as [H4 H].
  apply app_eq_nil in H. destruct H as [H5 H6].
  destruct mt; [discriminate H1|].
  rewrite perm_cases_dp, perm_cases_target.
  destruct (expired p now) eqn:Ex.
  - (* expired: only an update that writes nothing gets through *)
    destruct dp as [v|]; [discriminate H2|]. destruct tg as [t|]; [discriminate H2|].
    cbn [perm_to_upd diff_dp]. eauto.
  - cbn [negb andb] in H3, H4.
    destruct dp as [v|]; destruct tg as [t|]; cbn [perm_to_upd];
      repeat match goal with
      | Hx : (if negb (m_match ?m ?q) then _ else _) = [] |- _ =>
          destruct (m_match m q); [clear Hx|discriminate Hx]
      end; cbn [perm_to_upd];
      repeat match goal with
      | Hx : match diff_dp ?a ?b with Some _ => _ | None => _ end = [] |- _ =>
          destruct (diff_dp a b) as [x|]
      end;
      repeat match goal with
      | Hx : match validate_datapoint_value ?a ?b with Some _ => _ | None => _ end = [] |- _ =>
          destruct (validate_datapoint_value a b); [discriminate Hx|clear Hx]
      end;
      try (destruct t as [t|];
           repeat match goal with
           | Hx : match validate_datapoint_value ?a ?b with Some _ => _ | None => _ end = [] |- _ =>
               destruct (validate_datapoint_value a b); [discriminate Hx|clear Hx]
           end);
      eauto.
Qed.

(* ---------- actuation ---------- *)
Lemma can_actuate_id_cases db p now id :
  can_actuate_id db p now id =
  match lookup_id (entries db) id with
  | None => Some ANotFound
  | Some e => if expired p now then Some AExpired
              else if read_allowed p (path_segs (e_meta e)) then
                     if m_match (p_actuate p) (path_segs (e_meta e)) then None else Some ADenied
                   else Some ADenied
  end.
Proof.
  unfold can_actuate_id, read_entry. destruct (lookup_id (entries db) id) as [e|]; [|reflexivity].
  rewrite can_read_cases. destruct (expired p now) eqn:Ex; [reflexivity|].
  destruct (read_allowed p (path_segs (e_meta e))); [|reflexivity].
  rewrite perm_cases_target, Ex.
  destruct (m_match (p_actuate p) (path_segs (e_meta e))); reflexivity.
Qed.

Theorem actuate_class st p id v st' err :
  actuate st p id v = (st', Some err) ->
  exists c, cls_act err = Some c /\ In c (causes_actuate st p id v).
Proof.
  unfold actuate, causes_actuate, scope_allows. rewrite can_actuate_id_cases.
  destruct (lookup_id (entries (st_db st)) id) as [e|] eqn:L;
    [|intros H; inversion H; exists CNotFound; simpl; auto].
  destruct (expired p (st_now st)) eqn:Ex; [intros H; inversion H; exists CUnauth; simpl; auto|].
  cbn [negb andb app].
  destruct (read_allowed p (path_segs (e_meta e))) eqn:Ra; cbn [andb negb];
    [|intros H; inversion H; exists CDenied; simpl; auto].
  destruct (m_match (p_actuate p) (path_segs (e_meta e))) eqn:Ma; cbn [negb app];
    [|intros H; inversion H; exists CDenied; simpl; auto].
  unfold validate_actuation, read_entry. rewrite L, can_read_cases, Ex, Ra.
  destruct (entry_type_eqb (m_etype (e_meta e)) Actuator) eqn:Et; cbn [negb app];
    [|intros H; inversion H; exists CInvalid; simpl; auto].
  destruct (validate_actuator_value (vmeta_of (e_meta e)) v) as [ev|] eqn:V.
  - intros H. inversion H; subst. exists CInvalid. split; [|simpl; auto].
    pose proof (validate_error_invalid _ _ _ V) as C. destruct ev; simpl in *; try reflexivity; discriminate C.
  - cbn [app]. unfold owner_ready. destruct (find_owner (st_asubs st) id) as [a|];
      [|intros H; inversion H; exists CUnavailable; simpl; auto].
    destruct (expired (as_perms a) (st_now st)); [intros H; inversion H; exists CUnauth; simpl; auto|].
    destruct (as_available a); simpl; [intros H; discriminate H|].
    intros H. inversion H. exists CUnavailable. simpl. auto.
Qed.

Theorem actuate_served st p id v :
  causes_actuate st p id v = [] -> snd (actuate st p id v) = None.
Proof.
  unfold actuate, causes_actuate, scope_allows. rewrite can_actuate_id_cases.
  destruct (lookup_id (entries (st_db st)) id) as [e|] eqn:L; [|discriminate].
  intros H.
  apply app_eq_nil in H. destruct H as [H1 H]. apply app_eq_nil in H. destruct H as [H2 H].
  apply app_eq_nil in H. destruct H as [H3 H]. apply app_eq_nil in H. destruct H as [H4 H5].
  destruct (expired p (st_now st)) eqn:Ex; [discriminate H1|]. cbn [negb andb] in H2.
  destruct (read_allowed p (path_segs (e_meta e))) eqn:Ra; cbn [andb negb] in H2; [|discriminate H2].
  destruct (m_match (p_actuate p) (path_segs (e_meta e))) eqn:Ma; cbn [negb] in H2; [|discriminate H2].
  unfold validate_actuation, read_entry. rewrite L, can_read_cases, Ex, Ra.
  destruct (entry_type_eqb (m_etype (e_meta e)) Actuator); cbn [negb] in *; [|discriminate H3].
  destruct (validate_actuator_value (vmeta_of (e_meta e)) v); [discriminate H4|].
  unfold owner_ready. destruct (find_owner (st_asubs st) id) as [a|]; [|discriminate H5].
  destruct (expired (as_perms a) (st_now st)); [discriminate H5|].
  destruct (as_available a); simpl in *; [reflexivity|discriminate H5].
Qed.

(* ---------- kuksa.val.v2 handlers ---------- *)
Lemma signal_class db s code :
  v2_get_signal db s = inr code -> exists c, class_of_grpc code = Some c /\ In c (causes_signal db s).
Proof.
  unfold v2_get_signal, causes_signal. destruct s as [| |path|id].
  - intros H. inversion H. exists CInvalid. simpl. auto.
  - intros H. inversion H. exists CInvalid. simpl. auto.
  - destruct (too_long path); [intros H; inversion H; exists CInvalid; simpl; auto|].
    destruct (lookup_path (path_to_id db) path); [discriminate|]. intros H. inversion H. exists CNotFound. simpl. auto.
  - destruct (lookup_id (entries db) id); [discriminate|]. intros H. inversion H. exists CNotFound. simpl. auto.
Qed.

Lemma signal_served db s : causes_signal db s = [] -> exists id, v2_get_signal db s = inl id.
Proof.
  unfold v2_get_signal, causes_signal. destruct s as [| |path|id]; try discriminate.
  - destruct (too_long path); [discriminate|]. destruct (lookup_path (path_to_id db) path); [eauto|discriminate].
  - destruct (lookup_id (entries db) id); [eauto|discriminate].
Qed.

Theorem v2_get_class st p s code :
  v2_get_value st p s = RStatus code ->
  exists c, class_of_grpc code = Some c /\ In c (causes_v2_get st p s).
Proof.
  unfold v2_get_value, causes_v2_get. destruct (v2_get_signal (st_db st) s) as [id|c0] eqn:G.
  - destruct (read_entry (st_db st) p (st_now st) id) as [e|err] eqn:R; [discriminate|].
    intros H. inversion H. exists (cls_read err). split; [apply grpc_read_class|].
    apply in_or_app. right. eapply read_class; eauto.
  - intros H. inversion H; subst. destruct (signal_class _ _ _ G) as (c & A & B). exists c. split; [exact A|].
    apply in_or_app. left. exact B.
Qed.

Theorem v2_get_served st p s :
  causes_v2_get st p s = [] -> exists d, v2_get_value st p s = RValue d.
Proof.
  unfold v2_get_value, causes_v2_get. intros H. apply app_eq_nil in H. destruct H as [H1 H2].
  destruct (signal_served _ _ H1) as (id & G). rewrite G in *.
  destruct (read_served _ _ _ _ H2) as (e & R). rewrite R. eauto.
Qed.

Theorem v2_publish_class st p s dp st' code :
  v2_publish st p s dp = (st', RStatus code) -> code <> OK ->
  exists c, class_of_grpc code = Some c /\ In c (causes_v2_publish st p s dp).
Proof.
  unfold v2_publish, causes_v2_publish. destruct dp as [w|].
  - destruct (v2_get_signal (st_db st) s) as [id|c0] eqn:G.
    + unfold update_entries.
      destruct (apply_updates (st_db st) p (st_now st) (st_clock st) [(id, dp_upd (from_wire w))] [] [])
        as [[db' ch] errs] eqn:A.
      simpl in A. destruct (update_one (st_db st) p (st_now st) (st_clock st) id (dp_upd (from_wire w)))
        as [db1 [f|err]] eqn:U; simpl in A; inversion A; subst.
      * intros H. destruct (existsb snd _) in H; inversion H; congruence.
      * intros H Hne. exists (cls_update err). split.
        -- destruct (existsb snd _) in H; inversion H; apply grpc_update_class.
        -- simpl. apply in_or_app. right. eapply update_class; eauto.
    + intros H Hne. inversion H; subst. destruct (signal_class _ _ _ G) as (c & X & Y). exists c. split; [exact X|].
      simpl. apply in_or_app. left. exact Y.
  - intros H Hne. inversion H; subst. exists CInvalid. simpl. auto.
Qed.

(* ---------- claims (provide_actuation) ---------- *)
Lemma mem_z_in x l : mem_z x l = true <-> In x l.
Proof.
  unfold mem_z. rewrite existsb_exists. split.
  - intros [y [Hy E]]. apply Z.eqb_eq in E. subst. exact Hy.
  - intros H. exists x. split; [exact H|apply Z.eqb_refl].
Qed.

Lemma scan_never_already_exists db p now ids :
  first_error (can_actuate_id db p now) ids <> Some AAlreadyExists.
Proof.
  induction ids as [|x r IH]; cbn [first_error]; [discriminate|].
  destruct (can_actuate_id db p now x) as [e|] eqn:C; [|exact IH].
  intros H; inversion H; subst. unfold can_actuate_id in C.
  destruct (read_entry db p now x) as [en|re].
  - destruct (can_write_actuator_target p now (path_segs (e_meta en))); discriminate.
  - destruct re; discriminate.
Qed.

(* "already exists" is reported only when some actuator the claim names has a registered owner (live, or lost and
   not yet removed by housekeeping); naming an actuator twice in one claim is no such cause *)
Theorem claim_already_exists_cause st p ids st' :
  provide_actuation st p ids = (st', inr AAlreadyExists) ->
  exists id a, In id ids /\ In a (st_asubs st) /\ as_registered a = true /\ In id (as_ids a).
Proof.
  unfold provide_actuation.
  destruct (first_error (can_actuate_id (st_db st) p (st_now st)) ids) as [e|] eqn:F.
  - intros H; inversion H; subst.
    (* the permission / existence scan never answers AlreadyExists *)
    exfalso. apply (scan_never_already_exists _ _ _ _ F).
  - match goal with |- context[existsb ?f ids] => destruct (existsb f ids) eqn:X end; [|discriminate].
    intros _. apply existsb_exists in X. destruct X as [id [Hin M]]. apply mem_z_in in M.
    apply in_flat_map in M. destruct M as [a [Ha Hid]]. exists id, a.
    destruct (as_registered a) eqn:R; [|destruct Hid]. repeat split; assumption.
Qed.

(* a claim whose actuators all exist, may be actuated by the caller and have no registered owner is served *)
Theorem claim_served st p ids :
  first_error (can_actuate_id (st_db st) p (st_now st)) ids = None ->
  (forall id a, In id ids -> In a (st_asubs st) -> as_registered a = true -> ~ In id (as_ids a)) ->
  exists h, snd (provide_actuation st p ids) = inl h.
Proof.
  intros F N. unfold provide_actuation. rewrite F.
  match goal with |- context[existsb ?f ids] => destruct (existsb f ids) eqn:X end.
  - exfalso. apply existsb_exists in X. destruct X as [id [Hin M]]. apply mem_z_in in M.
    apply in_flat_map in M. destruct M as [a [Ha Hid]].
    destruct (as_registered a) eqn:R; [|destruct Hid]. exact (N id a Hin Ha R Hid).
  - eexists. reflexivity.
Qed.

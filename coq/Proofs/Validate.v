(* Proofs/Validate.v — validate() accepts exactly the declared domain (C02). *)
From Coq Require Import ZArith Bool List Lia.
From KD Require Import Model.Values Model.Compare Model.Validate.
Open Scope Z_scope.

(* ---------- declarative domain ---------- *)
(* the scalar elements a value consists of *)
Definition elems (v : value) : list value :=
  match v with
  | VNA => []
  | VBoolA l => map VBool l | VStrA l => map VStr l
  | VI32A l => map VI32 l | VI64A l => map VI64 l | VU32A l => map VU32 l | VU64A l => map VU64 l
  | VF32A l => map VF32 l | VF64A l => map VF64 l
  | s => [s]
  end.

(* the value kind a data type is carried in (types.rs / doc/TYPES.md) *)
Definition carrier (t : data_type) : Z :=
  match t with
  | TString => 2 | TBool => 1 | TInt8 | TInt16 | TInt32 => 3 | TInt64 => 4
  | TUint8 | TUint16 | TUint32 => 5 | TUint64 => 6 | TFloat => 7 | TDouble => 8
  | TStringArray => 10 | TBoolArray => 9 | TInt8Array | TInt16Array | TInt32Array => 11
  | TInt64Array => 12 | TUint8Array | TUint16Array | TUint32Array => 13 | TUint64Array => 14
  | TFloatArray => 15 | TDoubleArray => 16
  end.

Definition shape_ok (t : data_type) (v : value) : bool := kind_code v =? carrier t.

(* 8- and 16-bit ranges travelling in 32-bit carriers *)
Definition narrow_okb (t : data_type) (x : value) : bool :=
  match t, x with
  | TInt8, VI32 z | TInt8Array, VI32 z => in_i8 z
  | TInt16, VI32 z | TInt16Array, VI32 z => in_i16 z
  | TUint8, VU32 z | TUint8Array, VU32 z => in_u8 z
  | TUint16, VU32 z | TUint16Array, VU32 z => in_u16 z
  | _, _ => true
  end.

Definition numeric_type (t : data_type) : bool :=
  match t with
  | TString | TBool | TStringArray | TBoolArray => false
  | _ => true
  end.

Definition bound_okb (m : vmeta) (x : value) : bool :=
  match vm_min m with
  | Some mn => match gte x mn with Some true => true | _ => false end
  | None => true
  end &&
  match vm_max m with
  | Some mx => match lte x mx with Some true => true | _ => false end
  | None => true
  end.

(* array kind that lists values of a given kind *)
Definition list_kind (k : Z) : Z := if k <=? 8 then k + 8 else k.

Definition allowed_kind_ok (m : vmeta) (v : value) : bool :=
  match vm_allowed m with
  | None => true
  | Some a => negb (is_na v) && (kind_code a =? (if kind_code v =? 1 then 9 else if kind_code v =? 2 then 10
                                   else list_kind (kind_code v)))
  end.

Definition allowed_okb (m : vmeta) (x : value) : bool :=
  match vm_allowed m with
  | None => true
  | Some a => existsb (value_eqb x) (elems a)
  end.

Definition in_domainb (m : vmeta) (v : value) : bool :=
  shape_ok (vm_type m) v && allowed_kind_ok m v &&
  forallb (fun x => narrow_okb (vm_type m) x
                    && (if numeric_type (vm_type m) then bound_okb m x else true)
                    && allowed_okb m x) (elems v).

(* ---------- lemmas about the loops ---------- *)
Lemma check_min_max_iff m x : check_min_max m x = None <-> bound_okb m x = true.
Proof.
  unfold check_min_max, bound_okb.
  destruct (vm_min m) as [mn|]; [destruct (gte x mn) as [[|]|]|];
  destruct (vm_max m) as [mx|]; try (destruct (lte x mx) as [[|]|]); simpl; split; intros H;
    try reflexivity; try discriminate.
Qed.

Lemma check_elems_iff m narrow mk l :
  check_elems m narrow mk l = None <->
  forallb (fun z => narrow z && bound_okb m (mk z)) l = true.
Proof.
  induction l as [|z l IH]; simpl; [tauto|].
  destruct (narrow z); simpl; [|split; discriminate].
  destruct (check_min_max m (mk z)) eqn:E.
  - assert (bound_okb m (mk z) = false) as ->.
    { destruct (bound_okb m (mk z)) eqn:B; [|reflexivity].
      apply check_min_max_iff in B. congruence. }
    simpl. split; discriminate.
  - apply check_min_max_iff in E. rewrite E. simpl. exact IH.
Qed.

Lemma one_in_iff {A} (eqb : A -> A -> bool) al x : one_in eqb al x = None <-> existsb (eqb x) al = true.
Proof. unfold one_in, contains. destruct (existsb (eqb x) al); split; intros; try reflexivity; discriminate. Qed.

Lemma all_in_iff {A} (eqb : A -> A -> bool) al l :
  all_in eqb al l = None <-> forallb (fun x => existsb (eqb x) al) l = true.
Proof. unfold all_in, contains. destruct (forallb _ l); split; intros; try reflexivity; discriminate. Qed.

Lemma forallb_map {A B} (f : B -> bool) (g : A -> B) l : forallb f (map g l) = forallb (fun x => f (g x)) l.
Proof. induction l; simpl; congruence. Qed.

Lemma existsb_map {A B} (f : B -> bool) (g : A -> B) l : existsb f (map g l) = existsb (fun x => f (g x)) l.
Proof. induction l; simpl; congruence. Qed.

Lemma forallb_and {A} (f g : A -> bool) l : forallb (fun x => f x && g x) l = forallb f l && forallb g l.
Proof.
  induction l as [|a l IH]; simpl; [reflexivity|]. rewrite IH.
  destruct (f a), (g a), (forallb f l), (forallb g l); reflexivity.
Qed.

Lemma forallb_true {A} (l : list A) : forallb (fun _ => true) l = true.
Proof. induction l; simpl; auto. Qed.

Lemma ures_seq (a b : ures) (p q : bool) :
  (a = None <-> p = true) -> (b = None <-> q = true) ->
  ((match a with Some e => Some e | None => b end) = None <-> p && q = true).
Proof.
  intros Ha Hb. destruct a; destruct p; simpl; try tauto;
    destruct Ha as [Ha1 Ha2]; split; intros H; try discriminate;
    try (specialize (Ha2 eq_refl); discriminate);
    try (specialize (Ha1 eq_refl); discriminate).
Qed.

Lemma if_none_iff (c : bool) (e : update_error) : (if c then None else Some e) = None <-> c = true.
Proof. destruct c; split; intros; try reflexivity; discriminate. Qed.

(* (A) type, narrow range and bounds *)
Definition value_okb (m : vmeta) (v : value) : bool :=
  shape_ok (vm_type m) v &&
  forallb (fun x => narrow_okb (vm_type m) x
                    && (if numeric_type (vm_type m) then bound_okb m x else true)) (elems v).

Ltac minmax_first m v :=
  let E := fresh "E" in
  destruct (check_min_max m v) eqn:E; [split; discriminate|];
  apply check_min_max_iff in E.

Lemma validate_value_iff m v :
  is_na v = false -> (validate_value m v = None <-> value_okb m v = true).
Proof.
  intros Hna. destruct m as [t mn mx al]. unfold validate_value, value_okb. rewrite Hna.
  cbn [vm_type].
  destruct t; destruct v; try discriminate Hna;
    cbn [scalar_numeric_type shape_ok kind_code carrier Z.eqb Pos.eqb andb elems forallb
         numeric_type narrow_okb];
    try (split; discriminate);
    try (destruct (check_min_max _ _); split; discriminate);
    try (split; reflexivity).
  (* scalar numeric types with the right kind *)
  all: try (match goal with
            | |- context [check_min_max ?m ?x] =>
              let E := fresh "E" in
              destruct (check_min_max m x) eqn:E;
              [ assert (bound_okb m x = false) as ->
                  by (destruct (bound_okb m x) eqn:B; [apply check_min_max_iff in B; congruence|reflexivity]);
                rewrite ?andb_false_r; cbn; split; discriminate
              | apply check_min_max_iff in E; rewrite E ]
            end;
            rewrite ?andb_true_r; cbn [andb];
            first [ apply if_none_iff | split; reflexivity ]).
  (* arrays *)
  all: rewrite forallb_map; try (rewrite forallb_true; split; reflexivity).
  all: rewrite check_elems_iff; cbn [narrow_okb any_z andb]; reflexivity.
Qed.

(* (B) allowed values *)
Lemma existsb_ext' {A} (f g : A -> bool) l : (forall x, f x = g x) -> existsb f l = existsb g l.
Proof. intros H. induction l as [|a l IH]; simpl; [reflexivity|]. rewrite H, IH. reflexivity. Qed.

Lemma all_in_map {A} (C : A -> value) (eqb : A -> A -> bool) l l0 :
  (forall x y, value_eqb (C x) (C y) = eqb x y) ->
  forallb (fun x => existsb (value_eqb x) (map C l)) (map C l0)
  = forallb (fun x => existsb (eqb x) l) l0.
Proof.
  intros H. rewrite forallb_map. induction l0 as [|a l0 IH]; simpl; [reflexivity|].
  rewrite IH. f_equal. rewrite existsb_map. apply existsb_ext'. intros y. apply H.
Qed.

Lemma validate_allowed_iff m v :
  is_na v = false ->
  (validate_allowed m v = None <->
   allowed_kind_ok m v && forallb (allowed_okb m) (elems v) = true).
Proof.
  intros Hna. destruct m as [t mn mx al]. unfold validate_allowed, allowed_kind_ok, allowed_okb.
  cbn [vm_allowed]. rewrite Hna.
  destruct al as [a|]; [|cbn [andb]; rewrite forallb_true; split; reflexivity].
  destruct a; destruct v; try discriminate Hna;
    cbn [negb andb kind_code list_kind Z.eqb Z.leb Z.compare Pos.compare Pos.compare_cont Pos.eqb Z.add Pos.add Pos.succ
         elems forallb];
    try (split; discriminate).
  all: try (rewrite one_in_iff, existsb_map, andb_true_r; reflexivity).
  all: rewrite all_in_iff;
       first [ rewrite (all_in_map _ Bool.eqb) by (intros; reflexivity)
             | rewrite (all_in_map _ str_eqb) by (intros; reflexivity)
             | rewrite (all_in_map _ Z.eqb) by (intros; reflexivity)
             | rewrite (all_in_map _ f32_eqb) by (intros; reflexivity)
             | rewrite (all_in_map _ f64_eqb) by (intros; reflexivity) ];
       reflexivity.
Qed.

(* validate() on a datapoint / validate_actuator_value accept exactly the declared domain *)
Theorem validate_iff_domain m v :
  is_na v = false -> (validate_datapoint_value m v = None <-> in_domainb m v = true).
Proof.
  intros Hna. unfold validate_datapoint_value, in_domainb.
  pose proof (ures_seq _ _ _ _ (validate_value_iff m v Hna) (validate_allowed_iff m v Hna)) as H.
  rewrite H. unfold value_okb. rewrite !forallb_and.
  destruct (shape_ok (vm_type m) v), (allowed_kind_ok m v),
    (forallb (fun x => narrow_okb (vm_type m) x) (elems v)),
    (forallb (fun x => if numeric_type (vm_type m) then bound_okb m x else true) (elems v)),
    (forallb (fun x => allowed_okb m x) (elems v)); cbn; split; intros; try reflexivity; try discriminate.
Qed.

(* `NotAvailable` is accepted exactly when the signal has no allowed list *)
Lemma validate_na m : validate_datapoint_value m VNA = None <-> vm_allowed m = None.
Proof.
  unfold validate_datapoint_value, validate_value, validate_allowed. simpl.
  destruct (vm_allowed m) as [a|]; [destruct a|]; split; intros; try reflexivity; discriminate.
Qed.

(* ---------- what membership in the domain means for the numbers represented ---------- *)
From Coq Require Import Reals.
From Flocq Require Import Core.
From KD Require Import Proofs.CompareFloat Proofs.Compare.

Definition elem_in_domain (m : vmeta) (x : value) : Prop :=
  narrow_okb (vm_type m) x = true
  /\ (numeric_type (vm_type m) = true ->
      (forall mn xa xb, vm_min m = Some mn -> wf_value x -> wf_value mn ->
         xval x = Some xa -> xval mn = Some xb -> xgt xa xb \/ xclose (veps x mn) xa xb)
      /\ (forall mx xa xb, vm_max m = Some mx -> wf_value x -> wf_value mx ->
         xval x = Some xa -> xval mx = Some xb -> xgt xb xa \/ xclose (veps x mx) xa xb))
  /\ (forall a, vm_allowed m = Some a -> exists y, In y (elems a) /\ value_eqb x y = true).

Theorem domain_meaning m v :
  in_domainb m v = true ->
  shape_ok (vm_type m) v = true /\ Forall (elem_in_domain m) (elems v).
Proof.
  unfold in_domainb. intros H. apply andb_prop in H. destruct H as [H Hall].
  apply andb_prop in H. destruct H as [Hs _]. split; [exact Hs|].
  apply Forall_forall. intros x Hx. rewrite forallb_forall in Hall. specialize (Hall x Hx).
  apply andb_prop in Hall. destruct Hall as [Hnb Hal]. apply andb_prop in Hnb. destruct Hnb as [Hn Hb].
  split; [exact Hn|]. split.
  - intros Hnum. rewrite Hnum in Hb. unfold bound_okb in Hb. apply andb_prop in Hb.
    destruct Hb as [Hmin Hmax]. split.
    + intros mn xa xb Emn Wx Wmn Hxa Hxb. rewrite Emn in Hmin.
      destruct (gte x mn) as [[|]|] eqn:G; try discriminate.
      exact (gte_true x mn xa xb Wx Wmn Hxa Hxb G).
    + intros mx xa xb Emx Wx Wmx Hxa Hxb. rewrite Emx in Hmax.
      destruct (lte x mx) as [[|]|] eqn:G; try discriminate.
      exact (lte_true x mx xa xb Wx Wmx Hxa Hxb G).
  - intros a Ea. unfold allowed_okb in Hal. rewrite Ea in Hal. apply existsb_exists in Hal.
    destruct Hal as [y [Hy1 Hy2]]. exists y. auto.
Qed.

(* non-vacuity *)
Example domain_nonvacuous :
  let m := {| vm_type := TInt8Array; vm_min := Some (VI32 (-10)); vm_max := Some (VI32 10);
              vm_allowed := Some (VI32A [1; 5; 200]) |} in
  validate_datapoint_value m (VI32A [1; 5]) = None
  /\ validate_datapoint_value m (VI32A [1; 200]) = Some UOutOfBoundsType
  /\ validate_datapoint_value m (VI32A [1; 7]) = Some UOutOfBoundsAllowed
  /\ validate_datapoint_value m (VI32A [1; 11]) = Some UOutOfBoundsMinMax
  /\ in_domainb m (VI32A [1; 5]) = true.
Proof. vm_compute. auto. Qed.

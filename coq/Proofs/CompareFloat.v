(* Proofs/CompareFloat.v — exactness of the float operations used by Model/Compare.v. *)
From Coq Require Import ZArith Reals Lia Lra Bool List.
From Flocq Require Import Core IEEE754.BinarySingleNaN.
From KD Require Import Model.Values Model.Compare.
Open Scope Z_scope.

(* extended reals: the mathematical reading of an IEEE value *)
Inductive xr := XNan | XInf (neg : bool) | XFin (r : R).

Definition xr_of {p e} (x : binary_float p e) : xr :=
  match x with
  | B754_nan => XNan
  | B754_infinity s => XInf s
  | _ => XFin (B2R x)
  end.

Definition xgt (a b : xr) : Prop :=
  match a, b with
  | XNan, _ | _, XNan => False
  | XInf sa, XInf sb => sa = false /\ sb = true
  | XInf sa, XFin _ => sa = false
  | XFin _, XInf sb => sb = true
  | XFin x, XFin y => (y < x)%R
  end.

Lemma xr_of_finite {p e} (x : binary_float p e) :
  is_finite x = true -> xr_of x = XFin (B2R x).
Proof. destruct x; simpl; intros H; try discriminate; reflexivity. Qed.

Section Cmp.
Variables prec emax : Z.
Context (prec_gt_0_ : Prec_gt_0 prec) (prec_lt_emax_ : Prec_lt_emax prec emax).

Lemma fgt_correct (x y : binary_float prec emax) :
  fgt x y = true <-> xgt (xr_of x) (xr_of y).
Proof.
  unfold fgt.
  destruct (is_finite x) eqn:Fx; destruct (is_finite y) eqn:Fy.
  - rewrite (Bcompare_correct prec emax) by assumption.
    rewrite (xr_of_finite x Fx), (xr_of_finite y Fy). simpl.
    destruct (Rcompare_spec (B2R x) (B2R y)); split; intros; try discriminate; try lra; auto.
  - destruct x as [sx|sx| |sx mx ex Bx]; try discriminate;
    destruct y as [sy|sy| |sy my ey By]; try discriminate; simpl;
      try (destruct sy; simpl; split; intros; try discriminate; auto; fail);
      split; intros; try discriminate; try contradiction.
  - destruct y as [sy|sy| |sy my ey By]; try discriminate;
    destruct x as [sx|sx| |sx mx ex Bx]; try discriminate; simpl;
      try (destruct sx; simpl; split; intros; try discriminate; auto; fail);
      split; intros; try discriminate; try contradiction.
  - destruct x as [sx|sx| |sx mx ex Bx]; try discriminate;
    destruct y as [sy|sy| |sy my ey By]; try discriminate; simpl;
      try (split; intros; try discriminate; try contradiction; fail);
      destruct sx, sy; simpl; split; intros H; try discriminate; try (destruct H; discriminate); auto.
Qed.

Lemma flt_fgt (x y : binary_float prec emax) : flt x y = fgt y x.
Proof.
  unfold flt, fgt. rewrite (Bcompare_swap _ _ x y).
  destruct (Bcompare x y) as [[| |]|]; reflexivity.
Qed.

End Cmp.

(* ---------- exact conversions ---------- *)
Local Notation fexp64 := (FLT_exp (3 - 1024 - 53) 53).
Local Notation fexp32 := (FLT_exp (3 - 128 - 24) 24).

Lemma f64_of_Z_exact z :
  Z.abs z < 2 ^ 53 ->
  B2R (f64_of_Z z) = IZR z /\ is_finite (f64_of_Z z) = true.
Proof.
  intros Hz. unfold f64_of_Z.
  pose proof (binary_normalize_correct 53 1024 eq_refl eq_refl mode_NE z 0 false) as H.
  cbv zeta in H.
  assert (Hx : F2R (Float radix2 z 0) = IZR z) by (unfold F2R; simpl; lra).
  rewrite Hx in H.
  assert (Hg : generic_format radix2 fexp64 (IZR z)).
  { apply generic_format_FLT. exists (Float radix2 z 0); simpl; auto; lia. }
  rewrite (round_generic radix2 _ _ _ Hg) in H.
  assert (Hlt : Rlt_bool (Rabs (IZR z)) (bpow radix2 1024) = true).
  { apply Rlt_bool_true. rewrite <- abs_IZR. apply Rlt_le_trans with (IZR (2 ^ 53)).
    - now apply IZR_lt.
    - change (IZR (2 ^ 53)) with (bpow radix2 53). apply bpow_le. lia. }
  rewrite Hlt in H. destruct H as (A & B & _). split; assumption.
Qed.

Lemma xr_f64_of_Z z : Z.abs z < 2 ^ 53 -> xr_of (f64_of_Z z) = XFin (IZR z).
Proof.
  intros H. destruct (f64_of_Z_exact z H) as [A B].
  rewrite (xr_of_finite _ B), A. reflexivity.
Qed.

Lemma f32_in_f64_format (x : f32) :
  generic_format radix2 fexp64 (B2R x) /\ (Rabs (B2R x) < bpow radix2 1024)%R.
Proof.
  split.
  - pose proof (generic_format_B2R 24 128 x) as G.
    apply FLT_format_generic in G; [|easy].
    destruct G as [f Hf Hm He].
    apply generic_format_FLT. exists f; auto.
    + change (radix2 ^ 24) with 16777216 in Hm. change (radix2 ^ 53) with 9007199254740992. lia.
    + unfold SpecFloat.emin in He. lia.
  - eapply Rlt_le_trans; [apply (abs_B2R_lt_emax 24 128)|]. apply bpow_le. lia.
Qed.

Lemma f64_of_f32_exact (x : f32) : xr_of (f64_of_f32 x) = xr_of x.
Proof.
  pose proof (f32_in_f64_format x) as [G L].
  destruct x as [s|s| |s m e B]; try reflexivity.
  unfold f64_of_f32.
  pose proof (binary_normalize_correct 53 1024 eq_refl eq_refl mode_NE
                (cond_Zopp s (Zpos m)) e false) as H.
  cbv zeta in H.
  change (F2R (Float radix2 (cond_Zopp s (Zpos m)) e))
    with (B2R (B754_finite s m e B : f32)) in H.
  rewrite (round_generic radix2 _ _ _ G) in H.
  rewrite (Rlt_bool_true _ _ L) in H. destruct H as (A & Fi & _).
  rewrite (xr_of_finite _ Fi). rewrite A. reflexivity.
Qed.

(* ---------- |a - b| < EPSILON ---------- *)
Section Close.
Variables prec emax : Z.
Context (prec_gt_0_ : Prec_gt_0 prec) (prec_lt_emax_ : Prec_lt_emax prec emax).
Variable eps : binary_float prec emax.
Variable k : Z.
Hypothesis eps_val : B2R eps = bpow radix2 k.
Hypothesis eps_fin : is_finite eps = true.
Hypothesis eps_fmt : generic_format radix2 (FLT_exp (3 - emax - prec) prec) (bpow radix2 k).

Let minus := @Bminus prec emax prec_gt_0_ prec_lt_emax_ mode_NE.
Let close (a b : binary_float prec emax) : bool := flt (Babs (minus a b)) eps.

Lemma close_sound x y :
  close x y = true ->
  is_finite x = true /\ is_finite y = true /\ (Rabs (B2R x - B2R y) < bpow radix2 k)%R.
Proof.
  unfold close. rewrite flt_fgt, fgt_correct. rewrite (xr_of_finite eps eps_fin), eps_val.
  intros H.
  destruct (is_finite x) eqn:Fx; [destruct (is_finite y) eqn:Fy|].
  - split; [reflexivity|split; [reflexivity|]].
    pose proof (Bminus_correct prec emax _ _ mode_NE x y Fx Fy) as C.
    fold minus in C.
    destruct (Rlt_bool_spec (Rabs (round radix2 (SpecFloat.fexp prec emax) (round_mode mode_NE) (B2R x - B2R y)))
                (bpow radix2 emax)) as [Hlt|Hge].
    + destruct C as (Cv & Cf & _).
      assert (Fa : is_finite (Babs (minus x y)) = true) by (rewrite is_finite_Babs; exact Cf).
      rewrite (xr_of_finite _ Fa) in H. simpl in H. rewrite B2R_Babs, Cv in H.
      destruct (Rlt_or_le (Rabs (B2R x - B2R y)) (bpow radix2 k)) as [L|G]; [exact L|].
      exfalso. apply (Rlt_not_le _ _ H).
      apply abs_round_ge_generic;
        [apply (fexp_correct prec emax prec_gt_0_) | auto with typeclass_instances | exact eps_fmt | exact G].
    + destruct C as (Co & _). exfalso.
      unfold binary_overflow in Co. simpl in Co.
      destruct (minus x y) as [s|s| |s m e B]; simpl in Co; try discriminate.
  - exfalso. destruct y as [sy|sy| |sy my ey By]; try discriminate;
      destruct x as [sx|sx| |sx mx ex Bx]; try discriminate; simpl in H; try contradiction;
      try discriminate.
  - exfalso. destruct x as [sx|sx| |sx mx ex Bx]; try discriminate;
      destruct y as [sy|sy| |sy my ey By]; simpl in H; try contradiction; try discriminate;
      destruct sx, sy; simpl in H; try contradiction; try discriminate.
Qed.

(* identical finite numbers are equal under the tolerance *)
Lemma close_refl_val x y :
  is_finite x = true -> is_finite y = true -> B2R x = B2R y -> close x y = true.
Proof.
  intros Fx Fy E. unfold close. rewrite flt_fgt. apply fgt_correct.
  rewrite (xr_of_finite eps eps_fin), eps_val.
  pose proof (Bminus_correct prec emax _ _ mode_NE x y Fx Fy) as C. fold minus in C.
  rewrite E, Rminus_diag_eq, round_0 in C by auto with typeclass_instances.
  rewrite Rabs_R0 in C. rewrite Rlt_bool_true in C by apply bpow_gt_0.
  destruct C as (Cv & Cf & _).
  assert (Fa : is_finite (Babs (minus x y)) = true) by (rewrite is_finite_Babs; exact Cf).
  rewrite (xr_of_finite _ Fa). simpl. rewrite B2R_Babs, Cv, Rabs_R0. apply bpow_gt_0.
Qed.

End Close.

(* ---------- the two epsilons ---------- *)
Lemma eps64_exact : B2R eps64 = bpow radix2 (-52) /\ is_finite eps64 = true.
Proof.
  unfold eps64.
  pose proof (binary_normalize_correct 53 1024 eq_refl eq_refl mode_NE 1 (-52) false) as H.
  cbv zeta in H.
  assert (Hx : F2R (Float radix2 1 (-52)) = bpow radix2 (-52)) by (unfold F2R; simpl; lra).
  rewrite Hx in H.
  assert (Hg : generic_format radix2 fexp64 (bpow radix2 (-52))).
  { apply generic_format_bpow. unfold FLT_exp. simpl. lia. }
  rewrite (round_generic radix2 _ _ _ Hg) in H.
  rewrite Rlt_bool_true in H.
  - destruct H as (A & B & _); split; assumption.
  - rewrite Rabs_pos_eq by apply bpow_ge_0. apply bpow_lt. lia.
Qed.

Lemma eps32_exact : B2R eps32 = bpow radix2 (-23) /\ is_finite eps32 = true.
Proof.
  unfold eps32.
  pose proof (binary_normalize_correct 24 128 eq_refl eq_refl mode_NE 1 (-23) false) as H.
  cbv zeta in H.
  assert (Hx : F2R (Float radix2 1 (-23)) = bpow radix2 (-23)) by (unfold F2R; simpl; lra).
  rewrite Hx in H.
  assert (Hg : generic_format radix2 fexp32 (bpow radix2 (-23))).
  { apply generic_format_bpow. unfold FLT_exp. simpl. lia. }
  rewrite (round_generic radix2 _ _ _ Hg) in H.
  rewrite Rlt_bool_true in H.
  - destruct H as (A & B & _); split; assumption.
  - rewrite Rabs_pos_eq by apply bpow_ge_0. apply bpow_lt. lia.
Qed.

Lemma close64_sound (x y : f64) :
  close64 x y = true ->
  is_finite x = true /\ is_finite y = true /\ (Rabs (B2R x - B2R y) < bpow radix2 (-52))%R.
Proof.
  apply (close_sound 53 1024 eq_refl eq_refl eps64 (-52)
           (proj1 eps64_exact) (proj2 eps64_exact)).
  apply generic_format_bpow. unfold FLT_exp. simpl. lia.
Qed.

Lemma close32_sound (x y : f32) :
  close32 x y = true ->
  is_finite x = true /\ is_finite y = true /\ (Rabs (B2R x - B2R y) < bpow radix2 (-23))%R.
Proof.
  apply (close_sound 24 128 eq_refl eq_refl eps32 (-23)
           (proj1 eps32_exact) (proj2 eps32_exact)).
  apply generic_format_bpow. unfold FLT_exp. simpl. lia.
Qed.

Lemma close64_same (x y : f64) :
  is_finite x = true -> is_finite y = true -> B2R x = B2R y -> close64 x y = true.
Proof.
  apply (close_refl_val 53 1024 eq_refl eq_refl eps64 (-52)
           (proj1 eps64_exact) (proj2 eps64_exact)).
Qed.

Lemma close32_same (x y : f32) :
  is_finite x = true -> is_finite y = true -> B2R x = B2R y -> close32 x y = true.
Proof.
  apply (close_refl_val 24 128 eq_refl eq_refl eps32 (-23)
           (proj1 eps32_exact) (proj2 eps32_exact)).
Qed.

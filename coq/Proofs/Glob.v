(* Proofs/Glob.v — wildcard selection: inside the liberal reading, complete for the strict
   documented reading (C14). *)
From Coq Require Import ZArith Bool List Lia.
From KD Require Import Model.Values Model.Perm Model.Glob Proofs.Perm.
Open Scope Z_scope.

(* ---------- the two readings ---------- *)
(* most liberal reading: `*` one level, `**` any number of levels (also none), and a fully
   matched pattern may name a branch: everything below it is selected *)
Fixpoint lib (ps : list pseg) : list (list Z) -> bool :=
  match ps with
  | [] => fun _ => true
  | PName n :: ps' => fun xs => match xs with [] => false | x :: xs' => str_eqb n x && lib ps' xs' end
  | PStar :: ps' => fun xs => match xs with [] => false | _ :: xs' => lib ps' xs' end
  | PStarStar :: ps' =>
    fix star (xs : list (list Z)) : bool :=
      lib ps' xs || match xs with [] => false | _ :: xs' => star xs' end
  end.

Definition all_names (ps : list pseg) : bool := forallb (fun p => negb (is_wild p)) ps.

Fixpoint names_prefix (ps : list pseg) (xs : list (list Z)) : bool :=
  match ps, xs with
  | [], _ => true
  | PName n :: ps', x :: xs' => str_eqb n x && names_prefix ps' xs'
  | _, _ => false
  end.

(* strict reading (doc/wildcard_matching.md): a path without asterisks selects the signal
   itself or everything below the branch; otherwise `*` is exactly one level, `**` zero or
   more levels, but at least one at the end of the pattern *)
Definition strict (ps : list pseg) (xs : list (list Z)) : bool :=
  if all_names ps then names_prefix ps xs else gm ps xs.

(* ---------- gm facts ---------- *)
Lemma gm_starstar_cons p ps' xs :
  gm (PStarStar :: p :: ps') xs =
  gm (p :: ps') xs || match xs with [] => false | _ :: xs' => gm (PStarStar :: p :: ps') xs' end.
Proof. destruct xs; reflexivity. Qed.

Lemma lib_starstar ps' xs :
  lib (PStarStar :: ps') xs =
  lib ps' xs || match xs with [] => false | _ :: xs' => lib (PStarStar :: ps') xs' end.
Proof. destruct xs; reflexivity. Qed.

Lemma lib_nil_r ps : lib ps [] = true -> forall xs, lib ps xs = true.
Proof.
  induction ps as [|p ps IH]; intros H xs; [reflexivity|].
  destruct p; try discriminate.
  rewrite lib_starstar in H. rewrite orb_false_r in H.
  induction xs as [|x xs IHx]; rewrite lib_starstar; [rewrite H; reflexivity|].
  rewrite (IH H). reflexivity.
Qed.

(* soundness of the matcher w.r.t. the liberal reading *)
Lemma gm_lib ps : forall xs, gm ps xs = true -> lib ps xs = true.
Proof.
  induction ps as [|p ps IH]; intros xs H; [reflexivity|].
  destruct p as [n| |].
  - destruct xs as [|x xs]; [discriminate|]. simpl in *.
    apply andb_true_iff in H. destruct H as [A B]. rewrite A, (IH _ B). reflexivity.
  - destruct xs as [|x xs]; [discriminate|]. simpl in *. auto.
  - destruct ps as [|q ps'].
    + (* trailing ** *) rewrite lib_starstar. reflexivity.
    + induction xs as [|x xs IHx]; rewrite gm_starstar_cons in H; rewrite lib_starstar.
      * rewrite orb_false_r in H. rewrite (IH _ H). reflexivity.
      * apply orb_true_iff in H. destruct H as [H|H]; [rewrite (IH _ H); reflexivity|].
        rewrite (IHx H). apply orb_true_r.
Qed.

(* the branch fallback pattern ps/** also stays inside the liberal reading of ps *)
Lemma gm_app_starstar_lib ps : forall xs, gm (ps ++ [PStarStar]) xs = true -> lib ps xs = true.
Proof.
  induction ps as [|p ps IH]; intros xs H; [reflexivity|].
  destruct p as [n| |]; simpl app in H.
  - destruct xs as [|x xs]; [discriminate|]. simpl in *.
    apply andb_true_iff in H. destruct H as [A B]. rewrite A, (IH _ B). reflexivity.
  - destruct xs as [|x xs]; [discriminate|]. simpl in *. auto.
  - destruct (ps ++ [PStarStar]) as [|q r] eqn:E; [destruct ps; discriminate|].
    induction xs as [|x xs IHx]; rewrite gm_starstar_cons in H; rewrite lib_starstar.
    + rewrite orb_false_r in H. rewrite (IH _ H). reflexivity.
    + apply orb_true_iff in H. destruct H as [H|H]; [rewrite (IH _ H); reflexivity|].
      rewrite (IHx H). apply orb_true_r.
Qed.

(* ---------- select_from ---------- *)
Lemma select_from_spec ps tree : forall k i,
  In i (select_from k ps tree) <->
  exists x, k <= i /\ nth_error tree (Z.to_nat (i - k)) = Some x /\ gm ps x = true.
Proof.
  induction tree as [|y tree IH]; intros k i; simpl.
  - split; [contradiction|]. intros (x & _ & H & _). destruct (Z.to_nat (i - k)); discriminate.
  - destruct (gm ps y) eqn:G.
    + simpl. rewrite IH. split.
      * intros [<-|(x & Hk & Hn & Hg)].
        -- exists y. rewrite Z.sub_diag. simpl. repeat split; auto; lia.
        -- exists x. split; [lia|]. split; [|exact Hg].
           replace (Z.to_nat (i - k)) with (S (Z.to_nat (i - (k + 1)))) by lia. exact Hn.
      * intros (x & Hk & Hn & Hg). destruct (Z.eq_dec i k) as [->|Hne]; [left; reflexivity|].
        right. exists x. split; [lia|]. split; [|exact Hg].
        replace (Z.to_nat (i - k)) with (S (Z.to_nat (i - (k + 1)))) in Hn by lia. exact Hn.
    + rewrite IH. split.
      * intros (x & Hk & Hn & Hg). exists x. split; [lia|]. split; [|exact Hg].
        replace (Z.to_nat (i - k)) with (S (Z.to_nat (i - (k + 1)))) by lia. exact Hn.
      * intros (x & Hk & Hn & Hg). destruct (Z.eq_dec i k) as [->|Hne].
        -- rewrite Z.sub_diag in Hn. simpl in Hn. inversion Hn; subst. congruence.
        -- exists x. split; [lia|]. split; [|exact Hg].
           replace (Z.to_nat (i - k)) with (S (Z.to_nat (i - (k + 1)))) in Hn by lia. exact Hn.
Qed.

Lemma select_glob_spec ps tree i :
  In i (select_glob ps tree) <->
  exists x, 0 <= i /\ nth_error tree (Z.to_nat i) = Some x /\ gm ps x = true.
Proof. unfold select_glob. rewrite select_from_spec. rewrite Z.sub_0_r. reflexivity. Qed.

Lemma with_fallback_sound ps tree i :
  In i (with_fallback ps tree) ->
  exists x, 0 <= i /\ nth_error tree (Z.to_nat i) = Some x /\ lib ps x = true.
Proof.
  unfold with_fallback. destruct (select_glob ps tree) as [|j l] eqn:E.
  - destruct (starts_with_globstar ps || ends_with_globstar ps); [contradiction|].
    intros H. apply select_glob_spec in H. destruct H as (x & Hi & Hn & Hg).
    exists x. repeat split; auto. apply gm_app_starstar_lib. exact Hg.
  - intros H. rewrite <- E in H. apply select_glob_spec in H. destruct H as (x & Hi & Hn & Hg).
    exists x. repeat split; auto. apply gm_lib. exact Hg.
Qed.

(* the request pattern as the client wrote it *)
Definition request_pattern (pat : list Z) : option (list pseg) :=
  match pat with [] => Some [] | _ => classify_all (split_on dot pat) end.

Lemma to_glob_request pat ps :
  to_glob pat = Some ps ->
  exists rp, request_pattern pat = Some rp /\ (ps = rp \/ ps = rp ++ [PStarStar]).
Proof.
  unfold to_glob, request_pattern. destruct pat as [|c r].
  - intros H. inversion H. exists []. auto.
  - destruct (classify_all (split_on dot (c :: r))) as [cl|]; [|discriminate].
    intros H. exists cl. split; [reflexivity|].
    destruct cl as [|[n| |] [|q cl']]; inversion H; auto.
Qed.

Lemma lib_app_starstar rp xs : lib (rp ++ [PStarStar]) xs = true -> lib rp xs = true.
Proof.
  revert xs. induction rp as [|p rp IH]; intros xs H; [reflexivity|].
  destruct p as [n| |]; simpl app in H.
  - destruct xs as [|x xs]; [discriminate|]. simpl in *. apply andb_true_iff in H. destruct H as [A B].
    rewrite A, (IH _ B). reflexivity.
  - destruct xs as [|x xs]; [discriminate|]. simpl in *. auto.
  - induction xs as [|x xs IHx]; rewrite lib_starstar in H; rewrite lib_starstar.
    + rewrite orb_false_r in H. rewrite (IH _ H). reflexivity.
    + apply orb_true_iff in H. destruct H as [H|H]; [rewrite (IH _ H); reflexivity|].
      rewrite (IHx H). apply orb_true_r.
Qed.

(* no signal outside the most liberal reading of the pattern is ever returned *)
Theorem select_sound api pat tree st sel i :
  select api pat tree = (st, sel) -> In i sel ->
  exists rp x, request_pattern pat = Some rp /\ 0 <= i /\
               nth_error tree (Z.to_nat i) = Some x /\ lib rp x = true.
Proof.
  unfold select.
  destruct (((api =? 0) || (api =? 1) || (api =? 5)) && (max_request_path_length <? Z.of_nat (length pat)));
    [intros H; inversion H; subst; contradiction|].
  destruct (negb (matcher_accepts pat)); [intros H; inversion H; subst; contradiction|].
  destruct (to_glob pat) as [ps|] eqn:G; [|intros H; inversion H; subst; contradiction].
  destruct (to_glob_request pat ps G) as (rp & Hrp & Hps).
  assert (K : forall l, In i l -> (l = select_glob ps tree \/ l = with_fallback ps tree) ->
            exists x, 0 <= i /\ nth_error tree (Z.to_nat i) = Some x /\ lib rp x = true).
  { intros l Hin [->| ->].
    - apply select_glob_spec in Hin. destruct Hin as (x & A & B & C). exists x. repeat split; auto.
      apply gm_lib in C. destruct Hps as [->| ->]; [exact C|apply lib_app_starstar; exact C].
    - apply with_fallback_sound in Hin. destruct Hin as (x & A & B & C). exists x. repeat split; auto.
      destruct Hps as [->| ->]; [exact C|apply lib_app_starstar; exact C]. }
  destruct (api =? 3) eqn:A3.
  - destruct (select_glob ps tree) as [|j l] eqn:E; intros H; inversion H; subst; [contradiction|].
    intros Hin. destruct (K (j :: l) Hin (or_introl eq_refl)) as (x & Hx). exists rp, x. tauto.
  - destruct (with_fallback ps tree) as [|j l] eqn:E; intros H; inversion H; subst; [contradiction|].
    intros Hin. destruct (K (j :: l) Hin (or_intror eq_refl)) as (x & Hx). exists rp, x. tauto.
Qed.

(* a syntactically invalid pattern is a bad request and selects nothing *)
Theorem invalid_rejected api pat tree :
  matcher_accepts pat = false -> api <> 4 -> select api pat tree = (400, []).
Proof.
  intros H _. unfold select. rewrite H. simpl.
  destruct (((api =? 0) || (api =? 1) || (api =? 5)) && (max_request_path_length <? Z.of_nat (length pat))); reflexivity.
Qed.

(* ---------- completeness for the strict reading ---------- *)
Fixpoint names_of (ps : list pseg) : list (list Z) :=
  match ps with
  | PName n :: r => n :: names_of r
  | _ :: r => names_of r
  | [] => []
  end.

Lemma gm_names rp : all_names rp = true -> forall y, gm rp y = true <-> y = names_of rp.
Proof.
  induction rp as [|p rp IH]; intros Ha y.
  - simpl. destruct y; split; intros; try reflexivity; discriminate.
  - destruct p as [n| |]; try discriminate. simpl in Ha.
    destruct y as [|x y]; simpl; [split; discriminate|].
    rewrite andb_true_iff, str_eqb_eq, (IH Ha). split.
    + intros [-> ->]. reflexivity.
    + intros H. inversion H. auto.
Qed.

Lemma names_prefix_spec rp : all_names rp = true ->
  forall x, names_prefix rp x = true <-> exists rest, x = names_of rp ++ rest.
Proof.
  induction rp as [|p rp IH]; intros Ha x.
  - simpl. split; [intros _; exists x; reflexivity | auto].
  - destruct p as [n| |]; try discriminate. simpl in Ha.
    destruct x as [|x0 x]; simpl.
    + split; [discriminate | intros [rest H]; discriminate].
    + rewrite andb_true_iff, str_eqb_eq, (IH Ha). split.
      * intros [-> [rest ->]]. exists rest. reflexivity.
      * intros [rest H]. inversion H. split; [reflexivity|]. exists rest. reflexivity.
Qed.

Lemma gm_names_below rp : all_names rp = true -> rp <> [] ->
  forall x, gm (rp ++ [PStarStar]) x = true <-> exists rest, rest <> [] /\ x = names_of rp ++ rest.
Proof.
  induction rp as [|p rp IH]; intros Ha Hne x; [contradiction|].
  destruct p as [n| |]; try discriminate. simpl in Ha.
  destruct x as [|x0 x]; simpl app.
  - simpl. split; [discriminate | intros (rest & _ & H); discriminate].
  - destruct rp as [|q rp'].
    + simpl. rewrite andb_true_iff, str_eqb_eq. split.
      * intros [-> H]. exists x. split; [destruct x; [discriminate|discriminate]|reflexivity].
      * intros (rest & Hr & H). inversion H; subst. split; [reflexivity|]. destruct rest; [contradiction|reflexivity].
    + change (gm (PName n :: (q :: rp') ++ [PStarStar]) (x0 :: x))
        with (str_eqb n x0 && gm ((q :: rp') ++ [PStarStar]) x).
      rewrite andb_true_iff, str_eqb_eq, (IH Ha) by discriminate. split.
      * intros [-> (rest & Hr & ->)]. exists rest. split; [exact Hr|reflexivity].
      * intros (rest & Hr & H). inversion H; subst. split; [reflexivity|]. exists rest. auto.
Qed.

Definition prefix_free (tree : list (list (list Z))) : Prop :=
  forall y x rest, In y tree -> In x tree -> x = y ++ rest -> rest = [].

Lemma all_names_no_globstar rp : all_names rp = true ->
  starts_with_globstar rp = false /\ ends_with_globstar rp = false.
Proof.
  intros Ha. split.
  - destruct rp as [|[n| |] r]; try reflexivity; discriminate.
  - unfold ends_with_globstar. destruct (rev rp) as [|p r] eqn:E; [reflexivity|].
    assert (In p rp) by (apply in_rev; rewrite E; left; reflexivity).
    unfold all_names in Ha. rewrite forallb_forall in Ha. specialize (Ha p H).
    destruct p; try discriminate; reflexivity.
Qed.

Lemma in_select_glob ps tree i x :
  0 <= i -> nth_error tree (Z.to_nat i) = Some x -> gm ps x = true -> In i (select_glob ps tree).
Proof. intros. apply select_glob_spec. exists x. auto. Qed.

Lemma in_with_fallback_direct ps tree i :
  In i (select_glob ps tree) -> In i (with_fallback ps tree).
Proof. unfold with_fallback. destruct (select_glob ps tree); [contradiction|auto]. Qed.

Lemma classify_all_nonempty l rp : l <> [] -> classify_all l = Some rp -> rp <> [].
Proof.
  destruct l as [|s l]; [contradiction|]. intros _. simpl.
  destruct (classify s); [|discriminate]. destruct (classify_all l); [|discriminate].
  intros H. inversion H. discriminate.
Qed.

(* the F12 class: a single-segment pattern that is itself a (single-segment) leaf *)
Definition single_segment_leaf (rp : list pseg) (x : list (list Z)) : Prop :=
  exists n, rp = [PName n] /\ x = [n].

Theorem select_complete api pat tree rp i x :
  (api = 0 \/ api = 1 \/ api = 2) -> Z.of_nat (length pat) <= max_request_path_length ->
  matcher_accepts pat = true -> request_pattern pat = Some rp -> mixes rp = false ->
  prefix_free tree -> 0 <= i -> nth_error tree (Z.to_nat i) = Some x -> x <> [] ->
  strict rp x = true -> ~ single_segment_leaf rp x ->
  fst (select api pat tree) = 0 /\ In i (snd (select api pat tree)).
Proof.
  intros Hapi Hlen Hacc Hrp _ Hpf Hi Hn Hx Hs Hnl.
  assert (A3 : api =? 3 = false) by (destruct Hapi as [->|[->| ->]]; reflexivity).
  assert (Hin : In x tree) by (eapply nth_error_In; eauto).
  assert (K : exists ps, to_glob pat = Some ps /\ In i (with_fallback ps tree)).
  { destruct pat as [|c r].
    - (* empty pattern: everything *)
      exists [PStarStar]. split; [reflexivity|]. apply in_with_fallback_direct.
      apply (in_select_glob _ _ _ x Hi Hn). destruct x; [contradiction|reflexivity].
    - unfold request_pattern in Hrp. unfold to_glob. rewrite Hrp.
      assert (Hrpne : rp <> []).
      { eapply classify_all_nonempty; [|exact Hrp]. unfold split_on. apply split_on_aux_nonempty. }
      unfold strict in Hs. destruct (all_names rp) eqn:Ha.
      + apply (names_prefix_spec rp Ha) in Hs. destruct Hs as [rest Hrest].
        destruct rp as [|[n| |] [|q rp']]; try contradiction; try discriminate.
        * (* single name: name/** *)
          exists [PName n; PStarStar]. split; [reflexivity|]. apply in_with_fallback_direct.
          apply (in_select_glob _ _ _ x Hi Hn). simpl in Hrest. subst x. simpl.
          rewrite str_eqb_refl. destruct rest; [|reflexivity].
          exfalso. apply Hnl. exists n. auto.
        * exists (PName n :: q :: rp'). split; [reflexivity|].
          destruct rest as [|r0 rest].
          -- apply in_with_fallback_direct. apply (in_select_glob _ _ _ x Hi Hn).
             apply (gm_names _ Ha). rewrite app_nil_r in Hrest. exact Hrest.
          -- unfold with_fallback.
             destruct (select_glob (PName n :: q :: rp') tree) as [|j l] eqn:E.
             ++ destruct (all_names_no_globstar _ Ha) as [-> ->]. simpl orb. cbv iota.
                apply (in_select_glob _ _ _ x Hi Hn). apply (gm_names_below _ Ha); [discriminate|].
                exists (r0 :: rest). split; [discriminate|exact Hrest].
             ++ exfalso. assert (Hj : In j (select_glob (PName n :: q :: rp') tree)) by (rewrite E; left; reflexivity).
                apply select_glob_spec in Hj. destruct Hj as (y & _ & Hy & Gy).
                apply (gm_names _ Ha) in Gy. assert (In y tree) by (eapply nth_error_In; eauto).
                specialize (Hpf y x (r0 :: rest) H Hin). rewrite Gy in Hpf. specialize (Hpf Hrest). discriminate.
      + exists rp. split.
        * destruct rp as [|[n| |] [|q rp']]; try reflexivity. discriminate.
        * apply in_with_fallback_direct. apply (in_select_glob _ _ _ x Hi Hn). exact Hs. }
  destruct K as (ps & Hg & Hin').
  unfold select. rewrite Hacc, Hg, A3. simpl negb.
  assert (L : ((api =? 0) || (api =? 1) || (api =? 5)) && (max_request_path_length <? Z.of_nat (length pat)) = false).
  { apply andb_false_iff. right. apply Z.ltb_ge. exact Hlen. }
  rewrite L. cbv iota. destruct (with_fallback ps tree) as [|j l]; [contradiction|]. simpl. auto.
Qed.

(* the known class really is missed (finding F12) *)
Lemma single_segment_leaf_missed :
  select 0 [65] [[[65]]] = (404, []) /\ strict [PName [65]] [[65]] = true.
Proof. vm_compute. auto. Qed.

Example select_nonvacuous :
  let tree := map (split_on dot) [[65;46;66]; [65;46;65;46;66]; [66;46;65]] in  (* A.B A.A.B B.A *)
  select 0 [65;46;42] tree = (0, [0])                 (* A.*  *)
  /\ select 2 [65;46;65] tree = (0, [1])              (* A.A : branch fallback *)
  /\ select 1 [42;42;46;66] tree = (0, [0; 1])        (* **.B *)
  /\ select 0 [] tree = (0, [0; 1; 2])
  /\ select 0 [65;46;46] tree = (400, [])
  /\ prefix_free tree.
Proof.
  vm_compute. repeat split; auto.
  intros y x rest Hy Hx E.
  repeat (destruct Hy as [<-|Hy]; [| ]); try contradiction;
  repeat (destruct Hx as [<-|Hx]; [| ]); try contradiction;
  destruct rest; try reflexivity; try discriminate.
Qed.

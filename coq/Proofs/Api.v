(* Proofs/Api.v — the handlers are thin translators onto the core (refinement), wire conversions
   are lossless, all read paths hand out the one stored datapoint (C15, and the API side of C01). *)
From Coq Require Import ZArith Bool List Lia.
From KD Require Import Model.Values Model.Compare Model.Validate Model.Perm Model.Glob Model.Broker
     Model.BrokerRun Model.Api Model.ApiRun Proofs.Broker.
Open Scope Z_scope.

(* ---------- wire values ---------- *)
Lemma from_to_wire v : from_wire (to_wire v) = v.
Proof. destruct v; reflexivity. Qed.

Lemma to_from_wire w : w <> Some VNA -> to_wire (from_wire w) = w.
Proof. destruct w as [v|]; [|reflexivity]. destruct v; try reflexivity. intros H. congruence. Qed.

(* an absent value is reported as absent and nothing else is *)
Lemma absent_iff_na v : to_wire v = None <-> v = VNA.
Proof. destruct v; simpl; split; intros H; try discriminate; reflexivity. Qed.

(* kind and payload are carried unchanged *)
Lemma to_wire_same v w : to_wire v = Some w -> w = v.
Proof. destruct v; simpl; intros H; inversion H; reflexivity. Qed.

(* ---------- enum tables ---------- *)
Lemma kuksa_data_type_inj a b : kuksa_data_type a = kuksa_data_type b -> a = b.
Proof. destruct a, b; simpl; intros H; try reflexivity; discriminate. Qed.

Lemma sdv_data_type_inj a b : sdv_data_type a = sdv_data_type b -> a = b.
Proof. destruct a, b; simpl; intros H; try reflexivity; discriminate. Qed.

Lemma sdv_data_type_roundtrip t : sdv_data_type_of (sdv_data_type t) = Some t.
Proof. destruct t; reflexivity. Qed.

Lemma kuksa_entry_type_inj a b : kuksa_entry_type a = kuksa_entry_type b -> a = b.
Proof. destruct a, b; simpl; intros H; try reflexivity; discriminate. Qed.

Lemma sdv_entry_type_inj a b : sdv_entry_type a = sdv_entry_type b -> a = b.
Proof. destruct a, b; simpl; intros H; try reflexivity; discriminate. Qed.

(* ---------- every read path hands out the stored datapoint ---------- *)
Lemma v2_get_reads_store st p id e :
  lookup_id (entries (st_db st)) id = Some e ->
  can_read p (st_now st) (path_segs (e_meta e)) = POk ->
  v2_get_value st p (SigId id) = RValue (e_dp e).
Proof.
  intros L C. unfold v2_get_value, v2_get_signal. rewrite L. unfold read_entry. rewrite L, C. reflexivity.
Qed.

Lemma v2_get_by_path_reads_store st p id e :
  lookup_path (path_to_id (st_db st)) (m_path (e_meta e)) = Some id ->
  too_long (m_path (e_meta e)) = false ->
  lookup_id (entries (st_db st)) id = Some e ->
  can_read p (st_now st) (path_segs (e_meta e)) = POk ->
  v2_get_value st p (SigPath (m_path (e_meta e))) = RValue (e_dp e).
Proof.
  intros LP TL L C. unfold v2_get_value, v2_get_signal. rewrite TL, LP. unfold read_entry. rewrite L, C. reflexivity.
Qed.

Lemma sdv_get_reads_store st p id e :
  lookup_path (path_to_id (st_db st)) (m_path (e_meta e)) = Some id ->
  lookup_id (entries (st_db st)) id = Some e ->
  can_read p (st_now st) (path_segs (e_meta e)) = POk ->
  sdv_get st p [m_path (e_meta e)] = RNamed [(m_path (e_meta e), inl (e_dp e))].
Proof.
  intros LP L C. unfold sdv_get. simpl. rewrite LP. unfold read_entry. rewrite L, C. reflexivity.
Qed.

(* ---------- the handlers change the state only through the core operations they issue ---------- *)
Definition exec_all (st : state) (ops : list aop) : state := fold_left exec_state ops st.

Lemma update_entries_exec st p us pz :
  get_perm st pz = p -> exec_state st (AUpdate pz us) = fst (update_entries st p us).
Proof. intros <-. reflexivity. Qed.

Lemma sdv_register_core st pz l acc :
  fst (sdv_register_aux st (get_perm st pz) l acc) =
  exec_all st (sdv_reg_core (st_db st) (get_perm st pz) (st_now st) (st_clock st) pz l).
Proof.
  revert st acc. induction l as [|[[name dt] ct] l IH]; intros st acc; simpl; [reflexivity|].
  destruct (sdv_data_type_of dt) as [dt'|]; [|reflexivity].
  destruct (sdv_change_type_of ct) as [ct'|]; [|reflexivity].
  destruct (add_entry (st_db st) (get_perm st pz) (st_now st) (st_clock st) name dt' ct' Sensor None None None)
    as [db' res] eqn:E.
  unfold exec_all. simpl. unfold set_db. rewrite E. simpl.
  set (st' := {| st_db := db'; st_csubs := st_csubs st; st_asubs := st_asubs st; st_now := st_now st;
                 st_clock := st_clock st; st_perms := st_perms st |}).
  destruct res as [id|[| |]]; try reflexivity.
  specialize (IH st' ((name, id) :: acc)).
  change (get_perm st' pz) with (get_perm st pz) in IH. exact IH.
Qed.

Lemma exec_update st p us : exec_state st (AUpdate p us) = fst (update_entries st (get_perm st p) us).
Proof. reflexivity. Qed.
Lemma exec_actuate st p id v : exec_state st (AActuate p id v) = fst (actuate st (get_perm st p) id v).
Proof. reflexivity. Qed.
Lemma exec_batch st p cs : exec_state st (ABatch p cs) = fst (batch_actuate st (get_perm st p) cs).
Proof. reflexivity. Qed.

Theorem api_refines_core st a : fst (api_run st a) = exec_all st (api_core st a).
Proof.
  destruct a; simpl; try reflexivity.
  - (* v1 set *)
    unfold v1_set. destruct (v1_set_resolve (st_db st) l [] [] 0) as [[ups nf]|code]; [|reflexivity].
    destruct (update_entries st (get_perm st p) ups) as [st' errs] eqn:E. cbn [fst snd].
    unfold exec_all; cbn [fold_left]; rewrite ?exec_update, ?exec_actuate, ?exec_batch, E; reflexivity.
  - (* v2 publish *)
    unfold v2_publish. destruct dp as [w|]; [|reflexivity].
    destruct (v2_get_signal (st_db st) s) as [id|code]; [|reflexivity].
    destruct (update_entries st (get_perm st p) [(id, dp_upd (from_wire w))]) as [st' errs] eqn:E. cbn [fst snd].
    unfold exec_all; cbn [fold_left]; rewrite ?exec_update, ?exec_actuate, ?exec_batch, E; reflexivity.
  - (* v2 actuate *)
    unfold v2_actuate. destruct v as [w|]; [|reflexivity].
    destruct s; try reflexivity.
    + destruct (v2_resolve_actuator (st_db st) (SigPath s)) as [id|code]; [|reflexivity].
      destruct (actuate st (get_perm st p) id (from_wire w)) as [st' r] eqn:E. cbn [fst snd].
      unfold exec_all; cbn [fold_left]; rewrite ?exec_update, ?exec_actuate, ?exec_batch, E; reflexivity.
    + cbn [v2_resolve_actuator api_core]. destruct (actuate st (get_perm st p) id (from_wire w)) as [st' r] eqn:E. cbn [fst].
      unfold exec_all; cbn [fold_left]; rewrite ?exec_update, ?exec_actuate, ?exec_batch, E; reflexivity.
  - (* v2 batch *)
    unfold v2_batch_actuate. destruct (v2_batch_resolve (st_db st) l) as [cs|code]; [|reflexivity].
    destruct (batch_actuate st (get_perm st p) cs) as [st' r] eqn:E. cbn [fst snd].
    unfold exec_all; cbn [fold_left]; rewrite ?exec_update, ?exec_actuate, ?exec_batch, E; reflexivity.
  - (* sdv set *)
    unfold sdv_set. destruct (sdv_set_resolve (st_db st) l [] [] 0) as [ups pre] eqn:R. cbn [fst snd api_core].
    destruct (update_entries st (get_perm st p) ups) as [st' errs]. reflexivity.
  - (* sdv update *)
    unfold sdv_update.
    destruct (update_entries st (get_perm st p) (map (fun '(id, w) => (id, dp_upd (from_wire w))) l)) as [st' errs].
    reflexivity.
  - (* sdv register *)
    unfold sdv_register. apply sdv_register_core.
  - (* v1 subscribe *)
    unfold v1_subscribe_multi, core_subscribe. destruct l as [|x l']; [reflexivity|].
    destruct (v1_sub_all st (get_perm st p) (x :: l') []) as [es|code]; [|reflexivity].
    destruct (subscribe st (get_perm st p) es None) as [st' [h|e]] eqn:E; cbn [fst];
      unfold exec_all; cbn [fold_left]; unfold exec_state; rewrite E; reflexivity.
  - (* v2 subscribe *)
    unfold v2_subscribe, core_subscribe.
    destruct (v2_sub_entries (st_db st) l) as [es|code]; [|reflexivity].
    destruct (subscribe st (get_perm st p) es (Some buf)) as [st' [h|e]] eqn:E; cbn [fst];
      unfold exec_all; cbn [fold_left]; unfold exec_state; rewrite E; reflexivity.
  - (* provider stream: claim *)
    unfold v2_provide. destruct (v2_provide_ids (st_db st) l) as [ids|]; [|reflexivity].
    destruct (provide_actuation st (get_perm st p) ids) as [st' [h|e]] eqn:E; cbn [fst];
      unfold exec_all; cbn [fold_left]; unfold exec_state; rewrite E; reflexivity.
  - (* provider stream: publish *)
    unfold v2_stream_publish.
    destruct (update_entries st (get_perm st p) (stream_updates l)) as [st' errs]. reflexivity.
  - (* v1 streamed update: one message *)
    unfold v1_stream_msg. destruct (v1_stream_resolve (st_db st) l [] [] 0) as [ups pre] eqn:R. cbn [fst snd api_core].
    destruct (update_entries st (get_perm st p) ups) as [st' errs]. reflexivity.
  - (* sdv stream: one message *)
    unfold sdv_stream_msg, sdv_update.
    destruct (update_entries st (get_perm st p) (map (fun '(id, w) => (id, dp_upd (from_wire w))) l)) as [st' errs].
    reflexivity.
Qed.

(* ---------- the client streams of kuksa.val.v1 and sdv (C01 at the handler) ---------- *)
(* a message of sdv StreamDatapoints is exactly one UpdateDatapoints *)
Theorem sdv_stream_msg_is_update st p l : sdv_stream_msg st p l = sdv_update st p l.
Proof. reflexivity. Qed.

(* what a StreamedUpdate message hands to the core does not depend on the elements it turns away: an element
   that names a registered signal and carries no target for a non-actuator is forwarded unchanged, in order *)
Definition v1_forwardable (db : database) (u : v1_update) : option (Z * upd) :=
  match v1_path u with
  | None => None
  | Some path =>
    match lookup_path (path_to_id db) path with
    | None => None
    | Some id =>
      match v1_target u, lookup_id (entries db) id with
      | Some _, Some e => if entry_type_eqb (m_etype (e_meta e)) Actuator then Some (id, v1_to_upd u) else None
      | _, _ => Some (id, v1_to_upd u)
      end
    end
  end.

Fixpoint filter_map {A B} (f : A -> option B) (l : list A) : list B :=
  match l with
  | [] => []
  | x :: r => match f x with Some y => y :: filter_map f r | None => filter_map f r end
  end.

Lemma v1_stream_resolve_ups db l : forall ups pre idx,
  fst (v1_stream_resolve db l ups pre idx) = rev ups ++ filter_map (v1_forwardable db) l.
Proof.
  induction l as [|u r IH]; intros ups pre idx; cbn [v1_stream_resolve filter_map].
  - cbn [fst]. rewrite app_nil_r. reflexivity.
  - unfold v1_forwardable at 1. destruct (v1_path u) as [path|]; [|apply IH].
    destruct (lookup_path (path_to_id db) path) as [id|]; [|apply IH].
    destruct (v1_target u) as [t|].
    + destruct (lookup_id (entries db) id) as [e|].
      * destruct (entry_type_eqb (m_etype (e_meta e)) Actuator); cbn [negb].
        -- rewrite IH. cbn [rev]. rewrite <- app_assoc. reflexivity.
        -- apply IH.
      * rewrite IH. cbn [rev]. rewrite <- app_assoc. reflexivity.
    + destruct (lookup_id (entries db) id) as [e|]; rewrite IH; cbn [rev]; rewrite <- app_assoc; reflexivity.
Qed.

Theorem v1_stream_msg_is_core st p l :
  fst (v1_stream_msg st p l) = fst (update_entries st p (filter_map (v1_forwardable (st_db st)) l)).
Proof.
  unfold v1_stream_msg. pose proof (v1_stream_resolve_ups (st_db st) l [] [] 0) as H.
  destruct (v1_stream_resolve (st_db st) l [] [] 0) as [ups pre]. cbn [fst rev app] in H. subst ups.
  destruct (update_entries st p (filter_map (v1_forwardable (st_db st)) l)) as [st' errs]. reflexivity.
Qed.

(* every element the handler turns away itself is reported, and with nothing else than 400 or 404 *)
Lemma v1_stream_resolve_pre db l : forall ups pre idx,
  (length (snd (v1_stream_resolve db l ups pre idx)) + length (filter_map (v1_forwardable db) l)
   = length pre + length l)%nat.
Proof.
  induction l as [|u r IH]; intros ups pre idx; cbn [v1_stream_resolve filter_map length].
  - cbn [snd]. rewrite rev_length. lia.
  - assert (K : forall a b c, (length (snd (v1_stream_resolve db r a b c)) + length (filter_map (v1_forwardable db) r)
                               = length b + length r)%nat) by (intros; apply IH).
    unfold v1_forwardable at 1. destruct (v1_path u) as [path|];
      [|rewrite K; cbn [length]; lia].
    destruct (lookup_path (path_to_id db) path) as [id|]; [|rewrite K; cbn [length]; lia].
    destruct (v1_target u) as [t|].
    + destruct (lookup_id (entries db) id) as [e|].
      * destruct (entry_type_eqb (m_etype (e_meta e)) Actuator); cbn [negb length];
          match goal with |- context[v1_stream_resolve db r ?a ?b ?c] => pose proof (K a b c) as Hx end;
          cbn [length] in Hx; lia.
      * cbn [length].
        match goal with |- context[v1_stream_resolve db r ?a ?b ?c] => pose proof (K a b c) as Hx end; lia.
    + destruct (lookup_id (entries db) id) as [e|]; cbn [length];
        match goal with |- context[v1_stream_resolve db r ?a ?b ?c] => pose proof (K a b c) as Hx end; lia.
Qed.

Theorem v1_stream_every_element_answered_or_forwarded st l :
  (length (snd (v1_stream_resolve (st_db st) l [] [] 0)) + length (filter_map (v1_forwardable (st_db st)) l)
   = length l)%nat.
Proof. rewrite v1_stream_resolve_pre. reflexivity. Qed.

(* Set and StreamedUpdate agree on a request Set does not refuse as a whole: same core update *)
Theorem v1_set_stream_same_core st l ups nf :
  v1_set_resolve (st_db st) l [] [] 0 = inl (ups, nf) ->
  fst (v1_stream_resolve (st_db st) l [] [] 0) = ups.
Proof.
  assert (G : forall l' a b idx ups' nf' pre,
             v1_set_resolve (st_db st) l' a b idx = inl (ups', nf') ->
             fst (v1_stream_resolve (st_db st) l' a pre idx) = ups').
  { clear. induction l' as [|u r IH]; intros a b idx ups' nf' pre; cbn [v1_set_resolve v1_stream_resolve].
    - intros H; inversion H; reflexivity.
    - destruct (v1_path u) as [path|]; [|discriminate].
      destruct (lookup_path (path_to_id (st_db st)) path) as [id|]; [|apply IH].
      destruct (v1_target u) as [t|].
      + destruct (match lookup_id (entries (st_db st)) id with
                  | Some e => negb (entry_type_eqb (m_etype (e_meta e)) Actuator) | None => false end);
          [discriminate|apply IH].
      + apply IH. }
  apply G.
Qed.

(* ---------- the provider stream (C09 / C10 / C01 at the handler) ---------- *)
(* a claim through the stream is the core claim of the named ids followed by the resolved paths; an unknown
   path refuses the whole claim *)
Theorem v2_provide_is_core st p l st' h :
  v2_provide st p l = (st', inl h) ->
  exists ids, resolve_paths (st_db st) (sig_paths l) = Some ids /\
              provide_actuation st p (sig_ids l ++ ids) = (st', inl h).
Proof.
  unfold v2_provide, v2_provide_ids. destruct (resolve_paths (st_db st) (sig_paths l)) as [r|]; [|discriminate].
  cbn [option_map]. destruct (provide_actuation st p (sig_ids l ++ r)) as [st1 [h1|e]] eqn:E; [|discriminate].
  intros H; inversion H; subst. exists r. split; [reflexivity|assumption].
Qed.

Theorem v2_provide_refused_no_effect st p l st' c : v2_provide st p l = (st', inr c) -> st' = st.
Proof.
  unfold v2_provide. destruct (v2_provide_ids (st_db st) l) as [ids|]; [|intros H; inversion H; reflexivity].
  destruct (provide_actuation st p ids) as [st1 [h1|e]] eqn:E; [discriminate|].
  intros H; inversion H; subst.
  unfold provide_actuation in E.
  destruct (first_error (can_actuate_id (st_db st) p (st_now st)) ids); [inversion E; reflexivity|].
  match type of E with (if ?c then _ else _) = _ => destruct c end; inversion E; reflexivity.
Qed.

(* values published through the stream are the core update of exactly those datapoints *)
Theorem v2_stream_publish_is_core st p l :
  fst (v2_stream_publish st p l) = fst (update_entries st p (stream_updates l)) /\
  map fst (snd (v2_stream_publish st p l)) = map fst (snd (update_entries st p (stream_updates l))).
Proof.
  unfold v2_stream_publish. destruct (update_entries st p (stream_updates l)) as [st' errs]. cbn [fst snd].
  split; [reflexivity|]. rewrite map_map. apply map_ext. intros [id e]. reflexivity.
Qed.

(* ---------- subscriptions through the handlers (C03 / C07 / C14 at the handler) ---------- *)
(* a v1 subscription is opened only if every selected signal is readable by the subscriber *)
Theorem v1_subscribe_only_readable st p path fl st' h :
  v1_subscribe st p path fl = (st', inl h) ->
  exists es, v1_sub_entries st p path fl = inl es /\ subscribe st p es None = (st', inl h) /\
             forall id f, In (id, f) es ->
               exists e, In (id, e) (entries (st_db st)) /\ f = fl /\
                         can_read p (st_now st) (path_segs (e_meta e)) = Perm.POk.
Proof.
  unfold v1_subscribe, core_subscribe. destruct (v1_sub_entries st p path fl) as [es|code] eqn:SE; [|discriminate].
  destruct (subscribe st p es None) as [st1 [h1|e]] eqn:S; [|discriminate].
  intros H; inversion H; subst. exists es. split; [reflexivity|]. split; [assumption|].
  intros id f Hin. unfold v1_sub_entries in SE.
  destruct (too_long path || negb (matcher_accepts path)); [inversion SE; subst; destruct Hin|].
  destruct (to_glob path) as [ps|]; [|discriminate].
  destruct (nth_id_entries (st_db st) (with_fallback ps (tree_of (st_db st)))) as [|ie0 sel0] eqn:NE; [discriminate|].
  match type of SE with (if ?c then _ else _) = _ => destruct c eqn:EX end; [discriminate|].
  inversion SE; subst es.
  apply (in_map_iff (fun ie : Z * entry => (fst ie, fl)) (ie0 :: sel0)) in Hin.
  destruct Hin as [[i e] [Heq Hin]]. inversion Heq; subst.
  exists e. repeat split.
  - rewrite <- NE in Hin. unfold nth_id_entries in Hin. apply in_flat_map in Hin. destruct Hin as [k [_ Hk]].
    destruct (nth_error (entries (st_db st)) (Z.to_nat k)) as [ie|] eqn:N; [|destruct Hk].
    destruct Hk as [Hk|[]]. subst ie. eapply nth_error_In; eassumption.
  - destruct (can_read p (st_now st) (path_segs (e_meta e))) eqn:C; [reflexivity| |]; exfalso;
      (match type of EX with
       | existsb ?f ?l = false =>
         assert (T : existsb f l = true)
           by (apply existsb_exists; exists (id, e); split; [assumption|cbn [snd]; rewrite C; reflexivity])
       end; rewrite T in EX; discriminate).
Qed.

(* v2: the subscription covers exactly the signals the request names, with the Datapoint field *)
Theorem v2_subscribe_entries st p l buf st' h :
  v2_subscribe st p l buf = (st', inl h) ->
  exists ids, v2_resolve_all (st_db st) l = inl ids /\
              subscribe st p (map (fun id => (id, dp_only)) (nodup_z ids)) (Some buf) = (st', inl h).
Proof.
  unfold v2_subscribe, v2_sub_entries, core_subscribe.
  destruct (v2_resolve_all (st_db st) l) as [ids|code]; [|discriminate].
  destruct (subscribe st p (map (fun id => (id, dp_only)) (nodup_z ids)) (Some buf)) as [st1 [h1|e]] eqn:S; [|discriminate].
  intros H; inversion H; subst. exists ids. split; [reflexivity|assumption].
Qed.

(* a refused handler subscription leaves the state unchanged *)
Theorem handler_subscribe_refused_no_effect st p :
  (forall path fl st' c, v1_subscribe st p path fl = (st', inr c) -> st' = st) /\
  (forall l buf st' c, v2_subscribe st p l buf = (st', inr c) -> st' = st).
Proof.
  assert (K : forall es buf st' c, core_subscribe st p es buf = (st', inr c) -> st' = st).
  { intros es buf st' c. unfold core_subscribe, subscribe. destruct es as [|x es'].
    - intros H; inversion H; reflexivity.
    - destruct buf as [b|]; [destruct (max_subscribe_buffer_size <? b)|]; intros H; inversion H; reflexivity. }
  split.
  - intros path fl st' c. unfold v1_subscribe. destruct (v1_sub_entries st p path fl) as [es|code].
    + apply K.
    + intros H; inversion H; reflexivity.
  - intros l buf st' c. unfold v2_subscribe. destruct (v2_sub_entries (st_db st) l) as [es|code].
    + apply K.
    + intros H; inversion H; reflexivity.
Qed.

(* a value written through any API is stored exactly as sent (kind, bits, order, length) *)
Theorem publish_stores_the_value st p id v ch db' :
  update_one (st_db st) p (st_now st) (st_clock st) id (dp_upd v) = (db', inl ch) ->
  f_dp ch = true ->
  exists e', lookup_id (entries db') id = Some e' /\ d_value (e_dp e') = v.
Proof.
  intros U F. destruct (update_one_ok _ _ _ _ _ _ _ _ U) as (e & L & _ & _ & _ & _ & _ & Edb & Ech).
  subst ch. cbn [f_dp] in F. change (u_dp (dp_upd v)) with (Some v) in F.
  destruct (diff_dp e (Some v)) as [x|] eqn:D; [|discriminate F].
  exists (spec_apply e (dp_upd v) (st_clock st)). split.
  - rewrite Edb. cbn [entries]. apply (lookup_replace_same _ _ _ _ L).
  - unfold spec_apply. change (u_dp (dp_upd v)) with (Some v). rewrite D. cbn [e_dp d_value].
    unfold diff_dp in D.
    destruct (negb (change_type_eqb (m_ctype (e_meta e)) Continuous) && value_eqb v (d_value (e_dp e)));
      inversion D. reflexivity.
Qed.

(* the carved-out class (finding F14): on a non-continuous signal an accepted write whose value is
   IEEE-equal to the stored one but has other bits (-0.0 over +0.0) is dropped *)
Definition f14_entry : entry :=
  {| e_dp := {| d_ts := 1; d_value := VF64 0 |}; e_lag := {| d_ts := 1; d_value := VNA |}; e_target := None;
     e_meta := {| m_id := 0; m_path := [86]; m_dtype := TDouble; m_etype := Sensor; m_ctype := OnChange;
                  m_min := None; m_max := None; m_allowed := None |} |}.
Definition f14_db : database := {| next_id := 1; path_to_id := [([86], 0)]; entries := [(0, f14_entry)] |}.

Lemma negative_zero_dropped :
  exists db' ch, update_one f14_db allow_all 0 2 0 (dp_upd (VF64 9223372036854775808)) = (db', inl ch)
                 /\ f_dp ch = false
                 /\ option_map (fun e => d_value (e_dp e)) (lookup_id (entries db') 0) = Some (VF64 0).
Proof. eexists. eexists. vm_compute. repeat split. Qed.

(* ---------- actuation through the kuksa.val.v2 handlers (C09 at the handler) ---------- *)
(* the batch the handler hands to the core pairs every request element's OWN identifier with its OWN value, in
   request order: element k of the core batch is (the id element k names, the value element k carries) *)
Definition names_pair (db : database) (x : sig_ref * option (option value)) (c : Z * value) : Prop :=
  v2_resolve_actuator db (fst x) = inl (fst c) /\ exists w, snd x = Some w /\ snd c = from_wire w.

Theorem v2_batch_resolve_pairs db l cs :
  v2_batch_resolve db l = inl cs -> Forall2 (names_pair db) l cs.
Proof.
  revert cs. induction l as [|[s v] r IH]; intros cs; cbn [v2_batch_resolve].
  - intros H; inversion H. constructor.
  - destruct (v2_resolve_actuator db s) as [id|code] eqn:R; [|discriminate].
    destruct v as [w|]; [|discriminate].
    destruct (v2_batch_resolve db r) as [rest|code]; [|discriminate].
    intros H; inversion H; subst. constructor.
    + split; [exact R|]. exists w. split; reflexivity.
    + apply IH. reflexivity.
Qed.

Lemma v2_resolve_actuator_code db s code : v2_resolve_actuator db s = inr code -> code <> OK.
Proof.
  unfold v2_resolve_actuator. destruct s as [| |path|id]; try (intros H; inversion H; subst; discriminate).
  destruct (lookup_path (path_to_id db) path); intros H; inversion H; subst; discriminate.
Qed.

Lemma v2_batch_resolve_code db l code : v2_batch_resolve db l = inr code -> code <> OK.
Proof.
  induction l as [|[s v] r IH]; cbn [v2_batch_resolve]; [discriminate|].
  destruct (v2_resolve_actuator db s) as [id|c] eqn:R.
  - destruct v as [w|]; [|intros H; inversion H; subst; discriminate].
    destruct (v2_batch_resolve db r) as [rest|c]; [discriminate|].
    intros H; inversion H; subst. apply IH. reflexivity.
  - intros H; inversion H; subst. apply (v2_resolve_actuator_code _ _ _ R).
Qed.

Lemma act_status_not_ok e : act_status e <> OK.
Proof. destruct e; discriminate. Qed.

(* a served BatchActuate is the core batch of exactly those pairs; a refused one changes nothing *)
Theorem v2_batch_actuate_served st p l st' :
  v2_batch_actuate st p l = (st', RStatus OK) ->
  exists cs, Forall2 (names_pair (st_db st)) l cs /\ batch_actuate st p cs = (st', None).
Proof.
  unfold v2_batch_actuate. destruct (v2_batch_resolve (st_db st) l) as [cs|code] eqn:R.
  - destruct (batch_actuate st p cs) as [st1 [e|]] eqn:B.
    + intros H; inversion H; subst. exfalso. eapply act_status_not_ok; eassumption.
    + intros H; inversion H; subst. exists cs. split; [apply v2_batch_resolve_pairs; exact R|exact B].
  - intros H; inversion H; subst. exfalso. apply (v2_batch_resolve_code _ _ _ R). reflexivity.
Qed.

Theorem v2_batch_actuate_refused_no_effect st p l st' c :
  v2_batch_actuate st p l = (st', RStatus c) -> c <> OK -> st' = st.
Proof.
  unfold v2_batch_actuate. destruct (v2_batch_resolve (st_db st) l) as [cs|code].
  - destruct (batch_actuate st p cs) as [st1 [e|]] eqn:B.
    + intros H _; inversion H; subst. apply (batch_all_or_nothing _ _ _ _ _ B).
    + intros H N; inversion H; subst. exfalso; apply N; reflexivity.
  - intros H _; inversion H; reflexivity.
Qed.

(* a served Actuate is the core actuate of the id its identifier names, value unchanged *)
Theorem v2_actuate_served st p s v st' :
  v2_actuate st p s v = (st', RStatus OK) ->
  exists id w, v2_resolve_actuator (st_db st) s = inl id /\ v = Some w /\
               actuate st p id (from_wire w) = (st', None).
Proof.
  unfold v2_actuate. destruct v as [w|]; [|intros H; inversion H].
  assert (G : match v2_resolve_actuator (st_db st) s with
              | inr code => (st, RStatus code)
              | inl id => let '(st1, r) := actuate st p id (from_wire w) in
                          (st1, RStatus (match r with None => OK | Some e => act_status e end))
              end = (st', RStatus OK) ->
              exists id w0, v2_resolve_actuator (st_db st) s = inl id /\ Some w = Some w0 /\
                            actuate st p id (from_wire w0) = (st', None)).
  { destruct (v2_resolve_actuator (st_db st) s) as [id|code] eqn:R.
    - destruct (actuate st p id (from_wire w)) as [st1 [e|]] eqn:A.
      + intros H; inversion H; subst. exfalso. eapply act_status_not_ok; eassumption.
      + intros H; inversion H; subst. exists id, w. repeat split. exact A.
    - intros H; inversion H; subst. exfalso. apply (v2_resolve_actuator_code _ _ _ R). reflexivity. }
  destruct s; exact G.
Qed.

(* ---------- kuksa.val.v1 Subscribe with several entries: the union of the fields (C07 at the handler) ---------- *)
Definition fields_le (a b : fields) : Prop :=
  (f_dp a = true -> f_dp b = true) /\ (f_target a = true -> f_target b = true) /\ (f_unit a = true -> f_unit b = true).
Definition covered (acc : list (Z * fields)) (id : Z) (fl : fields) : Prop :=
  exists f, In (id, f) acc /\ fields_le fl f.

Lemma fields_le_refl a : fields_le a a.
Proof. repeat split; auto. Qed.
Lemma fields_le_union_l a b : fields_le a (fields_union a b).
Proof. unfold fields_le, fields_union; cbn. repeat split; intros ->; reflexivity. Qed.
Lemma fields_le_union_r a b : fields_le b (fields_union a b).
Proof. unfold fields_le, fields_union; cbn. repeat split; intros ->; apply orb_true_r. Qed.
Lemma fields_le_trans a b c : fields_le a b -> fields_le b c -> fields_le a c.
Proof. intros (A1 & A2 & A3) (B1 & B2 & B3). repeat split; auto. Qed.

Lemma merge_covers_new id fl acc : covered (merge_entry id fl acc) id fl.
Proof.
  induction acc as [|[i f] r IH]; cbn [merge_entry].
  - exists fl. split; [left; reflexivity|apply fields_le_refl].
  - destruct (i =? id) eqn:E.
    + apply Z.eqb_eq in E. subst i. exists (fields_union f fl). split; [left; reflexivity|apply fields_le_union_r].
    + destruct (id <? i).
      * exists fl. split; [left; reflexivity|apply fields_le_refl].
      * destruct IH as (g & Hin & Hle). exists g. split; [right; exact Hin|exact Hle].
Qed.

Lemma merge_covers_old id fl acc j g : covered acc j g -> covered (merge_entry id fl acc) j g.
Proof.
  induction acc as [|[i f] r IH]; cbn [merge_entry]; intros (h & Hin & Hle).
  - destruct Hin.
  - destruct (i =? id) eqn:E.
    + destruct Hin as [Heq|Hin].
      * inversion Heq; subst. exists (fields_union h fl). split; [left; reflexivity|].
        apply (fields_le_trans _ _ _ Hle). apply fields_le_union_l.
      * exists h. split; [right; exact Hin|exact Hle].
    + destruct (id <? i).
      * exists h. split; [right; exact Hin|exact Hle].
      * destruct Hin as [Heq|Hin].
        -- inversion Heq; subst. exists h. split; [left; reflexivity|exact Hle].
        -- destruct (IH (ex_intro _ h (conj Hin Hle))) as (h' & Hin' & Hle'). exists h'. split; [right; exact Hin'|exact Hle'].
Qed.

Lemma fold_merge_covers es : forall acc,
  (forall j g, covered acc j g -> covered (fold_left (fun a ie => merge_entry (fst ie) (snd ie) a) es acc) j g) /\
  (forall id f, In (id, f) es -> covered (fold_left (fun a ie => merge_entry (fst ie) (snd ie) a) es acc) id f).
Proof.
  induction es as [|[i f] r IH]; intros acc; cbn [fold_left].
  - split; [auto|intros id f []].
  - destruct (IH (merge_entry i f acc)) as (Hold & Hnew). cbn [fst snd] in *. split.
    + intros j g C. apply Hold. apply merge_covers_old. exact C.
    + intros id f0 [Heq|Hin].
      * inversion Heq; subst. apply Hold. apply merge_covers_new.
      * apply Hnew. exact Hin.
Qed.

(* every signal an entry of the request selects is subscribed with at least that entry's fields, whatever the
   other entries of the request say about it *)
Theorem v1_sub_all_union st p : forall l acc es,
  v1_sub_all st p l acc = inl es ->
  (forall j g, covered acc j g -> covered es j g) /\
  (forall path fl sel id f, In (path, fl) l -> v1_sub_entries st p path fl = inl sel -> In (id, f) sel ->
                            covered es id f).
Proof.
  induction l as [|[path fl] r IH]; intros acc es; cbn [v1_sub_all].
  - intros H; inversion H; subst. split; [auto|intros ? ? ? ? ? []].
  - destruct (v1_sub_entries st p path fl) as [sel0|code] eqn:SE; [|discriminate].
    intros H. destruct (IH _ _ H) as (Hold & Hnew).
    destruct (fold_merge_covers sel0 acc) as (Fold & Fnew). split.
    + intros j g C. apply Hold. apply Fold. exact C.
    + intros path' fl' sel id f [Heq|Hin] SE' Hsel.
      * inversion Heq; subst. rewrite SE in SE'. inversion SE'; subst. apply Hold. apply Fnew. exact Hsel.
      * eapply Hnew; eassumption.
Qed.

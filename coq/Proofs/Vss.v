(* Proofs/Vss.v — C17: flattening a VSS tree yields exactly its reachable leaves under their
   dot-joined names with the declared metadata; malformed documents are rejected as a whole. *)
From Coq Require Import ZArith Lia Bool List.
From KD Require Import Model.Values Model.Compare Model.Validate Model.Perm Model.Glob Model.Broker
     Model.FloatLit Model.Vss Proofs.Broker.
Open Scope Z_scope.

Scheme node_mut := Induction for node Sort Prop
  with forest_mut := Induction for forest Sort Prop.
Combined Scheme node_forest_ind from node_mut, forest_mut.

Definition leaf_kind (t : node_type) : option entry_type :=
  match t with NSensor => Some Sensor | NAttribute => Some Attribute | NActuator => Some Actuator | NBranch => None end.

(* the nodes the loader walks through: a node itself, and below a branch that has children the
   nodes of each child, one path level deeper *)
Inductive reach : list Z -> node -> list Z -> node -> Prop :=
| reach_self p n : reach p n p n
| reach_down p i f q m : n_type i = Present NBranch -> reach_forest p f q m -> reach p (Node i true f) q m
with reach_forest : list Z -> forest -> list Z -> node -> Prop :=
| reach_here p name n r q m : reach (p ++ dot :: name) n q m -> reach_forest p (FCons name n r) q m
| reach_later p name n r q m : reach_forest p r q m -> reach_forest p (FCons name n r) q m.

(* the root object: names are the first path level *)
Inductive reach_root : forest -> list Z -> node -> Prop :=
| root_here name n r q m : reach name n q m -> reach_root (FCons name n r) q m
| root_later name n r q m : reach_root r q m -> reach_root (FCons name n r) q m.

Definition type_of_kind (et : entry_type) : node_type :=
  match et with Sensor => NSensor | Attribute => NAttribute | Actuator => NActuator end.

Lemma flatten_leaf_node p i hc f et :
  n_type i = Present (type_of_kind et) ->
  flatten_node p (Node i hc f) = option_map (fun e => [(p, e)]) (leaf_entry i et).
Proof. intros H. cbn [flatten_node]. rewrite H. destruct et; reflexivity. Qed.

(* everything a reached node yields is part of the result, and if the whole succeeds so does the part *)
Lemma flatten_reach_both :
  (forall n p l, flatten_node p n = Some l ->
     forall q m, reach p n q m -> exists l', flatten_node q m = Some l' /\ incl l' l)
  /\ (forall f p l, flatten_forest p f = Some l ->
     forall q m, reach_forest p f q m -> exists l', flatten_node q m = Some l' /\ incl l' l).
Proof.
  apply node_forest_ind.
  - intros i hc f IHf p l H q m R. inversion R as [| p0 i0 f0 q0 m0 Ty Rf]; subst.
    + exists l. split; [exact H|apply incl_refl].
    + cbn [flatten_node] in H. rewrite Ty in H. exact (IHf p l H q m Rf).
  - intros p l H q m R. inversion R.
  - intros name n IHn r IHr p l H q m R. cbn [flatten_forest] in H.
    destruct (flatten_node (p ++ dot :: name) n) as [a|] eqn:A; [|discriminate].
    destruct (flatten_forest p r) as [b|] eqn:B; [|discriminate]. inversion H; subst.
    inversion R as [p0 name0 n0 r0 q0 m0 Rn | p0 name0 n0 r0 q0 m0 Rr]; subst.
    + destruct (IHn _ _ A q m Rn) as (l' & E & I). exists l'. split; [exact E|].
      intros x Hx. apply in_or_app. left. exact (I x Hx).
    + destruct (IHr _ _ B q m Rr) as (l' & E & I). exists l'. split; [exact E|].
      intros x Hx. apply in_or_app. right. exact (I x Hx).
Qed.

Lemma flatten_root_reach f l :
  flatten_root f = Some l -> forall q m, reach_root f q m -> exists l', flatten_node q m = Some l' /\ incl l' l.
Proof.
  revert l. induction f as [|name n r IH]; intros l H q m R; [inversion R|].
  cbn [flatten_root] in H.
  destruct (flatten_node name n) as [a|] eqn:A; [|discriminate].
  destruct (flatten_root r) as [b|] eqn:B; [|discriminate]. inversion H; subst.
  inversion R as [name0 n0 r0 q0 m0 Rn | name0 n0 r0 q0 m0 Rr]; subst.
  - destruct (proj1 flatten_reach_both n name a A q m Rn) as (l' & E & I). exists l'. split; [exact E|].
    intros x Hx. apply in_or_app. left. exact (I x Hx).
  - destruct (IH b eq_refl q m Rr) as (l' & E & I). exists l'. split; [exact E|].
    intros x Hx. apply in_or_app. right. exact (I x Hx).
Qed.

(* every result comes from a reached leaf node, under that node's path *)
Lemma flatten_sound_both :
  (forall n p l, flatten_node p n = Some l ->
     forall q e, In (q, e) l ->
       exists i hc f et, reach p n q (Node i hc f) /\ n_type i = Present (type_of_kind et)
                         /\ leaf_entry i et = Some e)
  /\ (forall f p l, flatten_forest p f = Some l ->
     forall q e, In (q, e) l ->
       exists i hc f' et, reach_forest p f q (Node i hc f') /\ n_type i = Present (type_of_kind et)
                          /\ leaf_entry i et = Some e).
Proof.
  apply node_forest_ind.
  - intros i hc f IHf p l H q e Hin. cbn [flatten_node] in H.
    destruct (n_type i) as [| |[| | |]] eqn:Ty; try discriminate.
    + destruct hc; [|discriminate].
      destruct (IHf p l H q e Hin) as (j & hc' & f' & et & R & K & L).
      exists j, hc', f', et. split; [|auto]. apply reach_down; assumption.
    + destruct (leaf_entry i Sensor) as [e0|] eqn:L; [|discriminate]. inversion H; subst.
      destruct Hin as [Hin|[]]. inversion Hin; subst.
      exists i, hc, f, Sensor. split; [apply reach_self|]. auto.
    + destruct (leaf_entry i Attribute) as [e0|] eqn:L; [|discriminate]. inversion H; subst.
      destruct Hin as [Hin|[]]. inversion Hin; subst.
      exists i, hc, f, Attribute. split; [apply reach_self|]. auto.
    + destruct (leaf_entry i Actuator) as [e0|] eqn:L; [|discriminate]. inversion H; subst.
      destruct Hin as [Hin|[]]. inversion Hin; subst.
      exists i, hc, f, Actuator. split; [apply reach_self|]. auto.
  - intros p l H q e Hin. inversion H; subst. destruct Hin.
  - intros name n IHn r IHr p l H q e Hin. cbn [flatten_forest] in H.
    destruct (flatten_node (p ++ dot :: name) n) as [a|] eqn:A; [|discriminate].
    destruct (flatten_forest p r) as [b|] eqn:B; [|discriminate]. inversion H; subst.
    apply in_app_or in Hin. destruct Hin as [Hin|Hin].
    + destruct (IHn _ _ A q e Hin) as (j & hc' & f' & et & R & K & L).
      exists j, hc', f', et. split; [apply reach_here; exact R|auto].
    + destruct (IHr _ _ B q e Hin) as (j & hc' & f' & et & R & K & L).
      exists j, hc', f', et. split; [apply reach_later; exact R|auto].
Qed.

Lemma flatten_root_sound f l :
  flatten_root f = Some l ->
  forall q e, In (q, e) l ->
    exists i hc f' et, reach_root f q (Node i hc f') /\ n_type i = Present (type_of_kind et)
                       /\ leaf_entry i et = Some e.
Proof.
  revert l. induction f as [|name n r IH]; intros l H q e Hin; cbn [flatten_root] in H.
  - inversion H; subst. destruct Hin.
  - destruct (flatten_node name n) as [a|] eqn:A; [|discriminate].
    destruct (flatten_root r) as [b|] eqn:B; [|discriminate]. inversion H; subst.
    apply in_app_or in Hin. destruct Hin as [Hin|Hin].
    + destruct (proj1 flatten_sound_both n name a A q e Hin) as (j & hc' & f' & et & R & K & L).
      exists j, hc', f', et. split; [apply root_here; exact R|auto].
    + destruct (IH b eq_refl q e Hin) as (j & hc' & f' & et & R & K & L).
      exists j, hc', f', et. split; [apply root_later; exact R|auto].
Qed.

(* ---------- the ordered map ---------- *)
Lemma str_eqb_refl s : str_eqb s s = true.
Proof. unfold str_eqb. induction s as [|a s IH]; cbn; [reflexivity|]. rewrite Z.eqb_refl. exact IH. Qed.

Lemma str_eqb_true a b : str_eqb a b = true -> a = b.
Proof.
  unfold str_eqb. revert b. induction a as [|x a IH]; intros [|y b]; cbn; intros H; try reflexivity; try discriminate.
  apply andb_prop in H. destruct H as [H1 H2]. apply Z.eqb_eq in H1. rewrite (IH _ H2), H1. reflexivity.
Qed.

Lemma bt_insert_in {A} k (v : A) l q e :
  In (q, e) (bt_insert k v l) -> (q, e) = (k, v) \/ In (q, e) l.
Proof.
  induction l as [|[k' v'] r IH]; cbn [bt_insert]; intros H.
  - destruct H as [H|[]]. left. symmetry. exact H.
  - destruct (str_eqb k k').
    + destruct H as [H|H]; [left; symmetry; exact H|right; right; exact H].
    + destruct (str_ltb k k').
      * destruct H as [H|H]; [left; symmetry; exact H|right; exact H].
      * destruct H as [H|H]; [right; left; exact H|]. destruct (IH H) as [E|E]; [left; exact E|right; right; exact E].
Qed.

Lemma bt_insert_has {A} k (v : A) l : In (k, v) (bt_insert k v l).
Proof.
  induction l as [|[k' v'] r IH]; cbn [bt_insert]; [left; reflexivity|].
  destruct (str_eqb k k'); [left; reflexivity|]. destruct (str_ltb k k'); [left; reflexivity|right; exact IH].
Qed.

Lemma bt_insert_keeps_other {A} k (v : A) l q e :
  In (q, e) l -> q <> k -> In (q, e) (bt_insert k v l).
Proof.
  induction l as [|[k' v'] r IH]; cbn [bt_insert]; intros H N; [destruct H|].
  destruct (str_eqb k k') eqn:E.
  - apply str_eqb_true in E. subst k'. destruct H as [H|H]; [inversion H; subst; contradiction|right; exact H].
  - destruct (str_ltb k k'); [right; exact H|]. destruct H as [H|H]; [left; exact H|right; exact (IH H N)].
Qed.

Lemma bt_fold_in {A} (l : list (list Z * A)) : forall m q e,
  In (q, e) (fold_left (fun m kv => bt_insert (fst kv) (snd kv) m) l m) -> In (q, e) l \/ In (q, e) m.
Proof.
  induction l as [|[k v] r IH]; intros m q e H; cbn [fold_left] in H; [right; exact H|].
  destruct (IH _ q e H) as [H'|H']; [left; right; exact H'|].
  cbn [fst snd] in H'. destruct (bt_insert_in _ _ _ _ _ H') as [E|E]; [left; left; symmetry; exact E|right; exact E].
Qed.

Lemma bt_of_list_in {A} (l : list (list Z * A)) q e : In (q, e) (bt_of_list l) -> In (q, e) l.
Proof. intros H. destruct (bt_fold_in l [] q e H) as [H'|[]]. exact H'. Qed.

(* a path that occurs once keeps its entry *)
Lemma bt_fold_keeps {A} (l : list (list Z * A)) : forall m q e,
  In (q, e) m -> (forall e', ~ In (q, e') l) ->
  In (q, e) (fold_left (fun m kv => bt_insert (fst kv) (snd kv) m) l m).
Proof.
  induction l as [|[k v] r IH]; intros m q e H N; cbn [fold_left]; [exact H|].
  apply IH.
  - cbn [fst snd]. apply bt_insert_keeps_other; [exact H|]. intros ->. apply (N v). left. reflexivity.
  - intros e' Hin. apply (N e'). right. exact Hin.
Qed.

Lemma bt_of_list_has {A} (l : list (list Z * A)) : forall a b q e,
  l = a ++ (q, e) :: b -> (forall e', ~ In (q, e') b) -> In (q, e) (bt_of_list l).
Proof.
  intros a b q e -> N. unfold bt_of_list. rewrite fold_left_app. cbn [fold_left fst snd].
  apply bt_fold_keeps; [apply bt_insert_has|exact N].
Qed.

(* ---------- the property at the level of parse_vss ---------- *)
(* soundness: whatever is registered is a leaf of the document, under its dot-joined path, with
   the entry built from that leaf's declarations; branches never become signals *)
Theorem parse_vss_sound f es q e :
  parse_vss f = Some es -> In (q, e) es ->
  exists i hc f' et, reach_root f q (Node i hc f') /\ n_type i = Present (type_of_kind et)
                     /\ leaf_entry i et = Some e.
Proof.
  unfold parse_vss. destruct (forest_ok f); [|discriminate].
  destruct (flatten_root f) as [l|] eqn:F; [|discriminate]. intros H Hin. inversion H; subst.
  apply bt_of_list_in in Hin. exact (flatten_root_sound f l F q e Hin).
Qed.

(* completeness: every leaf the loader reaches is converted (its declarations fit), and its path
   is registered *)
Theorem parse_vss_complete f es q i hc f' et :
  parse_vss f = Some es -> reach_root f q (Node i hc f') -> n_type i = Present (type_of_kind et) ->
  exists e, leaf_entry i et = Some e /\ exists e', In (q, e') es.
Proof.
  unfold parse_vss. destruct (forest_ok f); [|discriminate].
  destruct (flatten_root f) as [l|] eqn:F; [|discriminate]. intros H R Ty. inversion H; subst.
  destruct (flatten_root_reach f l F q _ R) as (l' & E & I).
  rewrite (flatten_leaf_node q i hc f' et Ty) in E.
  destruct (leaf_entry i et) as [e|]; [|discriminate]. inversion E; subst.
  exists e. split; [reflexivity|].
  assert (Hin : In (q, e) l) by (apply I; left; reflexivity).
  (* the last occurrence of q in l survives *)
  clear -Hin. induction l as [|[k v] r IH] using rev_ind; [destruct Hin|].
  unfold bt_of_list. rewrite fold_left_app. cbn [fold_left fst snd].
  destruct (list_eq_dec Z.eq_dec q k) as [->|N].
  - exists v. apply bt_insert_has.
  - apply in_app_or in Hin. destruct Hin as [Hin|[Hin|[]]]; [|inversion Hin; subst; contradiction].
    destruct (IH Hin) as [e' He']. exists e'. apply bt_insert_keeps_other; assumption.
Qed.

(* ---------- malformed documents are rejected as a whole ---------- *)
Theorem leaf_without_conversion_rejected f q i hc f' et :
  reach_root f q (Node i hc f') -> n_type i = Present (type_of_kind et) -> leaf_entry i et = None ->
  parse_vss f = None.
Proof.
  intros R Ty L. destruct (parse_vss f) as [es|] eqn:P; [|reflexivity].
  destruct (parse_vss_complete f es q i hc f' et P R Ty) as (e & E & _). rewrite L in E. discriminate.
Qed.

Theorem branch_without_children_rejected f q i f' :
  reach_root f q (Node i false f') -> n_type i = Present NBranch -> parse_vss f = None.
Proof.
  intros R Ty. unfold parse_vss. destruct (forest_ok f); [|reflexivity].
  destruct (flatten_root f) as [l|] eqn:F; [|reflexivity].
  destruct (flatten_root_reach f l F q _ R) as (l' & E & _).
  cbn [flatten_node] in E. rewrite Ty in E. discriminate.
Qed.

Theorem node_without_valid_type_rejected f q i hc f' :
  reach_root f q (Node i hc f') -> (forall t, n_type i <> Present t) -> parse_vss f = None.
Proof.
  intros R Ty. unfold parse_vss. destruct (forest_ok f); [|reflexivity].
  destruct (flatten_root f) as [l|] eqn:F; [|reflexivity].
  destruct (flatten_root_reach f l F q _ R) as (l' & E & _).
  cbn [flatten_node] in E. destruct (n_type i) as [| |t]; try discriminate. exfalso. exact (Ty t eq_refl).
Qed.

(* what makes a leaf unconvertible: no data type, no description, or a min / max / allowed /
   default (default: attributes only) that does not fit the data type *)
Definition fits_single (dt : data_type) (o : option json) : Prop :=
  match o with None => True | Some j => single_of_json dt j <> None end.
Definition fits_value (dt : data_type) (o : option json) : Prop :=
  match o with None => True | Some j => value_of_json dt j <> None end.

Theorem leaf_entry_none_iff i et :
  leaf_entry i et = None <->
  (forall dt, n_dtype i <> Present dt) \/ (forall d, n_desc i <> Present d) \/
  exists dt, n_dtype i = Present dt /\
    (~ fits_single dt (n_min i) \/ ~ fits_single dt (n_max i)
     \/ (match n_allowed i with Absent => False | Invalid => True | Present l => allowed_of_json dt l = None end)
     \/ (et = Attribute /\ ~ fits_value dt (n_default i))).
Proof.
  unfold leaf_entry. destruct (n_dtype i) as [| |dt] eqn:D.
  1,2: split; [intros _; left; intros dt; discriminate|reflexivity].
  destruct (n_desc i) as [| |desc] eqn:De.
  1,2: split; [intros _; right; left; intros d; discriminate|reflexivity].
  assert (OC : forall f o, opt_conv f o = None <-> match o with None => False | Some j => f j = None end).
  { intros f [j|]; cbn; [|split; [discriminate|contradiction]].
    destruct (f j); cbn; split; intros H; try discriminate; reflexivity. }
  split.
  - intros H. right. right. exists dt. split; [reflexivity|].
    destruct (opt_conv (single_of_json dt) (n_min i)) as [mn|] eqn:Mn.
    2:{ left. apply OC in Mn. destruct (n_min i); [|contradiction]. cbn. intros F. exact (F Mn). }
    destruct (opt_conv (single_of_json dt) (n_max i)) as [mx|] eqn:Mx.
    2:{ right. left. apply OC in Mx. destruct (n_max i); [|contradiction]. cbn. intros F. exact (F Mx). }
    destruct (n_allowed i) as [| |l] eqn:Al.
    2:{ right. right. left. exact I. }
    + destruct et; try discriminate H.
      destruct (opt_conv (value_of_json dt) (n_default i)) as [df|] eqn:Df; [discriminate H|].
      right. right. right. split; [reflexivity|]. apply OC in Df. destruct (n_default i); [|contradiction].
      cbn. intros F. exact (F Df).
    + destruct (allowed_of_json dt l) as [al|] eqn:A; [|right; right; left; reflexivity]. cbn [option_map] in H.
      destruct et; try discriminate H.
      destruct (opt_conv (value_of_json dt) (n_default i)) as [df|] eqn:Df; [discriminate H|].
      right. right. right. split; [reflexivity|]. apply OC in Df. destruct (n_default i); [|contradiction].
      cbn. intros F. exact (F Df).
  - intros [H|[H|(dt' & E & H)]]; [exfalso; exact (H dt eq_refl)|exfalso; exact (H desc eq_refl)|].
    inversion E; subst dt'.
    destruct H as [H|[H|[H|[-> H]]]].
    + destruct (n_min i) as [j|]; cbn in H; [|exfalso; exact (H I)].
      cbn [opt_conv]. destruct (single_of_json dt j); [exfalso; apply H; discriminate|reflexivity].
    + destruct (opt_conv (single_of_json dt) (n_min i)); [|reflexivity].
      destruct (n_max i) as [j|]; cbn in H; [|exfalso; exact (H I)].
      cbn [opt_conv]. destruct (single_of_json dt j); [exfalso; apply H; discriminate|reflexivity].
    + destruct (opt_conv (single_of_json dt) (n_min i)); [|reflexivity].
      destruct (opt_conv (single_of_json dt) (n_max i)); [|reflexivity].
      destruct (n_allowed i); [contradiction|reflexivity|]. rewrite H. reflexivity.
    + destruct (opt_conv (single_of_json dt) (n_min i)); [|reflexivity].
      destruct (opt_conv (single_of_json dt) (n_max i)); [|reflexivity].
      destruct (match n_allowed i with
                | Absent => Some None
                | Invalid => None
                | Present l => option_map Some (allowed_of_json dt l)
                end); [|reflexivity].
      destruct (n_default i) as [j|]; cbn in H; [|exfalso; exact (H I)].
      cbn [opt_conv]. destruct (value_of_json dt j); [exfalso; apply H; discriminate|reflexivity].
Qed.

(* ---------- the declared metadata is carried over ---------- *)
Theorem leaf_entry_fields i et e :
  leaf_entry i et = Some e ->
  n_dtype i = Present (de_dtype e) /\ de_etype e = et /\ n_desc i = Present (de_desc e)
  /\ de_comment e = n_comment i /\ de_unit e = n_unit i
  /\ de_ctype e = match n_ctype i with Present c => c | _ => default_change_type et end
  /\ opt_conv (single_of_json (de_dtype e)) (n_min i) = Some (de_min e)
  /\ opt_conv (single_of_json (de_dtype e)) (n_max i) = Some (de_max e)
  /\ match n_allowed i with
     | Absent => de_allowed e = None
     | Invalid => False
     | Present l => exists a, allowed_of_json (de_dtype e) l = Some a /\ de_allowed e = Some a
     end
  /\ match et with
     | Attribute => opt_conv (value_of_json (de_dtype e)) (n_default i) = Some (de_default e)
     | _ => de_default e = None
     end.
Proof.
  unfold leaf_entry. destruct (n_dtype i) as [| |dt]; try discriminate.
  destruct (n_desc i) as [| |desc]; try discriminate.
  destruct (opt_conv (single_of_json dt) (n_min i)) as [mn|] eqn:Mn; [|discriminate].
  destruct (opt_conv (single_of_json dt) (n_max i)) as [mx|] eqn:Mx; [|discriminate].
  destruct (n_allowed i) as [| |l]; try discriminate.
  - destruct et.
    + intros H; inversion H; subst; cbn. rewrite Mn, Mx. repeat split; reflexivity.
    + destruct (opt_conv (value_of_json dt) (n_default i)) as [df|] eqn:Df; [|discriminate].
      intros H; inversion H; subst; cbn. rewrite Mn, Mx, Df. repeat split; reflexivity.
    + intros H; inversion H; subst; cbn. rewrite Mn, Mx. repeat split; reflexivity.
  - destruct (allowed_of_json dt l) as [a|] eqn:Al; [|discriminate]. cbn [option_map]. destruct et.
    + intros H; inversion H; subst; cbn. rewrite Mn, Mx, Al. repeat split; try reflexivity. eauto.
    + destruct (opt_conv (value_of_json dt) (n_default i)) as [df|] eqn:Df; [|discriminate].
      intros H; inversion H; subst; cbn. rewrite Mn, Mx, Al, Df. repeat split; try reflexivity; eauto.
    + intros H; inversion H; subst; cbn. rewrite Mn, Mx, Al. repeat split; try reflexivity. eauto.
Qed.

(* integers are taken over exactly and only inside the range of the declared type; a float takes
   part only in float / double declarations *)
Definition int_range (t : data_type) : option (Z -> bool) :=
  match t with
  | TInt8 => Some in_i8 | TInt16 => Some in_i16 | TInt32 => Some in_i32 | TInt64 => Some in_i64
  | TUint8 => Some in_u8 | TUint16 => Some in_u16 | TUint32 => Some in_u32 | TUint64 => Some in_u64
  | _ => None
  end.

Theorem integer_declaration_exact t rng j v :
  int_range t = Some rng -> scalar_of_json t j = Some v ->
  exists z, (j = JNum (JPos z) \/ j = JNum (JNeg z)) /\ rng z = true /\ unwrap_num v = Some z.
Proof.
  intros R H. destruct t; try discriminate R; inversion R; subst; cbn [scalar_of_json] in H;
    destruct j as [b|[z|z|bts]|s|l|]; try discriminate H; cbn [jint] in H;
    match goal with H : option_map _ (if ?c then _ else _) = _ |- _ => destruct c eqn:C; [|discriminate H] end;
    inversion H; subst; exists z; cbn; auto.
Qed.

Theorem float_declaration_finite j v : scalar_of_json TFloat j = Some v -> exists n b, j = JNum n /\ v = VF32 b /\ f32_finite b = true.
Proof.
  destruct j as [b|n|s|l|]; cbn; try discriminate. destruct (f32_finite (jf32 n)) eqn:F; [|discriminate].
  intros H; inversion H; subst. eauto.
Qed.

Theorem wrong_json_kind_rejected t :
  (forall s, scalar_of_json t (JStr s) <> None -> t = TString)
  /\ (forall b, scalar_of_json t (JBool b) <> None -> t = TBool)
  /\ (forall l, scalar_of_json t (JArr l) = None) /\ scalar_of_json t JObj = None.
Proof.
  repeat split; intros; destruct t; cbn in *; try reflexivity; try contradiction; exfalso; apply H; reflexivity.
Qed.

(* ---------- the default change type ---------- *)
Theorem default_change_type_documented et :
  default_change_type et = match et with Attribute => Static | _ => Continuous end.
Proof. reflexivity. Qed.

(* ---------- non-vacuity ---------- *)
Definition ex_leaf : ninfo :=
  {| n_type := Present NAttribute; n_desc := Present [100]; n_comment := None; n_dtype := Present TUint16;
     n_unit := Some [107; 103]; n_min := Some (JNum (JPos 0)); n_max := Some (JNum (JPos 65535));
     n_allowed := Absent; n_ctype := Absent; n_default := Some (JNum (JPos 1000)) |}.
Definition ex_branch (f : forest) : node :=
  Node {| n_type := Present NBranch; n_desc := Present [98]; n_comment := None; n_dtype := Absent; n_unit := None;
          n_min := None; n_max := None; n_allowed := Absent; n_ctype := Absent; n_default := None |} true f.
Definition ex_doc : forest := FCons [86] (ex_branch (FCons [77] (Node ex_leaf false FNil) FNil)) FNil.

Example ex_doc_loads :
  option_map (map (fun pe => (fst pe, de_default (snd pe), de_ctype (snd pe)))) (parse_vss ex_doc)
  = Some [([86; 46; 77], Some (VU32 1000), Static)].
Proof. vm_compute. reflexivity. Qed.

Example ex_doc_reaches : reach_root ex_doc [86; 46; 77] (Node ex_leaf false FNil).
Proof. apply root_here. apply reach_down; [reflexivity|]. apply reach_here. apply reach_self. Qed.

Example ex_out_of_range_rejected :
  parse_vss (FCons [86] (Node {| n_type := Present NSensor; n_desc := Present [100]; n_comment := None;
                                 n_dtype := Present TInt8; n_unit := None; n_min := Some (JNum (JPos 128));
                                 n_max := None; n_allowed := Absent; n_ctype := Absent; n_default := None |}
                              false FNil) FNil) = None.
Proof. vm_compute. reflexivity. Qed.

(* Proofs/Converge.v — subscribers converge to the stored value, and see one global order of
   changes, under every interleaving (C08). *)
From Coq Require Import List Arith Bool ZArith Lia PeanoNat.
Import ListNotations.
From KD Require Import Model.Conc Model.ConcSub.
Open Scope nat_scope.

(* ---------- list update ---------- *)
Lemma nth_set_nth_eq {A} (l : list A) i x y : nth_error l i = Some y -> nth_error (set_nth l i x) i = Some x.
Proof.
  revert i. induction l as [|a l IH]; intros [|i] H; simpl in *; try discriminate; auto.
Qed.

Lemma nth_set_nth_neq {A} (l : list A) i j x : i <> j -> nth_error (set_nth l i x) j = nth_error l j.
Proof.
  revert i j. induction l as [|a l IH]; intros [|i] [|j] N; simpl; try reflexivity; try congruence.
  apply IH. congruence.
Qed.

Lemma hupd_same h l v : hupd h l v l = v.
Proof. unfold hupd. rewrite Nat.eqb_refl. reflexivity. Qed.
Lemma hupd_other h l v k : k <> l -> hupd h l v k = h k.
Proof. unfold hupd. intros N. apply Nat.eqb_neq in N. rewrite N. reflexivity. Qed.

Lemma in_remove_tid' i j m hs : In (j, m) (remove_tid i hs) <-> j <> i /\ In (j, m) hs.
Proof.
  unfold remove_tid. rewrite filter_In. simpl. split; intros [A B]; split; auto.
  - apply negb_true_iff, Nat.eqb_neq in B. exact B.
  - apply negb_true_iff, Nat.eqb_neq. exact A.
Qed.

(* ---------- which tasks hold the database lock, as a function of kind and pc ---------- *)
Definition held_db (k : kind) (pc : nat) : option mode :=
  match k with
  | KPub _ => if (pc =? 1) || (pc =? 2) then Some W
              else if (3 <=? pc) && (pc <=? 6) then Some R else None
  | KSub => if (1 <=? pc) && (pc <=? 5) then Some R else None
  | KHk _ => None
  end.

Definition pending (ks : list kind) (c : cfg) : Prop :=
  exists i x pc, nth_error ks i = Some (KPub x) /\ nth_error (c_pcs c) i = Some pc /\ 2 <= pc <= 4.

Record Jinv (ks : list kind) (c : cfg) : Prop := {
  jH : forall i m, In (i, m) (c_hold c Db) <->
       exists k pc, nth_error ks i = Some k /\ nth_error (c_pcs c) i = Some pc /\ held_db k pc = Some m;
  jE : forall i, In (i, W) (c_hold c Db) -> c_hold c Db = [(i, W)];
  jU : forall i j xi xj pi pj,
       nth_error ks i = Some (KPub xi) -> nth_error ks j = Some (KPub xj) ->
       nth_error (c_pcs c) i = Some pi -> nth_error (c_pcs c) j = Some pj ->
       1 <= pi <= 6 -> 1 <= pj <= 6 -> i = j;
  jSnap : forall i pc lo, nth_error ks i = Some KSub -> nth_error (c_pcs c) i = Some pc -> 2 <= pc <= 3 ->
          nth_error (c_locals c) i = Some lo -> lo = Some (sh_v (c_shared c));
  jLast : forall s, In s (sh_subs (c_shared c)) -> s_alive s = true ->
          (exists front, s_sent s = front ++ [sh_v (c_shared c)]) \/ pending ks c;
  jTail : forall s, In s (sh_subs (c_shared c)) -> s_alive s = true ->
          exists x n, n <= length (sh_notified (c_shared c)) /\
                      s_sent s = x :: skipn n (sh_notified (c_shared c));
  jHist : (pending ks c /\ sh_hist (c_shared c) = sh_notified (c_shared c) ++ [sh_v (c_shared c)]) \/
          (~ pending ks c /\ sh_hist (c_shared c) = sh_notified (c_shared c))
}.

Lemma jinv_init ks v0 : Jinv ks (init_cfg ks v0).
Proof.
  assert (P0 : forall i pc, nth_error (c_pcs (init_cfg ks v0)) i = Some pc -> pc = 0).
  { intros i pc H. simpl in H. rewrite nth_error_map in H. destruct (nth_error ks i); inversion H; reflexivity. }
  constructor; simpl.
  - intros i m. split; [intros []|]. intros (k & pc & Hk & Hp & Hh). apply P0 in Hp. subst pc.
    destruct k; simpl in Hh; discriminate.
  - intros i [].
  - intros i j xi xj pi pj _ _ Hi _ Ri _. apply P0 in Hi. lia.
  - intros i pc lo _ Hp R. apply P0 in Hp. lia.
  - intros s [].
  - intros s [].
  - right. split; [|reflexivity]. intros (i & x & pc & _ & Hp & R). apply P0 in Hp. lia.
Qed.

(* ---------- preservation ---------- *)
Ltac get_instr Hi Hpc k Hk :=
  unfold instr_at in Hi; rewrite Hpc in Hi;
  match type of Hi with context [nth_error ?ks ?i] =>
    destruct (nth_error ks i) as [k|] eqn:Hk; [|discriminate Hi] end.

Lemma pcs_after (pcs : list nat) i pc npc j q :
  nth_error pcs i = Some pc -> nth_error (set_nth pcs i npc) j = Some q ->
  (j = i /\ q = npc) \/ (j <> i /\ nth_error pcs j = Some q).
Proof.
  intros Hi H. destruct (Nat.eq_dec i j) as [->|N].
  - rewrite (nth_set_nth_eq _ _ _ _ Hi) in H. inversion H. auto.
  - rewrite nth_set_nth_neq in H by exact N. right. auto.
Qed.

(* a step that moves task i from pc to S pc without changing who is `pending` *)
Lemma pending_transfer ks c c' i pc :
  nth_error (c_pcs c) i = Some pc -> c_pcs c' = set_nth (c_pcs c) i (S pc) ->
  (forall x, nth_error ks i = Some (KPub x) -> (2 <= pc <= 4 <-> 2 <= S pc <= 4)) ->
  (pending ks c <-> pending ks c').
Proof.
  intros Hi E Hr. unfold pending. rewrite E. split.
  - intros (j & x & q & Hk & Hq & R). destruct (Nat.eq_dec j i) as [->|N].
    + exists i, x, (S pc). rewrite (nth_set_nth_eq _ _ _ _ Hi). rewrite Hi in Hq. inversion Hq; subst.
      repeat split; auto; apply (Hr x Hk); exact R.
    + exists j, x, q. rewrite nth_set_nth_neq by congruence. auto.
  - intros (j & x & q & Hk & Hq & R). destruct (pcs_after _ _ _ _ _ _ Hi Hq) as [[-> ->]|[N Hq']].
    + exists i, x, pc. repeat split; auto; apply (Hr x Hk); exact R.
    + exists j, x, q. auto.
Qed.

Lemma drop_subs_in mask : forall l s, In s (drop_subs mask l) -> s_alive s = true -> In s l.
Proof.
  induction mask as [|b mask IH]; intros l s H A.
  - destruct l; exact H.
  - destruct l as [|a l]; [exact H|]. destruct b; simpl in H.
    + destruct H as [<-|H]; [simpl in A; discriminate|]. right. apply IH; assumption.
    + destruct H as [<-|H]; [left; reflexivity|]. right. apply IH; assumption.
Qed.

Lemma skipn_app_le {A} n (l : list A) x : n <= length l -> skipn n (l ++ [x]) = skipn n l ++ [x].
Proof.
  revert n. induction l as [|a l IH]; intros n H; simpl in *.
  - assert (n = 0) by lia. subst. reflexivity.
  - destruct n; [reflexivity|]. simpl. apply IH. lia.
Qed.

(* how holding the database lock changes along each program *)
Lemma held_step k pc ins :
  nth_error (prog_of k) pc = Some ins ->
  match ins with
  | Acq l m => if Nat.eqb l Db then held_db k pc = None /\ held_db k (S pc) = Some m
               else held_db k (S pc) = held_db k pc
  | Down l => l = Db /\ held_db k pc = Some W /\ held_db k (S pc) = Some R
  | Rel l => if Nat.eqb l Db then held_db k pc <> None /\ held_db k (S pc) = None
             else held_db k (S pc) = held_db k pc
  | Act => held_db k (S pc) = held_db k pc
  end.
Proof.
  destruct k as [x| |mask];
    (destruct pc as [|[|[|[|[|[|[|pc]]]]]]]; simpl; intros H; try discriminate H;
     try (destruct pc; discriminate H); inversion H; subst; simpl; repeat split; auto; discriminate).
Qed.

Lemma step_hold ks c c' :
  Jinv ks c -> cstep ks c c' ->
  (forall i m, In (i, m) (c_hold c' Db) <->
     exists k pc, nth_error ks i = Some k /\ nth_error (c_pcs c') i = Some pc /\ held_db k pc = Some m)
  /\ (forall i, In (i, W) (c_hold c' Db) -> c_hold c' Db = [(i, W)]).
Proof.
  intros J St. pose proof (jH _ _ J) as H. pose proof (jE _ _ J) as E.
  (* what the stepping task does *)
  assert (D : exists i pc k ins, nth_error (c_pcs c) i = Some pc /\ nth_error ks i = Some k /\
                nth_error (prog_of k) pc = Some ins /\ c_pcs c' = set_nth (c_pcs c) i (S pc) /\
                c_hold c' Db = match ins with
                               | Acq l m => if Nat.eqb l Db then (i, m) :: c_hold c Db else c_hold c Db
                               | Down l => (i, R) :: remove_tid i (c_hold c Db)
                               | Rel l => if Nat.eqb l Db then remove_tid i (c_hold c Db) else c_hold c Db
                               | Act => c_hold c Db
                               end /\
                match ins with Acq l m => Nat.eqb l Db = true -> compatible m (c_hold c Db) = true | _ => True end).
  { destruct St as [c i pc l m Hp Hi Hc | c i pc l Hp Hi | c i pc l Hp Hi | c i pc k lo sh' lo' Hp Hi Hk Hl Ha];
      [get_instr Hi Hp k Hk | get_instr Hi Hp k Hk | get_instr Hi Hp k Hk | ];
      exists i, pc, k; eexists; (split; [exact Hp|]); (split; [exact Hk|]);
      (split; [first [exact Hi | unfold instr_at in Hi; rewrite Hp, Hk in Hi; exact Hi]|]); simpl; (split; [reflexivity|]).
    - destruct (Nat.eq_dec l Db) as [->|Nl].
      + rewrite hupd_same, Nat.eqb_refl. split; [reflexivity|auto].
      + rewrite hupd_other by congruence. apply Nat.eqb_neq in Nl. rewrite Nl. split; [reflexivity|discriminate].
    - destruct (held_step _ _ _ Hi) as (-> & _). rewrite hupd_same. auto.
    - destruct (Nat.eq_dec l Db) as [->|Nl].
      + rewrite hupd_same, Nat.eqb_refl. auto.
      + rewrite hupd_other by congruence. apply Nat.eqb_neq in Nl. rewrite Nl. auto.
    - auto. }
  destruct D as (i & pc & k & ins & Hp & Hk & Hins & Epcs & Ehold & Hcomp).
  pose proof (held_step _ _ _ Hins) as HS.
  assert (Other : forall j, j <> i -> forall m,
            (exists k' q, nth_error ks j = Some k' /\ nth_error (c_pcs c') j = Some q /\ held_db k' q = Some m) <->
            In (j, m) (c_hold c Db)).
  { intros j N m. rewrite H. rewrite Epcs. split; intros (k' & q & A & B & Cc); exists k', q;
      [rewrite nth_set_nth_neq in B by congruence | rewrite nth_set_nth_neq by congruence]; auto. }
  assert (Self : forall m, (exists k' q, nth_error ks i = Some k' /\ nth_error (c_pcs c') i = Some q /\ held_db k' q = Some m) <->
                           held_db k (S pc) = Some m).
  { intros m. rewrite Epcs. rewrite (nth_set_nth_eq _ _ _ _ Hp). split.
    - intros (k' & q & A & B & Cc). rewrite Hk in A. inversion A; inversion B; subst. exact Cc.
    - intros Hh. exists k, (S pc). auto. }
  assert (SelfBefore : forall m, In (i, m) (c_hold c Db) <-> held_db k pc = Some m).
  { intros m. rewrite H. split.
    - intros (k' & q & A & B & Cc). rewrite Hk in A. rewrite Hp in B. inversion A; inversion B; subst. exact Cc.
    - intros Hh. exists k, pc. auto. }
  rewrite Ehold. destruct ins as [l m|l|l|].
  - destruct (Nat.eqb l Db) eqn:El.
    + destruct HS as [Hb Ha]. specialize (Hcomp eq_refl). split.
      * intros j mj. destruct (Nat.eq_dec j i) as [->|N].
        -- rewrite Self, Ha. split.
           ++ intros [Eq|Hin]; [inversion Eq; reflexivity|]. apply SelfBefore in Hin. congruence.
           ++ intros Eq. inversion Eq. left. reflexivity.
        -- rewrite (Other j N mj). split; [intros [Eq|Hin]; [inversion Eq; congruence|exact Hin]|intros Hin; right; exact Hin].
      * intros j [Eq|Hin].
        -- inversion Eq; subst. destruct (c_hold c Db); [reflexivity|discriminate Hcomp].
        -- exfalso. destruct m; [|destruct (c_hold c Db); [destruct Hin|discriminate Hcomp]].
           simpl in Hcomp. rewrite forallb_forall in Hcomp. specialize (Hcomp _ Hin). discriminate.
    + split.
      * intros j mj. destruct (Nat.eq_dec j i) as [->|N]; [rewrite Self, HS; apply SelfBefore|symmetry; apply Other; exact N].
      * exact E.
  - destruct HS as (_ & Hb & Ha). apply SelfBefore in Hb. pose proof (E i Hb) as Eh. rewrite Eh. simpl.
    rewrite Nat.eqb_refl. simpl. split.
    + intros j mj. destruct (Nat.eq_dec j i) as [->|N].
      * rewrite Self, Ha. split; [intros [Eq|[]]; inversion Eq; reflexivity|intros Eq; inversion Eq; left; reflexivity].
      * rewrite (Other j N mj), Eh. simpl. split; [intros [Eq|[]]; inversion Eq; congruence|intros [Eq|[]]; inversion Eq; congruence].
    + intros j [Eq|[]]. inversion Eq.
  - destruct (Nat.eqb l Db) eqn:El.
    + destruct HS as [Hb Ha]. split.
      * intros j mj. rewrite in_remove_tid'. destruct (Nat.eq_dec j i) as [->|N].
        -- rewrite Self, Ha. split; [intros [X _]; congruence|discriminate].
        -- rewrite (Other j N mj). tauto.
      * intros j Hin. apply in_remove_tid' in Hin. destruct Hin as [N Hin]. pose proof (E j Hin) as Eh.
        rewrite Eh. simpl. destruct (Nat.eqb j i) eqn:Eji; [apply Nat.eqb_eq in Eji; congruence|reflexivity].
    + split.
      * intros j mj. destruct (Nat.eq_dec j i) as [->|N]; [rewrite Self, HS; apply SelfBefore|symmetry; apply Other; exact N].
      * exact E.
  - split.
    + intros j mj. destruct (Nat.eq_dec j i) as [->|N]; [rewrite Self, HS; apply SelfBefore|symmetry; apply Other; exact N].
    + exact E.
Qed.

(* what one step does, uniformly *)
Lemma step_shape ks c c' :
  cstep ks c c' ->
  exists i pc k ins,
    nth_error (c_pcs c) i = Some pc /\ nth_error ks i = Some k /\
    nth_error (prog_of k) pc = Some ins /\ c_pcs c' = set_nth (c_pcs c) i (S pc) /\
    (match ins with Acq l m => Nat.eqb l Db = true -> compatible m (c_hold c Db) = true | _ => True end) /\
    (match ins with
     | Act => exists lo, nth_error (c_locals c) i = Some lo /\
                         c_shared c' = fst (act_sem k pc (c_shared c) lo) /\
                         c_locals c' = set_nth (c_locals c) i (snd (act_sem k pc (c_shared c) lo))
     | _ => c_shared c' = c_shared c /\ c_locals c' = c_locals c
     end).
Proof.
  intros St.
  destruct St as [c i pc l m Hp Hi Hc | c i pc l Hp Hi | c i pc l Hp Hi | c i pc k lo sh' lo' Hp Hi Hk Hl Ha];
    [get_instr Hi Hp k Hk | get_instr Hi Hp k Hk | get_instr Hi Hp k Hk | ];
    exists i, pc, k; eexists; (split; [exact Hp|]); (split; [exact Hk|]);
    (split; [first [exact Hi | unfold instr_at in Hi; rewrite Hp, Hk in Hi; exact Hi]|]); simpl; (split; [reflexivity|]).
  - split; [|auto]. intros El. apply Nat.eqb_eq in El. subst l. exact Hc.
  - auto.
  - auto.
  - split; [exact I|]. exists lo. rewrite Ha. auto.
Qed.

Lemma in_range_holds ks c j x pj :
  Jinv ks c -> nth_error ks j = Some (KPub x) -> nth_error (c_pcs c) j = Some pj -> 1 <= pj <= 6 ->
  exists m, In (j, m) (c_hold c Db).
Proof.
  intros J Hk Hp R.
  assert (exists m, held_db (KPub x) pj = Some m) as [m Hm].
  { destruct pj as [|[|[|[|[|[|[|pj]]]]]]]; simpl; eauto; lia. }
  exists m. apply (jH _ _ J). exists (KPub x), pj. auto.
Qed.

Lemma step_unique ks c c' :
  Jinv ks c -> cstep ks c c' ->
  forall a b xa xb pa pb,
    nth_error ks a = Some (KPub xa) -> nth_error ks b = Some (KPub xb) ->
    nth_error (c_pcs c') a = Some pa -> nth_error (c_pcs c') b = Some pb ->
    1 <= pa <= 6 -> 1 <= pb <= 6 -> a = b.
Proof.
  intros J St a b xa xb pa pb Ka Kb Pa Pb Ra Rb.
  destruct (step_shape _ _ _ St) as (i & pc & k & ins & Hp & Hk & Hins & Epcs & Hcomp & _).
  rewrite Epcs in Pa, Pb.
  (* if the stepping task entered the range, it was granted the database write lock on an empty
     holder list, so nobody else was in the range *)
  assert (Enter : forall o xo po, o <> i -> nth_error ks o = Some (KPub xo) -> nth_error (c_pcs c) o = Some po ->
            1 <= po <= 6 -> pc = 0 -> nth_error ks i = Some k -> (exists xi, k = KPub xi) -> False).
  { intros o xo po No Ko Po Ro Z _ (xi & ->). subst pc. simpl in Hins. inversion Hins; subst ins.
    specialize (Hcomp eq_refl). destruct (in_range_holds _ _ _ _ _ J Ko Po Ro) as (m & Hin).
    destruct (c_hold c Db); [destruct Hin|discriminate Hcomp]. }
  destruct (pcs_after _ _ _ _ _ _ Hp Pa) as [[-> ->]|[Na Pa']];
  destruct (pcs_after _ _ _ _ _ _ Hp Pb) as [[-> ->]|[Nb Pb']]; try reflexivity.
  - rewrite Hk in Ka. inversion Ka; subst k. destruct (Nat.eq_dec pc 0) as [Z|NZ].
    + exfalso. eapply (Enter b xb pb); eauto.
    + symmetry. eapply (jU _ _ J b i xb xa pb pc); eauto; lia.
  - rewrite Hk in Kb. inversion Kb; subst k. destruct (Nat.eq_dec pc 0) as [Z|NZ].
    + exfalso. eapply (Enter a xa pa); eauto.
    + eapply (jU _ _ J a i xa xb pa pc); eauto; lia.
  - eapply (jU _ _ J a b); eauto.
Qed.

Lemma nonact_pending x pc ins :
  nth_error (prog_of (KPub x)) pc = Some ins -> ins <> Act -> (2 <= pc <= 4 <-> 2 <= S pc <= 4).
Proof.
  destruct pc as [|[|[|[|[|[|[|pc]]]]]]]; simpl; intros H N; try discriminate H;
    try (destruct pc; discriminate H); inversion H; subst; try congruence; lia.
Qed.

Lemma writer_alone ks c i x :
  Jinv ks c -> nth_error ks i = Some (KPub x) -> nth_error (c_pcs c) i = Some 1 ->
  forall j kj pj m, nth_error ks j = Some kj -> nth_error (c_pcs c) j = Some pj ->
                    held_db kj pj = Some m -> j = i.
Proof.
  intros J Hk Hp j kj pj m Kj Pj Hh.
  assert (Hi : In (i, W) (c_hold c Db)) by (apply (jH _ _ J); exists (KPub x), 1; auto).
  pose proof (jE _ _ J i Hi) as Eh.
  assert (Hj : In (j, m) (c_hold c Db)) by (apply (jH _ _ J); exists kj, pj; auto).
  rewrite Eh in Hj. destruct Hj as [Eq|[]]. inversion Eq. reflexivity.
Qed.

Lemma act_positions k pc :
  nth_error (prog_of k) pc = Some Act ->
  match k with KPub _ => pc = 1 \/ pc = 4 | KSub => pc = 1 \/ pc = 3 | KHk _ => pc = 1 end.
Proof.
  destruct k as [x| |mask];
    (destruct pc as [|[|[|[|[|[|[|pc]]]]]]]; simpl; intros H; try discriminate H;
     try (destruct pc; discriminate H); auto).
Qed.

Lemma step_values ks c c' :
  Jinv ks c -> cstep ks c c' ->
  (forall i pc lo, nth_error ks i = Some KSub -> nth_error (c_pcs c') i = Some pc -> 2 <= pc <= 3 ->
                   nth_error (c_locals c') i = Some lo -> lo = Some (sh_v (c_shared c'))) /\
  (forall s, In s (sh_subs (c_shared c')) -> s_alive s = true ->
             (exists front, s_sent s = front ++ [sh_v (c_shared c')]) \/ pending ks c') /\
  (forall s, In s (sh_subs (c_shared c')) -> s_alive s = true ->
             exists x n, n <= length (sh_notified (c_shared c')) /\
                         s_sent s = x :: skipn n (sh_notified (c_shared c'))) /\
  ((pending ks c' /\ sh_hist (c_shared c') = sh_notified (c_shared c') ++ [sh_v (c_shared c')]) \/
   (~ pending ks c' /\ sh_hist (c_shared c') = sh_notified (c_shared c'))).
Proof.
  intros J St.
  destruct (step_shape _ _ _ St) as (i & pc & k & ins & Hp & Hk & Hins & Epcs & _ & Eff).
  destruct (match ins with Act => true | _ => false end) eqn:IsAct.
  2:{ (* a lock step: shared state and locals unchanged *)
    assert (Eff' : c_shared c' = c_shared c /\ c_locals c' = c_locals c) by (destruct ins; try discriminate; exact Eff).
    destruct Eff' as [Es El].
    assert (NA : ins <> Act) by (intros ->; discriminate).
    assert (PT : pending ks c <-> pending ks c').
    { eapply pending_transfer; eauto. intros x Kx. rewrite Hk in Kx. inversion Kx; subst k.
      eapply nonact_pending; eauto. }
    rewrite Es, El. repeat split.
    - intros j q lo Kj Pj Rj Lj. rewrite Epcs in Pj. destruct (pcs_after _ _ _ _ _ _ Hp Pj) as [[-> ->]|[N Pj']].
      + rewrite Hk in Kj. inversion Kj; subst k.
        assert (pc = 2).
        { destruct pc as [|[|[|[|[|[|pc]]]]]]; simpl in Hins; try lia; inversion Hins; subst; congruence. }
        subst pc. eapply (jSnap _ _ J i 2); eauto; lia.
      + eapply (jSnap _ _ J j q); eauto.
    - intros s Hs A. destruct (jLast _ _ J s Hs A) as [L|P]; [left; exact L|right; apply PT; exact P].
    - apply (jTail _ _ J).
    - destruct (jHist _ _ J) as [[P Eh]|[NP Eh]]; [left; split; [apply PT; exact P|exact Eh]|
                                                    right; split; [intros P; apply NP; apply PT; exact P|exact Eh]]. }
  destruct ins; try discriminate. clear IsAct.
  destruct Eff as (lo & Hlo & Es & El).
  destruct k as [x| |mask].
  - (* publisher *)
    destruct (act_positions _ _ Hins) as [-> | ->].
    + (* apply *)
      simpl in Es, El.
      assert (Alone := writer_alone ks c i x J Hk Hp).
      assert (NP : ~ pending ks c).
      { intros (j & xj & pj & Kj & Pj & Rj).
        assert (j = i).
        { assert (exists m, held_db (KPub xj) pj = Some m) as [m Hm]
            by (destruct pj as [|[|[|[|[|pj]]]]]; simpl; eauto; lia).
          eapply (Alone j (KPub xj) pj m); eauto. }
        subst j. rewrite Hp in Pj. inversion Pj. lia. }
      assert (P' : pending ks c').
      { exists i, x, 2. rewrite Epcs, (nth_set_nth_eq _ _ _ _ Hp). repeat split; auto; lia. }
      rewrite Es. simpl. repeat split.
      * intros j q lo' Kj Pj Rj Lj. exfalso. rewrite Epcs in Pj.
        destruct (pcs_after _ _ _ _ _ _ Hp Pj) as [[-> ->]|[N Pj']]; [congruence|].
        apply N. eapply (Alone j KSub q R); eauto.
        destruct q as [|[|[|[|q]]]]; simpl; try lia; reflexivity.
      * intros s Hs A. right. exact P'.
      * apply (jTail _ _ J).
      * left. split; [exact P'|]. destruct (jHist _ _ J) as [[P _]|[_ Eh]]; [contradiction|]. rewrite Eh. reflexivity.
    + (* notify *)
      simpl in Es, El.
      assert (Pc : pending ks c) by (exists i, x, 4; repeat split; auto; lia).
      assert (NP' : ~ pending ks c').
      { intros (j & xj & pj & Kj & Pj & Rj). rewrite Epcs in Pj.
        destruct (pcs_after _ _ _ _ _ _ Hp Pj) as [[-> ->]|[N Pj']]; [lia|].
        apply N. eapply (jU _ _ J j i xj x pj 4); eauto; lia. }
      rewrite Es. simpl. repeat split.
      * intros j q lo' Kj Pj Rj Lj. rewrite Epcs in Pj. rewrite El in Lj.
        destruct (pcs_after _ _ _ _ _ _ Hp Pj) as [[-> ->]|[N Pj']]; [congruence|].
        rewrite nth_set_nth_neq in Lj by congruence. eapply (jSnap _ _ J j q); eauto.
      * intros s Hs A. left. apply in_map_iff in Hs. destruct Hs as (s0 & <- & Hs0).
        unfold send in *. destruct (s_alive s0) eqn:A0; [|congruence]. simpl. eexists. reflexivity.
      * intros s Hs A. apply in_map_iff in Hs. destruct Hs as (s0 & <- & Hs0).
        unfold send in *. destruct (s_alive s0) eqn:A0; [|congruence]. simpl.
        destruct (jTail _ _ J s0 Hs0 A0) as (y & n & Ln & Et). exists y, n. split.
        -- rewrite app_length. simpl. lia.
        -- rewrite Et. simpl. rewrite skipn_app_le by exact Ln. reflexivity.
      * right. split; [exact NP'|]. destruct (jHist _ _ J) as [[_ Eh]|[NP _]]; [exact Eh|contradiction].
  - (* subscriber *)
    destruct (act_positions _ _ Hins) as [-> | ->].
    + (* snapshot *)
      simpl in Es, El.
      assert (PT : pending ks c <-> pending ks c').
      { eapply pending_transfer; eauto. intros x Kx. congruence. }
      rewrite Es. repeat split.
      * intros j q lo' Kj Pj Rj Lj. rewrite Epcs in Pj. rewrite El in Lj.
        destruct (pcs_after _ _ _ _ _ _ Hp Pj) as [[-> ->]|[N Pj']].
        -- rewrite (nth_set_nth_eq _ _ _ _ Hlo) in Lj. inversion Lj. reflexivity.
        -- rewrite nth_set_nth_neq in Lj by congruence. eapply (jSnap _ _ J j q); eauto.
      * intros s Hs A. destruct (jLast _ _ J s Hs A) as [L|P]; [left; exact L|right; apply PT; exact P].
      * apply (jTail _ _ J).
      * destruct (jHist _ _ J) as [[P Eh]|[NP Eh]]; [left; split; [apply PT; exact P|exact Eh]|
                                                      right; split; [intros P; apply NP; apply PT; exact P|exact Eh]].
    + (* register *)
      simpl in Es, El.
      assert (Snap : lo = Some (sh_v (c_shared c))) by (eapply (jSnap _ _ J i 3); eauto; lia).
      subst lo.
      assert (PT : pending ks c <-> pending ks c').
      { eapply pending_transfer; eauto. intros x Kx. congruence. }
      rewrite Es. simpl. repeat split.
      * intros j q lo' Kj Pj Rj Lj. rewrite Epcs in Pj. rewrite El in Lj.
        destruct (pcs_after _ _ _ _ _ _ Hp Pj) as [[-> ->]|[N Pj']]; [lia|].
        rewrite nth_set_nth_neq in Lj by congruence. eapply (jSnap _ _ J j q); eauto.
      * intros s Hs A. apply in_app_iff in Hs. destruct Hs as [Hs|[<-|[]]].
        -- destruct (jLast _ _ J s Hs A) as [L|P]; [left; exact L|right; apply PT; exact P].
        -- left. exists []. reflexivity.
      * intros s Hs A. apply in_app_iff in Hs. destruct Hs as [Hs|[<-|[]]].
        -- apply (jTail _ _ J s Hs A).
        -- exists (sh_v (c_shared c)), (length (sh_notified (c_shared c))). split; [lia|].
           simpl. rewrite skipn_all. reflexivity.
      * destruct (jHist _ _ J) as [[P Eh]|[NP Eh]]; [left; split; [apply PT; exact P|exact Eh]|
                                                      right; split; [intros P; apply NP; apply PT; exact P|exact Eh]].
  - (* housekeeping *)
    pose proof (act_positions _ _ Hins) as Epc. simpl in Epc. subst pc.
    simpl in Es, El.
    assert (PT : pending ks c <-> pending ks c').
    { eapply pending_transfer; eauto. intros x Kx. congruence. }
    rewrite Es. simpl. repeat split.
    * intros j q lo' Kj Pj Rj Lj. rewrite Epcs in Pj. rewrite El in Lj.
      destruct (pcs_after _ _ _ _ _ _ Hp Pj) as [[-> ->]|[N Pj']]; [congruence|].
      rewrite nth_set_nth_neq in Lj by congruence. eapply (jSnap _ _ J j q); eauto.
    * intros s Hs A. apply drop_subs_in in Hs; [|exact A].
      destruct (jLast _ _ J s Hs A) as [L|P]; [left; exact L|right; apply PT; exact P].
    * intros s Hs A. apply drop_subs_in in Hs; [|exact A]. apply (jTail _ _ J s Hs A).
    * destruct (jHist _ _ J) as [[P Eh]|[NP Eh]]; [left; split; [apply PT; exact P|exact Eh]|
                                                    right; split; [intros P; apply NP; apply PT; exact P|exact Eh]].
Qed.

Lemma jinv_step ks c c' : Jinv ks c -> cstep ks c c' -> Jinv ks c'.
Proof.
  intros J St. destruct (step_hold _ _ _ J St) as [H E].
  destruct (step_values _ _ _ J St) as (S & L & T & Hi).
  constructor; auto. apply (step_unique _ _ _ J St).
Qed.

Theorem reach_jinv ks v0 c : creach ks v0 c -> Jinv ks c.
Proof. induction 1; [apply jinv_init|eapply jinv_step; eauto]. Qed.

Lemma finished_not_pending ks c : all_finished ks c -> ~ pending ks c.
Proof.
  intros F (i & x & pc & Hk & Hp & R). specialize (F i (KPub x) pc Hk Hp). simpl in F. lia.
Qed.

(* once every call has returned, the last value each live subscriber was sent is the stored value *)
Theorem converge ks v0 c :
  creach ks v0 c -> all_finished ks c ->
  forall s, In s (sh_subs (c_shared c)) -> s_alive s = true ->
            exists front, s_sent s = front ++ [sh_v (c_shared c)].
Proof.
  intros R F s Hs A. pose proof (reach_jinv _ _ _ R) as J.
  destruct (jLast _ _ J s Hs A) as [L|P]; [exact L|]. exfalso. eapply finished_not_pending; eauto.
Qed.

(* at every moment, what any live subscriber has been sent after its snapshot is a suffix of ONE
   global sequence of notifications; once idle, that sequence is the commit order of the store *)
Theorem same_order ks v0 c :
  creach ks v0 c ->
  (forall s, In s (sh_subs (c_shared c)) -> s_alive s = true ->
             exists x n, n <= length (sh_notified (c_shared c)) /\
                         s_sent s = x :: skipn n (sh_notified (c_shared c))) /\
  (all_finished ks c -> sh_notified (c_shared c) = sh_hist (c_shared c)).
Proof.
  intros R. pose proof (reach_jinv _ _ _ R) as J. split; [apply (jTail _ _ J)|].
  intros F. destruct (jHist _ _ J) as [[P _]|[_ Eh]]; [exfalso; eapply finished_not_pending; eauto|].
  symmetry. exact Eh.
Qed.

(* while a publisher is between applying and notifying, nobody else can apply: commit order and
   notification order coincide *)
Theorem hist_is_notified_plus_pending ks v0 c :
  creach ks v0 c ->
  (pending ks c /\ sh_hist (c_shared c) = sh_notified (c_shared c) ++ [sh_v (c_shared c)]) \/
  (~ pending ks c /\ sh_hist (c_shared c) = sh_notified (c_shared c)).
Proof. intros R. apply (jHist _ _ (reach_jinv _ _ _ R)). Qed.

(* ---------- an executable scheduler for the model, sound w.r.t. cstep ---------- *)
Definition exec_step (ks : list kind) (c : cfg) (i : nat) : option cfg :=
  match nth_error (c_pcs c) i, nth_error ks i with
  | Some pc, Some k =>
    match nth_error (prog_of k) pc with
    | Some (Acq l m) =>
        if compatible m (c_hold c l)
        then Some {| c_pcs := set_nth (c_pcs c) i (S pc); c_hold := hupd (c_hold c) l ((i, m) :: c_hold c l);
                     c_shared := c_shared c; c_locals := c_locals c |}
        else None
    | Some (Down l) =>
        Some {| c_pcs := set_nth (c_pcs c) i (S pc);
                c_hold := hupd (c_hold c) l ((i, R) :: remove_tid i (c_hold c l));
                c_shared := c_shared c; c_locals := c_locals c |}
    | Some (Rel l) =>
        Some {| c_pcs := set_nth (c_pcs c) i (S pc); c_hold := hupd (c_hold c) l (remove_tid i (c_hold c l));
                c_shared := c_shared c; c_locals := c_locals c |}
    | Some Act =>
        match nth_error (c_locals c) i with
        | Some lo => Some {| c_pcs := set_nth (c_pcs c) i (S pc); c_hold := c_hold c;
                             c_shared := fst (act_sem k pc (c_shared c) lo);
                             c_locals := set_nth (c_locals c) i (snd (act_sem k pc (c_shared c) lo)) |}
        | None => None
        end
    | None => None
    end
  | _, _ => None
  end.

Lemma exec_step_sound ks c i c' : exec_step ks c i = Some c' -> cstep ks c c'.
Proof.
  unfold exec_step. destruct (nth_error (c_pcs c) i) as [pc|] eqn:Hp; [|discriminate].
  destruct (nth_error ks i) as [k|] eqn:Hk; [|discriminate].
  destruct (nth_error (prog_of k) pc) as [[l m|l|l|]|] eqn:Hi; try discriminate.
  - destruct (compatible m (c_hold c l)) eqn:Hc; [|discriminate]. intros H. inversion H; subst.
    eapply cs_acq; eauto. unfold instr_at. rewrite Hk, Hp. exact Hi.
  - intros H. inversion H; subst. eapply cs_down; eauto. unfold instr_at. rewrite Hk, Hp. exact Hi.
  - intros H. inversion H; subst. eapply cs_rel; eauto. unfold instr_at. rewrite Hk, Hp. exact Hi.
  - destruct (nth_error (c_locals c) i) as [lo|] eqn:Hl; [|discriminate]. intros H. inversion H; subst.
    eapply (cs_act ks c i pc k lo); eauto.
    + unfold instr_at. rewrite Hk, Hp. exact Hi.
    + destruct (act_sem k pc (c_shared c) lo); reflexivity.
Qed.

Fixpoint exec_sched (ks : list kind) (c : cfg) (sched : list nat) : option cfg :=
  match sched with
  | [] => Some c
  | i :: r => match exec_step ks c i with Some c' => exec_sched ks c' r | None => None end
  end.

Lemma exec_sched_reach ks v0 sched : forall c c',
  creach ks v0 c -> exec_sched ks c sched = Some c' -> creach ks v0 c'.
Proof.
  induction sched as [|i r IH]; intros c c' R H; simpl in H.
  - inversion H; subst. exact R.
  - destruct (exec_step ks c i) as [c1|] eqn:E; [|discriminate].
    eapply IH; [|exact H]. eapply crs; [exact R|]. eapply exec_step_sound; eauto.
Qed.

(* the observable summary of a configuration *)
Definition summary (c : cfg) : list nat * Z * list (list Z * bool) * list Z * list Z :=
  (c_pcs c, sh_v (c_shared c), map (fun s => (s_sent s, s_alive s)) (sh_subs (c_shared c)),
   sh_hist (c_shared c), sh_notified (c_shared c)).

(* non-vacuity: a subscriber and two publishers interleaved run to completion and converge *)
Definition demo_ks : list kind := [KSub; KPub 7%Z; KPub 9%Z].
Definition demo_sched : list nat := [1; 1; 1; 0; 0; 1; 1; 1; 0; 0; 0; 0; 1; 2; 2; 2; 2; 2; 2; 2].

Lemma demo_run :
  option_map summary (exec_sched demo_ks (init_cfg demo_ks 0%Z) demo_sched)
  = Some ([6; 7; 7], 9%Z, [([7%Z; 9%Z], true)], [7%Z; 9%Z], [7%Z; 9%Z]).
Proof. vm_compute. reflexivity. Qed.

Example converge_nonvacuous :
  exists c, creach demo_ks 0%Z c /\
            summary c = ([6; 7; 7], 9%Z, [([7%Z; 9%Z], true)], [7%Z; 9%Z], [7%Z; 9%Z]).
Proof.
  pose proof demo_run as H.
  destruct (exec_sched demo_ks (init_cfg demo_ks 0%Z) demo_sched) as [c|] eqn:E; [|discriminate H].
  exists c. split; [eapply exec_sched_reach; [apply cr0|exact E]|].
  simpl in H. unfold summary. injection H as H0 H1 H2 H3 H4. rewrite H0, H1, H2, H3, H4. reflexivity.
Qed.

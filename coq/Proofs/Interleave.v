(* Proofs/Interleave.v — invariants under every interleaving of atomic critical sections.
   A task is a list of atomic actions on the shared state; between two lock operations a broker
   operation touches only data protected by the locks it holds (Rust's guards enforce it), and
   a write section is exclusive (Proofs/Conc.v, mutual_exclusion), so a critical section that
   does its reading and its writing under ONE write guard is one atomic action. *)
From Coq Require Import List Arith ZArith Bool Lia.
Import ListNotations.
From KD Require Import Model.Values Model.Validate Model.Perm Model.Glob Model.Broker Model.BrokerRun
     Proofs.Broker.

Section Interleave.
Variable S : Type.
Variable P : S -> Prop.

Definition itask := list (S -> S).

Fixpoint set_nth (ts : list itask) (i : nat) (t : itask) : list itask :=
  match ts, i with
  | [], _ => []
  | _ :: r, O => t :: r
  | x :: r, Datatypes.S j => x :: set_nth r j t
  end.

(* any task that still has actions may run its next one *)
Inductive istep : list itask * S -> list itask * S -> Prop :=
| is_run ts s i a rest : nth_error ts i = Some (a :: rest) -> istep (ts, s) (set_nth ts i rest, a s).

Inductive ireach (c0 : list itask * S) : list itask * S -> Prop :=
| ir0 : ireach c0 c0
| irs c c' : ireach c0 c -> istep c c' -> ireach c0 c'.

Definition all_preserve (ts : list itask) : Prop :=
  forall t a, In t ts -> In a t -> forall s, P s -> P (a s).

Lemma set_nth_in ts i t' t : In t (set_nth ts i t') -> t = t' \/ In t ts.
Proof.
  revert i. induction ts as [|x ts IH]; intros i H; simpl in H; [contradiction|].
  destruct i; simpl in H.
  - destruct H as [<-|H]; [left; reflexivity|right; right; exact H].
  - destruct H as [<-|H]; [right; left; reflexivity|]. destruct (IH _ H); auto. right. right. assumption.
Qed.

Theorem interleaving_invariant ts0 s0 ts s :
  all_preserve ts0 -> P s0 -> ireach (ts0, s0) (ts, s) -> P s /\ all_preserve ts.
Proof.
  intros A0 P0 R. remember (ts0, s0) as c0. remember (ts, s) as c. revert ts s Heqc.
  induction R as [|c1 c2 R IH St]; intros ts s Heqc.
  - subst. inversion Heqc; subst. auto.
  - destruct c1 as [ts1 s1]. destruct (IH ts1 s1 eq_refl) as [P1 A1].
    inversion St as [ts' s' i a rest Hn E1 E2]. subst c2. inversion E1; subst ts' s'. inversion E2; subst ts s.
    split.
    + apply (A1 (a :: rest) a); [eapply nth_error_In; eauto|left; reflexivity|exact P1].
    + intros t b Ht Hb x Px. apply set_nth_in in Ht. destruct Ht as [->|Ht].
      * apply (A1 (a :: rest) b); [eapply nth_error_In; eauto|right; exact Hb|exact Px].
      * apply (A1 t b Ht Hb x Px).
Qed.
End Interleave.

(* ---------- C10: every interleaving of claims, actuations, housekeeping, shutdown ---------- *)
(* the write section of provide_actuation: scan and push under one subscriptions.write() *)
Definition scan_and_push (p : perms) (ids : list Z) (st : state) : state :=
  let owned := flat_map (fun a => if as_registered a then as_ids a else []) (st_asubs st) in
  if existsb (fun x => mem_z x owned) ids then st
  else set_asubs st (st_asubs st ++ [{| as_handle := Z.of_nat (length (st_asubs st)); as_ids := ids;
                                         as_perms := p; as_available := true; as_registered := true;
                                         as_inbox := [] |}]).

Inductive conc_action :=
| CClaim (p : perms) (ids : list Z)          (* provide_actuation *)
| CActuate (p : perms) (id : Z) (v : value)
| CBatch (p : perms) (cs : list (Z * value))
| CProviderGone (h : Z)
| CHousekeeping
| CShutdown.

(* the critical sections of each operation, in program order (read-only checks are the identity
   on the shared state and are omitted) *)
Definition sections (a : conc_action) : list (state -> state) :=
  match a with
  | CClaim p ids => [scan_and_push p ids]
  | CActuate p id v => [fun st => fst (actuate st p id v)]
  | CBatch p cs => [fun st => fst (batch_actuate st p cs)]
  | CProviderGone h => [fun st => set_asubs st (map (fun a => if as_handle a =? h then down_asub a else a) (st_asubs st))]
  | CHousekeeping => [fun st => cleanup (st_now st) st]
  | CShutdown => [shutdown]
  end.

Lemma scan_and_push_keeps p ids st :
  claims_disjoint (st_asubs st) -> claims_disjoint (st_asubs (scan_and_push p ids st)).
Proof.
  intros D. unfold scan_and_push.
  destruct (existsb (fun x => mem_z x (flat_map (fun a => if as_registered a then as_ids a else []) (st_asubs st))) ids) eqn:O;
    [exact D|]. simpl.
  assert (Fresh : forall x a, In x ids -> In a (st_asubs st) -> as_registered a = true -> ~ In x (as_ids a)).
  { intros x a Hx Ha Ra Hin.
    assert (existsb (fun x => mem_z x (flat_map (fun a => if as_registered a then as_ids a else []) (st_asubs st))) ids = true).
    { apply existsb_exists. exists x. split; [exact Hx|]. unfold mem_z. apply existsb_exists. exists x.
      split; [|apply Z.eqb_refl]. apply in_flat_map. exists a. rewrite Ra. auto. }
    congruence. }
  intros i j a b Ha Hb Hij Ra Rb x Hx.
  set (n := length (st_asubs st)) in *.
  destruct (Nat.lt_ge_cases i n) as [Li|Gi]; destruct (Nat.lt_ge_cases j n) as [Lj|Gj].
  - rewrite nth_error_app1 in Ha, Hb by assumption. exact (D i j a b Ha Hb Hij Ra Rb x Hx).
  - rewrite nth_error_app1 in Ha by assumption. rewrite nth_error_app2 in Hb by assumption.
    apply nth_error_singleton in Hb. destruct Hb as [_ ->]. simpl.
    intros Hin. apply (Fresh x a Hin); [eapply nth_error_In; eauto|exact Ra|exact Hx].
  - rewrite nth_error_app2 in Ha by assumption. rewrite nth_error_app1 in Hb by assumption.
    apply nth_error_singleton in Ha. destruct Ha as [_ ->]. simpl in Hx.
    apply (Fresh x b Hx); [eapply nth_error_In; eauto|exact Rb].
  - rewrite nth_error_app2 in Ha, Hb by assumption.
    apply nth_error_singleton in Ha. apply nth_error_singleton in Hb. lia.
Qed.

Lemma sections_keep_claims a f st :
  In f (sections a) -> claims_disjoint (st_asubs st) -> claims_disjoint (st_asubs (f st)).
Proof.
  intros Hf D. destruct a; simpl in Hf; destruct Hf as [<-|[]].
  - apply scan_and_push_keeps. exact D.
  - destruct (actuate st p id v) as [st' [e|]] eqn:E; simpl.
    + apply actuate_spec in E. subst. exact D.
    + apply actuate_spec in E. destruct E as (e & a & _ & _ & _ & _ & _ & _ & _ & _ & _ & ->). simpl.
      apply deliver_keeps_disjoint. exact D.
  - destruct (batch_actuate st p cs) as [st' [e|]] eqn:E; simpl.
    + apply batch_all_or_nothing in E. subst. exact D.
    + apply batch_success_spec in E. destruct E as (_ & calls & _ & _ & ->). simpl.
      apply deliver_all_keeps_disjoint. exact D.
  - simpl. apply claims_disjoint_map; [|exact D]. intros a. destruct (as_handle a =? h); simpl; auto.
  - simpl. apply cleanup_keeps_disjoint. exact D.
  - simpl. apply claims_disjoint_map; [|exact D]. intros a. simpl. split; [reflexivity|discriminate].
Qed.

(* at most one live provider per actuator, whatever the timing of the claims *)
Theorem claims_disjoint_all_schedules (ops : list conc_action) st0 ts st :
  claims_disjoint (st_asubs st0) ->
  ireach state (map sections ops, st0) (ts, st) -> claims_disjoint (st_asubs st).
Proof.
  intros D0 R.
  assert (A : all_preserve state (fun s => claims_disjoint (st_asubs s)) (map sections ops)).
  { intros t a Ht Ha s Ps. apply in_map_iff in Ht. destruct Ht as (op & <- & _).
    eapply sections_keep_claims; eauto. }
  destruct (interleaving_invariant state (fun s => claims_disjoint (st_asubs s)) _ _ _ _ A D0 R) as [H _].
  exact H.
Qed.

(* ---------- C16: concurrent registrations get distinct ids ---------- *)
Definition reg_section (p : perms) (name : list Z) (dt : data_type) (ct : change_type) (et : entry_type)
           (mn mx al : option value) (st : state) : state :=
  set_db st (fst (add_entry (st_db st) p (st_now st) (st_clock st) name dt ct et mn mx al)).

Definition reg_inv (bound : Z) (st : state) : Prop :=
  db_inv (st_db st) /\ next_id (st_db st) < bound.

(* every interleaving of n registrations (each one database.write() section) from a state with
   room for n more ids keeps paths and ids mutually inverse: different names, different ids *)
Theorem registrations_all_schedules (regs : list (state -> state)) st0 ts st :
  (forall f, In f regs -> exists p name dt ct et mn mx al, f = reg_section p name dt ct et mn mx al) ->
  db_inv (st_db st0) -> next_id (st_db st0) + Z.of_nat (length regs) < 2147483647 ->
  ireach state (map (fun f => [f]) regs, st0) (ts, st) -> db_inv (st_db st).
Proof.
  intros Hregs I0 B0 R.
  (* invariant: db_inv and next_id + (number of registrations still to run) stays below the bound *)
  set (todo := fun (ts : list (itask state)) => Z.of_nat (length (concat ts))).
  assert (G : forall c, ireach state (map (fun f => [f]) regs, st0) c ->
              db_inv (st_db (snd c)) /\ next_id (st_db (snd c)) + todo (fst c) < 2147483647 /\
              (forall t a, In t (fst c) -> In a t -> In a regs)).
  { intros c Rc. induction Rc as [|c1 c2 Rc IH St].
    - simpl. split; [exact I0|]. split.
      + unfold todo. replace (length (concat (map (fun f => [f]) regs))) with (length regs); [exact B0|].
        clear. induction regs; simpl; auto.
      + intros t a Ht Ha. apply in_map_iff in Ht. destruct Ht as (f & <- & Hf). destruct Ha as [<-|[]]. exact Hf.
    - destruct IH as (I1 & B1 & M1). inversion St as [ts0 s i a rest H E1 E2]. subst c1 c2. simpl in *.
      assert (Ha : In a regs) by (apply (M1 (a :: rest)); [eapply nth_error_In; eauto|left; reflexivity]).
      destruct (Hregs a Ha) as (p & name & dt & ct & et & mn & mx & al & ->).
      assert (Tl : todo (set_nth state ts0 i rest) = todo ts0 - 1).
      { unfold todo. clear -H. revert i H. induction ts0 as [|x ts0 IHt]; intros [|i] H; simpl in *; try discriminate.
        - inversion H; subst. cbn [set_nth concat]. rewrite !app_length. cbn [length]. lia.
        - cbn [set_nth concat]. rewrite !app_length. specialize (IHt i H). lia. }
      assert (Tpos : 0 < todo ts0).
      { unfold todo. clear -H. revert i H. induction ts0 as [|x ts0 IHt]; intros [|i] H; simpl in *; try discriminate.
        - inversion H; subst. cbn [concat]. rewrite app_length. cbn [length]. lia.
        - cbn [concat]. rewrite app_length. specialize (IHt i H). lia. }
      unfold reg_section. simpl.
      destruct (add_entry (st_db s) p (st_now s) (st_clock s) name dt ct et mn mx al) as [db' r] eqn:E. simpl.
      destruct (add_entry_inv _ _ _ _ _ _ _ _ _ _ _ _ _ I1 ltac:(lia) E) as [I2 N2].
      split; [exact I2|]. split; [rewrite Tl; lia|].
      intros t b Ht Hb. apply set_nth_in in Ht. destruct Ht as [->|Ht].
      + apply (M1 (reg_section p name dt ct et mn mx al :: rest)); [eapply nth_error_In; eauto|right; exact Hb].
      + apply (M1 t b Ht Hb). }
  apply (G _ R).
Qed.

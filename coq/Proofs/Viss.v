(* Proofs/Viss.v — C20: over VISS a token reads, and writes targets of, exactly what it could over
   gRPC; the value seen is the stored datapoint; a text is accepted iff it parses to the signal's
   data type and the core accepts the typed value; integer texts round-trip. *)
From Coq Require Import ZArith Lia Bool List.
From KD Require Import Model.Values Model.Compare Model.Validate Model.Perm Model.Glob Model.Broker
     Model.BrokerRun Model.Api Model.ApiRun Model.FloatLit Model.Query Model.Viss Proofs.Broker.
Open Scope Z_scope.

(* ---------- reading ---------- *)
Theorem viss_get_is_v2_get st k path d :
  too_long path = false ->
  (viss_get st (TokOf k) path = inl d <-> v2_get_value st (get_perm st k) (SigPath path) = RValue d).
Proof.
  intros TL. unfold viss_get, v2_get_value, viss_perms. cbn [v2_get_signal]. rewrite TL.
  destruct (lookup_path (path_to_id (st_db st)) path) as [id|].
  - destruct (read_entry (st_db st) (get_perm st k) (st_now st) id) as [e|err].
    + split; intros H; inversion H; reflexivity.
    + split; intros H; inversion H.
  - split; intros H; inversion H.
Qed.

(* a refusal over VISS is a refusal over gRPC of the same class, and vice versa *)
Theorem viss_get_refusal st k path e :
  too_long path = false ->
  viss_get st (TokOf k) path = inr e ->
  exists code, v2_get_value st (get_perm st k) (SigPath path) = RStatus code /\
    match e with
    | VNotFound => code = NOT_FOUND
    | VForbidden => code = PERMISSION_DENIED
    | VTokenExpired => code = UNAUTHENTICATED
    | _ => False
    end.
Proof.
  intros TL. unfold viss_get, v2_get_value, viss_perms. cbn [v2_get_signal]. rewrite TL.
  destruct (lookup_path (path_to_id (st_db st)) path) as [id|].
  - destruct (read_entry (st_db st) (get_perm st k) (st_now st) id) as [e0|[| |]]; intros H; inversion H; subst;
      eexists; split; reflexivity.
  - intros H; inversion H; subst. eexists; split; reflexivity.
Qed.

Theorem viss_get_reads_store st k path d :
  viss_get st (TokOf k) path = inl d ->
  exists id e, lookup_path (path_to_id (st_db st)) path = Some id /\ lookup_id (entries (st_db st)) id = Some e
               /\ can_read (get_perm st k) (st_now st) (path_segs (e_meta e)) = Perm.POk /\ d = e_dp e.
Proof.
  unfold viss_get, viss_perms. destruct (lookup_path (path_to_id (st_db st)) path) as [id|] eqn:LP; [|discriminate].
  unfold read_entry. destruct (lookup_id (entries (st_db st)) id) as [e|] eqn:L; [|discriminate].
  destruct (can_read (get_perm st k) (st_now st) (path_segs (e_meta e))) eqn:C; try discriminate.
  intros H; inversion H; subst. exists id, e. repeat split; try reflexivity; assumption.
Qed.

Theorem viss_token_required st path :
  viss_get st TokNone path = inr VTokenMissing /\ viss_get st TokBad path = inr VTokenInvalid
  /\ (forall x, viss_set st TokNone path x = (st, SetErr VTokenMissing))
  /\ (forall x, viss_set st TokBad path x = (st, SetErr VTokenInvalid))
  /\ viss_subscribe st TokNone path = (st, inr VTokenMissing)
  /\ viss_subscribe st TokBad path = (st, inr VTokenInvalid).
Proof. repeat split. Qed.

(* ---------- authorization disabled ---------- *)
Lemma can_read_allow_all now path : can_read allow_all now path = Perm.POk.
Proof. reflexivity. Qed.

(* whatever the request carries, it is served as the gRPC handlers serve a request with ALLOW_ALL *)
Theorem viss_open_get_is_v2_get st path d :
  too_long path = false ->
  (viss_get st TokOpen path = inl d <-> v2_get_value st allow_all (SigPath path) = RValue d).
Proof.
  intros TL. unfold viss_get, v2_get_value, viss_perms. cbn [v2_get_signal]. rewrite TL.
  destruct (lookup_path (path_to_id (st_db st)) path) as [id|].
  - destruct (read_entry (st_db st) allow_all (st_now st) id) as [e|err].
    + split; intros H; inversion H; reflexivity.
    + split; intros H; inversion H.
  - split; intros H; inversion H.
Qed.

(* ... and never refused for want of a token or of a right: the only refusal of a get is "no such signal" *)
Theorem viss_open_get_refusal st path e : viss_get st TokOpen path = inr e -> e = VNotFound.
Proof.
  unfold viss_get, viss_perms. destruct (lookup_path (path_to_id (st_db st)) path) as [id|]; [|intros H; inversion H; reflexivity].
  unfold read_entry. destruct (lookup_id (entries (st_db st)) id) as [en|]; [|intros H; inversion H; reflexivity].
  rewrite can_read_allow_all. discriminate.
Qed.

Theorem viss_open_set_is_full_rights st path x :
  viss_set st TokOpen path x =
  match lookup_path (path_to_id (st_db st)) path with
  | None => (st, SetErr VNotFound)
  | Some id =>
    match lookup_id (entries (st_db st)) id with
    | None => (st, SetErr VNotFound)
    | Some e =>
      if negb (entry_type_eqb (m_etype (e_meta e)) Actuator) then (st, SetErr VReadOnly)
      else match parse_text (m_dtype (e_meta e)) x with
           | TErr => (st, SetErr VBadRequest)
           | TUnmodelled => (st, SetUnmodelled)
           | TOk v =>
             let '(st', errs) := update_entries st allow_all [(id, target_upd v)] in
             (st', match errs with [] => SetOk | (_, err) :: _ => SetErr (update_verr err) end)
           end
    end
  end.
Proof. reflexivity. Qed.

Theorem viss_open_subscribe_not_token_error st path st' e :
  viss_subscribe st TokOpen path = (st', inr e) -> e <> VTokenMissing /\ e <> VTokenInvalid.
Proof.
  unfold viss_subscribe, viss_perms. destruct (lookup_path (path_to_id (st_db st)) path) as [id|].
  - destruct (subscribe st allow_all [(id, {| f_dp := true; f_target := false; f_unit := false |})] None) as [st1 [h|[]]];
      intros H; inversion H; subst; split; discriminate.
  - intros H; inversion H; subst; split; discriminate.
Qed.

(* ---------- writing a target ---------- *)
(* accepted iff the path names an actuator, the text parses to its data type, and the core accepts
   the typed value as a target update from that token — the very update kuksa.val.v1 Set issues *)
Theorem viss_set_accepted_iff st k path x st' :
  viss_set st (TokOf k) path x = (st', SetOk) <->
  exists id e v,
    lookup_path (path_to_id (st_db st)) path = Some id /\ lookup_id (entries (st_db st)) id = Some e
    /\ m_etype (e_meta e) = Actuator /\ parse_text (m_dtype (e_meta e)) x = TOk v
    /\ update_entries st (get_perm st k) [(id, target_upd v)] = (st', []).
Proof.
  unfold viss_set, viss_perms. split.
  - destruct (lookup_path (path_to_id (st_db st)) path) as [id|] eqn:LP; [|discriminate].
    destruct (lookup_id (entries (st_db st)) id) as [e|] eqn:L; [|discriminate].
    destruct (entry_type_eqb (m_etype (e_meta e)) Actuator) eqn:A; cbn [negb]; [|discriminate].
    destruct (parse_text (m_dtype (e_meta e)) x) as [v| |] eqn:PT; try discriminate.
    destruct (update_entries st (get_perm st k) [(id, target_upd v)]) as [st1 errs] eqn:U.
    destruct errs as [|[i err] r]; [|discriminate]. intros H; inversion H; subst.
    exists id, e, v. repeat split; try reflexivity; try assumption.
    destruct (m_etype (e_meta e)); try discriminate A; reflexivity.
  - intros (id & e & v & LP & L & A & PT & U). rewrite LP, L, A. cbn [entry_type_eqb negb]. rewrite PT, U. reflexivity.
Qed.

(* a refused set changes nothing in the store *)
Theorem viss_set_refused_keeps_store st t path x st' e :
  viss_set st t path x = (st', SetErr e) -> st_db st' = st_db st.
Proof.
  unfold viss_set. destruct (viss_perms st t) as [p|e0]; [|intros H; inversion H; reflexivity].
  destruct (lookup_path (path_to_id (st_db st)) path) as [id|]; [|intros H; inversion H; reflexivity].
  destruct (lookup_id (entries (st_db st)) id) as [en|]; [|intros H; inversion H; reflexivity].
  destruct (negb (entry_type_eqb (m_etype (e_meta en)) Actuator)); [intros H; inversion H; reflexivity|].
  destruct (parse_text (m_dtype (e_meta en)) x) as [v| |]; try (intros H; inversion H; reflexivity).
  destruct (update_entries st p [(id, target_upd v)]) as [st1 errs] eqn:U.
  destruct errs as [|[i err] r]; [discriminate|]. intros H; inversion H; subst.
  unfold update_entries in U. cbn [apply_updates] in U.
  destruct (update_one (st_db st) p (st_now st) (st_clock st) id (target_upd v)) as [db1 [ch|er]] eqn:U1;
    cbn [apply_updates rev app] in U.
  - match type of U with (if ?c then _ else _, _) = _ => destruct c end; inversion U.
  - apply update_one_err in U1. subst db1.
    match type of U with (if ?c then _ else _, _) = _ => destruct c end; inversion U; reflexivity.
Qed.

(* ---------- the text codec ---------- *)
(* ---------- integers round-trip through their decimal text ---------- *)
Definition dec_text (z : Z) : list Z := if z <? 0 then 45 :: dec_digits (- z) else dec_digits z.

Definition dval (s : list Z) : Z := digits_val (map (fun c => c - 48) s).

Lemma dval_snoc s c : dval (s ++ [c]) = dval s * 10 + (c - 48).
Proof. unfold dval, digits_val. rewrite map_app, fold_left_app. reflexivity. Qed.

Lemma all_digits_app a b : all_digits (a ++ b) = all_digits a && all_digits b.
Proof. induction a as [|x a IH]; cbn [all_digits app]; [reflexivity|]. rewrite IH, andb_assoc. reflexivity. Qed.

Lemma dec_digits_fuel_spec fuel : forall n acc,
  0 <= n < 10 ^ Z.of_nat fuel -> (0 < fuel)%nat ->
  exists ds, dec_digits_fuel fuel n acc = ds ++ acc /\ ds <> [] /\ all_digits ds = true /\ dval ds = n.
Proof.
  induction fuel as [|f IH]; intros n acc Hn Hf; [lia|].
  cbn [dec_digits_fuel]. destruct (n <? 10) eqn:Lt.
  - apply Z.ltb_lt in Lt. exists [48 + n mod 10]. repeat split; try discriminate.
    + cbn [all_digits]. unfold is_digit. rewrite Z.mod_small by lia.
      apply andb_true_intro. split; [|reflexivity]. apply andb_true_intro. split; apply Z.leb_le; lia.
    + unfold dval, digits_val. cbn [map fold_left]. rewrite Z.mod_small by lia. lia.
  - apply Z.ltb_ge in Lt.
    assert (Hf' : (0 < f)%nat).
    { destruct f; [|lia]. cbn in Hn. lia. }
    assert (Hn' : 0 <= n / 10 < 10 ^ Z.of_nat f).
    { split; [apply Z.div_pos; lia|]. apply Z.div_lt_upper_bound; [lia|].
      rewrite Nat2Z.inj_succ, Z.pow_succ_r in Hn by lia. lia. }
    destruct (IH (n / 10) ((48 + n mod 10) :: acc) Hn' Hf') as (ds & E & NE & AD & DV).
    exists (ds ++ [48 + n mod 10]). rewrite E, <- app_assoc. repeat split.
    + destruct ds; discriminate.
    + rewrite all_digits_app, AD. cbn [all_digits andb]. unfold is_digit.
      pose proof (Z.mod_pos_bound n 10 ltac:(lia)).
      apply andb_true_intro. split; [|reflexivity]. apply andb_true_intro. split; apply Z.leb_le; lia.
    + rewrite dval_snoc, DV. pose proof (Z.div_mod n 10 ltac:(lia)). lia.
Qed.

Lemma dec_digits_spec n :
  0 <= n < 10 ^ 20 -> dec_digits n <> [] /\ all_digits (dec_digits n) = true /\ dval (dec_digits n) = n.
Proof.
  intros Hn. destruct (dec_digits_fuel_spec 20 n [] ltac:(cbn; lia) ltac:(lia)) as (ds & E & NE & AD & DV).
  unfold dec_digits. rewrite E, app_nil_r. auto.
Qed.

Lemma digits_of_dec n : 0 <= n < 10 ^ 20 -> digits_of (dec_digits n) = Some n.
Proof.
  intros Hn. destruct (dec_digits_spec n Hn) as (NE & AD & DV). unfold digits_of.
  destruct (dec_digits n) as [|c r] eqn:E; [contradiction|]. rewrite AD. unfold dval in DV. rewrite DV. reflexivity.
Qed.

Lemma head_is_digit n c r : 0 <= n < 10 ^ 20 -> dec_digits n = c :: r -> is_digit c = true.
Proof.
  intros Hn E. destruct (dec_digits_spec n Hn) as (_ & AD & _). rewrite E in AD. cbn [all_digits] in AD.
  apply andb_prop in AD. apply AD.
Qed.

Lemma digit_cases c : is_digit c = true ->
  c = 48 \/ c = 49 \/ c = 50 \/ c = 51 \/ c = 52 \/ c = 53 \/ c = 54 \/ c = 55 \/ c = 56 \/ c = 57.
Proof. unfold is_digit. intros H. apply andb_prop in H. destruct H as [A B]. apply Z.leb_le in A, B. lia. Qed.

Lemma parse_signed_digits c r : is_digit c = true -> parse_signed (c :: r) = digits_of (c :: r).
Proof.
  intros H. destruct (digit_cases c H) as [->|[->|[->|[->|[->|[->|[->|[->|[->| ->]]]]]]]]]; reflexivity.
Qed.

Lemma parse_unsigned_digits c r : is_digit c = true -> parse_unsigned (c :: r) = digits_of (c :: r).
Proof.
  intros H. destruct (digit_cases c H) as [->|[->|[->|[->|[->|[->|[->|[->|[->| ->]]]]]]]]]; reflexivity.
Qed.

Theorem signed_text_roundtrip z : - 10 ^ 20 < z < 10 ^ 20 -> parse_signed (dec_text z) = Some z.
Proof.
  intros Hz. unfold dec_text. destruct (z <? 0) eqn:N.
  - apply Z.ltb_lt in N. cbn [parse_signed]. rewrite digits_of_dec by lia. cbn. f_equal. lia.
  - apply Z.ltb_ge in N. destruct (dec_digits z) as [|c r] eqn:E.
    + destruct (dec_digits_spec z ltac:(lia)) as (NE & _). contradiction.
    + rewrite (parse_signed_digits c r (head_is_digit z c r ltac:(lia) E)), <- E. apply digits_of_dec. lia.
Qed.

Theorem unsigned_text_roundtrip z : 0 <= z < 10 ^ 20 -> parse_unsigned (dec_text z) = Some z.
Proof.
  intros Hz. unfold dec_text. destruct (z <? 0) eqn:N; [apply Z.ltb_lt in N; lia|].
  destruct (dec_digits z) as [|c r] eqn:E.
  - destruct (dec_digits_spec z Hz) as (NE & _). contradiction.
  - rewrite (parse_unsigned_digits c r (head_is_digit z c r Hz E)), <- E. apply digits_of_dec. exact Hz.
Qed.

(* every value of an integer data type, written as decimal text, is read back as that value; a number
   outside the parsed width is refused *)
Theorem int_text_roundtrip :
  (forall z, in_i32 z = true -> parse_scalar TInt32 (dec_text z) = TOk (VI32 z))
  /\ (forall z, in_i64 z = true -> parse_scalar TInt64 (dec_text z) = TOk (VI64 z))
  /\ (forall z, in_u32 z = true -> parse_scalar TUint32 (dec_text z) = TOk (VU32 z))
  /\ (forall z, in_u64 z = true -> parse_scalar TUint64 (dec_text z) = TOk (VU64 z)).
Proof.
  repeat split; intros z H; cbn [parse_scalar];
    [ unfold in_i32 in H | unfold in_i64 in H | unfold in_u32 in H | unfold in_u64 in H ];
    pose proof H as H0; apply andb_prop in H; destruct H as [A B]; apply Z.leb_le in A, B.
  - rewrite signed_text_roundtrip by lia. cbn [in_range]. unfold in_i32. rewrite H0. reflexivity.
  - rewrite signed_text_roundtrip by lia. cbn [in_range]. unfold in_i64. rewrite H0. reflexivity.
  - rewrite unsigned_text_roundtrip by lia. cbn [in_range]. unfold in_u32. rewrite H0. reflexivity.
  - rewrite unsigned_text_roundtrip by lia. cbn [in_range]. unfold in_u64. rewrite H0. reflexivity.
Qed.

Theorem int_text_out_of_range_refused z :
  - 10 ^ 20 < z < 10 ^ 20 ->
  (in_i32 z = false -> parse_scalar TInt32 (dec_text z) = TErr)
  /\ (in_i64 z = false -> parse_scalar TInt64 (dec_text z) = TErr).
Proof.
  intros Hz. split; intros H; cbn [parse_scalar]; rewrite (signed_text_roundtrip z Hz); cbn [in_range]; rewrite H; reflexivity.
Qed.

(* wrong-kind texts *)
Theorem wrong_kind_text_refused t :
  (forall l, base_of t = None -> parse_text t (VTArray l) = TErr)
  /\ (forall s b, base_of t = Some b -> parse_text t (VTScalar s) = TErr)
  /\ parse_text t VTNone = TErr.
Proof.
  repeat split.
  - intros l H. unfold parse_text. rewrite H. reflexivity.
  - intros s b H. unfold parse_text. rewrite H. reflexivity.
  - unfold parse_text. destruct (base_of t); reflexivity.
Qed.

(* unsubscribing stops the stream: afterwards the subscription yields nothing and cannot be unsubscribed again *)
Theorem unsubscribe_stops st h s :
  find_csub st h = Some s -> cs_open s = true ->
  exists st', viss_step st [53; h] = Some (st', [[0]]) /\
              forall s', find_csub st' h = Some s' -> cs_open s' = false.
Proof.
  intros F O. cbn [viss_step]. rewrite F, O. eexists. split; [reflexivity|].
  unfold find_csub, update_csub, set_csubs. cbn [st_csubs].
  intros s' F'. apply find_some in F'. destruct F' as [Hin Hh]. apply in_map_iff in Hin.
  destruct Hin as (x & E & _). destruct (cs_handle x =? h) eqn:X; subst s'; [reflexivity|].
  rewrite X in Hh. discriminate.
Qed.

(* ---------- non-vacuity ---------- *)
Example ex_texts :
  parse_scalar TInt8 (dec_text 100) = TOk (VI32 100)
  /\ parse_scalar TUint32 [45; 53] = TErr
  /\ parse_scalar TInt32 [32; 53] = TErr
  /\ parse_scalar TBool str_true = TOk (VBool true)
  /\ parse_text TInt32Array (VTArray [[49]; [45; 50]]) = TOk (VI32A [1; -2])
  /\ parse_scalar TDouble [45; 48; 46; 53] = TOk (VF64 13826050856027422720).
Proof. repeat split; vm_compute; reflexivity. Qed.

(* ---------- static metadata over VISS (C15 / C20) ---------- *)
Lemma insert_by_in {A} (key : A -> Z) (x y : A) l : In y (insert_by key x l) <-> y = x \/ In y l.
Proof.
  induction l as [|z r IH]; cbn [insert_by].
  - cbn. intuition.
  - destruct (key x <=? key z); cbn [In].
    + intuition.
    + rewrite IH. intuition.
Qed.

Lemma sort_by_in {A} (key : A -> Z) (y : A) l : In y (sort_by key l) <-> In y l.
Proof.
  unfold sort_by. induction l as [|x r IH]; cbn [fold_right]; [reflexivity|].
  rewrite insert_by_in, IH. cbn [In]. intuition.
Qed.

(* what the VISS metadata tree says about a signal is what was registered: the very signals whose path starts
   with the requested text, each with its registered entry type, data type and allowed list - the same numbers
   the kuksa.val.v2 and sdv metadata projections are built from *)
Theorem viss_metadata_sound st path line :
  In line (tl (viss_metadata st path)) ->
  exists id e, In (id, e) (entries (st_db st)) /\ bytes_prefix path (m_path (e_meta e)) = true /\
               line = [205; id; kuksa_entry_type (m_etype (e_meta e)); kuksa_data_type (m_dtype (e_meta e))]
                      ++ enc_opt_val (m_allowed (e_meta e)) ++ [1].
Proof.
  unfold viss_metadata. cbn [tl]. intros H. apply in_map_iff in H. destruct H as ([id e] & Hl & Hin).
  apply sort_by_in in Hin. apply filter_In in Hin. destruct Hin as (Hin & Hp). cbn [snd] in Hp.
  exists id, e. split; [exact Hin|]. split; [exact Hp|]. symmetry. exact Hl.
Qed.

Theorem viss_metadata_complete st path id e :
  In (id, e) (entries (st_db st)) -> bytes_prefix path (m_path (e_meta e)) = true ->
  In ([205; id; kuksa_entry_type (m_etype (e_meta e)); kuksa_data_type (m_dtype (e_meta e))]
      ++ enc_opt_val (m_allowed (e_meta e)) ++ [1]) (tl (viss_metadata st path)).
Proof.
  intros Hin Hp. unfold viss_metadata. cbn [tl]. apply in_map_iff. exists (id, e). split; [reflexivity|].
  apply sort_by_in. apply filter_In. split; [exact Hin|exact Hp].
Qed.

(* the empty path selects every signal; a path selects the signal of that name *)
Lemma bytes_prefix_nil s : bytes_prefix [] s = true.
Proof. reflexivity. Qed.
Lemma bytes_prefix_refl s : bytes_prefix s s = true.
Proof. induction s as [|c r IH]; cbn; [reflexivity|]. rewrite Z.eqb_refl. exact IH. Qed.

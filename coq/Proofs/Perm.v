(* Proofs/Perm.v — what a scope string grants (C05). *)
From Coq Require Import ZArith Bool List Lia.
From KD Require Import Model.Values Model.Perm.
Open Scope Z_scope.

(* ---------- string equality ---------- *)
Lemma str_eqb_eq a b : str_eqb a b = true <-> a = b.
Proof.
  unfold str_eqb. revert b. induction a as [|x a IH]; destruct b as [|y b]; simpl;
    try (split; [discriminate|discriminate]); try tauto.
  rewrite andb_true_iff, Z.eqb_eq, IH. split.
  - intros [-> ->]. reflexivity.
  - intros H. inversion H. auto.
Qed.

Lemma str_eqb_refl a : str_eqb a a = true.
Proof. apply str_eqb_eq. reflexivity. Qed.

(* ---------- matching ---------- *)
Definition seg_rel (s : seg) (n : list Z) : Prop :=
  match s with SStar => True | SName m => m = n end.

Lemma seg_match_rel s n : seg_match s n = true <-> seg_rel s n.
Proof. destruct s; simpl; [apply str_eqb_eq | tauto]. Qed.

Lemma exact_match_forall2 p path : exact_match p path = true <-> Forall2 seg_rel p path.
Proof.
  revert path. induction p as [|s p IH]; destruct path as [|n path]; simpl.
  - split; auto.
  - split; [discriminate | intros H; inversion H].
  - split; [discriminate | intros H; inversion H].
  - rewrite andb_true_iff, seg_match_rel, IH. split.
    + intros [A B]. constructor; assumption.
    + intros H. inversion H; subst. auto.
Qed.

Lemma prefix_match_spec p path :
  prefix_match p path = true <->
  exists pre rest, path = pre ++ rest /\ Forall2 seg_rel p pre.
Proof.
  revert path. induction p as [|s p IH]; intros path; simpl.
  - split; [intros _; exists [], path; split; [reflexivity|constructor] | auto].
  - destruct path as [|n path].
    + split; [discriminate|]. intros (pre & rest & E & F). inversion F; subst. discriminate.
    + rewrite andb_true_iff, seg_match_rel, IH. split.
      * intros [A (pre & rest & E & F)]. exists (n :: pre), rest. subst. split; [reflexivity|].
        constructor; assumption.
      * intros (pre & rest & E & F). inversion F; subst. simpl in E. inversion E; subst.
        split; [assumption|]. eauto.
Qed.

Lemma forall2_length {A B} (R : A -> B -> Prop) l1 l2 : Forall2 R l1 l2 -> length l1 = length l2.
Proof. induction 1; simpl; congruence. Qed.

(* a pattern with `*`: exactly one level per pattern segment *)
Theorem star_one_level p path :
  has_star p = true -> covers p path = true ->
  length path = length p /\ Forall2 seg_rel p path.
Proof.
  intros Hs Hc. unfold covers in Hc.
  assert (E : exact_match p path = true).
  { destruct p as [|[n|] [|s2 p']]; try discriminate; rewrite ?Hs in Hc; try exact Hc.
    all: simpl in Hs; try discriminate. }
  apply exact_match_forall2 in E. split; [|exact E].
  symmetry. eapply forall2_length; eauto.
Qed.

(* a path without `*` covers the node itself and everything below it, nothing else *)
Theorem branch_rule p path :
  has_star p = false ->
  (covers p path = true <-> exists pre rest, path = pre ++ rest /\ Forall2 seg_rel p pre).
Proof.
  intros Hs. unfold covers.
  assert (E : (match p with [SStar] => false | _ => if has_star p then exact_match p path else prefix_match p path end)
              = prefix_match p path).
  { destruct p as [|[n|] [|s2 p']]; rewrite ?Hs; try reflexivity. simpl in Hs. discriminate. }
  rewrite E. apply prefix_match_spec.
Qed.

Lemma exact_match_prefix q path : exact_match q path = true -> prefix_match q path = true.
Proof.
  revert path. induction q as [|s q IH]; intros [|x path]; simpl; try discriminate; auto.
  intros H. apply andb_true_iff in H. destruct H as [A B]. rewrite A. simpl. auto.
Qed.

(* no literal segment is ever matched partially: at every position where the pattern has a
   name, the covered path has exactly that name *)
Theorem no_partial_name p path i n :
  covers p path = true -> nth_error p i = Some (SName n) -> nth_error path i = Some n.
Proof.
  intros Hc Hn.
  assert (P : prefix_match p path = true).
  { unfold covers in Hc. destruct p as [|[m|] [|s2 p']]; try discriminate;
      try (destruct (has_star _) eqn:Hs; [apply exact_match_prefix|]; exact Hc); try exact Hc. }
  clear Hc. revert path i P Hn. induction p as [|s p IH]; intros path i P Hn.
  - destruct i; discriminate.
  - destruct path as [|x path]; simpl in P; [discriminate|].
    apply andb_true_iff in P. destruct P as [A B]. destruct i; simpl in *.
    + inversion Hn; subst. apply seg_match_rel in A. simpl in A. subst. reflexivity.
    + eapply IH; eauto.
Qed.

(* the lone `*` grants nothing *)
Lemma lone_star_nothing path : covers [SStar] path = false.
Proof. reflexivity. Qed.

(* ---------- from scopes to rights ---------- *)
Definition scope_covers (s : scope) (path : list (list Z)) : bool :=
  match sc_path s with None => true | Some p => covers p path end.

Definition action_eqb (a b : action) : bool :=
  match a, b with
  | ARead, ARead | AActuate, AActuate | AProvide, AProvide | ACreate, ACreate => true
  | _, _ => false
  end.

Definition sel (a : action) (p : perms) : matcher :=
  match a with ARead => p_read p | AActuate => p_actuate p | AProvide => p_provide p | ACreate => p_create p end.

Lemma m_add_match m po path :
  m_match (m_add m po) path = m_match m path || match po with None => true | Some g => covers g path end.
Proof.
  destruct m as [| |l]; destruct po as [g|]; simpl; try reflexivity.
  - rewrite orb_false_r. reflexivity.
  - rewrite existsb_app. simpl. rewrite orb_false_r. reflexivity.
  - rewrite orb_true_r. reflexivity.
Qed.

Lemma sel_add_scope a p s path :
  m_match (sel a (add_scope p s)) path =
  m_match (sel a p) path || (action_eqb a (sc_action s) && scope_covers s path).
Proof.
  unfold add_scope, scope_covers. destruct a, (sc_action s); simpl;
    rewrite ?m_add_match, ?orb_false_r; reflexivity.
Qed.

Lemma sel_fold a ss p path :
  m_match (sel a (fold_left add_scope ss p)) path =
  m_match (sel a p) path || existsb (fun s => action_eqb a (sc_action s) && scope_covers s path) ss.
Proof.
  revert p. induction ss as [|s ss IH]; intros p; simpl.
  - rewrite orb_false_r. reflexivity.
  - rewrite IH, sel_add_scope, orb_assoc. reflexivity.
Qed.

Lemma sel_none a path : m_match (sel a allow_none) path = false.
Proof. destruct a; reflexivity. Qed.

Lemma perms_of_claims_sel sc exp p a path :
  perms_of_claims sc exp = Some p ->
  exists ss, parse_scope sc = Some ss /\
    m_match (sel a p) path = existsb (fun s => action_eqb a (sc_action s) && scope_covers s path) ss.
Proof.
  unfold perms_of_claims. destruct (parse_scope sc) as [ss|]; [|discriminate].
  intros H. inversion H; subst. exists ss. split; [reflexivity|].
  pose proof (sel_fold a ss allow_none path) as F. rewrite sel_none in F. simpl in F.
  destruct a; simpl in *; exact F.
Qed.

(* a write right is granted only by an unexpired scope of its own action that covers the path *)
Theorem write_needs_own_action sc exp p now path a :
  perms_of_claims sc exp = Some p ->
  (a = AActuate \/ a = AProvide \/ a = ACreate) ->
  (match a with AActuate => can_write_actuator_target | AProvide => can_write_datapoint
              | _ => can_create end) p now path = POk ->
  expired p now = false /\
  exists ss s, parse_scope sc = Some ss /\ In s ss /\ sc_action s = a /\ scope_covers s path = true.
Proof.
  intros Hp Ha Hc.
  destruct (perms_of_claims_sel sc exp p a path Hp) as (ss & Hss & Hm).
  assert (E : expired p now = false /\ m_match (sel a p) path = true).
  { destruct Ha as [->|[->| ->]]; simpl in *;
      unfold can_write_actuator_target, can_write_datapoint, can_create in Hc;
      destruct (expired p now); try discriminate;
      match goal with H : (if ?c then _ else _) = POk |- _ => destruct c eqn:?; try discriminate end; auto. }
  destruct E as [E1 E2]. split; [exact E1|]. rewrite Hm in E2. apply existsb_exists in E2.
  destruct E2 as (s & Hin & Hs). apply andb_true_iff in Hs. destruct Hs as [Hact Hcov].
  exists ss, s. repeat split; auto. destruct a, (sc_action s); try discriminate; reflexivity.
Qed.

(* read is implied by a covering scope of any action, and by nothing else *)
Theorem read_iff_any_action sc exp p now path :
  perms_of_claims sc exp = Some p ->
  (can_read p now path = POk <->
   expired p now = false /\
   exists ss s, parse_scope sc = Some ss /\ In s ss /\ scope_covers s path = true).
Proof.
  intros Hp.
  destruct (perms_of_claims_sel sc exp p ARead path Hp) as (ss & Hss & Hr).
  destruct (perms_of_claims_sel sc exp p AActuate path Hp) as (ss1 & Hss1 & Ha).
  destruct (perms_of_claims_sel sc exp p AProvide path Hp) as (ss2 & Hss2 & Hv).
  destruct (perms_of_claims_sel sc exp p ACreate path Hp) as (ss3 & Hss3 & Hc).
  rewrite Hss in Hss1, Hss2, Hss3. inversion Hss1; inversion Hss2; inversion Hss3; subst ss1 ss2 ss3.
  change (sel ARead p) with (p_read p) in Hr. change (sel AActuate p) with (p_actuate p) in Ha.
  change (sel AProvide p) with (p_provide p) in Hv. change (sel ACreate p) with (p_create p) in Hc.
  unfold can_read. rewrite Hr, Ha, Hv, Hc.
  destruct (expired p now).
  - split; [discriminate | intros [H _]; discriminate].
  - split.
    + intros H. split; [reflexivity|].
      destruct (existsb _ ss || existsb _ ss || existsb _ ss || existsb _ ss) eqn:E; [|discriminate].
      repeat (apply orb_true_iff in E; destruct E as [E|E]);
        apply existsb_exists in E; destruct E as (s & Hin & Hs); apply andb_true_iff in Hs;
        exists ss, s; tauto.
    + intros [_ (ss' & s & Hss' & Hin & Hcov)]. rewrite Hss in Hss'. inversion Hss'; subst ss'.
      assert (E : existsb (fun s => action_eqb ARead (sc_action s) && scope_covers s path) ss
               || existsb (fun s => action_eqb AActuate (sc_action s) && scope_covers s path) ss
               || existsb (fun s => action_eqb AProvide (sc_action s) && scope_covers s path) ss
               || existsb (fun s => action_eqb ACreate (sc_action s) && scope_covers s path) ss = true).
      { destruct (sc_action s) eqn:A;
          [ do 3 (apply orb_true_iff; left) | do 2 (apply orb_true_iff; left); apply orb_true_iff; right
          | apply orb_true_iff; left; apply orb_true_iff; right | apply orb_true_iff; right ];
          apply existsb_exists; exists s; rewrite A, Hcov; auto. }
      rewrite E. reflexivity.
Qed.

(* ---------- all or nothing ---------- *)
Lemma parse_all_some l ss : parse_all l = Some ss -> Forall (fun c => parse_one c <> None) l.
Proof.
  revert ss. induction l as [|c l IH]; intros ss H; [constructor|]. simpl in H.
  destruct (parse_one c) eqn:E; [|discriminate]. destruct (parse_all l) eqn:E2; [|discriminate].
  constructor; [congruence | eapply IH; eauto].
Qed.

Theorem all_or_nothing s c :
  In c (split_ws s) -> parse_one c = None -> parse_scope s = None.
Proof.
  unfold parse_scope. intros Hin Hbad. destruct (parse_all (split_ws s)) as [ss|] eqn:E; [|reflexivity].
  apply parse_all_some in E. rewrite Forall_forall in E. specialize (E c Hin). contradiction.
Qed.

Theorem bad_claim_no_permissions s exp c :
  In c (split_ws s) -> parse_one c = None -> perms_of_claims s exp = None.
Proof.
  intros Hin Hbad. unfold perms_of_claims. rewrite (all_or_nothing s c Hin Hbad). reflexivity.
Qed.

(* ---------- the grammar ---------- *)
Definition seg_str (s : seg) : list Z := match s with SName n => n | SStar => [star] end.

Fixpoint join (sep : Z) (l : list (list Z)) : list Z :=
  match l with
  | [] => []
  | [x] => x
  | x :: r => x ++ sep :: join sep r
  end.

Definition action_str (a : action) : list Z :=
  match a with ARead => str_read | AActuate => str_actuate | AProvide => str_provide | ACreate => str_create end.

(* the documented concrete syntax: action[:seg(.seg)*] *)
Definition render (sc : scope) : list Z :=
  action_str (sc_action sc) ++
  match sc_path sc with None => [] | Some segs => colon :: join dot (map seg_str segs) end.

Definition wf_seg (s : seg) : Prop := match s with SName n => is_name n = true | SStar => True end.
Definition wf_scope (sc : scope) : Prop :=
  match sc_path sc with None => True | Some segs => segs <> [] /\ Forall wf_seg segs end.

(* split_on / join *)
Lemma split_on_aux_nonempty sep s cur : split_on_aux sep s cur <> [].
Proof.
  revert cur. induction s as [|c s IH]; intros cur; simpl; [discriminate|].
  destruct (c =? sep); [discriminate|apply IH].
Qed.

Lemma split_on_aux_join sep s cur :
  join sep (split_on_aux sep s cur) = rev cur ++ s.
Proof.
  revert cur. induction s as [|c s IH]; intros cur; simpl.
  - rewrite app_nil_r. reflexivity.
  - destruct (c =? sep) eqn:E.
    + apply Z.eqb_eq in E. subst c.
      change (join sep (rev cur :: split_on_aux sep s [])) with
        (match split_on_aux sep s [] with [] => rev cur | _ => rev cur ++ sep :: join sep (split_on_aux sep s []) end).
      destruct (split_on_aux sep s []) eqn:E2.
      * exfalso. exact (split_on_aux_nonempty sep s [] E2).
      * rewrite <- E2, IH. reflexivity.
    + rewrite IH. simpl. rewrite <- app_assoc. reflexivity.
Qed.

Lemma join_split_on sep s : join sep (split_on sep s) = s.
Proof. unfold split_on. rewrite split_on_aux_join. reflexivity. Qed.

Definition no_char (c : Z) (s : list Z) : Prop := Forall (fun x => x <> c) s.

Lemma split_on_aux_nosep sep s cur :
  no_char sep s -> split_on_aux sep s cur = [rev cur ++ s].
Proof.
  revert cur. induction s as [|c s IH]; intros cur H; simpl.
  - rewrite app_nil_r. reflexivity.
  - inversion H; subst. destruct (c =? sep) eqn:E; [apply Z.eqb_eq in E; contradiction|].
    rewrite IH by assumption. simpl. rewrite <- app_assoc. reflexivity.
Qed.

Lemma split_on_aux_app sep a s cur :
  no_char sep a -> split_on_aux sep (a ++ sep :: s) cur = (rev cur ++ a) :: split_on_aux sep s [].
Proof.
  revert cur. induction a as [|c a IH]; intros cur H; simpl.
  - rewrite Z.eqb_refl, app_nil_r. reflexivity.
  - inversion H; subst. destruct (c =? sep) eqn:E; [apply Z.eqb_eq in E; contradiction|].
    rewrite IH by assumption. simpl. rewrite <- app_assoc. reflexivity.
Qed.

Lemma split_on_join sep l :
  l <> [] -> Forall (no_char sep) l -> split_on sep (join sep l) = l.
Proof.
  unfold split_on. induction l as [|x l IH]; intros Hne Hall; [contradiction|].
  inversion Hall; subst. destruct l as [|y l].
  - simpl. rewrite split_on_aux_nosep by assumption. reflexivity.
  - change (join sep (x :: y :: l)) with (x ++ sep :: join sep (y :: l)).
    rewrite split_on_aux_app by assumption. simpl rev. simpl app. f_equal.
    apply IH; [discriminate|assumption].
Qed.

(* cut_colon *)
Lemma cut_colon_spec s acc :
  (no_char colon s /\ cut_colon s acc = (rev acc ++ s, None))
  \/ (exists a r, s = a ++ colon :: r /\ no_char colon a /\ cut_colon s acc = (rev acc ++ a, Some r)).
Proof.
  revert acc. induction s as [|c s IH]; intros acc; simpl.
  - left. split; [constructor|]. rewrite app_nil_r. reflexivity.
  - destruct (c =? colon) eqn:E.
    + apply Z.eqb_eq in E. subst c. right. exists [], s. repeat split; [constructor|].
      rewrite app_nil_r. reflexivity.
    + apply Z.eqb_neq in E. destruct (IH (c :: acc)) as [[N C]|(a & r & Es & N & C)].
      * left. split; [constructor; assumption|]. rewrite C. simpl. rewrite <- app_assoc. reflexivity.
      * right. exists (c :: a), r. subst s. repeat split; [constructor; assumption|].
        rewrite C. simpl. rewrite <- app_assoc. reflexivity.
Qed.

Lemma parse_action_spec a act : parse_action a = Some act <-> a = action_str act.
Proof.
  unfold parse_action.
  destruct (str_eqb a str_read) eqn:E1; [apply str_eqb_eq in E1; subst|].
  { split; [intros H; inversion H; reflexivity|]. destruct act; intros H; try discriminate H; reflexivity. }
  destruct (str_eqb a str_actuate) eqn:E2; [apply str_eqb_eq in E2; subst|].
  { split; [intros H; inversion H; reflexivity|]. destruct act; intros H; try discriminate H; reflexivity. }
  destruct (str_eqb a str_provide) eqn:E3; [apply str_eqb_eq in E3; subst|].
  { split; [intros H; inversion H; reflexivity|]. destruct act; intros H; try discriminate H; reflexivity. }
  destruct (str_eqb a str_create) eqn:E4; [apply str_eqb_eq in E4; subst|].
  { split; [intros H; inversion H; reflexivity|]. destruct act; intros H; try discriminate H; reflexivity. }
  split; [discriminate|]. intros ->.
  destruct act; simpl in *; rewrite str_eqb_refl in *; discriminate.
Qed.

Lemma action_str_no_colon act : no_char colon (action_str act).
Proof. destruct act; repeat constructor; discriminate. Qed.

Lemma alnum_not_sep c : is_alnum c = true -> c <> dot /\ c <> colon /\ c <> star.
Proof.
  unfold is_alnum, is_upper, is_lower, is_digit, dot, colon, star. intros H.
  repeat (apply orb_true_iff in H; destruct H as [H|H]); apply andb_true_iff in H; lia.
Qed.

Lemma is_name_chars n : is_name n = true -> no_char dot n /\ no_char colon n /\ n <> [star].
Proof.
  destruct n as [|c r]; [discriminate|]. simpl. intros H. apply andb_true_iff in H. destruct H as [U A].
  assert (Hc : is_alnum c = true) by (unfold is_alnum; rewrite U; reflexivity).
  rewrite forallb_forall in A.
  repeat split.
  - constructor; [apply (alnum_not_sep c Hc)|]. apply Forall_forall. intros x Hx. apply (alnum_not_sep x (A x Hx)).
  - constructor; [apply (alnum_not_sep c Hc)|]. apply Forall_forall. intros x Hx. apply (alnum_not_sep x (A x Hx)).
  - intros E. inversion E; subst. apply (alnum_not_sep star Hc). reflexivity.
Qed.

Lemma parse_seg_sound s x : parse_seg s = Some x -> seg_str x = s /\ wf_seg x.
Proof.
  unfold parse_seg. destruct s as [|c [|d r]].
  - simpl. discriminate.
  - destruct (c =? star) eqn:E.
    + intros H. inversion H; subst. apply Z.eqb_eq in E. subst. simpl. auto.
    + destruct (is_name [c]) eqn:N; [|discriminate]. intros H. inversion H; subst. simpl. auto.
  - destruct (is_name (c :: d :: r)) eqn:N; [|discriminate]. intros H. inversion H; subst. simpl. auto.
Qed.

Lemma parse_seg_complete x : wf_seg x -> parse_seg (seg_str x) = Some x.
Proof.
  destruct x as [n|]; simpl; [|reflexivity]. intros N.
  destruct (is_name_chars n N) as (_ & _ & Hs).
  unfold parse_seg. destruct n as [|c [|d r]]; [discriminate| |rewrite N; reflexivity].
  destruct (c =? star) eqn:E; [apply Z.eqb_eq in E; subst; contradiction|]. rewrite N. reflexivity.
Qed.

Lemma parse_segs_sound l segs :
  parse_segs l = Some segs -> map seg_str segs = l /\ Forall wf_seg segs.
Proof.
  revert segs. induction l as [|s l IH]; intros segs H; simpl in H.
  - inversion H; subst. split; [reflexivity|constructor].
  - destruct (parse_seg s) eqn:E1; [|discriminate]. destruct (parse_segs l) eqn:E2; [|discriminate].
    inversion H; subst. destruct (parse_seg_sound _ _ E1) as [A B]. destruct (IH _ eq_refl) as [C D].
    simpl. rewrite A, C. split; [reflexivity|constructor; assumption].
Qed.

Lemma parse_segs_complete segs : Forall wf_seg segs -> parse_segs (map seg_str segs) = Some segs.
Proof.
  induction 1 as [|x l Hx Hl IH]; simpl; [reflexivity|].
  rewrite (parse_seg_complete x Hx), IH. reflexivity.
Qed.

Lemma seg_str_no_dot x : wf_seg x -> no_char dot (seg_str x).
Proof.
  destruct x as [n|]; simpl; [intros N; apply (is_name_chars n N)|].
  intros _. repeat constructor. discriminate.
Qed.

Lemma first_sep_unique c l rest a r :
  no_char c l -> no_char c a -> l ++ c :: rest = a ++ c :: r -> a = l /\ r = rest.
Proof.
  revert a. induction l as [|x l IH]; intros a Nl Na E.
  - destruct a as [|y a]; simpl in E; [inversion E; auto|].
    inversion E; subst. inversion Na; subst. contradiction.
  - inversion Nl as [|x' l' Hx Hl]; subst. destruct a as [|y a]; simpl in E.
    + inversion E; subst. contradiction.
    + inversion E; subst. inversion Na as [|y' a' Hy Ha]; subst.
      destruct (IH a Hl Ha H1) as [-> ->]. auto.
Qed.

(* only well-formed chunks are accepted, and they mean what they spell *)
Theorem grammar_sound c sc : parse_one c = Some sc -> wf_scope sc /\ c = render sc.
Proof.
  unfold parse_one. destruct (cut_colon_spec c []) as [[N C]|(a & r & Ec & N & C)]; rewrite C; simpl.
  - destruct (parse_action c) eqn:A; [|discriminate]. intros H. inversion H; subst.
    apply parse_action_spec in A. unfold wf_scope, render. simpl. rewrite app_nil_r. auto.
  - destruct (parse_path r) as [segs|] eqn:P; [|discriminate].
    destruct (parse_action a) eqn:A; [|discriminate]. intros H. inversion H; subst.
    apply parse_action_spec in A. unfold parse_path in P. apply parse_segs_sound in P.
    destruct P as [P1 P2]. unfold wf_scope, render. simpl. split.
    + split; [|exact P2]. intros ->. simpl in P1. unfold split_on in P1.
      symmetry in P1. exact (split_on_aux_nonempty dot r [] P1).
    + rewrite A, P1, join_split_on. reflexivity.
Qed.

(* every well-formed scope is accepted *)
Theorem grammar_complete sc : wf_scope sc -> parse_one (render sc) = Some sc.
Proof.
  destruct sc as [act po]. unfold wf_scope, render, parse_one. simpl. intros W.
  destruct po as [segs|].
  - destruct W as [Hne Hall].
    destruct (cut_colon_spec (action_str act ++ colon :: join dot (map seg_str segs)) [])
      as [[N C]|(a & r & Ec & N & C)].
    + exfalso. unfold no_char in N. rewrite Forall_forall in N.
      apply (N colon); [|reflexivity]. apply in_or_app. right. left. reflexivity.
    + (* the first colon is the one after the action *)
      destruct (first_sep_unique colon _ _ _ _ (action_str_no_colon act) N Ec) as [-> ->].
      rewrite C. simpl. unfold parse_path. rewrite split_on_join.
      * rewrite (parse_segs_complete segs Hall). rewrite (proj2 (parse_action_spec _ act) eq_refl). reflexivity.
      * destruct segs; [contradiction|discriminate].
      * apply Forall_forall. intros s Hs. apply in_map_iff in Hs. destruct Hs as (x & <- & Hx).
        rewrite Forall_forall in Hall. apply seg_str_no_dot. auto.
  - rewrite app_nil_r.
    destruct (cut_colon_spec (action_str act) []) as [[N C]|(a & r & Ec & N & C)].
    + rewrite C. simpl. rewrite (proj2 (parse_action_spec _ act) eq_refl). reflexivity.
    + exfalso. pose proof (action_str_no_colon act) as NA. rewrite Ec in NA. unfold no_char in NA.
      rewrite Forall_forall in NA. apply (NA colon); [|reflexivity]. apply in_or_app. right. left. reflexivity.
Qed.

Example grammar_nonvacuous :
  parse_scope [114;101;97;100;58;86;46;42;32;99;114;101;97;116;101] (* "read:V.* create" *)
  = Some [{| sc_action := ARead; sc_path := Some [SName [86]; SStar] |};
          {| sc_action := ACreate; sc_path := None |}]
  /\ parse_scope [114;101;97;100;58;118] = None (* "read:v" *)
  /\ covers [SName [86]; SStar] [[86]; [83]] = true
  /\ covers [SName [86]; SStar] [[86]; [83]; [88]] = false
  /\ covers [SName [86]; SName [83]] [[86]; [83; 76]] = false.
Proof. vm_compute. auto. Qed.

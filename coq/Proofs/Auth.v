(* Proofs/Auth.v — C06: with authorization enabled nothing is served, and nothing changes, unless
   the request carries a token that is RS256-signed by the configured key, intact, complete,
   addressed to kuksa.val, unexpired, with a valid scope, under the Bearer scheme. *)
From Coq Require Import ZArith Lia Bool List.
From KD Require Import Model.Values Model.Auth.
Open Scope Z_scope.

Theorem admitted_iff t :
  admitted (HToken t) = true <->
  t_alg t = 0 /\ t_key t = 0 /\ t_sig t = 0 /\ t_claims t = 0 /\ (t_aud t = 0 \/ t_aud t = 2)
  /\ 0 < t_exp t /\ t_scope t = 0 /\ t_scheme t = 0.
Proof.
  cbn [admitted]. unfold token_ok. rewrite !andb_true_iff, orb_true_iff, !Z.eqb_eq, Z.ltb_lt. tauto.
Qed.

Theorem no_token_not_admitted : admitted HNone = false /\ admitted HGarbage = false /\ admitted HEmpty = false.
Proof. repeat split. Qed.

Theorem refused_unless_admitted st rpc k h :
  admitted h = false -> call true st rpc k h = (st, UNAUTHENTICATED).
Proof. intros H. unfold call. rewrite H. reflexivity. Qed.

(* changing any one part of an admitted token invalidates it *)
Theorem tampering_invalidates t t' :
  admitted (HToken t) = true ->
  t_alg t' <> t_alg t \/ t_key t' <> t_key t \/ t_sig t' <> t_sig t \/ t_claims t' <> t_claims t
  \/ t_scope t' <> t_scope t \/ t_scheme t' <> t_scheme t \/ t_exp t' <= 0
  \/ (t_aud t' <> 0 /\ t_aud t' <> 2) ->
  admitted (HToken t') = false.
Proof.
  intros A M. apply admitted_iff in A. destruct A as (A1 & A2 & A3 & A4 & A5 & A6 & A7 & A8).
  destruct (admitted (HToken t')) eqn:E; [|reflexivity]. exfalso.
  apply admitted_iff in E. destruct E as (E1 & E2 & E3 & E4 & E5 & E6 & E7 & E8). lia.
Qed.

(* with authorization disabled every request is served as with full rights, whatever it carries *)
Theorem disabled_serves_all st rpc k h : call false st rpc k h = serve st rpc k.
Proof. reflexivity. Qed.

Theorem admitted_is_served st rpc k h : admitted h = true -> call true st rpc k h = serve st rpc k.
Proof. intros H. unfold call. rewrite H. reflexivity. Qed.

Theorem served_is_never_an_access_error st rpc k :
  snd (serve st rpc k) <> UNAUTHENTICATED /\ snd (serve st rpc k) <> PERMISSION_DENIED.
Proof.
  unfold serve, served_code. cbn [snd]. destruct ((rpc =? 9) || (rpc =? 10)); split; discriminate.
Qed.

Example a_good_token_is_admitted :
  admitted (HToken {| t_alg := 0; t_key := 0; t_sig := 0; t_claims := 0; t_aud := 0; t_exp := 3600;
                      t_scope := 0; t_scheme := 0 |}) = true.
Proof. reflexivity. Qed.

(* whatever a token was, once its expiry instant has passed it is not admitted - also when the very same header
   text was admitted a moment ago (no verdict may be remembered beyond the token's life) *)
Lemma expired_never_admitted h : admitted (expire h) = false.
Proof.
  destruct h as [| t | |]; try reflexivity. unfold expire, admitted, token_ok. cbn.
  repeat rewrite andb_false_r || rewrite andb_false_l. 
  destruct (t_alg t =? 0), (t_key t =? 0), (t_sig t =? 0), (t_claims t =? 0), ((t_aud t =? 0) || (t_aud t =? 2)); reflexivity.
Qed.

Lemma reuse_after_expiry_refused st rpc k h : snd (call true st rpc k (expire h)) = UNAUTHENTICATED.
Proof. unfold call. rewrite expired_never_admitted. reflexivity. Qed.

(* Proofs/Query.v — C12: what `compile` accepts is well-typed and fully resolved; what lies
   outside the subset or names an unknown signal is refused; `execute` agrees with the SQL
   reading of the condition over the exact numbers; a subscription is notified exactly when one
   of its input signals changed and its condition holds; LAG reads the value before the change. *)
From Coq Require Import ZArith Reals Lia Lra Bool List.
From Flocq Require Import Core.
From KD Require Import Model.Values Model.Compare Model.Validate Model.Perm Model.Glob Model.Broker
     Model.BrokerRun Model.FloatLit Model.Query Model.QueryRun
     Proofs.CompareFloat Proofs.Compare Proofs.Broker.
Open Scope Z_scope.

(* ================= 1. accepted queries are well-typed and resolved ================= *)
Definition lit_okb (v : value) (dt : data_type) : bool :=
  match dt, v with
  | TString, VStr _ => true
  | TBool, VBool _ => true
  | TInt8, VI32 z => in_i8 z
  | TInt16, VI32 z => in_i16 z
  | TInt32, VI32 z => in_i32 z
  | TInt64, VI64 z => in_i64 z
  | TUint8, VU32 z => in_u8 z
  | TUint16, VU32 z => in_u16 z
  | TUint32, VU32 z => in_u32 z
  | TUint64, VU64 z => in_u64 z
  | TFloat, VF32 _ => true
  | TDouble, VF64 _ => true
  | _, _ => false
  end.

Fixpoint wtb (e : cexpr) : bool :=
  match e with
  | CDp _ _ _ => true
  | CUnres _ => false
  | CLit v dt => lit_okb v dt
  | CBin op l r =>
    wtb l && wtb r &&
    match op with
    | OAnd | OOr => is_bool_type (get_type l) && is_bool_type (get_type r)
    | OOther => false
    | _ => comparable (is_ordering op) (get_type l) (get_type r)
    end
  | CNot a => wtb a && is_bool_type (get_type a)
  | CBetween a _ lo hi =>
    wtb a && wtb lo && wtb hi
    && comparable true (get_type a) (get_type lo) && comparable true (get_type a) (get_type hi)
  end.

(* no unresolved literal anywhere: Expr::execute's debug_assert arm is unreachable *)
Fixpoint no_unres (e : cexpr) : bool :=
  match e with
  | CDp _ _ _ | CLit _ _ => true
  | CUnres _ => false
  | CBin _ l r => no_unres l && no_unres r
  | CNot a => no_unres a
  | CBetween a _ lo hi => no_unres a && no_unres lo && no_unres hi
  end.

Lemma wtb_no_unres e : wtb e = true -> no_unres e = true.
Proof.
  induction e as [n dt lag|l|v dt|op l IHl r IHr|a IHa|a IHa neg lo IHlo hi IHhi]; cbn [wtb no_unres]; intros H;
    try reflexivity; try discriminate.
  - apply andb_prop in H. destruct H as [H _]. apply andb_prop in H. destruct H as [Hl Hr].
    rewrite (IHl Hl), (IHr Hr). reflexivity.
  - apply andb_prop in H. destruct H as [H _]. auto.
  - repeat (apply andb_prop in H; destruct H as [H ?]).
    rewrite IHa, IHlo, IHhi by assumption. reflexivity.
Qed.

Definition wt_or_lit (c : cexpr) : Prop := wtb c = true \/ exists l, c = CUnres l.

Lemma int_lit_wt l rng mk dt c :
  (forall z, rng z = true -> lit_okb (mk z) dt = true) ->
  int_lit l rng mk dt = Ok c -> wtb c = true /\ get_type c = Some dt.
Proof.
  intros Hok. unfold int_lit. destruct (lit_int l) as [z|]; [|discriminate].
  destruct (rng z) eqn:R; [|discriminate]. intros H. inversion H; subst. cbn [wtb get_type]. auto.
Qed.

Lemma resolve_literal_wt l t c :
  resolve_literal l t = Ok c -> wtb c = true /\ get_type c = Some t.
Proof.
  destruct t; cbn [resolve_literal]; try discriminate;
    try (apply int_lit_wt; intros z Hz; exact Hz).
  - destruct (parse_f32 l); [|discriminate]. intros H; inversion H; subst. cbn. auto.
  - destruct (parse_f64 l); [|discriminate]. intros H; inversion H; subst. cbn. auto.
Qed.

Lemma to_type_error_ok {A} (r : res A) a : to_type_error r = Ok a -> r = Ok a.
Proof. destruct r as [x|[]]; cbn; intros H; try discriminate; exact H. Qed.

Lemma resolve_both_wt a b l r :
  resolve_both a b = Ok (l, r) ->
  wtb l = true /\ wtb r = true /\ exists t, numeric_type t = true /\ get_type l = Some t /\ get_type r = Some t.
Proof.
  unfold resolve_both.
  assert (F : match parse_f64 a, parse_f64 b with
              | Some p, Some q => Ok (CLit (VF64 p) TDouble, CLit (VF64 q) TDouble)
              | _, _ => Err EUnmodelled end = Ok (l, r) ->
              wtb l = true /\ wtb r = true /\
              exists t, numeric_type t = true /\ get_type l = Some t /\ get_type r = Some t).
  { destruct (parse_f64 a); [|discriminate]. destruct (parse_f64 b); [|discriminate].
    intros H; inversion H; subst. cbn. repeat split; try reflexivity. exists TDouble. auto. }
  destruct (lit_int a) as [x|]; [|exact F]. destruct (lit_int b) as [y|]; [|exact F].
  destruct (in_i64 x && in_i64 y) eqn:I.
  - apply andb_prop in I. destruct I as [Ix Iy]. intros H; inversion H; subst. cbn [wtb lit_okb get_type].
    repeat split; try assumption. exists TInt64. auto.
  - destruct (in_u64 x && in_u64 y) eqn:U; [|exact F].
    apply andb_prop in U. destruct U as [Ux Uy]. intros H; inversion H; subst. cbn [wtb lit_okb get_type].
    repeat split; try assumption. exists TUint64. auto.
Qed.

Lemma get_type_none c : get_type c = None -> exists l, c = CUnres l.
Proof. destruct c; cbn; intros H; try discriminate. eauto. Qed.

Lemma resolve_pair_wt l r l' r' :
  wt_or_lit l -> wt_or_lit r -> resolve_pair l r = Ok (l', r') -> wtb l' = true /\ wtb r' = true.
Proof.
  intros Wl Wr. unfold resolve_pair.
  destruct l as [n dt lag|a|v dt|op x y|x|x neg lo hi].
  all: destruct r as [n2 dt2 lag2|b|v2 dt2|op2 x2 y2|x2|x2 neg2 lo2 hi2].
  all: try (intros H; inversion H; subst;
            destruct Wl as [Wl|[? Wl]]; [|discriminate Wl];
            destruct Wr as [Wr|[? Wr]]; [|discriminate Wr]; auto; fail).
  all: try (intros H; apply resolve_both_wt in H; destruct H as (? & ? & _); auto; fail).
  all: cbn [get_type];
    match goal with
    | |- context [to_type_error (resolve_literal ?a ?t)] =>
      destruct (to_type_error (resolve_literal a t)) as [c|] eqn:E; [|discriminate];
      apply to_type_error_ok in E; apply resolve_literal_wt in E; destruct E as [E _];
      intros H; inversion H; subst
    end.
  all: try (destruct Wr as [Wr|[? Wr]]; [|discriminate Wr]; auto; fail).
  all: try (destruct Wl as [Wl|[? Wl]]; [|discriminate Wl]; auto; fail).
Qed.

Section CompileFacts.
  Variable schema : list Z -> option data_type.

  Lemma compile_expr_wt e c : compile_expr schema e = Ok c -> wt_or_lit c.
  Proof.
    revert c. induction e as [l|s|b|p|a IHa|n| |op l IHl r IHr|a IHa|a IHa|a IHa|a IHa neg lo IHlo hi IHhi| | ];
      intros c; cbn [compile_expr]; try discriminate.
    - intros H; inversion H. right. eauto.
    - intros H; inversion H. left. reflexivity.
    - intros H; inversion H. left. reflexivity.
    - destruct (schema p); [|discriminate]. intros H; inversion H. left. reflexivity.
    - destruct (compile_expr schema a) as [[n dt [|]|?|? ?|? ? ?|?|? ? ? ?]|]; try discriminate.
      intros H; inversion H. left. reflexivity.
    - destruct (compile_expr schema l) as [l1|]; [|discriminate].
      destruct (compile_expr schema r) as [r1|]; [|discriminate].
      destruct (resolve_pair l1 r1) as [[l2 r2]|] eqn:RP; [|discriminate].
      destruct (resolve_pair_wt _ _ _ _ (IHl _ eq_refl) (IHr _ eq_refl) RP) as [Wl Wr].
      destruct op; try discriminate.
      1,2: destruct (is_bool_type (get_type l2) && is_bool_type (get_type r2)) eqn:B; [|discriminate];
           intros H; inversion H; left; cbn [wtb]; rewrite Wl, Wr, B; reflexivity.
      all: match goal with |- context [comparable ?o ?x ?y] => destruct (comparable o x y) eqn:B end;
           [|discriminate]; intros H; inversion H; left; cbn [wtb]; rewrite Wl, Wr; cbn [andb]; exact B.
    - exact (IHa c).
    - destruct (compile_expr schema a) as [a1|]; [|discriminate].
      destruct (is_bool_type (get_type a1)) eqn:B; [|discriminate].
      intros H; inversion H. left. cbn [wtb]. rewrite B.
      destruct (IHa _ eq_refl) as [W|[l E]]; [rewrite W; reflexivity|]. subst. discriminate B.
    - destruct (compile_expr schema a) as [a1|]; [|discriminate].
      destruct (compile_expr schema lo) as [lo1|]; [|discriminate].
      destruct (compile_expr schema hi) as [hi1|]; [|discriminate].
      specialize (IHa _ eq_refl). specialize (IHlo _ eq_refl). specialize (IHhi _ eq_refl).
      set (a2 := match a1 with
                 | CUnres l => match (match get_type lo1 with Some t => Some t | None => get_type hi1 end) with
                               | Some t => to_type_error (resolve_literal l t)
                               | None => Err ETypeError
                               end
                 | _ => Ok a1
                 end).
      assert (Wa : forall a3, a2 = Ok a3 -> wtb a3 = true).
      { intros a3. subst a2. destruct a1; try (intros H; inversion H; subst; destruct IHa as [W|[? E]];
          [exact W|discriminate E]).
        destruct (match get_type lo1 with Some t => Some t | None => get_type hi1 end) as [t|]; [|discriminate].
        intros H. apply to_type_error_ok in H. apply resolve_literal_wt in H. apply H. }
      destruct a2 as [a3|]; [|discriminate]. specialize (Wa _ eq_refl).
      destruct (get_type a3) as [t|] eqn:T; [|discriminate].
      assert (Wb : forall b b', wt_or_lit b ->
                match b with CUnres l => to_type_error (resolve_literal l t) | _ => Ok b end = Ok b' ->
                wtb b' = true).
      { intros b b' W. destruct b; try (intros H; inversion H; subst; destruct W as [W|[? E]];
          [exact W|discriminate E]).
        intros H. apply to_type_error_ok in H. apply resolve_literal_wt in H. apply H. }
      destruct (match lo1 with CUnres l => to_type_error (resolve_literal l t) | _ => Ok lo1 end) as [lo2|] eqn:Elo;
        [|discriminate].
      destruct (match hi1 with CUnres l => to_type_error (resolve_literal l t) | _ => Ok hi1 end) as [hi2|] eqn:Ehi;
        [|discriminate].
      destruct (comparable true (Some t) (get_type lo2) && comparable true (Some t) (get_type hi2)) eqn:Cmp;
        [|discriminate].
      apply andb_prop in Cmp. destruct Cmp as [C1 C2].
      intros H; inversion H. left. cbn [wtb]. rewrite Wa, (Wb _ _ IHlo Elo), (Wb _ _ IHhi Ehi), T, C1, C2.
      reflexivity.
  Qed.

  Lemma compile_proj_wt l cs :
    compile_proj schema l = Ok cs -> Forall (fun '(e, _) => wtb e = true) cs.
  Proof.
    revert cs. induction l as [|it r IH]; intros cs; cbn [compile_proj].
    - intros H; inversion H. constructor.
    - set (one := match it with
                  | PExpr e => match compile_expr schema e with Ok c => Ok (c, None) | Err x => Err x end
                  | PAlias e a => match compile_expr schema e with Ok c => Ok (c, Some a) | Err x => Err x end
                  | PWild => Err EUnsupportedOperation
                  end).
      assert (W : forall c a, one = Ok (c, a) -> wt_or_lit c).
      { intros c a. subst one. destruct it as [e|e al|].
        - destruct (compile_expr schema e) eqn:E; [|discriminate]. intros H; inversion H; subst.
          exact (compile_expr_wt _ _ E).
        - destruct (compile_expr schema e) eqn:E; [|discriminate]. intros H; inversion H; subst.
          exact (compile_expr_wt _ _ E).
        - discriminate. }
      destruct one as [[c a]|]; [|discriminate]. specialize (W _ _ eq_refl).
      destruct (get_type c) eqn:T; [|discriminate].
      destruct (compile_proj schema r) as [cs'|]; [|discriminate].
      intros H; inversion H. constructor; [|apply IH; reflexivity].
      destruct W as [W|[l' E]]; [exact W|]. subst. discriminate T.
  Qed.

  Theorem compile_query_wt q cq :
    compile_query schema q = Ok cq ->
    (forall w, c_where cq = Some w -> wtb w = true /\ get_type w = Some TBool)
    /\ Forall (fun '(e, _) => wtb e = true) (c_proj cq).
  Proof.
    unfold compile_query. destruct (q_extra q); [discriminate|].
    destruct (q_where q) as [w|].
    - destruct (compile_expr schema w) as [c|] eqn:E; [|discriminate].
      destruct (is_bool_type (get_type c)) eqn:B; [|discriminate].
      destruct (compile_proj schema (q_proj q)) as [p|] eqn:P; [|discriminate].
      intros H; inversion H; subst. cbn [c_where c_proj]. split; [|exact (compile_proj_wt _ _ P)].
      intros w' H'. inversion H'; subst.
      destruct (get_type w') as [[]|] eqn:T; try discriminate B. split; [|reflexivity].
      destruct (compile_expr_wt _ _ E) as [W|[l El]]; [exact W|]. subst. discriminate T.
    - destruct (compile_proj schema (q_proj q)) as [p|] eqn:P; [|discriminate].
      intros H; inversion H; subst. cbn [c_where c_proj]. split; [discriminate|exact (compile_proj_wt _ _ P)].
  Qed.

  (* ================= 2. refusals ================= *)
  (* constructs outside the supported subset *)
  Fixpoint outside (e : qexpr) : bool :=
    match e with
    | QLagN _ | QFun | QNeg _ | QOther | QSub => true
    | QNum _ | QStr _ | QBool _ | QIdent _ => false
    | QLag a | QNested a | QNot a => outside a
    | QBin op l r => match op with OOther => true | _ => outside l || outside r end
    | QBetween a _ lo hi => outside a || outside lo || outside hi
    end.

  (* a signal name that the schema does not know *)
  Fixpoint unknown_signal (e : qexpr) : bool :=
    match e with
    | QIdent p => match schema p with Some _ => false | None => true end
    | QNum _ | QStr _ | QBool _ | QLagN _ | QFun | QOther | QSub => false
    | QLag a | QNested a | QNot a | QNeg a => unknown_signal a
    | QBin _ l r => unknown_signal l || unknown_signal r
    | QBetween a _ lo hi => unknown_signal a || unknown_signal lo || unknown_signal hi
    end.

  Definition refused {A} (r : res A) : Prop := exists x, r = Err x.

  Lemma refused_err {A} (x : cerr) : @refused A (Err x).
  Proof. exists x. reflexivity. Qed.

  Lemma outside_or_unknown_refused e :
    outside e = true \/ (unknown_signal e = true /\ outside e = false) -> refused (compile_expr schema e).
  Proof.
    induction e as [l|s|b|p|a IHa|n| |op l IHl r IHr|a IHa|a IHa|a IHa|a IHa neg lo IHlo hi IHhi| | ];
      cbn [compile_expr outside unknown_signal]; intros H.
    all: try (destruct H as [H|[H _]]; discriminate H).
    all: try (apply refused_err).
    - destruct H as [H|[H _]]; [discriminate|]. destruct (schema p); [discriminate|apply refused_err].
    - destruct (IHa H) as [x E]. rewrite E. apply refused_err.
    - destruct (compile_expr schema l) as [l1|x] eqn:El; [|apply refused_err].
      destruct (compile_expr schema r) as [r1|x] eqn:Er; [|apply refused_err].
      assert (Hsub : op = OOther \/ refused (Ok l1 : res cexpr) \/ refused (Ok r1 : res cexpr)).
      { destruct op; try (left; reflexivity); right.
        all: destruct H as [H|[H O]];
          [ apply orb_prop in H; destruct H as [H|H]; [left; apply IHl|right; apply IHr]; left; exact H
          | apply orb_false_elim in O; destruct O as [O1 O2];
            apply orb_prop in H; destruct H as [H|H]; [left; apply IHl|right; apply IHr]; right; auto ]. }
      destruct Hsub as [->|[[x E]|[x E]]]; try discriminate E.
      destruct (resolve_pair l1 r1) as [[l2 r2]|x]; apply refused_err.
    - exact (IHa H).
    - destruct (IHa H) as [x E]. rewrite E. apply refused_err.
    - destruct (compile_expr schema a) as [a1|x] eqn:Ea; [|apply refused_err].
      destruct (compile_expr schema lo) as [lo1|x] eqn:Elo; [|apply refused_err].
      destruct (compile_expr schema hi) as [hi1|x] eqn:Ehi; [|apply refused_err].
      exfalso.
      assert (Hsub : refused (Ok a1 : res cexpr) \/ refused (Ok lo1 : res cexpr) \/ refused (Ok hi1 : res cexpr)).
      { destruct H as [H|[H O]].
        - apply orb_prop in H. destruct H as [H|H]; [apply orb_prop in H; destruct H as [H|H]|].
          + left. apply IHa. left. exact H.
          + right. left. apply IHlo. left. exact H.
          + right. right. apply IHhi. left. exact H.
        - apply orb_false_elim in O. destruct O as [O O3]. apply orb_false_elim in O. destruct O as [O1 O2].
          apply orb_prop in H. destruct H as [H|H]; [apply orb_prop in H; destruct H as [H|H]|].
          + left. apply IHa. right. auto.
          + right. left. apply IHlo. right. auto.
          + right. right. apply IHhi. right. auto. }
      destruct Hsub as [[x E]|[[x E]|[x E]]]; discriminate E.
  Qed.

  Corollary outside_refused e : outside e = true -> refused (compile_expr schema e).
  Proof. intros H. apply outside_or_unknown_refused. left. exact H. Qed.

  Corollary unknown_signal_refused e : unknown_signal e = true -> refused (compile_expr schema e).
  Proof.
    intros H. apply outside_or_unknown_refused. destruct (outside e) eqn:O; [left; reflexivity|right; auto].
  Qed.

  Definition item_expr (it : pitem) : option qexpr :=
    match it with PExpr e | PAlias e _ => Some e | PWild => None end.

  Definition bad_expr (e : qexpr) : bool := outside e || unknown_signal e.

  Definition bad_query (q : query) : bool :=
    q_extra q
    || match q_where q with Some w => bad_expr w | None => false end
    || existsb (fun it => match item_expr it with Some e => bad_expr e | None => true end) (q_proj q).

  Lemma bad_expr_refused e : bad_expr e = true -> refused (compile_expr schema e).
  Proof.
    unfold bad_expr. intros H. apply orb_prop in H. destruct H as [H|H];
      [apply outside_refused|apply unknown_signal_refused]; exact H.
  Qed.

  Lemma bad_proj_refused l :
    existsb (fun it => match item_expr it with Some e => bad_expr e | None => true end) l = true ->
    refused (compile_proj schema l).
  Proof.
    induction l as [|it r IH]; cbn [existsb compile_proj]; [discriminate|].
    intros H. apply orb_prop in H. destruct H as [H|H].
    - destruct it as [e|e a|]; cbn [item_expr] in H.
      + destruct (bad_expr_refused e H) as [x E]. rewrite E. apply refused_err.
      + destruct (bad_expr_refused e H) as [x E]. rewrite E. apply refused_err.
      + apply refused_err.
    - destruct (match it with
                | PExpr e => match compile_expr schema e with Ok c => Ok (c, None) | Err x => Err x end
                | PAlias e a => match compile_expr schema e with Ok c => Ok (c, Some a) | Err x => Err x end
                | PWild => Err EUnsupportedOperation
                end) as [[c a]|x]; [|apply refused_err].
      destruct (get_type c); [|apply refused_err].
      destruct (IH H) as [x E]. rewrite E. apply refused_err.
  Qed.

  Theorem bad_query_refused q : bad_query q = true -> refused (compile_query schema q).
  Proof.
    unfold bad_query, compile_query. intros H. destruct (q_extra q); [apply refused_err|]. cbn [orb] in H.
    apply orb_prop in H. destruct H as [H|H].
    - destruct (q_where q) as [w|]; [|discriminate].
      destruct (bad_expr_refused w H) as [x E]. rewrite E. apply refused_err.
    - destruct (match q_where q with
                | None => Ok None
                | Some w => match compile_expr schema w with
                            | Err x => Err x
                            | Ok c => if is_bool_type (get_type c) then Ok (Some c) else Err ETypeError
                            end
                end) as [w|x]; [|apply refused_err].
      destruct (bad_proj_refused _ H) as [x E]. rewrite E. apply refused_err.
  Qed.
End CompileFacts.

(* ================= 3. execution against the SQL reading ================= *)
Definition is_term (e : cexpr) : bool := match e with CDp _ _ _ | CLit _ _ => true | _ => false end.

Section Semantics.
  Variable rho : list Z -> value * value.

  Definition tval (e : cexpr) : value :=
    match e with
    | CDp n _ lag => if lag then snd (rho n) else fst (rho n)
    | CLit v _ => v
    | _ => VNA
    end.

  Lemma exec_term e : is_term e = true -> exec rho e = Some (tval e).
  Proof. destruct e; cbn; intros H; try discriminate; reflexivity. Qed.

  (* a > b over the exact numbers *)
  Definition sql_gt (a b : value) : Prop :=
    exists xa xb, xval a = Some xa /\ xval b = Some xb /\ xgt xa xb.

  (* a = b: on numbers, `up` is the liberal reading (equal up to the broker's float tolerance),
     its negation the strict one (the very same number) *)
  Definition sql_eq (up : bool) (a b : value) : Prop :=
    match a, b with
    | VBool x, VBool y => x = y
    | VStr x, VStr y => x = y
    | _, _ => exists xa xb, xval a = Some xa /\ xval b = Some xb /\
                            if up then xclose (veps a b) xa xb else exists v, xa = XFin v /\ xb = XFin v
    end.

  Definition sql_cmp (up : bool) (op : binop) (a b : value) : Prop :=
    match op with
    | OGt => sql_gt a b
    | OLt => sql_gt b a
    | OGe => sql_gt a b \/ sql_eq up a b
    | OLe => sql_gt b a \/ sql_eq up a b
    | OEq => sql_eq up a b
    | ONe => ~ sql_eq (negb up) a b
    | _ => False
    end.

  Definition inside (up : bool) (a lo hi : value) : Prop :=
    sql_cmp up OGe a lo /\ sql_cmp up OLe a hi.

  (* the SQL truth of a condition; `up` = liberal reading of float equality, flipped under NOT *)
  Fixpoint holds (up : bool) (e : cexpr) : Prop :=
    match e with
    | CDp _ _ _ | CLit _ _ => tval e = VBool true
    | CUnres _ => False
    | CBin OAnd l r => holds up l /\ holds up r
    | CBin OOr l r => holds up l \/ holds up r
    | CBin op l r => sql_cmp up op (tval l) (tval r)
    | CNot a => ~ holds (negb up) a
    | CBetween a neg lo hi =>
      if neg then ~ inside (negb up) (tval a) (tval lo) (tval hi) else inside up (tval a) (tval lo) (tval hi)
    end.

  (* conditions whose comparisons are between signals and literals *)
  Fixpoint sqlq (e : cexpr) : bool :=
    match e with
    | CDp _ _ _ | CLit _ _ => true
    | CUnres _ => false
    | CBin OAnd l r | CBin OOr l r => sqlq l && sqlq r
    | CBin OOther _ _ => false
    | CBin _ l r => is_term l && is_term r
    | CNot a => sqlq a
    | CBetween a _ lo hi => is_term a && is_term lo && is_term hi
    end.

  Definition wf_rho : Prop := forall n, wf_value (fst (rho n)) /\ wf_value (snd (rho n)).

  Fixpoint lits_wf (e : cexpr) : Prop :=
    match e with
    | CLit v _ => wf_value v
    | CDp _ _ _ | CUnres _ => True
    | CBin _ l r => lits_wf l /\ lits_wf r
    | CNot a => lits_wf a
    | CBetween a _ lo hi => lits_wf a /\ lits_wf lo /\ lits_wf hi
    end.

  Lemma tval_wf e : wf_rho -> lits_wf e -> wf_value (tval e).
  Proof.
    intros R L. destruct e; cbn [tval]; try exact I.
    - destruct lag; apply R.
    - exact L.
  Qed.

  Lemma xval_fun a xa xa' : xval a = Some xa -> xval a = Some xa' -> xa = xa'.
  Proof. intros H1 H2. rewrite H1 in H2. inversion H2. reflexivity. Qed.

  Lemma gt_sound a b r :
    wf_value a -> wf_value b -> gt a b = Some r ->
    (r = true -> sql_gt a b) /\ (r = false -> ~ sql_gt a b).
  Proof.
    intros Wa Wb H. destruct (gt_correct a b r Wa Wb H) as (xa & xb & Ha & Hb & E). split.
    - intros ->. exists xa, xb. repeat split; try assumption. apply E. reflexivity.
    - intros -> (ya & yb & Ha' & Hb' & G).
      rewrite (xval_fun _ _ _ Ha Ha'), (xval_fun _ _ _ Hb Hb') in E.
      apply E in G. discriminate.
  Qed.

  Lemma str_eqb_eq (x y : list Z) : str_eqb x y = true <-> x = y.
  Proof.
    unfold str_eqb. revert y. induction x as [|a x IH]; intros [|b y]; cbn; split; intros H;
      try reflexivity; try discriminate.
    - apply andb_prop in H. destruct H as [H1 H2]. apply Z.eqb_eq in H1. apply IH in H2. subst. reflexivity.
    - inversion H; subst. rewrite Z.eqb_refl. cbn. apply IH. reflexivity.
  Qed.

  Lemma eq_sound a b r :
    wf_value a -> wf_value b -> eq a b = Some r ->
    (r = true -> sql_eq true a b) /\ (r = false -> ~ sql_eq false a b).
  Proof.
    intros Wa Wb H.
    destruct a as [|x|x|x|x|x|x|x|x|x|x|x|x|x|x|x|x], b as [|y|y|y|y|y|y|y|y|y|y|y|y|y|y|y|y].
    all: try (cbn in H; discriminate H).
    (* Bool / Bool and String / String *)
    all: try (cbn in H; inversion H; subst; cbn [sql_eq]; split;
              [ intros E; first [apply eqb_prop in E | apply str_eqb_eq in E]; exact E
              | intros E F; subst; first [rewrite eqb_reflx in E | rewrite (proj2 (str_eqb_eq _ _) eq_refl) in E];
                discriminate E ]; fail).
    (* NotAvailable against a number: answered false, and no number is there *)
    all: try (cbn in H; inversion H; subst; cbn [sql_eq]; split; [discriminate|];
              intros _ (xa & xb & Ha & Hb & _); cbn in Ha, Hb; discriminate; fail).
    (* two numbers *)
    all: cbn [sql_eq]; split.
    all: try (intros ->;
              match goal with
              | |- exists xa xb, xval ?a = Some xa /\ xval ?b = Some xb /\ _ =>
                destruct (xval a) as [xa|] eqn:Ha; [|cbn in Ha; discriminate Ha];
                destruct (xval b) as [xb|] eqn:Hb; [|cbn in Hb; discriminate Hb];
                exists xa, xb; repeat split; exact (eq_tolerance a b xa xb Wa Wb Ha Hb H)
              end).
    all: intros -> (xa & xb & Ha & Hb & v & -> & ->);
         match goal with
         | H : eq ?a ?b = Some false |- _ =>
           pose proof (eq_same a b v false Wa Wb Ha Hb H) as F; discriminate F
         end.
  Qed.

  Lemma ge_sound a b r :
    wf_value a -> wf_value b -> exec_ge a b = Some r ->
    (r = true -> sql_cmp true OGe a b) /\ (r = false -> ~ sql_cmp false OGe a b).
  Proof.
    intros Wa Wb. unfold exec_ge. destruct (gt a b) as [[|]|] eqn:G; [| |discriminate].
    - intros H; inversion H; subst. split; [|discriminate]. intros _. left.
      apply (gt_sound a b true Wa Wb G). reflexivity.
    - intros E. destruct (eq_sound a b r Wa Wb E) as [E1 E2].
      destruct (gt_sound a b false Wa Wb G) as [_ G2]. split.
      + intros Hr. right. exact (E1 Hr).
      + intros Hr [Hg|He]; [exact (G2 eq_refl Hg)|exact (E2 Hr He)].
  Qed.

  Lemma le_sound a b r :
    wf_value a -> wf_value b -> exec_le a b = Some r ->
    (r = true -> sql_cmp true OLe a b) /\ (r = false -> ~ sql_cmp false OLe a b).
  Proof.
    intros Wa Wb. unfold exec_le, lt. destruct (gt b a) as [[|]|] eqn:G; [| |discriminate].
    - intros H; inversion H; subst. split; [|discriminate]. intros _. left.
      apply (gt_sound b a true Wb Wa G). reflexivity.
    - intros E. destruct (eq_sound a b r Wa Wb E) as [E1 E2].
      destruct (gt_sound b a false Wb Wa G) as [_ G2]. split.
      + intros Hr. right. exact (E1 Hr).
      + intros Hr [Hg|He]; [exact (G2 eq_refl Hg)|exact (E2 Hr He)].
  Qed.

  Lemma vbool_inv o b : vbool o = Some (VBool b) -> o = Some b.
  Proof. destruct o; cbn; intros H; inversion H; reflexivity. Qed.

  Lemma cmp_sound op a b r :
    wf_value a -> wf_value b ->
    match op with OAnd | OOr | OOther => False | _ => True end ->
    exec_bin op a b = Some (VBool r) ->
    (r = true -> sql_cmp true op a b) /\ (r = false -> ~ sql_cmp false op a b).
  Proof.
    intros Wa Wb Hop H. destruct op; try contradiction; cbn [exec_bin] in H; apply vbool_inv in H.
    - exact (eq_sound a b r Wa Wb H).
    - destruct (eq a b) as [e|] eqn:E; [|discriminate]. cbn in H. inversion H; subst.
      destruct (eq_sound a b e Wa Wb E) as [E1 E2]. cbn [sql_cmp negb]. split.
      + intros Hr. apply negb_true_iff in Hr. exact (E2 Hr).
      + intros Hr. apply negb_false_iff in Hr. intros F. exact (F (E1 Hr)).
    - exact (gt_sound a b r Wa Wb H).
    - exact (ge_sound a b r Wa Wb H).
    - unfold lt in H. exact (gt_sound b a r Wb Wa H).
    - exact (le_sound a b r Wa Wb H).
  Qed.

  Theorem exec_sound e :
    wf_rho -> lits_wf e -> sqlq e = true ->
    forall b, exec rho e = Some (VBool b) ->
              (b = true -> holds true e) /\ (b = false -> ~ holds false e).
  Proof.
    intros R. induction e as [n dt lag|l|v dt|op l IHl r IHr|a IHa|a IHa neg lo IHlo hi IHhi];
      intros L Q b H.
    - cbn [exec] in H. cbn [holds tval]. inversion H as [H']. rewrite H'. split.
      + intros ->. reflexivity.
      + intros -> F. discriminate F.
    - discriminate Q.
    - cbn [exec] in H. cbn [holds tval]. inversion H; subst. split.
      + intros ->. reflexivity.
      + intros -> F. discriminate F.
    - destruct L as [Ll Lr]. cbn [exec] in H.
      destruct (exec rho l) as [x|] eqn:El; [|discriminate].
      destruct (exec rho r) as [y|] eqn:Er; [|discriminate].
      destruct op.
      + (* AND *)
        cbn [sqlq] in Q. apply andb_prop in Q. destruct Q as [Ql Qr].
        cbn [exec_bin] in H. destruct x as [|bx| | | | | | | | | | | | | | | ]; try discriminate.
        destruct y as [|by_| | | | | | | | | | | | | | | ]; try discriminate. inversion H; subst.
        destruct (IHl Ll Ql bx eq_refl) as [L1 L2]. destruct (IHr Lr Qr by_ eq_refl) as [R1 R2].
        cbn [holds]. split.
        * intros E. apply andb_prop in E. destruct E as [-> ->]. auto.
        * intros E [Hl Hr]. apply andb_false_iff in E. destruct E as [->| ->]; [exact (L2 eq_refl Hl)|exact (R2 eq_refl Hr)].
      + (* OR *)
        cbn [sqlq] in Q. apply andb_prop in Q. destruct Q as [Ql Qr].
        cbn [exec_bin] in H. destruct x as [|bx| | | | | | | | | | | | | | | ]; try discriminate.
        destruct y as [|by_| | | | | | | | | | | | | | | ]; try discriminate. inversion H; subst.
        destruct (IHl Ll Ql bx eq_refl) as [L1 L2]. destruct (IHr Lr Qr by_ eq_refl) as [R1 R2].
        cbn [holds]. split.
        * intros E. apply orb_prop in E. destruct E as [->| ->]; [left|right]; auto.
        * intros E. apply orb_false_elim in E. destruct E as [-> ->]. intros [Hl|Hr]; [exact (L2 eq_refl Hl)|exact (R2 eq_refl Hr)].
      + cbn [sqlq] in Q. apply andb_prop in Q. destruct Q as [Tl Tr].
        rewrite (exec_term l Tl) in El. rewrite (exec_term r Tr) in Er. inversion El; inversion Er; subst.
        exact (cmp_sound OEq _ _ b (tval_wf l R Ll) (tval_wf r R Lr) I H).
      + cbn [sqlq] in Q. apply andb_prop in Q. destruct Q as [Tl Tr].
        rewrite (exec_term l Tl) in El. rewrite (exec_term r Tr) in Er. inversion El; inversion Er; subst.
        exact (cmp_sound ONe _ _ b (tval_wf l R Ll) (tval_wf r R Lr) I H).
      + cbn [sqlq] in Q. apply andb_prop in Q. destruct Q as [Tl Tr].
        rewrite (exec_term l Tl) in El. rewrite (exec_term r Tr) in Er. inversion El; inversion Er; subst.
        exact (cmp_sound OGt _ _ b (tval_wf l R Ll) (tval_wf r R Lr) I H).
      + cbn [sqlq] in Q. apply andb_prop in Q. destruct Q as [Tl Tr].
        rewrite (exec_term l Tl) in El. rewrite (exec_term r Tr) in Er. inversion El; inversion Er; subst.
        exact (cmp_sound OGe _ _ b (tval_wf l R Ll) (tval_wf r R Lr) I H).
      + cbn [sqlq] in Q. apply andb_prop in Q. destruct Q as [Tl Tr].
        rewrite (exec_term l Tl) in El. rewrite (exec_term r Tr) in Er. inversion El; inversion Er; subst.
        exact (cmp_sound OLt _ _ b (tval_wf l R Ll) (tval_wf r R Lr) I H).
      + cbn [sqlq] in Q. apply andb_prop in Q. destruct Q as [Tl Tr].
        rewrite (exec_term l Tl) in El. rewrite (exec_term r Tr) in Er. inversion El; inversion Er; subst.
        exact (cmp_sound OLe _ _ b (tval_wf l R Ll) (tval_wf r R Lr) I H).
      + discriminate Q.
    - cbn [exec] in H. destruct (exec rho a) as [[|x| | | | | | | | | | | | | | | ]|] eqn:Ea; try discriminate.
      inversion H; subst. cbn [lits_wf] in L. cbn [sqlq] in Q.
      destruct (IHa L Q x eq_refl) as [A1 A2]. cbn [holds negb]. split.
      + intros E. apply negb_true_iff in E. exact (A2 E).
      + intros E. apply negb_false_iff in E. intros F. exact (F (A1 E)).
    - cbn [lits_wf] in L. destruct L as (La & Llo & Lhi). cbn [sqlq] in Q.
      apply andb_prop in Q. destruct Q as [Q Thi]. apply andb_prop in Q. destruct Q as [Ta Tlo].
      cbn [exec] in H. rewrite (exec_term a Ta), (exec_term lo Tlo), (exec_term hi Thi) in H.
      pose proof (tval_wf a R La) as Wa. pose proof (tval_wf lo R Llo) as Wlo. pose proof (tval_wf hi R Lhi) as Whi.
      destruct (exec_ge (tval a) (tval lo)) as [[|]|] eqn:G; [| |discriminate].
      + destruct (ge_sound _ _ _ Wa Wlo G) as [G1 _].
        destruct (exec_le (tval a) (tval hi)) as [[|]|] eqn:Le; [| |discriminate].
        * destruct (le_sound _ _ _ Wa Whi Le) as [L1 _]. inversion H; subst. cbn [holds]. unfold inside.
          destruct neg; cbn [negb]; split; try discriminate; intros _.
          -- intros F. apply F. split; auto.
          -- split; auto.
        * destruct (le_sound _ _ _ Wa Whi Le) as [_ L2]. inversion H; subst. cbn [holds]. unfold inside.
          destruct b; cbn [negb]; split; try discriminate; intros _.
          -- intros [_ F]. exact (L2 eq_refl F).
          -- intros [_ F]. exact (L2 eq_refl F).
      + destruct (ge_sound _ _ _ Wa Wlo G) as [_ G2]. inversion H; subst. cbn [holds]. unfold inside.
        destruct b; cbn [negb]; split; try discriminate; intros _.
        * intros [F _]. exact (G2 eq_refl F).
        * intros [F _]. exact (G2 eq_refl F).
  Qed.

  (* ---- when no float takes part in an equality the two readings coincide ---- *)
  Definition no_float (a b : value) : Prop := is_float a = false /\ is_float b = false.

  Lemma close_ints_same a b xa xb :
    no_float a b -> xval a = Some xa -> xval b = Some xb -> xclose (veps a b) xa xb ->
    exists v, xa = XFin v /\ xb = XFin v.
  Proof.
    intros [Fa Fb] Ha Hb (ra & rb & -> & -> & C).
    assert (E : veps a b = bpow radix2 (-52)).
    { destruct a; try discriminate Fa; destruct b; try discriminate Fb; reflexivity. }
    rewrite E in C.
    assert (Ia : exists z, ra = IZR z).
    { destruct a; cbn in Ha; try discriminate Ha; try discriminate Fa; inversion Ha; eauto. }
    assert (Ib : exists z, rb = IZR z).
    { destruct b; cbn in Hb; try discriminate Hb; try discriminate Fb; inversion Hb; eauto. }
    destruct Ia as [za ->]. destruct Ib as [zb ->]. exists (IZR za). split; [reflexivity|].
    f_equal. f_equal. rewrite <- minus_IZR, <- abs_IZR in C.
    assert (B : (bpow radix2 (-52) <= 1)%R).
    { change 1%R with (bpow radix2 0). apply bpow_le. lia. }
    assert (Z.abs (za - zb) < 1).
    { apply lt_IZR. lra. }
    lia.
  Qed.

  Lemma sql_eq_crisp a b : no_float a b -> (sql_eq true a b <-> sql_eq false a b).
  Proof.
    intros NF. unfold sql_eq.
    destruct a; destruct b; try tauto.
    all: split; intros (xa & xb & Ha & Hb & C); exists xa, xb; repeat split; try assumption.
    all: try (eapply close_ints_same; eassumption).
    all: destruct C as (v & -> & ->); exists v, v; repeat split;
         rewrite Rminus_diag_eq by reflexivity; rewrite Rabs_R0;
         match goal with |- (0 < veps ?a ?b)%R => destruct a, b; apply bpow_gt_0 end.
  Qed.

  (* every equality-like comparison in the condition is between non-float values *)
  Fixpoint crisp (e : cexpr) : Prop :=
    match e with
    | CDp _ _ _ | CLit _ _ | CUnres _ => True
    | CBin OAnd l r | CBin OOr l r => crisp l /\ crisp r
    | CBin OGt _ _ | CBin OLt _ _ | CBin OOther _ _ => True
    | CBin _ l r => no_float (tval l) (tval r)
    | CNot a => crisp a
    | CBetween a _ lo hi => no_float (tval a) (tval lo) /\ no_float (tval a) (tval hi)
    end.

  Lemma sql_cmp_crisp op a b : no_float a b -> (sql_cmp true op a b <-> sql_cmp false op a b).
  Proof.
    intros NF. pose proof (sql_eq_crisp a b NF) as E. destruct op; cbn [sql_cmp negb]; tauto.
  Qed.

  Lemma holds_crisp e : crisp e -> forall up, holds up e <-> holds (negb up) e.
  Proof.
    induction e as [n dt lag|l|v dt|op l IHl r IHr|a IHa|a IHa neg lo IHlo hi IHhi]; intros C up;
      cbn [holds]; try tauto.
    - destruct op; cbn [crisp] in C.
      1,2: destruct C as [Cl Cr]; specialize (IHl Cl up); specialize (IHr Cr up); tauto.
      all: try (destruct up; cbn [negb]; pose proof (sql_cmp_crisp OEq _ _ C);
                pose proof (sql_cmp_crisp ONe _ _ C); pose proof (sql_cmp_crisp OGe _ _ C);
                pose proof (sql_cmp_crisp OLe _ _ C); tauto).
      all: cbn [sql_cmp]; tauto.
    - cbn [crisp] in C. pose proof (IHa C up). pose proof (IHa C (negb up)). rewrite negb_involutive in *. tauto.
    - cbn [crisp] in C. destruct C as [C1 C2]. unfold inside.
      pose proof (sql_cmp_crisp OGe _ _ C1). pose proof (sql_cmp_crisp OLe _ _ C2).
      destruct neg, up; cbn [negb]; tauto.
  Qed.

  Theorem exec_exact e b :
    wf_rho -> lits_wf e -> sqlq e = true -> crisp e ->
    exec rho e = Some (VBool b) -> (b = true <-> holds true e).
  Proof.
    intros R L Q C H. destruct (exec_sound e R L Q b H) as [S1 S2]. split; [exact S1|].
    intros Hh. destruct b; [reflexivity|]. exfalso. apply (S2 eq_refl).
    apply (holds_crisp e C true). exact Hh.
  Qed.
End Semantics.

(* literals the compiler produces are well-formed numbers *)
Lemma lit_okb_wf v dt : lit_okb v dt = true -> wf_value v.
Proof.
  unfold wf_value. destruct dt, v; cbn; intros H; try discriminate; try exact I; try exact H.
  all: unfold in_i8, in_i16, in_u8, in_u16 in H; unfold in_i32, in_u32;
       apply andb_prop in H; destruct H as [H1 H2]; apply Z.leb_le in H1; apply Z.leb_le in H2;
       apply andb_true_intro; split; apply Z.leb_le; lia.
Qed.

Lemma wtb_lits_wf e : wtb e = true -> lits_wf e.
Proof.
  induction e as [n dt lag|l|v dt|op l IHl r IHr|a IHa|a IHa neg lo IHlo hi IHhi]; cbn [wtb lits_wf]; intros H;
    try exact I.
  - exact (lit_okb_wf v dt H).
  - apply andb_prop in H. destruct H as [H _]. apply andb_prop in H. destruct H as [Hl Hr]. auto.
  - apply andb_prop in H. destruct H as [H _]. auto.
  - repeat (apply andb_prop in H; destruct H as [H ?]). auto.
Qed.

(* ================= 4. the trigger, the response, and LAG ================= *)
Lemma changes_match_iff db c ch :
  changes_match db c ch = true <->
  exists id f e, In (id, f) ch /\ f_dp f = true /\ lookup_id (entries db) id = Some e
                 /\ name_in (m_path (e_meta e)) (query_inputs c) = true.
Proof.
  unfold changes_match. rewrite existsb_exists. split.
  - intros [[id f] [Hin H]]. apply andb_prop in H. destruct H as [Hf H].
    destruct (lookup_id (entries db) id) as [e|] eqn:L; [|discriminate]. exists id, f, e. auto.
  - intros (id & f & e & Hin & Hf & L & N). exists (id, f). split; [exact Hin|]. rewrite Hf, L. exact N.
Qed.

Lemma run_query_some rho c fs :
  run_query rho c = Some fs ->
  match c_where c with Some w => exec rho w = Some (VBool true) | None => True end
  /\ exec_proj rho 0 (c_proj c) = Some fs /\ fs <> [].
Proof.
  unfold run_query. destruct (c_where c) as [w|].
  - destruct (exec rho w) as [v|]; [|discriminate]. destruct v as [|bv| | | | | | | | | | | | | | | ]; try discriminate.
    destruct bv; [|discriminate].
    destruct (exec_proj rho 0 (c_proj c)) as [[|f r]|]; try discriminate.
    intros H; inversion H; subst. repeat split; discriminate.
  - destruct (exec_proj rho 0 (c_proj c)) as [[|f r]|]; try discriminate.
    intros H; inversion H; subst. repeat split; discriminate.
Qed.

Lemma run_query_none_false rho c w :
  c_where c = Some w -> exec rho w = Some (VBool false) -> run_query rho c = None.
Proof. unfold run_query. intros -> ->. reflexivity. Qed.

(* a response is sent in an update round exactly when the subscription is live, one of the
   query's input signals is among the changed datapoints, and the query produces a row *)
Theorem notify_sends_iff db now ch s fs :
  (exists lags, notify_query db now (Some ch) s = QSent fs lags) <->
  qs_registered s = true /\ qs_open s = true /\ changes_match db (qs_query s) ch = true
  /\ run_query (valuation db (qs_perms s) now) (qs_query s) = Some fs.
Proof.
  unfold notify_query. destruct (qs_registered s); cbn [negb].
  - destruct (changes_match db (qs_query s) ch).
    + destruct (run_query (valuation db (qs_perms s) now) (qs_query s)) as [fs'|].
      * destruct (qs_open s).
        -- split.
           ++ intros [lags H]. inversion H; subst. auto.
           ++ intros (_ & _ & _ & H). inversion H; subst. eauto.
        -- split; [intros [? H]; discriminate H|intros (_ & H & _); discriminate H].
      * split; [intros [? H]; discriminate H|intros (_ & _ & _ & H); discriminate H].
    + split; [intros [? H]; discriminate H|intros (_ & _ & H & _); discriminate H].
  - split; [intros [? H]; discriminate H|intros (H & _); discriminate H].
Qed.

(* the values a query sees are exactly those the subscriber may read; everything else is NotAvailable *)
Lemma valuation_visible db p now name id e :
  lookup_path (path_to_id db) name = Some id -> lookup_id (entries db) id = Some e ->
  valuation db p now name =
  match can_read p now (path_segs (e_meta e)) with
  | POk => (d_value (e_dp e), d_value (e_lag e))
  | _ => (VNA, VNA)
  end.
Proof.
  intros LP L. unfold valuation, read_entry. rewrite LP, L.
  destruct (can_read p now (path_segs (e_meta e))); reflexivity.
Qed.

(* LAG: a write that changes a signal's datapoint moves the old datapoint into the lag slot *)
Theorem changed_datapoint_sets_lag db p now clock id u ch db' e :
  update_one db p now clock id u = (db', inl ch) -> f_dp ch = true ->
  lookup_id (entries db) id = Some e ->
  exists e', lookup_id (entries db') id = Some e' /\ e_lag e' = e_dp e
             /\ exists v, u_dp u = Some v /\ e_dp e' = {| d_ts := clock; d_value := v |}.
Proof.
  intros U F L. destruct (update_one_ok _ _ _ _ _ _ _ _ U) as (e0 & L0 & _ & _ & _ & _ & _ & Edb & Ech).
  rewrite L in L0. inversion L0; subst e0. subst ch. cbn [f_dp] in F.
  destruct (diff_dp e (u_dp u)) as [v|] eqn:D; [|discriminate F].
  exists (spec_apply e u clock). split; [rewrite Edb; cbn [entries]; apply (lookup_replace_same _ _ _ _ L)|].
  unfold spec_apply. rewrite D. cbn [e_lag e_dp]. split; [reflexivity|].
  exists v. split; [|reflexivity]. unfold diff_dp in D. destruct (u_dp u) as [v'|]; [|discriminate].
  destruct (negb (change_type_eqb (m_ctype (e_meta e)) Continuous) && value_eqb v' (d_value (e_dp e)));
    inversion D. reflexivity.
Qed.

(* the name a selected expression is reported under *)
Lemma field_name_alias i e a : field_name i e (Some a) = a.
Proof. reflexivity. Qed.
Lemma field_name_signal i n dt lag : field_name i (CDp n dt lag) None = n.
Proof. reflexivity. Qed.

Lemma exec_proj_fields rho l : forall i fs,
  exec_proj rho i l = Some fs ->
  length fs = length l /\
  forall k e a, nth_error l k = Some (e, a) ->
    exists v, exec rho e = Some v /\ nth_error fs k = Some (field_name (i + Z.of_nat k) e a, v).
Proof.
  induction l as [|[e a] r IH]; intros i fs; cbn [exec_proj].
  - intros H; inversion H. split; [reflexivity|]. intros [|k] e a Hk; discriminate Hk.
  - destruct (exec rho e) as [v|] eqn:E; [|discriminate].
    destruct (exec_proj rho (i + 1) r) as [fs'|] eqn:P; [|discriminate].
    intros H; inversion H; subst. destruct (IH _ _ P) as [Len Nth]. split; [cbn; rewrite Len; reflexivity|].
    intros [|k] e' a' Hk.
    + cbn in Hk. inversion Hk; subst. exists v. rewrite Z.add_0_r. auto.
    + cbn [nth_error] in Hk. destruct (Nth k e' a' Hk) as (v' & Ev & Hn). exists v'. split; [exact Ev|].
      cbn [nth_error]. rewrite Hn. f_equal. f_equal. f_equal. lia.
Qed.

(* ---------- non-vacuity: a concrete store, query and update ---------- *)
Definition ex_path : list Z := [86; 46; 83].                       (* "V.S" *)
Definition ex_schema (n : list Z) : option data_type := if str_eqb n ex_path then Some TInt32 else None.
Definition ex_query : query :=
  {| q_proj := [PExpr (QIdent ex_path); PAlias (QLag (QIdent ex_path)) [112]];
     q_where := Some (QBetween (QIdent ex_path) false
                               (QNum {| nl_int := [1; 0]; nl_dot := false; nl_frac := [] |})
                               (QNum {| nl_int := [2; 0]; nl_dot := false; nl_frac := [] |}));
     q_extra := false |}.
Definition ex_rho (n : list Z) : value * value := (VI32 15, VI32 7).

Example ex_compiles_and_runs :
  match compile_query ex_schema ex_query with
  | Ok cq => run_query ex_rho cq
  | Err _ => None
  end = Some [(ex_path, VI32 15); ([112], VI32 7)].
Proof. vm_compute. reflexivity. Qed.

Example ex_refused :
  bad_query ex_schema {| q_proj := [PExpr (QIdent [88])]; q_where := None; q_extra := false |} = true
  /\ bad_query ex_schema {| q_proj := [PWild]; q_where := None; q_extra := false |} = true.
Proof. split; vm_compute; reflexivity. Qed.

(* a subquery used as an operand anywhere in a condition makes the query one of the refused ones
   (finding F29: it used to be evaluated as its position among the subqueries of the statement) *)
Lemma subquery_operand_outside : outside QSub = true.
Proof. reflexivity. Qed.

Lemma subquery_operand_refused (schema : list Z -> option data_type) :
  compile_expr schema QSub = Err EUnsupportedOperation /\
  (forall op a, compile_expr schema (QBin op QSub a) = Err EUnsupportedOperation) /\
  (forall a neg hi, (exists c, compile_expr schema a = Ok c) ->
                    compile_expr schema (QBetween a neg QSub hi) = Err EUnsupportedOperation).
Proof.
  split; [reflexivity|]. split; [reflexivity|].
  intros a neg hi [c H]. cbn [compile_expr]. rewrite H. reflexivity.
Qed.

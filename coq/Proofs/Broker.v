(* Proofs/Broker.v — invariants of the broker core over arbitrary histories
   (C01, C04, C16 and the building blocks of C03, C07, C09, C10). *)
From Coq Require Import ZArith Bool List Lia.
From KD Require Import Model.Values Model.Compare Model.Validate Model.Perm Model.Glob
     Model.Broker Model.BrokerRun Proofs.Perm.
Open Scope Z_scope.

(* ---------- association-list facts ---------- *)
Lemma lookup_replace_same l id e x :
  lookup_id l id = Some x -> lookup_id (replace_id l id e) id = Some e.
Proof.
  induction l as [|[k y] l IH]; simpl; [discriminate|].
  destruct (k =? id) eqn:E; simpl; rewrite E; auto.
Qed.

Lemma lookup_replace_other l id e j :
  j <> id -> lookup_id (replace_id l id e) j = lookup_id l j.
Proof.
  intros Hne. induction l as [|[k y] l IH]; simpl; [reflexivity|].
  destruct (k =? id) eqn:E; simpl.
  - apply Z.eqb_eq in E. subst k. destruct (id =? j) eqn:E2; [apply Z.eqb_eq in E2; congruence|reflexivity].
  - destruct (k =? j); [reflexivity|exact IH].
Qed.

Lemma replace_id_keys l id e : map fst (replace_id l id e) = map fst l.
Proof.
  induction l as [|[k y] l IH]; simpl; [reflexivity|].
  destruct (k =? id); simpl; [reflexivity|]. rewrite IH. reflexivity.
Qed.

Lemma lookup_id_in l id e : lookup_id l id = Some e -> In (id, e) l.
Proof.
  induction l as [|[k y] l IH]; simpl; [discriminate|].
  destruct (k =? id) eqn:E; [apply Z.eqb_eq in E; subst; intros H; inversion H; auto | auto].
Qed.

Lemma lookup_id_none l id : lookup_id l id = None <-> ~ In id (map fst l).
Proof.
  induction l as [|[k y] l IH]; simpl; [tauto|].
  destruct (k =? id) eqn:E.
  - apply Z.eqb_eq in E. subst. split; [discriminate|]. intros H. exfalso. apply H. auto.
  - apply Z.eqb_neq in E. rewrite IH. tauto.
Qed.

Lemma lookup_id_app l1 l2 id :
  lookup_id (l1 ++ l2) id = match lookup_id l1 id with Some e => Some e | None => lookup_id l2 id end.
Proof.
  induction l1 as [|[k y] l1 IH]; simpl; [reflexivity|]. destruct (k =? id); auto.
Qed.

(* ---------- update_one: the element-level contract (C01, C04) ---------- *)
(* what an accepted update does to the addressed entry *)
Definition spec_apply (e : entry) (u : upd) (clock : Z) : entry :=
  let dp := diff_dp e (u_dp u) in
  {| e_dp := match dp with Some v => {| d_ts := clock; d_value := v |} | None => e_dp e end;
     e_lag := match dp with Some _ => e_dp e | None => e_lag e end;
     e_target := match u_target u with
                 | Some t => option_map (fun v => {| d_ts := clock; d_value := v |}) t
                 | None => e_target e
                 end;
     e_meta := e_meta e |}.

Lemma update_one_err db p now clock id u err db' :
  update_one db p now clock id u = (db', inr err) -> db' = db.
Proof.
  unfold update_one. destruct (lookup_id (entries db) id) as [e|]; [|intros H; inversion H; reflexivity].
  destruct (u_meta u); [intros H; inversion H; reflexivity|].
  repeat match goal with
  | |- context [match ?x with Some _ => _ | None => _ end] =>
      match x with
      | context [perm_to_upd] => destruct x eqn:?; [intros H; inversion H; reflexivity|]
      | context [validate_datapoint_value] => destruct x eqn:?; [intros H; inversion H; reflexivity|]
      end
  end.
  intros H. inversion H.
Qed.

Lemma update_one_ok db p now clock id u ch db' :
  update_one db p now clock id u = (db', inl ch) ->
  exists e,
    lookup_id (entries db) id = Some e /\
    u_meta u = false /\
    (forall v, u_dp u = Some v -> can_write_datapoint p now (path_segs (e_meta e)) = POk) /\
    (forall t, u_target u = Some t -> can_write_actuator_target p now (path_segs (e_meta e)) = POk) /\
    (forall v, diff_dp e (u_dp u) = Some v -> validate_datapoint_value (vmeta_of (e_meta e)) v = None) /\
    (forall t, u_target u = Some (Some t) -> validate_datapoint_value (vmeta_of (e_meta e)) t = None) /\
    db' = {| next_id := next_id db; path_to_id := path_to_id db;
             entries := replace_id (entries db) id (spec_apply e u clock) |} /\
    ch = {| f_dp := match diff_dp e (u_dp u) with Some _ => true | None => false end;
            f_target := match u_target u with Some _ => true | None => false end;
            f_unit := false |}.
Proof.
  unfold update_one. destruct (lookup_id (entries db) id) as [e|] eqn:L; [|discriminate].
  destruct u as [dp tg mt]. cbn [u_meta u_dp u_target].
  destruct mt; [discriminate|].
  intros H. exists e. split; [reflexivity|]. split; [reflexivity|].
  destruct dp as [v|]; destruct tg as [[t|]|];
    cbn [perm_to_upd] in H;
    repeat match type of H with
    | context [can_write_datapoint ?a ?b ?c] => destruct (can_write_datapoint a b c) eqn:?; cbn [perm_to_upd] in H; try discriminate H
    | context [can_write_actuator_target ?a ?b ?c] => destruct (can_write_actuator_target a b c) eqn:?; cbn [perm_to_upd] in H; try discriminate H
    end;
    repeat match type of H with
    | context [diff_dp ?a ?b] => destruct (diff_dp a b) eqn:?; try discriminate H
    end;
    repeat match type of H with
    | context [validate_datapoint_value ?a ?b] => destruct (validate_datapoint_value a b) eqn:?; try discriminate H
    end;
    inversion H; subst; clear H;
    (split; [intros ? Hx; inversion Hx; subst; auto|]);
    (split; [intros ? Hx; inversion Hx; subst; auto|]);
    (split; [intros ? Hx; inversion Hx; subst; auto|]);
    (split; [intros ? Hx; inversion Hx; subst; auto|]);
    (split; unfold spec_apply; cbn [u_dp u_target];
     repeat match goal with Hd : diff_dp _ _ = _ |- _ => rewrite Hd; clear Hd end;
     try reflexivity; destruct e; reflexivity).
Qed.

(* the other entries, the path index and the id counter are never touched by an update *)
Lemma update_one_frame db p now clock id u r db' :
  update_one db p now clock id u = (db', r) ->
  next_id db' = next_id db /\ path_to_id db' = path_to_id db /\
  map fst (entries db') = map fst (entries db) /\
  (forall j, j <> id -> lookup_id (entries db') j = lookup_id (entries db) j) /\
  (forall j e', lookup_id (entries db') j = Some e' ->
                exists e, lookup_id (entries db) j = Some e /\ e_meta e' = e_meta e).
Proof.
  destruct r as [ch|err]; intros H.
  - destruct (update_one_ok _ _ _ _ _ _ _ _ H) as (e & L & _ & _ & _ & _ & _ & -> & _). simpl.
    repeat split; auto.
    + apply replace_id_keys.
    + intros j Hj. apply lookup_replace_other. exact Hj.
    + intros j e' Hl. destruct (Z.eq_dec j id) as [->|Hne].
      * rewrite (lookup_replace_same _ _ _ _ L) in Hl. inversion Hl; subst. exists e. auto.
      * rewrite lookup_replace_other in Hl by exact Hne. exists e'. auto.
  - apply update_one_err in H. subst. repeat split; auto. intros j e' Hl. exists e'. auto.
Qed.

(* ---------- batches: rejected elements leave no trace, accepted ones all take effect ---------- *)
Lemma apply_updates_frame : forall us db p now clock changed errs db' changed' errs',
  apply_updates db p now clock us changed errs = (db', changed', errs') ->
  next_id db' = next_id db /\ path_to_id db' = path_to_id db /\
  map fst (entries db') = map fst (entries db) /\
  (forall j, ~ In j (map fst us) -> lookup_id (entries db') j = lookup_id (entries db) j) /\
  (forall j e', lookup_id (entries db') j = Some e' ->
                exists e, lookup_id (entries db) j = Some e /\ e_meta e' = e_meta e).
Proof.
  induction us as [|[id u] us IH]; intros db p now clock changed errs db' changed' errs' H; simpl in H.
  - inversion H; subst. repeat split; auto. intros j e' Hl. exists e'. auto.
  - destruct (update_one db p now clock id u) as [db1 r] eqn:U.
    destruct (update_one_frame _ _ _ _ _ _ _ _ U) as (N1 & P1 & K1 & O1 & M1).
    assert (IHr : next_id db' = next_id db1 /\ path_to_id db' = path_to_id db1 /\
                  map fst (entries db') = map fst (entries db1) /\
                  (forall j, ~ In j (map fst us) -> lookup_id (entries db') j = lookup_id (entries db1) j) /\
                  (forall j e', lookup_id (entries db') j = Some e' ->
                                exists e, lookup_id (entries db1) j = Some e /\ e_meta e' = e_meta e)).
    { destruct r; eapply IH; exact H. }
    destruct IHr as (N2 & P2 & K2 & O2 & M2).
    repeat split; try congruence.
    + intros j Hj. simpl in Hj. rewrite O2 by tauto. apply O1. intros ->. apply Hj. auto.
    + intros j e' Hl. destruct (M2 j e' Hl) as (e1 & L1 & E1). destruct (M1 j e1 L1) as (e0 & L0 & E0).
      exists e0. split; [exact L0|congruence].
Qed.

(* errors are reported per element, in request order *)
Lemma apply_updates_errs : forall us db p now clock changed errs db' changed' errs',
  apply_updates db p now clock us changed errs = (db', changed', errs') ->
  exists more, errs' = rev errs ++ more /\ (forall x, In x (map fst more) -> In x (map fst us)).
Proof.
  induction us as [|[id u] us IH]; intros db p now clock changed errs db' changed' errs' H; simpl in H.
  - inversion H; subst. exists []. rewrite app_nil_r. split; [reflexivity|]. intros x [].
  - destruct (update_one db p now clock id u) as [db1 [ch|err]] eqn:U.
    + destruct (IH _ _ _ _ _ _ _ _ _ H) as (more & E & Hm). exists more. split; [exact E|].
      intros x Hx. right. auto.
    + destruct (IH _ _ _ _ _ _ _ _ _ H) as (more & E & Hm). exists ((id, err) :: more). split.
      * rewrite E. simpl. rewrite <- app_assoc. reflexivity.
      * intros x [<-|Hx]; [left; reflexivity|right; auto].
Qed.

(* For a batch that addresses each signal at most once, the response tells the writer
   exactly what happened: an id listed in the error list is untouched; every other
   addressed id carries the requested change; nothing else changed. *)
Theorem batch_contract : forall us db p now clock db' changed errs,
  NoDup (map fst us) ->
  apply_updates db p now clock us [] [] = (db', changed, errs) ->
  (forall id u, In (id, u) us ->
     (In id (map fst errs) -> lookup_id (entries db') id = lookup_id (entries db) id) /\
     (~ In id (map fst errs) ->
        exists e, lookup_id (entries db) id = Some e /\
                  lookup_id (entries db') id = Some (spec_apply e u clock))) /\
  (forall j, ~ In j (map fst us) -> lookup_id (entries db') j = lookup_id (entries db) j).
Proof.
  intros us db p now clock db' changed errs Hnd H.
  split; [|intros j Hj; eapply apply_updates_frame; eauto].
  assert (G : forall us db changed0 errs0 db' changed errs,
             NoDup (map fst us) ->
             apply_updates db p now clock us changed0 errs0 = (db', changed, errs) ->
             (forall x, In x (map fst errs0) -> ~ In x (map fst us)) ->
             forall id u, In (id, u) us ->
               (In id (map fst errs) -> lookup_id (entries db') id = lookup_id (entries db) id) /\
               (~ In id (map fst errs) ->
                exists e, lookup_id (entries db) id = Some e /\
                          lookup_id (entries db') id = Some (spec_apply e u clock))).
  { clear. induction us as [|[i0 u0] us IH]; intros db changed0 errs0 db' changed errs Hnd H Hfresh id u Hin;
      [contradiction|].
    simpl in H. simpl in Hnd. inversion Hnd as [|? ? Hnotin Hnd']; subst.
    destruct (update_one db p now clock i0 u0) as [db1 r] eqn:U.
    destruct (update_one_frame _ _ _ _ _ _ _ _ U) as (_ & _ & _ & O1 & _).
    destruct Hin as [Heq|Hin].
    - inversion Heq; subst i0 u0. clear Heq.
      destruct r as [ch|err].
      + destruct (update_one_ok _ _ _ _ _ _ _ _ U) as (e & L & _ & _ & _ & _ & _ & Edb & _).
        destruct (apply_updates_frame _ _ _ _ _ _ _ _ _ _ H) as (_ & _ & _ & O2 & _).
        destruct (apply_updates_errs _ _ _ _ _ _ _ _ _ _ H) as (more & Ee & Hm).
        assert (Hnoerr : ~ In id (map fst errs)).
        { rewrite Ee, map_app, in_app_iff. intros [Hx|Hx].
          - rewrite map_rev in Hx. apply in_rev in Hx. apply (Hfresh id Hx). left. reflexivity.
          - apply Hnotin. apply Hm. exact Hx. }
        split; [intros Hx; contradiction|]. intros _. exists e. split; [exact L|].
        rewrite (O2 id Hnotin). subst db1. simpl. apply (lookup_replace_same _ _ _ _ L).
      + apply update_one_err in U. subst db1.
        destruct (apply_updates_frame _ _ _ _ _ _ _ _ _ _ H) as (_ & _ & _ & O2 & _).
        destruct (apply_updates_errs _ _ _ _ _ _ _ _ _ _ H) as (more & Ee & Hm).
        split; [intros _; apply O2; exact Hnotin|].
        intros Hx. exfalso. apply Hx. rewrite Ee, map_app, in_app_iff. left.
        rewrite map_rev. apply -> in_rev. simpl. left. reflexivity.
    - assert (Hne : id <> i0).
      { intros ->. apply Hnotin. apply in_map_iff. exists (i0, u). auto. }
      assert (Hfresh' : forall x, In x (map fst (match r with inl _ => errs0 | inr e => (i0, e) :: errs0 end)) ->
                                  ~ In x (map fst us)).
      { destruct r; simpl; intros x Hx.
        - intros Hu. apply (Hfresh x Hx). right. exact Hu.
        - destruct Hx as [<-|Hx]; [exact Hnotin|]. intros Hu. apply (Hfresh x Hx). right. exact Hu. }
      assert (H' : apply_updates db1 p now clock us
                     (match r with inl ch => if fields_empty ch then changed0 else changed_insert changed0 i0 ch
                                 | inr _ => changed0 end)
                     (match r with inl _ => errs0 | inr e => (i0, e) :: errs0 end) = (db', changed, errs)).
      { destruct r; exact H. }
      destruct (IH _ _ _ _ _ _ Hnd' H' Hfresh' id u Hin) as [A B].
      rewrite <- (O1 id Hne). split; [exact A|exact B]. }
  intros id u Hin. eapply G; eauto; intros x [].
Qed.

(* a rejected element never changes anything, whatever else is in the batch *)
Theorem rejected_element_no_effect db p now clock id u err db' :
  update_one db p now clock id u = (db', inr err) -> db' = db.
Proof. apply update_one_err. Qed.

(* ---------- registration and signal identity (C16) ---------- *)
Lemma lookup_path_spec l p id : lookup_path l p = Some id -> In (p, id) l.
Proof.
  induction l as [|[k i] l IH]; simpl; [discriminate|].
  destruct (str_eqb k p) eqn:E; [apply str_eqb_eq in E; subst; intros H; inversion H; auto | auto].
Qed.

Lemma lookup_path_cons_same l p id : lookup_path ((p, id) :: l) p = Some id.
Proof. simpl. rewrite str_eqb_refl. reflexivity. Qed.

Lemma lookup_path_cons_other l p q id :
  q <> p -> lookup_path ((p, id) :: l) q = lookup_path l q.
Proof.
  intros H. simpl. destruct (str_eqb p q) eqn:E; [apply str_eqb_eq in E; congruence|reflexivity].
Qed.

(* paths and ids are mutually inverse; ids are below the counter *)
Definition db_inv (db : database) : Prop :=
  0 <= next_id db /\
  (forall id e, lookup_id (entries db) id = Some e ->
     m_id (e_meta e) = id /\ lookup_path (path_to_id db) (m_path (e_meta e)) = Some id /\
     0 <= id < next_id db) /\
  (forall p id, lookup_path (path_to_id db) p = Some id ->
     exists e, lookup_id (entries db) id = Some e /\ m_path (e_meta e) = p).

Lemma db_inv_init : db_inv (st_db init_state).
Proof. repeat split; simpl; try lia; intros; discriminate. Qed.

(* every path has exactly one id and every id exactly one path *)
Lemma db_inv_injective db :
  db_inv db ->
  (forall p id1 id2, lookup_path (path_to_id db) p = Some id1 ->
                     lookup_path (path_to_id db) p = Some id2 -> id1 = id2) /\
  (forall id1 id2 e1 e2, lookup_id (entries db) id1 = Some e1 -> lookup_id (entries db) id2 = Some e2 ->
                         m_path (e_meta e1) = m_path (e_meta e2) -> id1 = id2).
Proof.
  intros (_ & A & B). split.
  - intros p id1 id2 H1 H2. congruence.
  - intros id1 id2 e1 e2 H1 H2 E. destruct (A _ _ H1) as (_ & P1 & _). destruct (A _ _ H2) as (_ & P2 & _).
    rewrite E in P1. congruence.
Qed.

Lemma wrap_i32_small z : 0 <= z < 2147483647 -> wrap_i32 (z + 1) = z + 1.
Proof.
  intros H. unfold wrap_i32. rewrite Z.mod_small by lia. lia.
Qed.

Lemma add_entry_cases db p now clock name dt ct et mn mx al db' r :
  add_entry db p now clock name dt ct et mn mx al = (db', r) ->
  (db' = db /\ (forall id, r = inl id -> lookup_path (path_to_id db) name = Some id)) \/
  (exists e, r = inl (next_id db) /\
     lookup_path (path_to_id db) name = None /\ valid_path name = true /\
     can_create p now (split_on dot name) = POk /\ validate_allowed_type dt al = None /\
     m_id (e_meta e) = next_id db /\ m_path (e_meta e) = name /\ m_dtype (e_meta e) = dt /\
     m_etype (e_meta e) = et /\ m_ctype (e_meta e) = ct /\ m_min (e_meta e) = mn /\
     m_max (e_meta e) = mx /\ m_allowed (e_meta e) = al /\
     d_value (e_dp e) = VNA /\ d_ts (e_dp e) = clock /\ e_target e = None /\
     db' = {| next_id := wrap_i32 (next_id db + 1); path_to_id := (name, next_id db) :: path_to_id db;
              entries := entries db ++ [(next_id db, e)] |}).
Proof.
  unfold add_entry. destruct (valid_path name) eqn:V; simpl;
    [|intros H; inversion H; left; split; [reflexivity|discriminate]].
  destruct (can_create p now (split_on dot name)) eqn:C;
    try (intros H; inversion H; left; split; [reflexivity|discriminate]).
  destruct (lookup_path (path_to_id db) name) as [id|] eqn:L.
  - intros H. inversion H. left. split; [reflexivity|]. intros id' E. inversion E. reflexivity.
  - destruct (validate_allowed_type dt al) eqn:A;
      [intros H; inversion H; left; split; [reflexivity|discriminate]|].
    intros H. inversion H. right. eexists. repeat split; reflexivity.
Qed.

(* a refusal consumes nothing, and re-registration is idempotent *)
Theorem add_refusal_no_effect db p now clock name dt ct et mn mx al db' e :
  add_entry db p now clock name dt ct et mn mx al = (db', inr e) -> db' = db.
Proof.
  intros H. destruct (add_entry_cases _ _ _ _ _ _ _ _ _ _ _ _ _ H) as [[E _]|(x & E & _)]; [exact E|discriminate].
Qed.

Theorem add_idempotent db p now clock name dt ct et mn mx al id :
  lookup_path (path_to_id db) name = Some id -> valid_path name = true ->
  can_create p now (split_on dot name) = POk ->
  add_entry db p now clock name dt ct et mn mx al = (db, inl id).
Proof. intros L V C. unfold add_entry. rewrite V, C, L. reflexivity. Qed.

Lemma add_entry_inv db p now clock name dt ct et mn mx al db' r :
  db_inv db -> next_id db < 2147483647 ->
  add_entry db p now clock name dt ct et mn mx al = (db', r) ->
  db_inv db' /\ next_id db' <= next_id db + 1.
Proof.
  intros (N & A & B) Hb H.
  destruct (add_entry_cases _ _ _ _ _ _ _ _ _ _ _ _ _ H) as [[-> _]|(e & _ & L & _ & _ & _ & Mi & Mp & _ & _ & _ & _ & _ & _ & _ & _ & _ & ->)].
  - split; [exact (conj N (conj A B))|lia].
  - unfold db_inv. cbn [next_id path_to_id entries]. rewrite wrap_i32_small by lia. split; [|lia]. split; [lia|]. split.
    + intros id e0 H0. simpl in H0. rewrite lookup_id_app in H0.
      destruct (lookup_id (entries db) id) as [e1|] eqn:Lid.
      * inversion H0; subst e0. destruct (A _ _ Lid) as (I1 & P1 & R1). split; [exact I1|]. split; [|lia].
        rewrite lookup_path_cons_other; [exact P1|].
        intros E. rewrite E in P1. rewrite L in P1. discriminate.
      * simpl in H0. destruct (next_id db =? id) eqn:E; [|discriminate]. apply Z.eqb_eq in E.
        inversion H0; subst e0. subst id. split; [exact Mi|]. split; [|lia].
        simpl. rewrite Mp. rewrite str_eqb_refl. reflexivity.
    + intros q id Hq. simpl in Hq. destruct (str_eqb name q) eqn:E.
      * apply str_eqb_eq in E. subst q. inversion Hq; subst id. exists e. split; [|exact Mp].
        simpl. rewrite lookup_id_app.
        destruct (lookup_id (entries db) (next_id db)) eqn:Lid.
        -- destruct (A _ _ Lid) as (_ & _ & R). lia.
        -- simpl. rewrite Z.eqb_refl. reflexivity.
      * destruct (B _ _ Hq) as (e0 & L0 & P0). exists e0. split; [|exact P0].
        simpl. rewrite lookup_id_app, L0. reflexivity.
Qed.

(* ---------- what each operation does to the database ---------- *)
Lemma cleanup_db now st : st_db (cleanup now st) = st_db st.
Proof. reflexivity. Qed.

Lemma update_entries_db st p us :
  st_db (fst (update_entries st p us)) =
  fst (fst (apply_updates (st_db st) p (st_now st) (st_clock st) us [] [])).
Proof.
  unfold update_entries.
  destruct (apply_updates (st_db st) p (st_now st) (st_clock st) us [] []) as [[db' ch] errs].
  simpl. destruct (existsb snd (map (notify_change db' (st_now st) ch) (st_csubs st))); reflexivity.
Qed.

Lemma subscribe_db st p es buf : st_db (fst (subscribe st p es buf)) = st_db st.
Proof.
  unfold subscribe. destruct es; [reflexivity|].
  destruct buf as [b|]; [destruct (max_subscribe_buffer_size <? b)|]; reflexivity.
Qed.

Lemma provide_db st p ids : st_db (fst (provide_actuation st p ids)) = st_db st.
Proof.
  unfold provide_actuation. destruct (first_error _ ids); [reflexivity|].
  destruct (existsb _ ids); reflexivity.
Qed.

Lemma actuate_db st p id v : st_db (fst (actuate st p id v)) = st_db st.
Proof.
  unfold actuate. destruct (can_actuate_id _ _ _ _); [reflexivity|].
  destruct (validate_actuation _ _ _ _ _); [reflexivity|].
  destruct (owner_ready _ _); reflexivity.
Qed.

Lemma batch_db st p cs : st_db (fst (batch_actuate st p cs)) = st_db st.
Proof.
  unfold batch_actuate. destruct (first_error _ cs); [reflexivity|].
  destruct (resolve_owners _ _ _); reflexivity.
Qed.

Lemma exec_db st a :
  st_db (exec_state st a) =
  match a with
  | AAdd p name dt ct et mn mx al =>
      fst (add_entry (st_db st) (get_perm st p) (st_now st) (st_clock st) name dt ct et mn mx al)
  | AUpdate p us =>
      fst (fst (apply_updates (st_db st) (get_perm st p) (st_now st) (st_clock st) us [] []))
  | _ => st_db st
  end.
Proof.
  destruct a; simpl; try reflexivity.
  - destruct (perms_of_claims scope 0); reflexivity.
  - apply update_entries_db.
  - apply subscribe_db.
  - destruct (find_csub st h) as [s|]; [|reflexivity]. destruct (negb (cs_open s)); reflexivity.
  - apply provide_db.
  - apply actuate_db.
  - apply batch_db.
Qed.

Lemma tick_clock_db st : st_db (tick_clock st) = st_db st.
Proof. reflexivity. Qed.

(* the history invariant: identity is a bijection, ids stay below the counter, and the counter
   grows by at most one per operation *)
Lemma run_op_inv st a :
  db_inv (st_db st) -> next_id (st_db st) < 2147483647 ->
  db_inv (st_db (run_op st a)) /\ next_id (st_db (run_op st a)) <= next_id (st_db st) + 1.
Proof.
  intros I B. unfold run_op. rewrite exec_db. destruct a; try (rewrite tick_clock_db; split; [exact I|lia]).
  - destruct (add_entry (st_db (tick_clock st)) (get_perm (tick_clock st) p) (st_now (tick_clock st))
                        (st_clock (tick_clock st)) name dt ct et mn mx al) as [db' r] eqn:E.
    simpl fst. rewrite tick_clock_db in E. eapply add_entry_inv; eauto.
  - destruct (apply_updates (st_db (tick_clock st)) (get_perm (tick_clock st) p) (st_now (tick_clock st))
                            (st_clock (tick_clock st)) us [] []) as [[db' ch] errs] eqn:E.
    simpl fst. rewrite tick_clock_db in E.
    destruct (apply_updates_frame _ _ _ _ _ _ _ _ _ _ E) as (N & P & K & _ & M).
    destruct I as (I0 & IA & IB). split; [|lia]. split; [lia|]. split.
    + intros id e' L'. destruct (M _ _ L') as (e & L & Em). rewrite Em, N, P. apply (IA _ _ L).
    + intros q id Hq. rewrite P in Hq. destruct (IB _ _ Hq) as (e & L & Ep).
      assert (Hk : In id (map fst (entries db'))).
      { rewrite K. apply in_map_iff. exists (id, e). split; [reflexivity|]. apply lookup_id_in. exact L. }
      destruct (lookup_id (entries db') id) as [e'|] eqn:L'.
      * exists e'. split; [reflexivity|]. destruct (M _ _ L') as (e0 & L0 & Em). congruence.
      * apply lookup_id_none in L'. contradiction.
Qed.

Lemma fold_left_app_one {A B} (f : A -> B -> A) l x a : fold_left f (l ++ [x]) a = f (fold_left f l a) x.
Proof. rewrite fold_left_app. reflexivity. Qed.

Theorem history_identity_inv h :
  Z.of_nat (length h) < 2147483647 ->
  db_inv (st_db (run_history h)) /\ next_id (st_db (run_history h)) <= Z.of_nat (length h).
Proof.
  unfold run_history. induction h as [|a h IH] using rev_ind; intros Hlen.
  - simpl. split; [apply db_inv_init|lia].
  - rewrite app_length in Hlen. simpl in Hlen. rewrite fold_left_app_one.
    destruct IH as [I N]; [lia|].
    destruct (run_op_inv (fold_left run_op h init_state) a I) as [I' N']; [lia|].
    split; [exact I'|]. rewrite app_length. simpl. lia.
Qed.

(* once registered, a signal keeps its id, path, data type, entry type, change type, min, max and
   allowed list for the whole history: no operation can alter them (C04, C16) *)
Lemma run_op_meta_stable st a id e :
  lookup_id (entries (st_db st)) id = Some e ->
  exists e', lookup_id (entries (st_db (run_op st a))) id = Some e' /\ e_meta e' = e_meta e.
Proof.
  intros L. unfold run_op. rewrite exec_db.
  destruct a; try (rewrite tick_clock_db; exists e; auto; fail).
  - destruct (add_entry (st_db (tick_clock st)) (get_perm (tick_clock st) p) (st_now (tick_clock st))
                        (st_clock (tick_clock st)) name dt ct et mn mx al) as [db' r] eqn:E.
    simpl fst. rewrite tick_clock_db in E.
    destruct (add_entry_cases _ _ _ _ _ _ _ _ _ _ _ _ _ E) as [[-> _]|(x & _ & _ & _ & _ & _ & _ & _ & _ & _ & _ & _ & _ & _ & _ & _ & _ & ->)].
    + exists e. auto.
    + exists e. simpl. rewrite lookup_id_app, L. auto.
  - destruct (apply_updates (st_db (tick_clock st)) (get_perm (tick_clock st) p) (st_now (tick_clock st))
                            (st_clock (tick_clock st)) us [] []) as [[db' ch] errs] eqn:E.
    simpl fst. rewrite tick_clock_db in E.
    destruct (apply_updates_frame _ _ _ _ _ _ _ _ _ _ E) as (_ & _ & K & _ & M).
    assert (Hk : In id (map fst (entries db'))).
    { rewrite K. apply in_map_iff. exists (id, e). split; [reflexivity|]. apply lookup_id_in. exact L. }
    destruct (lookup_id (entries db') id) as [e'|] eqn:L'.
    + exists e'. split; [reflexivity|]. destruct (M _ _ L') as (e0 & L0 & Em). congruence.
    + apply lookup_id_none in L'. contradiction.
Qed.

Theorem history_meta_immutable h1 h2 id e :
  lookup_id (entries (st_db (run_history h1))) id = Some e ->
  exists e', lookup_id (entries (st_db (run_history (h1 ++ h2)))) id = Some e' /\ e_meta e' = e_meta e.
Proof.
  unfold run_history. rewrite fold_left_app. generalize (fold_left run_op h1 init_state). intros st.
  revert st e. induction h2 as [|a h2 IH]; intros st e L; simpl; [exists e; auto|].
  destruct (run_op_meta_stable st a id e L) as (e1 & L1 & E1).
  destruct (IH _ _ L1) as (e2 & L2 & E2). exists e2. split; [exact L2|congruence].
Qed.

(* ---------- C04: state changes need the matching permission ---------- *)
Lemma apply_updates_needs_permission : forall us db p now clock changed errs db' changed' errs' id e e',
  apply_updates db p now clock us changed errs = (db', changed', errs') ->
  lookup_id (entries db) id = Some e -> lookup_id (entries db') id = Some e' ->
  (can_write_datapoint p now (path_segs (e_meta e)) <> POk -> e_dp e' = e_dp e /\ e_lag e' = e_lag e) /\
  (can_write_actuator_target p now (path_segs (e_meta e)) <> POk -> e_target e' = e_target e).
Proof.
  induction us as [|[i0 u0] us IH]; intros db p now clock changed errs db' changed' errs' id e e' H L L'; simpl in H.
  - inversion H; subst. rewrite L in L'. inversion L'; subst. auto.
  - destruct (update_one db p now clock i0 u0) as [db1 r] eqn:U.
    assert (S1 : exists e1, lookup_id (entries db1) id = Some e1 /\ e_meta e1 = e_meta e /\
                 (can_write_datapoint p now (path_segs (e_meta e)) <> POk -> e_dp e1 = e_dp e /\ e_lag e1 = e_lag e) /\
                 (can_write_actuator_target p now (path_segs (e_meta e)) <> POk -> e_target e1 = e_target e)).
    { destruct r as [ch|err].
      - destruct (update_one_ok _ _ _ _ _ _ _ _ U) as (x & Lx & _ & Pd & Pt & _ & _ & -> & _).
        destruct (Z.eq_dec id i0) as [->|Hne].
        + rewrite L in Lx. inversion Lx; subst x. exists (spec_apply e u0 clock).
          split; [simpl; apply (lookup_replace_same _ _ _ _ L)|]. split; [reflexivity|]. split.
          * intros Hn. unfold spec_apply, diff_dp. simpl. destruct (u_dp u0) as [v|]; [|auto].
            exfalso. apply Hn. apply (Pd v eq_refl).
          * intros Hn. unfold spec_apply. simpl. destruct (u_target u0) as [t|]; [|auto].
            exfalso. apply Hn. apply (Pt t eq_refl).
        + exists e. simpl. rewrite lookup_replace_other by exact Hne. auto.
      - apply update_one_err in U. subst db1. exists e. auto. }
    destruct S1 as (e1 & L1 & M1 & D1 & T1).
    assert (H' : exists c0 r0, apply_updates db1 p now clock us c0 r0 = (db', changed', errs')).
    { destruct r; eauto. }
    destruct H' as (c0 & r0 & H').
    destruct (IH _ _ _ _ _ _ _ _ _ _ _ _ H' L1 L') as [D2 T2]. rewrite M1 in D2, T2. split.
    + intros Hn. destruct (D1 Hn) as [A B]. destruct (D2 Hn) as [A2 B2]. split; congruence.
    + intros Hn. rewrite (T2 Hn). apply (T1 Hn).
Qed.

Lemma apply_updates_errs_len : forall us db p now clock c e db' c' e',
  apply_updates db p now clock us c e = (db', c', e') -> (length e' <= length e + length us)%nat.
Proof.
  induction us as [|[i u] us IH]; intros db p now clock c e db' c' e' H; simpl in H.
  - inversion H. rewrite rev_length. lia.
  - destruct (update_one db p now clock i u) as [d [x|y]]; apply IH in H; simpl in *; lia.
Qed.

(* a batch all of whose elements are refused leaves the database untouched and notifies nobody *)
Lemma apply_updates_all_rejected : forall us db p now clock changed errs db' changed' errs',
  apply_updates db p now clock us changed errs = (db', changed', errs') ->
  length errs' = (length errs + length us)%nat -> db' = db /\ changed' = changed.
Proof.
  induction us as [|[i0 u0] us IH]; intros db p now clock changed errs db' changed' errs' H Hl; simpl in H.
  - inversion H; subst. auto.
  - destruct (update_one db p now clock i0 u0) as [db1 [ch|err]] eqn:U.
    + exfalso. apply apply_updates_errs_len in H. simpl in Hl. lia.
    + apply update_one_err in U. subst db1. apply IH in H; [exact H|]. simpl in *. lia.
Qed.

(* ---------- C03: nothing is disclosed without read permission ---------- *)
Lemma read_entry_ok db p now id e :
  read_entry db p now id = inl e ->
  lookup_id (entries db) id = Some e /\ can_read p now (path_segs (e_meta e)) = POk.
Proof.
  unfold read_entry. destruct (lookup_id (entries db) id) as [x|]; [|discriminate].
  destruct (can_read p now (path_segs (e_meta x))) eqn:C; intros H; inversion H; subst; auto.
Qed.

Lemma read_entry_expired db p now id e :
  expired p now = true -> lookup_id (entries db) id = Some e -> read_entry db p now id = inr RExpired.
Proof.
  intros E L. unfold read_entry, can_read. rewrite L, E. reflexivity.
Qed.

(* what a notification may carry: data of an entry the recipient can read right now *)
Definition notif_ok (db : database) (p : perms) (now : Z) (n : notif) : Prop :=
  exists e, lookup_id (entries db) (n_id n) = Some e /\
            can_read p now (path_segs (e_meta e)) = POk /\
            (forall d, n_dp n = Some d -> d = e_dp e) /\
            (forall t, n_target n = Some t -> t = e_target e).

Lemma build_notifs_ok db p now w l :
  build_notifs db p now w = Some l -> Forall (notif_ok db p now) l.
Proof.
  revert l. induction w as [|[id f] w IH]; intros l H; simpl in H.
  - inversion H. constructor.
  - destruct (read_entry db p now id) as [e|[| |]] eqn:R; try discriminate; try (apply IH; exact H).
    destruct (build_notifs db p now w) as [l0|]; [|discriminate]. inversion H; subst.
    constructor; [|apply IH; reflexivity].
    destruct (read_entry_ok _ _ _ _ _ R) as [L C]. exists e. simpl. repeat split; auto.
    + intros d Hd. destruct (f_dp f); inversion Hd; reflexivity.
    + intros t Ht. destruct (f_target f); inversion Ht; reflexivity.
Qed.

Lemma build_snapshot_ok db p now es : Forall (notif_ok db p now) (build_snapshot db p now es).
Proof.
  induction es as [|[id f] es IH]; simpl; [constructor|].
  destruct (read_entry db p now id) as [e|] eqn:R; [|exact IH].
  constructor; [|exact IH]. destruct (read_entry_ok _ _ _ _ _ R) as [L C]. exists e. simpl. repeat split; auto.
  - intros d Hd. destruct (f_dp f); inversion Hd; reflexivity.
  - intros t Ht. destruct (f_target f); inversion Ht; reflexivity.
Qed.

(* an update sends a subscriber at most one message, and what it carries is readable by the
   subscriber now and is the committed state *)
Lemma notify_change_sent db now changed s :
  cs_sent (fst (notify_change db now changed s)) = cs_sent s \/
  exists m, m <> [] /\ cs_sent (fst (notify_change db now changed s)) = cs_sent s ++ [m] /\
            Forall (notif_ok db (cs_perms s) now) m /\
            (forall n, In n m -> exists f, In (n_id n, f) (watched (cs_entries s) changed) /\ n_fields n = f) /\
            cs_registered s = true /\ cs_open s = true.
Proof.
  unfold notify_change. destruct (cs_registered s) eqn:Rg; [|left; reflexivity]. cbn [negb].
  destruct (watched (cs_entries s) changed) as [|w0 w] eqn:W; [left; reflexivity|].
  destruct (build_notifs db (cs_perms s) now (w0 :: w)) as [[|n l]|] eqn:B; try (left; reflexivity).
  unfold cs_send. destruct (cs_open s) eqn:O; [|left; reflexivity]. right. exists (n :: l).
  split; [discriminate|]. split; [reflexivity|]. split; [eapply build_notifs_ok; eauto|]. split; [|auto].
  clear -B. revert B. generalize (n :: l). generalize (w0 :: w). clear.
  induction l as [|[id f] w IH]; intros m B x Hx; simpl in B.
  - inversion B; subst. contradiction.
  - destruct (read_entry db (cs_perms s) now id) as [e|[| |]]; try discriminate.
    + destruct (build_notifs db (cs_perms s) now w) as [l0|] eqn:B0; [|discriminate]. inversion B; subst.
      destruct Hx as [<-|Hx].
      * exists f. simpl. auto.
      * destruct (IH _ eq_refl x Hx) as (g & Hg & Eg). exists g. split; [right; exact Hg|exact Eg].
    + destruct (IH _ B x Hx) as (g & Hg & Eg). exists g. split; [right; exact Hg|exact Eg].
    + destruct (IH _ B x Hx) as (g & Hg & Eg). exists g. split; [right; exact Hg|exact Eg].
Qed.

(* an open subscription stops delivering once its token has expired *)
Theorem expired_sub_gets_nothing db now changed s :
  expired (cs_perms s) now = true ->
  (forall id f, In (id, f) changed -> exists e, lookup_id (entries db) id = Some e) ->
  cs_sent (fst (notify_change db now changed s)) = cs_sent s.
Proof.
  intros E Hex. destruct (notify_change_sent db now changed s) as [H|(m & Hne & Hs & Hok & _)]; [exact H|].
  exfalso. destruct m as [|n m]; [contradiction|]. inversion Hok as [|? ? (e & L & C & _) _]; subst.
  unfold can_read in C. rewrite E in C. discriminate.
Qed.

Lemma cleanup_expired_sub now s :
  cs_registered s = true -> expired (cs_perms s) now = true ->
  cs_registered (cleanup_csub now s) = false.
Proof.
  intros R E. unfold cleanup_csub. rewrite R, E. rewrite orb_true_r. reflexivity.
Qed.

(* ---------- C07: no message for writes that change nothing subscribed ---------- *)
Lemma watched_nil_no_message db now changed s :
  watched (cs_entries s) changed = [] -> fst (notify_change db now changed s) = s.
Proof.
  intros W. unfold notify_change. destruct (negb (cs_registered s)); [reflexivity|]. rewrite W. reflexivity.
Qed.

Lemma watched_changed_nil es : watched es [] = [].
Proof. reflexivity. Qed.

(* a reader that falls behind loses only the oldest messages: what it receives next is the oldest
   message still retained, never older than its own position, and among the newest `cap` *)
Theorem recv_one_spec s s' m :
  recv_one s = (s', Some m) ->
  exists pos, cs_pos s <= pos /\ Z.of_nat (length (cs_sent s)) - cs_cap s <= pos /\
              pos < Z.of_nat (length (cs_sent s)) /\
              nth_error (cs_sent s) (Z.to_nat pos) = Some m /\ cs_pos s' = pos + 1 /\
              cs_sent s' = cs_sent s.
Proof.
  unfold recv_one.
  set (n := Z.of_nat (length (cs_sent s))). set (pos := Z.max (cs_pos s) (n - cs_cap s)).
  destruct (pos <? n) eqn:E; [|discriminate]. apply Z.ltb_lt in E.
  intros H. inversion H; subst. exists pos. simpl. repeat split; auto; unfold pos; lia.
Qed.

Lemma npow2_fuel_ge f : forall p n, 0 < p -> n <= p * 2 ^ (Z.of_nat f) -> n <= npow2_fuel f p n.
Proof.
  induction f as [|f IH]; intros p n Hp Hn; cbn [npow2_fuel].
  - change (Z.of_nat 0) with 0 in Hn. rewrite Z.pow_0_r in Hn. lia.
  - destruct (n <=? p) eqn:E; [apply Z.leb_le in E; exact E|].
    apply IH; [lia|]. rewrite Nat2Z.inj_succ, Z.pow_succ_r in Hn by lia. nia.
Qed.

(* the ring retains at least buffer_size + 1 messages *)
Lemma npow2_ge n : n <= 2 ^ 64 -> n <= npow2 n.
Proof. intros H. unfold npow2. apply npow2_fuel_ge; [lia|]. change (Z.of_nat 64) with 64. lia. Qed.

(* a subscription leaves the registry only through housekeeping (receiver gone or token expired)
   or shutdown *)
Lemma cleanup_csub_unregisters now s :
  cs_registered s = true -> cs_registered (cleanup_csub now s) = false ->
  cs_open s = false \/ expired (cs_perms s) now = true.
Proof.
  unfold cleanup_csub. intros R. rewrite R. simpl.
  destruct (cs_open s); destruct (expired (cs_perms s) now); simpl; intros H; auto; congruence.
Qed.

(* ---------- C09 / C10: actuation ---------- *)
From Coq Require Import Permutation.

Lemma first_error_none {A} (f : A -> option act_error) l :
  first_error f l = None -> forall x, In x l -> f x = None.
Proof.
  induction l as [|y l IH]; simpl; [intros _ x []|].
  destruct (f y) eqn:E; [discriminate|]. intros H x [<-|Hx]; auto.
Qed.

Lemma deliver_handles l h call : map as_handle (deliver l h call) = map as_handle l.
Proof. induction l as [|a l IH]; simpl; [reflexivity|]. rewrite IH. destruct (as_handle a =? h); reflexivity. Qed.

Lemma deliver_spec l h call a :
  In a (deliver l h call) ->
  exists a0, In a0 l /\ as_handle a = as_handle a0 /\ as_ids a = as_ids a0 /\ as_perms a = as_perms a0 /\
             as_available a = as_available a0 /\ as_registered a = as_registered a0 /\
             as_inbox a = if as_handle a0 =? h then as_inbox a0 ++ [call] else as_inbox a0.
Proof.
  unfold deliver. intros H. apply in_map_iff in H. destruct H as (a0 & E & Hin). exists a0. split; [exact Hin|].
  destruct (as_handle a0 =? h) eqn:Eh; subst a; simpl; rewrite ?Eh; repeat split; reflexivity.
Qed.

Lemma find_owner_spec l id a :
  find_owner l id = Some a -> In a l /\ as_registered a = true /\ In id (as_ids a).
Proof.
  induction l as [|x l IH]; simpl; [discriminate|].
  destruct (as_registered x && mem_z id (as_ids x)) eqn:E.
  - intros H. inversion H; subst. apply andb_true_iff in E. destruct E as [R M]. split; [left; reflexivity|].
    split; [exact R|]. unfold mem_z in M. apply existsb_exists in M. destruct M as (y & Hy & Ey).
    apply Z.eqb_eq in Ey. subst. exact Hy.
  - intros H. destruct (IH H) as (A & B & C). auto.
Qed.

Lemma owner_ready_spec now o a :
  owner_ready now o = inl a -> o = Some a /\ expired (as_perms a) now = false /\ as_available a = true.
Proof.
  unfold owner_ready. destruct o as [x|]; [|discriminate].
  destruct (expired (as_perms x) now) eqn:E; [discriminate|].
  destruct (as_available x) eqn:Av; simpl; [|discriminate]. intros H. inversion H; subst. auto.
Qed.

(* single actuation: either an error and no effect at all, or exactly one request, value unchanged,
   in the inbox of the live, unexpired provider that claimed the actuator *)
Theorem actuate_spec st p id v st' r :
  actuate st p id v = (st', r) ->
  match r with
  | Some _ => st' = st
  | None =>
    exists e a, read_entry (st_db st) p (st_now st) id = inl e /\
      can_write_actuator_target p (st_now st) (path_segs (e_meta e)) = POk /\
      m_etype (e_meta e) = Actuator /\
      validate_actuator_value (vmeta_of (e_meta e)) v = None /\
      find_owner (st_asubs st) id = Some a /\ as_registered a = true /\ In id (as_ids a) /\
      expired (as_perms a) (st_now st) = false /\ as_available a = true /\
      st' = set_asubs st (deliver (st_asubs st) (as_handle a) [(id, v)])
  end.
Proof.
  unfold actuate. destruct (can_actuate_id (st_db st) p (st_now st) id) eqn:C;
    [intros H; inversion H; reflexivity|].
  destruct (validate_actuation (st_db st) p (st_now st) id v) eqn:V; [intros H; inversion H; reflexivity|].
  destruct (owner_ready (st_now st) (find_owner (st_asubs st) id)) as [a|err] eqn:O;
    [|intros H; inversion H; reflexivity].
  intros H. inversion H; subst; clear H.
  unfold can_actuate_id in C. unfold validate_actuation in V.
  destruct (read_entry (st_db st) p (st_now st) id) as [e|] eqn:R; [|discriminate].
  destruct (can_write_actuator_target p (st_now st) (path_segs (e_meta e))) eqn:W; try discriminate.
  destruct (entry_type_eqb (m_etype (e_meta e)) Actuator) eqn:T; simpl in V; [|discriminate].
  destruct (validate_actuator_value (vmeta_of (e_meta e)) v) eqn:VV; [discriminate|].
  destruct (owner_ready_spec _ _ _ O) as (Fo & Ex & Av).
  destruct (find_owner_spec _ _ _ Fo) as (_ & Rg & Hid).
  exists e, a. repeat split; auto. destruct (m_etype (e_meta e)); try discriminate; reflexivity.
Qed.

(* batch: if any element fails a check or has no live provider, nothing at all changes *)
Theorem batch_all_or_nothing st p cs st' e :
  batch_actuate st p cs = (st', Some e) -> st' = st.
Proof.
  unfold batch_actuate. destruct (first_error _ cs); [intros H; inversion H; reflexivity|].
  destruct (resolve_owners _ _ _); intros H; inversion H; reflexivity.
Qed.

Lemma group_insert_perm g c :
  Permutation (concat (map snd (group_insert g c))) (concat (map snd g) ++ [c]).
Proof.
  induction g as [|[k l] g IH]; simpl; [reflexivity|].
  destruct (k =? fst c); simpl.
  - rewrite <- !app_assoc. apply Permutation_app_head. apply Permutation_app_comm.
  - rewrite <- !app_assoc. apply Permutation_app_head. exact IH.
Qed.

Lemma group_by_id_perm cs : Permutation (concat (map snd (group_by_id cs))) cs.
Proof.
  unfold group_by_id.
  assert (G : forall cs g, Permutation (concat (map snd (fold_left group_insert cs g))) (concat (map snd g) ++ cs)).
  { clear. induction cs as [|c cs IH]; intros g; simpl; [rewrite app_nil_r; reflexivity|].
    rewrite IH. rewrite group_insert_perm. rewrite <- app_assoc. reflexivity. }
  apply (G cs []).
Qed.

Lemma resolve_owners_spec now asubs g calls :
  resolve_owners now asubs g = inl calls ->
  map snd calls = map snd g /\
  Forall2 (fun call grp => exists a, find_owner asubs (fst grp) = Some a /\ as_handle a = fst call /\
                                     expired (as_perms a) now = false /\ as_available a = true)
          calls g.
Proof.
  revert calls. induction g as [|[id l] g IH]; intros calls H; simpl in H.
  - inversion H. split; [reflexivity|constructor].
  - destruct (owner_ready now (find_owner asubs id)) as [a|] eqn:O; [|discriminate].
    destruct (resolve_owners now asubs g) as [rest|]; [|discriminate]. inversion H; subst.
    destruct (IH _ eq_refl) as [A B]. destruct (owner_ready_spec _ _ _ O) as (Fo & Ex & Av).
    split; [simpl; rewrite A; reflexivity|]. constructor; [|exact B]. exists a. auto.
Qed.

(* batch success: every element passed every check, every addressed actuator has a live
   unexpired owner, and the requests forwarded are exactly the requested ones (each once) *)
Theorem batch_success_spec st p cs st' :
  batch_actuate st p cs = (st', None) ->
  (forall id v, In (id, v) cs ->
     can_actuate_id (st_db st) p (st_now st) id = None /\
     validate_actuation (st_db st) p (st_now st) id v = None) /\
  exists calls,
    resolve_owners (st_now st) (st_asubs st) (group_by_id cs) = inl calls /\
    Permutation (concat (map snd calls)) cs /\
    st' = set_asubs st (fold_left (fun l '(h, call) => deliver l h call) calls (st_asubs st)).
Proof.
  unfold batch_actuate.
  destruct (first_error _ cs) eqn:F; [discriminate|].
  destruct (resolve_owners (st_now st) (st_asubs st) (group_by_id cs)) as [calls|] eqn:R; [|discriminate].
  intros H. inversion H; subst. split.
  - intros id v Hin. pose proof (first_error_none _ _ F (id, v) Hin) as E. simpl in E.
    destruct (can_actuate_id (st_db st) p (st_now st) id); [discriminate|]. auto.
  - exists calls. split; [reflexivity|]. split; [|reflexivity].
    destruct (resolve_owners_spec _ _ _ _ R) as [A _]. rewrite A. apply group_by_id_perm.
Qed.

(* a refused or unauthorised claim registers nothing *)
Theorem provide_refused_no_effect st p ids st' e :
  provide_actuation st p ids = (st', inr e) -> st' = st.
Proof.
  unfold provide_actuation. destruct (first_error _ ids); [intros H; inversion H; reflexivity|].
  destruct (existsb _ ids); intros H; inversion H. reflexivity.
Qed.

(* at most one live claim per actuator: registered claims are pairwise disjoint *)
Definition claims_disjoint (l : list asub) : Prop :=
  forall i j a b, nth_error l i = Some a -> nth_error l j = Some b -> i <> j ->
                  as_registered a = true -> as_registered b = true ->
                  forall x, In x (as_ids a) -> ~ In x (as_ids b).

Lemma claims_disjoint_map l f :
  (forall a, as_ids (f a) = as_ids a /\ (as_registered (f a) = true -> as_registered a = true)) ->
  claims_disjoint l -> claims_disjoint (map f l).
Proof.
  intros Hf D i j a b Ha Hb Hij Ra Rb x Hx.
  rewrite nth_error_map in Ha, Hb.
  destruct (nth_error l i) as [a0|] eqn:Ea; [|discriminate].
  destruct (nth_error l j) as [b0|] eqn:Eb; [|discriminate].
  inversion Ha; inversion Hb; subst.
  destruct (Hf a0) as [Ia Ra']. destruct (Hf b0) as [Ib Rb'].
  rewrite Ia in Hx. rewrite Ib. exact (D i j a0 b0 Ea Eb Hij (Ra' Ra) (Rb' Rb) x Hx).
Qed.

Lemma nth_error_singleton {A} (x y : A) k : nth_error [x] k = Some y -> k = O /\ y = x.
Proof. destruct k as [|[|k]]; simpl; intros H; inversion H; auto. Qed.

Lemma provide_keeps_disjoint st p ids st' r :
  claims_disjoint (st_asubs st) -> provide_actuation st p ids = (st', r) ->
  claims_disjoint (st_asubs st').
Proof.
  intros D. unfold provide_actuation. destruct (first_error _ ids); [intros H; inversion H; subst; exact D|].
  destruct (existsb (fun x => mem_z x (flat_map (fun a => if as_registered a then as_ids a else []) (st_asubs st))) ids) eqn:O;
    intros H; inversion H; subst; [exact D|]. simpl.
  assert (Fresh : forall x a, In x ids -> In a (st_asubs st) -> as_registered a = true -> ~ In x (as_ids a)).
  { intros x a Hx Ha Ra Hin.
    assert (existsb (fun x => mem_z x (flat_map (fun a => if as_registered a then as_ids a else []) (st_asubs st))) ids = true).
    { apply existsb_exists. exists x. split; [exact Hx|]. unfold mem_z. apply existsb_exists. exists x.
      split; [|apply Z.eqb_refl]. apply in_flat_map. exists a. rewrite Ra. auto. }
    congruence. }
  intros i j a b Ha Hb Hij Ra Rb x Hx.
  set (n := length (st_asubs st)) in *.
  destruct (Nat.lt_ge_cases i n) as [Li|Gi]; destruct (Nat.lt_ge_cases j n) as [Lj|Gj].
  - rewrite nth_error_app1 in Ha, Hb by assumption. exact (D i j a b Ha Hb Hij Ra Rb x Hx).
  - rewrite nth_error_app1 in Ha by assumption. rewrite nth_error_app2 in Hb by assumption.
    apply nth_error_singleton in Hb. destruct Hb as [_ ->]. simpl.
    intros Hin. apply (Fresh x a Hin); [eapply nth_error_In; eauto|exact Ra|exact Hx].
  - rewrite nth_error_app2 in Ha by assumption. rewrite nth_error_app1 in Hb by assumption.
    apply nth_error_singleton in Ha. destruct Ha as [_ ->]. simpl in Hx.
    apply (Fresh x b Hx); [eapply nth_error_In; eauto|exact Rb].
  - rewrite nth_error_app2 in Ha, Hb by assumption.
    apply nth_error_singleton in Ha. apply nth_error_singleton in Hb. lia.
Qed.

Lemma deliver_keeps_disjoint l h call : claims_disjoint l -> claims_disjoint (deliver l h call).
Proof.
  intros D. unfold deliver. apply claims_disjoint_map; [|exact D].
  intros a. destruct (as_handle a =? h); simpl; auto.
Qed.

Lemma deliver_all_keeps_disjoint calls : forall l,
  claims_disjoint l -> claims_disjoint (fold_left (fun l '(h, call) => deliver l h call) calls l).
Proof.
  induction calls as [|[h c] calls IH]; intros l D; simpl; [exact D|].
  apply IH. apply deliver_keeps_disjoint. exact D.
Qed.

Lemma cleanup_keeps_disjoint now l : claims_disjoint l -> claims_disjoint (map (cleanup_asub now) l).
Proof.
  apply claims_disjoint_map. intros a. unfold cleanup_asub.
  destruct (as_registered a && (negb (as_available a) || expired (as_perms a) now)); simpl; auto.
  split; [reflexivity|discriminate].
Qed.

Lemma update_entries_asubs st p us :
  st_asubs (fst (update_entries st p us)) = st_asubs st \/
  st_asubs (fst (update_entries st p us)) = map (cleanup_asub (st_now st)) (st_asubs st).
Proof.
  unfold update_entries.
  destruct (apply_updates (st_db st) p (st_now st) (st_clock st) us [] []) as [[db' ch] errs].
  simpl. destruct (existsb snd (map (notify_change db' (st_now st) ch) (st_csubs st))); simpl; auto.
Qed.

Lemma subscribe_asubs st p es buf : st_asubs (fst (subscribe st p es buf)) = st_asubs st.
Proof.
  unfold subscribe. destruct es; [reflexivity|].
  destruct buf as [b|]; [destruct (max_subscribe_buffer_size <? b)|]; reflexivity.
Qed.

Lemma run_op_claims st a : claims_disjoint (st_asubs st) -> claims_disjoint (st_asubs (run_op st a)).
Proof.
  intros D. unfold run_op.
  assert (D' : claims_disjoint (st_asubs (tick_clock st))) by exact D.
  generalize dependent (tick_clock st). clear st D. intros st D.
  destruct a; simpl; try exact D.
  - destruct (perms_of_claims scope 0); exact D.
  - destruct (update_entries_asubs st (get_perm st p) us) as [-> | ->]; [exact D|].
    apply cleanup_keeps_disjoint. exact D.
  - rewrite subscribe_asubs. exact D.
  - destruct (find_csub st h) as [s|]; [|exact D]. destruct (negb (cs_open s)); exact D.
  - destruct (provide_actuation st (get_perm st p) ids) as [st' r] eqn:E. simpl.
    eapply provide_keeps_disjoint; eauto.
  - apply claims_disjoint_map; [|exact D]. intros a. destruct (as_handle a =? h); simpl; auto.
  - destruct (actuate st (get_perm st p) id v) as [st' [e|]] eqn:E; simpl.
    + apply actuate_spec in E. subst. exact D.
    + apply actuate_spec in E. destruct E as (e & a & _ & _ & _ & _ & _ & _ & _ & _ & _ & ->). simpl.
      apply deliver_keeps_disjoint. exact D.
  - destruct (batch_actuate st (get_perm st p) cs) as [st' [e|]] eqn:E; simpl.
    + apply batch_all_or_nothing in E. subst. exact D.
    + apply batch_success_spec in E. destruct E as (_ & calls & _ & _ & ->). simpl.
      apply deliver_all_keeps_disjoint. exact D.
  - apply cleanup_keeps_disjoint. exact D.
  - apply claims_disjoint_map; [|exact D]. intros a. simpl. split; [reflexivity|discriminate].
Qed.

(* in every state reachable by any history, the live claims on actuators are pairwise disjoint *)
Theorem history_claims_disjoint h : claims_disjoint (st_asubs (run_history h)).
Proof.
  unfold run_history. induction h as [|a h IH] using rev_ind.
  - simpl. intros i j a b Ha. destruct i; discriminate.
  - rewrite fold_left_app_one. apply run_op_claims. exact IH.
Qed.

(* ownership is released on loss: once the owner is unavailable or expired, housekeeping
   unregisters its claim, and until then actuation fails instead of succeeding *)
Theorem actuate_fails_when_owner_lost st p id v a :
  find_owner (st_asubs st) id = Some a ->
  (as_available a = false \/ expired (as_perms a) (st_now st) = true) ->
  exists e, actuate st p id v = (st, Some e).
Proof.
  intros Fo Lost. unfold actuate.
  destruct (can_actuate_id (st_db st) p (st_now st) id); [eauto|].
  destruct (validate_actuation (st_db st) p (st_now st) id v); [eauto|].
  rewrite Fo. unfold owner_ready.
  destruct (expired (as_perms a) (st_now st)) eqn:E; [eauto|].
  destruct Lost as [Av|Ex]; [|discriminate]. rewrite Av. simpl. eauto.
Qed.

Theorem cleanup_releases_lost_claim now a :
  as_registered a = true -> (as_available a = false \/ expired (as_perms a) now = true) ->
  as_registered (cleanup_asub now a) = false.
Proof.
  intros R Lost. unfold cleanup_asub. rewrite R.
  destruct Lost as [-> | ->]; simpl; rewrite ?orb_true_r; reflexivity.
Qed.

(* ---------- C03 over histories: every message ever sent to a subscriber only carries signals
   that the subscriber's own scopes cover ---------- *)
Definition scope_reads (p : perms) (path : list (list Z)) : bool :=
  m_match (p_read p) path || m_match (p_actuate p) path || m_match (p_provide p) path
  || m_match (p_create p) path.

Lemma can_read_scope p now path : can_read p now path = POk -> scope_reads p path = true.
Proof.
  unfold can_read, scope_reads. destruct (expired p now); [discriminate|].
  destruct (m_match (p_read p) path || m_match (p_actuate p) path || m_match (p_provide p) path
            || m_match (p_create p) path); [reflexivity|discriminate].
Qed.

Definition msg_covered (db : database) (p : perms) (m : message) : Prop :=
  forall n, In n m -> exists e, lookup_id (entries db) (n_id n) = Some e /\
                               scope_reads p (path_segs (e_meta e)) = true.

Definition subs_covered (st : state) : Prop :=
  forall s, In s (st_csubs st) -> forall m, In m (cs_sent s) -> msg_covered (st_db st) (cs_perms s) m.

Lemma notif_ok_covered db p now m : Forall (notif_ok db p now) m -> msg_covered db p m.
Proof.
  intros F n Hn. rewrite Forall_forall in F. destruct (F n Hn) as (e & L & C & _).
  exists e. split; [exact L|]. eapply can_read_scope; eauto.
Qed.

Definition db_extends (db db' : database) : Prop :=
  forall id e, lookup_id (entries db) id = Some e ->
               exists e', lookup_id (entries db') id = Some e' /\ e_meta e' = e_meta e.

Lemma msg_covered_extends db db' p m : db_extends db db' -> msg_covered db p m -> msg_covered db' p m.
Proof.
  intros X C n Hn. destruct (C n Hn) as (e & L & S). destruct (X _ _ L) as (e' & L' & M).
  exists e'. rewrite M. auto.
Qed.

Lemma db_extends_refl db : db_extends db db.
Proof. intros id e L. exists e. auto. Qed.

Lemma run_op_db_extends st a : db_extends (st_db st) (st_db (run_op st a)).
Proof. intros id e L. apply run_op_meta_stable. exact L. Qed.

Lemma update_csub_in st h f s' :
  In s' (st_csubs (update_csub st h f)) -> exists s, In s (st_csubs st) /\ (s' = s \/ s' = f s).
Proof.
  unfold update_csub. simpl. intros H. apply in_map_iff in H. destruct H as (s & E & Hin).
  exists s. split; [exact Hin|]. destruct (cs_handle s =? h); auto.
Qed.

Lemma recv_one_sent s s1 o : recv_one s = (s1, o) -> cs_sent s1 = cs_sent s /\ cs_perms s1 = cs_perms s.
Proof.
  unfold recv_one.
  destruct (Z.max (cs_pos s) (Z.of_nat (length (cs_sent s)) - cs_cap s) <? Z.of_nat (length (cs_sent s)));
    intros H; inversion H; subst; auto.
Qed.

Lemma recv_k_sent k : forall s acc,
  cs_sent (fst (recv_k k s acc)) = cs_sent s /\ cs_perms (fst (recv_k k s acc)) = cs_perms s.
Proof.
  induction k as [|k IH]; intros s acc; simpl; [auto|].
  destruct (recv_one s) as [s1 o] eqn:R. destruct (recv_one_sent _ _ _ R) as [A B].
  destruct o as [m|]; [|simpl; auto].
  destruct (IH s1 (enc_message m :: acc)) as [A' B']. split; congruence.
Qed.

Lemma exec_subs_covered st a :
  subs_covered st -> db_extends (st_db st) (st_db (exec_state st a)) -> subs_covered (exec_state st a).
Proof.
  intros C X.
  assert (Keep : forall st', st_csubs st' = st_csubs st -> db_extends (st_db st) (st_db st') -> subs_covered st').
  { intros st' E X' s Hs m Hm. rewrite E in Hs. eapply msg_covered_extends; [exact X'|]. apply (C s Hs m Hm). }
  destruct a.
  - (* perm *) simpl. destruct (perms_of_claims scope 0); apply Keep; auto using db_extends_refl.
  - (* add *) apply Keep; [reflexivity|exact X].
  - (* update_entries *)
    simpl in *. unfold update_entries in *.
    destruct (apply_updates (st_db st) (get_perm st p) (st_now st) (st_clock st) us [] []) as [[db' ch] errs] eqn:E.
    set (res := map (notify_change db' (st_now st) ch) (st_csubs st)) in *.
    assert (Xd : db_extends (st_db st) db').
    { destruct (existsb snd res); simpl in X; exact X. }
    assert (Core : forall s', In s' (map fst res) -> forall m, In m (cs_sent s') -> msg_covered db' (cs_perms s') m).
    { intros s' Hs' m Hm. apply in_map_iff in Hs'. destruct Hs' as ([s1 b] & E1 & H1). simpl in E1. subst s1.
      unfold res in H1. apply in_map_iff in H1. destruct H1 as (s & E2 & Hs).
      assert (Ps : cs_perms s' = cs_perms s).
      { replace s' with (fst (notify_change db' (st_now st) ch s)) by (rewrite E2; reflexivity).
        unfold notify_change. destruct (negb (cs_registered s)); [reflexivity|].
        destruct (watched (cs_entries s) ch) as [|w0 w]; [reflexivity|].
        destruct (build_notifs db' (cs_perms s) (st_now st) (w0 :: w)) as [[|n l0]|]; try reflexivity.
        unfold cs_send. destruct (cs_open s); reflexivity. }
      destruct (notify_change_sent db' (st_now st) ch s) as [Hsame|(m0 & _ & Happ & Hok & _)];
        rewrite E2 in *; simpl in *.
      - rewrite Hsame in Hm. rewrite Ps. eapply msg_covered_extends; [exact Xd|]. apply (C s Hs m Hm).
      - rewrite Happ in Hm. apply in_app_iff in Hm. destruct Hm as [Hm|[<-|[]]].
        + rewrite Ps. eapply msg_covered_extends; [exact Xd|]. apply (C s Hs m Hm).
        + rewrite Ps. eapply notif_ok_covered; eauto. }
    destruct (existsb snd res); simpl.
    + intros s Hs m Hm. simpl in Hs. apply in_map_iff in Hs. destruct Hs as (s0 & E0 & H0).
      assert (cs_sent s = cs_sent s0 /\ cs_perms s = cs_perms s0) as [Es Ep].
      { subst s. unfold cleanup_csub. destruct (cs_registered s0 && _); auto. }
      rewrite Es in Hm. rewrite Ep. apply (Core s0 H0 m Hm).
    + intros s Hs m Hm. simpl in *. apply (Core s Hs m Hm).
  - (* get *) apply Keep; [reflexivity|exact X].
  - (* subscribe *)
    simpl in *. unfold subscribe in *. destruct es as [|e0 es]; [apply Keep; auto|].
    destruct (match buf with Some b => if max_subscribe_buffer_size <? b then None else Some (b + 1) | None => Some 1 end);
      [|apply Keep; auto].
    simpl in *. intros s Hs m Hm. apply in_app_iff in Hs. destruct Hs as [Hs|[<-|[]]].
    + apply (C s Hs m Hm).
    + simpl in Hm. destruct Hm as [<-|[]]. simpl.
      apply (notif_ok_covered _ _ (st_now st)).
      exact (build_snapshot_ok (st_db st) (get_perm st p) (st_now st) (e0 :: es)).
  - (* recv *)
    simpl in *. destruct (find_csub st h) as [s0|] eqn:F; [|apply Keep; auto].
    destruct (negb (cs_open s0)); [apply Keep; auto|].
    assert (H0 : In s0 (st_csubs st)).
    { unfold find_csub in F. apply find_some in F. apply F. }
    intros s Hs m Hm. apply update_csub_in in Hs. destruct Hs as (s1 & H1 & [->| ->]).
    + apply (C s1 H1 m Hm).
    + destruct (recv_k_sent (Z.to_nat k) s0 []) as [Es Ep]. rewrite Es in Hm. rewrite Ep.
      apply (C s0 H0 m Hm).
  - (* drop *)
    simpl in *. intros s Hs m Hm. apply update_csub_in in Hs. destruct Hs as (s1 & H1 & [->| ->]).
    + apply (C s1 H1 m Hm).
    + simpl in *. apply (C s1 H1 m Hm).
  - (* provide *)
    simpl in *. destruct (provide_actuation st (get_perm st p) ids) as [st' r] eqn:E. simpl in *.
    unfold provide_actuation in E. destruct (first_error _ ids); [inversion E; subst; apply Keep; auto|].
    destruct (existsb _ ids); inversion E; subst; apply Keep; auto using db_extends_refl.
  - (* provider down *) apply Keep; [reflexivity|exact X].
  - (* actuate *)
    simpl in *. destruct (actuate st (get_perm st p) id v) as [st' [e|]] eqn:E; simpl in *.
    + apply actuate_spec in E. subst. apply Keep; auto.
    + apply actuate_spec in E. destruct E as (e & a & _ & _ & _ & _ & _ & _ & _ & _ & _ & ->). apply Keep; auto.
  - (* batch *)
    simpl in *. destruct (batch_actuate st (get_perm st p) cs) as [st' [e|]] eqn:E; simpl in *.
    + apply batch_all_or_nothing in E. subst. apply Keep; auto.
    + apply batch_success_spec in E. destruct E as (_ & calls & _ & _ & ->). apply Keep; auto.
  - (* cleanup *)
    simpl in *. intros s Hs m Hm. apply in_map_iff in Hs. destruct Hs as (s0 & E0 & H0).
    assert (cs_sent s = cs_sent s0 /\ cs_perms s = cs_perms s0) as [Es Ep].
    { subst s. unfold cleanup_csub. destruct (cs_registered s0 && _); auto. }
    rewrite Es in Hm. rewrite Ep. apply (C s0 H0 m Hm).
  - (* shutdown *)
    simpl in *. intros s Hs m Hm. apply in_map_iff in Hs. destruct Hs as (s0 & E0 & H0). subst s. simpl in *.
    apply (C s0 H0 m Hm).
  - (* tick *) apply Keep; [reflexivity|exact X].
  - (* dump *) apply Keep; [reflexivity|exact X].
Qed.

Lemma run_op_subs_covered st a : subs_covered st -> subs_covered (run_op st a).
Proof.
  intros C. unfold run_op. apply exec_subs_covered; [exact C|].
  apply (run_op_db_extends st a).
Qed.

(* no value of a signal outside the subscriber's scopes is ever put into its stream, in any history *)
Theorem history_subs_covered h : subs_covered (run_history h).
Proof.
  unfold run_history. induction h as [|a h IH] using rev_ind.
  - intros s [].
  - rewrite fold_left_app_one. apply run_op_subs_covered. exact IH.
Qed.


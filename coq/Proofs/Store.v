(* Proofs/Store.v — the store invariant of C02 over histories: in every state reachable by any finite history
   of operations, every stored value (current, previous/LAG, target) of every signal is NotAvailable or passes
   the validation of that signal's declared metadata; combined with Proofs/Validate.v (validate <-> in_domain)
   this is "nothing outside the declared domain is ever stored". *)
From Coq Require Import ZArith Bool List Lia.
From KD Require Import Model.Values Model.Compare Model.Validate Model.Perm Model.Glob Model.Broker
     Model.BrokerRun Proofs.Broker.
Open Scope Z_scope.

Definition value_ok (m : vmeta) (v : value) : Prop := v = VNA \/ validate_datapoint_value m v = None.

Definition entry_ok (e : entry) : Prop :=
  value_ok (vmeta_of (e_meta e)) (d_value (e_dp e)) /\
  value_ok (vmeta_of (e_meta e)) (d_value (e_lag e)) /\
  match e_target e with None => True | Some d => value_ok (vmeta_of (e_meta e)) (d_value d) end.

Definition store_ok (db : database) : Prop :=
  forall id e, lookup_id (entries db) id = Some e -> entry_ok e.

Lemma store_ok_init : store_ok (st_db init_state).
Proof. intros id e L. cbn in L. discriminate. Qed.

(* an accepted element: the new entry holds validated values *)
Lemma spec_apply_ok e u clock :
  entry_ok e ->
  (forall v, diff_dp e (u_dp u) = Some v -> validate_datapoint_value (vmeta_of (e_meta e)) v = None) ->
  (forall t, u_target u = Some (Some t) -> validate_datapoint_value (vmeta_of (e_meta e)) t = None) ->
  entry_ok (spec_apply e u clock).
Proof.
  intros (Hd & Hl & Ht) Vd Vt. unfold entry_ok, spec_apply. cbn [e_dp e_lag e_target e_meta].
  destruct (diff_dp e (u_dp u)) as [v|] eqn:D; cbn [d_value].
  - split; [right; apply Vd; reflexivity|]. split; [exact Hd|].
    destruct (u_target u) as [[t|]|] eqn:T; cbn [option_map d_value]; [right; apply Vt; reflexivity|exact I|exact Ht].
  - split; [exact Hd|]. split; [exact Hl|].
    destruct (u_target u) as [[t|]|] eqn:T; cbn [option_map d_value]; [right; apply Vt; reflexivity|exact I|exact Ht].
Qed.

Lemma update_one_store db p now clock id u db' r :
  store_ok db -> update_one db p now clock id u = (db', r) -> store_ok db'.
Proof.
  intros S U. destruct r as [ch|err].
  - destruct (update_one_ok _ _ _ _ _ _ _ _ U) as (e & L & _ & _ & _ & Vd & Vt & Edb & _).
    subst db'. intros j e' Lj. cbn [entries] in Lj.
    destruct (Z.eq_dec j id) as [->|Hne].
    + rewrite (lookup_replace_same _ _ _ _ L) in Lj. inversion Lj; subst.
      apply spec_apply_ok; [apply (S _ _ L)|exact Vd|exact Vt].
    + rewrite (lookup_replace_other _ _ _ _ Hne) in Lj. apply (S _ _ Lj).
  - rewrite (update_one_err _ _ _ _ _ _ _ _ U). exact S.
Qed.

Lemma apply_updates_store : forall us db p now clock changed errs db' changed' errs',
  store_ok db -> apply_updates db p now clock us changed errs = (db', changed', errs') -> store_ok db'.
Proof.
  induction us as [|[id u] us IH]; intros db p now clock changed errs db' changed' errs' S H; cbn [apply_updates] in H.
  - inversion H; subst. exact S.
  - destruct (update_one db p now clock id u) as [db1 r] eqn:U.
    pose proof (update_one_store _ _ _ _ _ _ _ _ S U) as S1.
    destruct r; eapply IH; eassumption.
Qed.

Lemma add_entry_store db p now clock name dt ct et mn mx al db' r :
  store_ok db -> add_entry db p now clock name dt ct et mn mx al = (db', r) -> store_ok db'.
Proof.
  intros S. unfold add_entry.
  destruct (negb (valid_path name)); [intros H; inversion H; subst; exact S|].
  destruct (can_create p now (split_on dot name)); try (intros H; inversion H; subst; exact S).
  destruct (lookup_path (path_to_id db) name); [intros H; inversion H; subst; exact S|].
  destruct (validate_allowed_type dt al); [intros H; inversion H; subst; exact S|].
  intros H; inversion H; subst. intros j e' Lj. cbn [entries] in Lj. rewrite lookup_id_app in Lj.
  destruct (lookup_id (entries db) j) as [e0|] eqn:L0.
  - inversion Lj; subst. apply (S _ _ L0).
  - cbn [lookup_id] in Lj. destruct (next_id db =? j); [|discriminate]. inversion Lj; subst.
    unfold entry_ok. cbn. repeat split; try (left; reflexivity).
Qed.

Lemma run_op_store st a : store_ok (st_db st) -> store_ok (st_db (run_op st a)).
Proof.
  intros S. unfold run_op. rewrite exec_db. destruct a; try (rewrite tick_clock_db; exact S).
  - destruct (add_entry (st_db (tick_clock st)) (get_perm (tick_clock st) p) (st_now (tick_clock st))
                        (st_clock (tick_clock st)) name dt ct et mn mx al) as [db' r] eqn:E.
    cbn [fst]. rewrite tick_clock_db in E. eapply add_entry_store; eassumption.
  - destruct (apply_updates (st_db (tick_clock st)) (get_perm (tick_clock st) p) (st_now (tick_clock st))
                            (st_clock (tick_clock st)) us [] []) as [[db' ch] errs] eqn:E.
    cbn [fst]. rewrite tick_clock_db in E. eapply apply_updates_store; eassumption.
Qed.

(* every reachable state *)
Theorem history_store_ok h : store_ok (st_db (run_history h)).
Proof.
  unfold run_history. induction h as [|a h IH] using rev_ind.
  - exact store_ok_init.
  - rewrite fold_left_app. cbn [fold_left]. apply run_op_store. exact IH.
Qed.

(* what a reader is handed is a stored entry, so the invariant covers every value returned ... *)
Theorem read_entry_ok db p now id e : store_ok db -> read_entry db p now id = inl e -> entry_ok e.
Proof.
  intros S. unfold read_entry. destruct (lookup_id (entries db) id) as [e0|] eqn:L; [|discriminate].
  destruct (can_read p now (path_segs (e_meta e0))); try discriminate.
  intros H; inversion H; subst. apply (S _ _ L).
Qed.

(* ... and a forwarded actuation value has passed the same validation *)
Theorem actuate_forwards_validated st p id v st' :
  actuate st p id v = (st', None) ->
  exists e, read_entry (st_db st) p (st_now st) id = inl e /\
            validate_actuator_value (vmeta_of (e_meta e)) v = None.
Proof.
  intros A. pose proof (actuate_spec _ _ _ _ _ _ A) as H. cbn in H.
  destruct H as (e & a & R & _ & _ & V & _). exists e. split; assumption.
Qed.

(* the invariant is not vacuous: a history that registers a bounded int32 signal, stores 7 (accepted) and then
   tries 99 (refused: above max) ends in a state whose entry holds exactly the accepted value *)
Definition ex_scope : list Z := [112; 114; 111; 118; 105; 100; 101; 32; 99; 114; 101; 97; 116; 101; 32; 114; 101; 97; 100].
  (* "provide create read" *)
Definition ex_history : list aop :=
  [APerm false ex_scope;
   AAdd 0 [86; 46; 83] TInt32 Continuous Sensor (Some (VI32 0)) (Some (VI32 10)) None;
   AUpdate 0 [(0, {| u_dp := Some (VI32 7); u_target := None; u_meta := false |})];
   AUpdate 0 [(0, {| u_dp := Some (VI32 99); u_target := None; u_meta := false |})]].

Example store_inv_nonvacuous :
  option_map (fun e => d_value (e_dp e)) (lookup_id (entries (st_db (run_history ex_history))) 0) = Some (VI32 7).
Proof. vm_compute. reflexivity. Qed.

(* ---------- an expired token changes nothing (C04: "each unexpired at the time of the request") ---------- *)
Theorem expired_token_changes_nothing us db p now clock changed errs db' changed' errs' id e e' :
  expired p now = true ->
  apply_updates db p now clock us changed errs = (db', changed', errs') ->
  lookup_id (entries db) id = Some e -> lookup_id (entries db') id = Some e' -> e' = e.
Proof.
  intros X H L L'.
  destruct (apply_updates_needs_permission _ _ _ _ _ _ _ _ _ _ _ _ _ H L L') as (Hd & Ht).
  destruct (apply_updates_frame _ _ _ _ _ _ _ _ _ _ H) as (_ & _ & _ & _ & M).
  destruct (M _ _ L') as (e0 & L0 & Em). rewrite L in L0. inversion L0; subst e0.
  assert (D : can_write_datapoint p now (path_segs (e_meta e)) <> POk)
    by (unfold can_write_datapoint; rewrite X; discriminate).
  assert (T : can_write_actuator_target p now (path_segs (e_meta e)) <> POk)
    by (unfold can_write_actuator_target; rewrite X; discriminate).
  destruct (Hd D) as (E1 & E2). pose proof (Ht T) as E3.
  destruct e, e'. cbn in *. congruence.
Qed.

(* and registers nothing *)
Theorem expired_token_registers_nothing db p now clock name dt ct et mn mx al db' r :
  expired p now = true -> add_entry db p now clock name dt ct et mn mx al = (db', r) -> db' = db.
Proof.
  intros X. unfold add_entry. destruct (negb (valid_path name)); [intros H; inversion H; reflexivity|].
  unfold can_create. rewrite X. intros H; inversion H; reflexivity.
Qed.

(* Errors.v — status classes (C19): the class of every error vocabulary the APIs use, and an
   independent, declarative list of the causes that apply to a request in a given state.
   Definitions only. *)
From Coq Require Import ZArith Bool List.
From KD Require Import Model.Values Model.Compare Model.Validate Model.Perm Model.Glob Model.Broker Model.Api.
Open Scope Z_scope.

Inductive cls := CNotFound | CUnauth | CDenied | CInvalid | CUnavailable | CExists.

Definition cls_eqb (a b : cls) : bool :=
  match a, b with
  | CNotFound, CNotFound | CUnauth, CUnauth | CDenied, CDenied | CInvalid, CInvalid
  | CUnavailable, CUnavailable | CExists, CExists => true
  | _, _ => false
  end.

(* ---------- vocabularies ---------- *)
Definition class_of_grpc (c : Z) : option cls :=
  if c =? NOT_FOUND then Some CNotFound else if c =? UNAUTHENTICATED then Some CUnauth
  else if c =? PERMISSION_DENIED then Some CDenied else if c =? INVALID_ARGUMENT then Some CInvalid
  else if c =? UNAVAILABLE then Some CUnavailable else if c =? ALREADY_EXISTS then Some CExists else None.

(* kuksa.val.v1 per-entry codes *)
Definition class_of_v1 (c : Z) : option cls :=
  if c =? 404 then Some CNotFound else if c =? 401 then Some CUnauth
  else if c =? 403 then Some CDenied else if c =? 400 then Some CInvalid else None.

(* sdv DatapointError has no member for "unauthenticated": an expired token is reported with its
   access-denied member (documented in the .proto); the class of ACCESS_DENIED is therefore
   "denied or unauthenticated" *)
Definition classes_of_sdv_error (c : Z) : list cls :=
  if c =? 0 then [CNotFound] else if c =? 1 then [CInvalid] else if c =? 2 then [CDenied; CUnauth]
  else if c =? 4 then [CInvalid] else [].

(* the class each internal error is meant to carry *)
Definition cls_update (e : update_error) : cls :=
  match e with
  | UNotFound => CNotFound
  | UPermissionDenied => CDenied
  | UPermissionExpired => CUnauth
  | _ => CInvalid
  end.
Definition cls_read (e : read_error) : cls :=
  match e with RNotFound => CNotFound | RDenied => CDenied | RExpired => CUnauth end.
Definition cls_act (e : act_error) : option cls :=
  match e with
  | ANotFound => Some CNotFound
  | AWrongType | AOutOfBounds | AUnsupportedType => Some CInvalid
  | ADenied => Some CDenied
  | AExpired => Some CUnauth
  | ANotAvailable => Some CUnavailable
  | AAlreadyExists => Some CExists
  | ATransmission => None
  end.
Definition cls_reg (e : reg_error) : cls :=
  match e with GValidation => CInvalid | GDenied => CDenied | GExpired => CUnauth end.

(* ---------- applicable causes, written without reference to the handlers ---------- *)
Definition scope_allows (m : matcher) (path : list (list Z)) : bool := m_match m path.

Definition read_allowed (p : perms) (path : list (list Z)) : bool :=
  m_match (p_read p) path || m_match (p_actuate p) path || m_match (p_provide p) path
  || m_match (p_create p) path.

(* reading signal id *)
Definition causes_read (db : database) (p : perms) (now : Z) (id : Z) : list cls :=
  match lookup_id (entries db) id with
  | None => [CNotFound]
  | Some e =>
    (if expired p now then [CUnauth] else [])
    ++ (if negb (expired p now) && negb (read_allowed p (path_segs (e_meta e))) then [CDenied] else [])
  end.

(* one element of an update *)
Definition causes_update (db : database) (p : perms) (now : Z) (id : Z) (u : upd) : list cls :=
  match lookup_id (entries db) id with
  | None => [CNotFound]
  | Some e =>
    let path := path_segs (e_meta e) in
    let vm := vmeta_of (e_meta e) in
    let writes := match u_dp u, u_target u with None, None => false | _, _ => true end in
    (if u_meta u then [CDenied] else [])
    ++ (if writes && expired p now then [CUnauth] else [])
    ++ (match u_dp u with
        | Some _ => if negb (expired p now) && negb (scope_allows (p_provide p) path) then [CDenied] else []
        | None => [] end)
    ++ (match u_target u with
        | Some _ => if negb (expired p now) && negb (scope_allows (p_actuate p) path) then [CDenied] else []
        | None => [] end)
    ++ (match diff_dp e (u_dp u) with
        | Some v => match validate_datapoint_value vm v with Some _ => [CInvalid] | None => [] end
        | None => [] end)
    ++ (match u_target u with
        | Some (Some t) => match validate_datapoint_value vm t with Some _ => [CInvalid] | None => [] end
        | _ => [] end)
  end.

(* one actuation request *)
Definition causes_actuate (st : state) (p : perms) (id : Z) (v : value) : list cls :=
  match lookup_id (entries (st_db st)) id with
  | None => [CNotFound]
  | Some e =>
    let path := path_segs (e_meta e) in
    (if expired p (st_now st) then [CUnauth] else [])
    ++ (if negb (expired p (st_now st)) && negb (read_allowed p path && scope_allows (p_actuate p) path)
        then [CDenied] else [])
    ++ (if negb (entry_type_eqb (m_etype (e_meta e)) Actuator) then [CInvalid] else [])
    ++ (match validate_actuator_value (vmeta_of (e_meta e)) v with Some _ => [CInvalid] | None => [] end)
    ++ (match find_owner (st_asubs st) id with
        | None => [CUnavailable]
        | Some a => (if expired (as_perms a) (st_now st) then [CUnauth] else [])
                    ++ (if negb (as_available a) then [CUnavailable] else [])
        end)
  end.

(* a claim of actuators *)
Definition causes_provide (st : state) (p : perms) (ids : list Z) : list cls :=
  flat_map (fun id =>
              match lookup_id (entries (st_db st)) id with
              | None => [CNotFound]
              | Some e =>
                let path := path_segs (e_meta e) in
                (if expired p (st_now st) then [CUnauth] else [])
                ++ (if negb (expired p (st_now st)) && negb (read_allowed p path && scope_allows (p_actuate p) path)
                    then [CDenied] else [])
              end) ids
  ++ (if existsb (fun x => mem_z x (flat_map (fun a => if as_registered a then as_ids a else []) (st_asubs st))) ids
      then [CExists] else []).

(* addressing a signal in kuksa.val.v2 *)
Definition causes_signal (db : database) (s : sig_ref) : list cls :=
  match s with
  | SigAbsent | SigEmpty => [CInvalid]
  | SigPath p => if too_long p then [CInvalid]
                 else match lookup_path (path_to_id db) p with Some _ => [] | None => [CNotFound] end
  | SigId id => match lookup_id (entries db) id with Some _ => [] | None => [CNotFound] end
  end.

Definition causes_v2_get (st : state) (p : perms) (s : sig_ref) : list cls :=
  causes_signal (st_db st) s ++
  match v2_get_signal (st_db st) s with
  | inl id => causes_read (st_db st) p (st_now st) id
  | inr _ => []
  end.

Definition causes_v2_publish (st : state) (p : perms) (s : sig_ref) (dp : option (option value)) : list cls :=
  (match dp with None => [CInvalid] | Some _ => [] end)
  ++ causes_signal (st_db st) s
  ++ match dp, v2_get_signal (st_db st) s with
     | Some w, inl id => causes_update (st_db st) p (st_now st) id (dp_upd (from_wire w))
     | _, _ => []
     end.

(* Perm.v — scope strings and permissions: authorization/jwt/scope.rs
   (parse_whitespace_separated), decoder.rs (TryFrom<Claims> for Permissions),
   permissions.rs (can_read / can_write_datapoint / can_write_actuator_target / can_create)
   and the matcher that glob::to_regex_string builds for scope paths. Characters are
   integers (bytes); definitions only. *)
From Coq Require Import ZArith Bool List.
From KD Require Import Model.Values.
Open Scope Z_scope.

Inductive action := ARead | AActuate | AProvide | ACreate.

(* one path segment of a scope: a name or `*` *)
Inductive seg := SName (s : list Z) | SStar.

Record scope := { sc_action : action; sc_path : option (list seg) }.

(* ---------- characters ---------- *)
Definition is_ws (c : Z) : bool :=
  (c =? 32) || ((9 <=? c) && (c <=? 13)).
(* Strings are UTF-8 byte lists.  Rust's `\s` (regex, Unicode mode) and char::is_whitespace also cover the
   White_Space characters beyond ASCII: U+0085 U+00A0 (2 bytes), U+1680, U+2000..U+200A, U+2028, U+2029,
   U+202F, U+205F, U+3000 (3 bytes).  `ascii_ws` replaces each of their encodings by a space, so that the
   byte-level definitions below see every whitespace character as one. *)
Definition uni_ws2 (a b : Z) : bool := (a =? 194) && ((b =? 133) || (b =? 160)).
Definition uni_ws3 (a b c : Z) : bool :=
  ((a =? 225) && (b =? 154) && (c =? 128))
  || ((a =? 226) && (b =? 128) && (((128 <=? c) && (c <=? 138)) || (c =? 168) || (c =? 169) || (c =? 175)))
  || ((a =? 226) && (b =? 129) && (c =? 159))
  || ((a =? 227) && (b =? 128) && (c =? 128)).
Fixpoint ascii_ws (s : list Z) : list Z :=
  match s with
  | [] => []
  | a :: r1 =>
    match r1 with
    | [] => [a]
    | b :: r2 =>
      if uni_ws2 a b then 32 :: ascii_ws r2
      else match r2 with
           | [] => a :: ascii_ws r1
           | c :: r3 => if uni_ws3 a b c then 32 :: ascii_ws r3 else a :: ascii_ws r1
           end
    end
  end.

Definition is_upper (c : Z) : bool := (65 <=? c) && (c <=? 90).
Definition is_lower (c : Z) : bool := (97 <=? c) && (c <=? 122).
Definition is_digit (c : Z) : bool := (48 <=? c) && (c <=? 57).
Definition is_alnum (c : Z) : bool := is_upper c || is_lower c || is_digit c.
Definition colon := 58.
Definition dot := 46.
Definition star := 42.

(* str::split_whitespace *)
Fixpoint split_ws_aux (s : list Z) (cur : list Z) : list (list Z) :=
  match s with
  | [] => match cur with [] => [] | _ => [rev cur] end
  | c :: r => if is_ws c
              then match cur with [] => split_ws_aux r [] | _ => rev cur :: split_ws_aux r [] end
              else split_ws_aux r (c :: cur)
  end.
Definition split_ws (s : list Z) : list (list Z) := split_ws_aux (ascii_ws s) [].

(* split at every occurrence of a separator (keeps empty pieces) *)
Fixpoint split_on_aux (sep : Z) (s : list Z) (cur : list Z) : list (list Z) :=
  match s with
  | [] => [rev cur]
  | c :: r => if c =? sep then rev cur :: split_on_aux sep r [] else split_on_aux sep r (c :: cur)
  end.
Definition split_on (sep : Z) (s : list Z) : list (list Z) := split_on_aux sep s [].

(* [A-Z][a-zA-Z0-9]* *)
Definition is_name (s : list Z) : bool :=
  match s with
  | c :: r => is_upper c && forallb is_alnum r
  | [] => false
  end.

Definition parse_seg (s : list Z) : option seg :=
  match s with
  | [c] => if c =? star then Some SStar else if is_name s then Some (SName s) else None
  | _ => if is_name s then Some (SName s) else None
  end.

Fixpoint parse_segs (l : list (list Z)) : option (list seg) :=
  match l with
  | [] => Some []
  | s :: r => match parse_seg s, parse_segs r with
              | Some x, Some xs => Some (x :: xs)
              | _, _ => None
              end
  end.

(* seg(\.seg)* — at least one segment, none empty *)
Definition parse_path (s : list Z) : option (list seg) := parse_segs (split_on dot s).

Definition str_read := [114; 101; 97; 100].
Definition str_actuate := [97; 99; 116; 117; 97; 116; 101].
Definition str_provide := [112; 114; 111; 118; 105; 100; 101].
Definition str_create := [99; 114; 101; 97; 116; 101].

Definition parse_action (s : list Z) : option action :=
  if str_eqb s str_read then Some ARead
  else if str_eqb s str_actuate then Some AActuate
  else if str_eqb s str_provide then Some AProvide
  else if str_eqb s str_create then Some ACreate
  else None.

(* action up to the first ':' ; the rest (if any) must be a path *)
Fixpoint cut_colon (s : list Z) (acc : list Z) : list Z * option (list Z) :=
  match s with
  | [] => (rev acc, None)
  | c :: r => if c =? colon then (rev acc, Some r) else cut_colon r (c :: acc)
  end.

Definition parse_one (chunk : list Z) : option scope :=
  let '(a, p) := cut_colon chunk [] in
  match p with
  | None => match parse_action a with
            | Some act => Some {| sc_action := act; sc_path := None |}
            | None => None
            end
  | Some ps => match parse_path ps, parse_action a with
               | Some segs, Some act => Some {| sc_action := act; sc_path := Some segs |}
               | _, _ => None
               end
  end.

Fixpoint parse_all (l : list (list Z)) : option (list scope) :=
  match l with
  | [] => Some []
  | c :: r => match parse_one c with
              | Some s => match parse_all r with Some ss => Some (s :: ss) | None => None end
              | None => None
              end
  end.

(* scope::parse_whitespace_separated: one bad chunk invalidates everything *)
Definition parse_scope (s : list Z) : option (list scope) := parse_all (split_ws s).

(* ---------- matching (what the RegexSet built by glob::to_regex_string decides on
   well-formed signal paths) ---------- *)
Definition has_star (p : list seg) : bool :=
  existsb (fun s => match s with SStar => true | _ => false end) p.

Definition seg_match (s : seg) (name : list Z) : bool :=
  match s with SStar => true | SName n => str_eqb n name end.

Fixpoint prefix_match (p : list seg) (path : list (list Z)) : bool :=
  match p, path with
  | [], _ => true
  | s :: p', n :: path' => seg_match s n && prefix_match p' path'
  | _ :: _, [] => false
  end.

Fixpoint exact_match (p : list seg) (path : list (list Z)) : bool :=
  match p, path with
  | [], [] => true
  | s :: p', n :: path' => seg_match s n && exact_match p' path'
  | _, _ => false
  end.

(* a scope path without `*` covers the signal or branch and everything below;
   with `*` every pattern segment stands for exactly one level; the lone `*` matches nothing *)
Definition covers (p : list seg) (path : list (list Z)) : bool :=
  match p with
  | [SStar] => false
  | _ => if has_star p then exact_match p path else prefix_match p path
  end.

(* permissions.rs: PathMatcher *)
Inductive matcher := MNothing | MEverything | MGlobs (l : list (list seg)).

Definition m_match (m : matcher) (path : list (list Z)) : bool :=
  match m with
  | MNothing => false
  | MEverything => true
  | MGlobs l => existsb (fun p => covers p path) l
  end.

(* PathMatchBuilder::extend_with(Everything) / extend_with_glob *)
Definition m_add (m : matcher) (p : option (list seg)) : matcher :=
  match m, p with
  | MEverything, _ => MEverything
  | _, None => MEverything
  | MNothing, Some g => MGlobs [g]
  | MGlobs l, Some g => MGlobs (l ++ [g])
  end.

Record perms := { p_expires : option Z; p_read : matcher; p_actuate : matcher;
                  p_provide : matcher; p_create : matcher }.

Definition allow_all : perms :=
  {| p_expires := None; p_read := MEverything; p_actuate := MEverything;
     p_provide := MEverything; p_create := MEverything |}.
Definition allow_none : perms :=
  {| p_expires := None; p_read := MNothing; p_actuate := MNothing;
     p_provide := MNothing; p_create := MNothing |}.

Definition add_scope (p : perms) (s : scope) : perms :=
  match sc_action s with
  | ARead => {| p_expires := p_expires p; p_read := m_add (p_read p) (sc_path s);
                p_actuate := p_actuate p; p_provide := p_provide p; p_create := p_create p |}
  | AActuate => {| p_expires := p_expires p; p_read := p_read p;
                   p_actuate := m_add (p_actuate p) (sc_path s);
                   p_provide := p_provide p; p_create := p_create p |}
  | AProvide => {| p_expires := p_expires p; p_read := p_read p; p_actuate := p_actuate p;
                   p_provide := m_add (p_provide p) (sc_path s); p_create := p_create p |}
  | ACreate => {| p_expires := p_expires p; p_read := p_read p; p_actuate := p_actuate p;
                  p_provide := p_provide p; p_create := m_add (p_create p) (sc_path s) |}
  end.

(* TryFrom<Claims> for Permissions *)
Definition perms_of_claims (scope_str : list Z) (exp : Z) : option perms :=
  match parse_scope scope_str with
  | None => None
  | Some ss =>
    let p := fold_left add_scope ss allow_none in
    Some {| p_expires := Some exp; p_read := p_read p; p_actuate := p_actuate p;
            p_provide := p_provide p; p_create := p_create p |}
  end.

(* PermissionError *)
Inductive perm_res := POk | PDenied | PExpired.

(* expires_at < now *)
Definition expired (p : perms) (now : Z) : bool :=
  match p_expires p with Some e => e <? now | None => false end.

Definition can_read (p : perms) (now : Z) (path : list (list Z)) : perm_res :=
  if expired p now then PExpired
  else if m_match (p_read p) path || m_match (p_actuate p) path
          || m_match (p_provide p) path || m_match (p_create p) path then POk
  else PDenied.

Definition can_write_actuator_target (p : perms) (now : Z) (path : list (list Z)) : perm_res :=
  if expired p now then PExpired else if m_match (p_actuate p) path then POk else PDenied.
Definition can_write_datapoint (p : perms) (now : Z) (path : list (list Z)) : perm_res :=
  if expired p now then PExpired else if m_match (p_provide p) path then POk else PDenied.
Definition can_create (p : perms) (now : Z) (path : list (list Z)) : perm_res :=
  if expired p now then PExpired else if m_match (p_create p) path then POk else PDenied.

Definition perm_res_code (r : perm_res) : Z :=
  match r with POk => 0 | PDenied => 1 | PExpired => 2 end.

(* ---------- driver ----------
   line = now exp scope_len scope_bytes.. (act path_len path_bytes..)*
   out  = [0] (claims rejected) | 1 :: results   act: 0 read 1 actuate 2 provide 3 create *)
Definition can (act : Z) (p : perms) (now : Z) (path : list (list Z)) : perm_res :=
  if act =? 0 then can_read p now path
  else if act =? 1 then can_write_actuator_target p now path
  else if act =? 2 then can_write_datapoint p now path
  else can_create p now path.

Fixpoint run_queries (fuel : nat) (p : perms) (now : Z) (ts : list Z) : list Z :=
  match fuel with
  | O => []
  | S f =>
    match ts with
    | act :: r =>
      match dec_str r with
      | Some (path, r') => perm_res_code (can act p now (split_on dot path)) :: run_queries f p now r'
      | None => [-1]
      end
    | [] => []
    end
  end.

Definition run_scope_line (ts : list Z) : list Z :=
  match ts with
  | now :: exp :: r =>
    match dec_str r with
    | Some (sc, qs) =>
      match perms_of_claims sc exp with
      | None => [0]
      | Some p => 1 :: run_queries (length qs) p now qs
      end
    | None => [-1]
    end
  | _ => [-1]
  end.

(* Auth.v — admission of a request by the gRPC server (grpc/server.rs: impl Interceptor for
   Authorization; authorization/jwt/decoder.rs: Decoder::new / decode; TryFrom<Claims>) and its
   effect on a server that has one signal per RPC.  Definitions only.
   A token is described by how it deviates from a freshly signed, well-formed one; the harness
   builds the real token (RS256 with certificates/jwt/jwt.key etc.) from the same description.
   Not modelled: RSA, base64, JSON — the description says whether the signature is intact. *)
From Coq Require Import ZArith Bool List.
From KD Require Import Model.Values.
Open Scope Z_scope.

Record token := {
  t_alg : Z;      (* 0 RS256 | 1 HS256 keyed with the public key | 2 none | 3 RS384 | 4 RS512 *)
  t_key : Z;      (* 0 the configured key pair | 1 another RSA key *)
  t_sig : Z;      (* 0 intact | 1 truncated | 2 one character changed | 3 payload replaced after signing
                     | 4 header replaced after signing *)
  t_claims : Z;   (* 0 all present | 1..6 sub / iss / iat / exp / scope / aud missing | 7 aud a string
                     | 8 iat a string *)
  t_aud : Z;      (* 0 ["kuksa.val"] | 1 ["other"] | 2 ["x","kuksa.val"] | 3 [] *)
  t_exp : Z;      (* expiry minus the time of the request, seconds *)
  t_scope : Z;    (* 0 a valid scope | otherwise an invalid scope string *)
  t_scheme : Z }. (* 0 "Bearer <token>" | 1 "bearer " | 2 "Basic " | 3 no space | 4 bare token *)

Inductive header := HNone | HToken (t : token) | HGarbage | HEmpty.

Definition token_ok (t : token) : bool :=
  (t_alg t =? 0) && (t_key t =? 0) && (t_sig t =? 0) && (t_claims t =? 0)
  && ((t_aud t =? 0) || (t_aud t =? 2)) && (0 <? t_exp t) && (t_scope t =? 0) && (t_scheme t =? 0).

Definition admitted (h : header) : bool :=
  match h with HToken t => token_ok t | _ => false end.

(* the server under test: one Int32 signal per RPC; what the writing RPCs last wrote, and the
   names registered through the collector *)
Record srv := { s_values : list (Z * Z); s_registered : list Z }.
Definition srv_init : srv := {| s_values := []; s_registered := [] |}.

Definition UNAUTHENTICATED : Z := 16.
Definition PERMISSION_DENIED : Z := 7.

(* RPC numbering: 0-4 kuksa.val.v1 Get Set StreamedUpdate Subscribe GetServerInfo; 5-14 kuksa.val.v2
   GetValue GetValues Subscribe SubscribeById Actuate BatchActuate ListMetadata PublishValue
   OpenProviderStream GetServerInfo; 15-18 sdv Broker GetDatapoints SetDatapoints Subscribe
   GetMetadata; 19-21 sdv Collector RegisterDatapoints UpdateDatapoints StreamDatapoints *)
Definition writes_value (rpc : Z) : bool :=
  (rpc =? 1) || (rpc =? 2) || (rpc =? 12) || (rpc =? 13) || (rpc =? 20) || (rpc =? 21).

(* status of the minimal well-formed request when it is let through with full rights:
   actuation finds no provider *)
Definition served_code (rpc : Z) : Z := if (rpc =? 9) || (rpc =? 10) then 14 else 0.

Fixpoint set_value (l : list (Z * Z)) (rpc k : Z) : list (Z * Z) :=
  match l with
  | [] => [(rpc, k)]
  | (r, v) :: rest => if r =? rpc then (r, k) :: rest else (r, v) :: set_value rest rpc k
  end.

Fixpoint insert_sorted (k : Z) (l : list Z) : list Z :=
  match l with
  | [] => [k]
  | x :: r => if k <? x then k :: l else if k =? x then l else x :: insert_sorted k r
  end.

Definition serve (st : srv) (rpc k : Z) : srv * Z :=
  (if writes_value rpc then {| s_values := set_value (s_values st) rpc k; s_registered := s_registered st |}
   else if rpc =? 19 then {| s_values := s_values st; s_registered := insert_sorted k (s_registered st) |}
   else st, served_code rpc).

(* one call: with authorization enabled the interceptor stands in front of every RPC *)
Definition call (auth_enabled : bool) (st : srv) (rpc k : Z) (h : header) : srv * Z :=
  if auth_enabled && negb (admitted h) then (st, UNAUTHENTICATED) else serve st rpc k.

(* ---------- driver ---------- *)
Definition dec_header (ts : list Z) : option header :=
  match ts with
  | [0] => Some HNone
  | [1; a; k; s; c; au; e; sc; sch] =>
    Some (HToken {| t_alg := a; t_key := k; t_sig := s; t_claims := c; t_aud := au; t_exp := e;
                    t_scope := sc; t_scheme := sch |})
  | [2] => Some HGarbage
  | [3] => Some HEmpty
  | _ => None
  end.

Fixpoint lookup_value (l : list (Z * Z)) (rpc : Z) : option Z :=
  match l with
  | [] => None
  | (r, v) :: rest => if r =? rpc then Some v else lookup_value rest rpc
  end.

Definition dump (st : srv) : list (list Z) :=
  map (fun rpc => [700; rpc] ++ match lookup_value (s_values st) rpc with
                                 | Some v => enc_value (VI32 v)
                                 | None => enc_value VNA
                                 end) [1; 2; 12; 16; 20; 21; 13]
  ++ [[701; Z.of_nat (length (s_registered st))] ++ s_registered st].

(* the very same token (same header text) presented again after its expiry instant has passed *)
Definition expire (h : header) : header :=
  match h with
  | HToken t => HToken {| t_alg := t_alg t; t_key := t_key t; t_sig := t_sig t; t_claims := t_claims t;
                         t_aud := t_aud t; t_exp := -1; t_scope := t_scope t; t_scheme := t_scheme t |}
  | x => x
  end.

Fixpoint run_srv (auth : bool) (st : srv) (ls : list (list Z)) : list (list Z) :=
  match ls with
  | [] => []
  | (1 :: rpc :: 0 :: k :: hd) :: r =>
    match dec_header hd with
    | Some h => let '(st', code) := call auth st rpc k h in [code; 0] :: run_srv auth st' r
    | None => [-1] :: run_srv auth st r
    end
  | [2] :: r => dump st ++ run_srv auth st r
  (* 4: one token, used before and again after its expiry (the harness waits in between) *)
  | (4 :: rpc :: 0 :: k :: hd) :: r =>
    match dec_header hd with
    | Some h => let '(st1, c1) := call auth st rpc k h in
                let '(st2, c2) := call auth st1 rpc k (expire h) in
                [c1; 0] :: [c2; 0] :: run_srv auth st2 r
    | None => [-1] :: run_srv auth st r
    end
  | _ :: r => [-1] :: run_srv auth st r
  end.

Definition run_auth_case (case : list (list Z)) : list (list Z) :=
  match case with
  | [0; mode] :: r => run_srv (negb (mode =? 0)) srv_init r
  | _ => [[-1]]
  end.

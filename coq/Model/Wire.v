(* Wire.v — driver for the direct conversion sweep (C15): the From/Into impls of the three
   conversions.rs files are called on every value kind; the model says what must come out.
   line = api fn args   (api: 1 kuksa.val.v1, 2 kuksa.val.v2, 3 sdv.databroker.v1)
     fn 0  value : broker value -> proto -> (decoded by the harness)      out: [present? value]
     fn 1  value : proto value -> broker value                           out: value
     fn 2  dtype : DataType -> proto enum number                         out: [n]
     fn 3  etype : EntryType -> proto enum number                        out: [n]
     fn 4  n     : (sdv) proto DataType number -> broker DataType        out: [dtype code | -1] *)
From Coq Require Import ZArith Bool List.
From KD Require Import Model.Values Model.Validate Model.Api.
Open Scope Z_scope.

Definition run_wire_line (l : list Z) : list Z :=
  match l with
  | api :: 0 :: r =>
    match dec_value r with
    | Some (v, []) =>
      match to_wire v with
      | None => if api =? 3 then [0; 1] (* Failure NOT_AVAILABLE *) else [0]
      | Some w => 1 :: enc_value w
      end
    | _ => [-1]
    end
  | api :: 1 :: r =>
    match dec_opt_value r with
    | Some (w, []) => enc_value (from_wire w)
    | _ => [-1]
    end
  | [api; 2; t] =>
    match dec_data_type t with
    | Some dt => [if api =? 3 then sdv_data_type dt else kuksa_data_type dt]
    | None => [-1]
    end
  | [api; 3; t] =>
    match dec_entry_type t with
    | Some et => [if api =? 3 then sdv_entry_type et else kuksa_entry_type et]
    | None => [-1]
    end
  | [api; 4; n] =>
    [match sdv_data_type_of n with Some dt => data_type_code dt | None => -1 end]
  | _ => [-1]
  end.

(* ApiRun.v — history driver extended with the gRPC handlers of Model/Api.v.  The top-level
   operation lines are those of BrokerRun.v plus:

    20 V1GET   p view path [mask]                       -> [code n] then one line per entry   (mask: explicit fields, 1 Value 2 ActuatorTarget 4 Metadata 8 data type 16 entry type 32 value restriction 64 unit+description)
    21 V1SET   p n (pathflag [path] fields vflag [value] tflag [value])*   -> [status] | [0 nerr (k code)*]
    22 V2GET   p sig                                    -> [status] | [0 value ts]
    23 V2GETS  p n sig*                                 -> [status] | [0 n (value ts)*]
    24 V2PUB   p sig dpflag [vflag [value]]             -> [status]
    25 V2ACT   p sig vflag [tflag [value]]              -> [status]
    26 V2BATCH p n (sig vflag [tflag [value]])*         -> [status]
    27 V2META  p root                                   -> [status] | [0 n] then one line per signal
    28 SDVGET  p n name*                                -> [status] | [0 n] then one line per name
    29 SDVSET  p n (name vflag [value])*                -> [0 nerr (k code)*]
    30 SDVUPD  p n (id vflag [value])*                  -> [0 nerr (id code)*]
    31 SDVREG  p n (name dtype ctype)*                  -> [status] | [0 n (name id)*]
    32 SDVMETA p n name*                                -> [0 n] then one line per signal
    33 V1SUB   p n (mask path)*                         -> [0 handle] | [1 status]   mask: 1 Value 2 ActuatorTarget 4 MetadataUnit
    34 V2SUB   p buf n sig*                             -> [0 handle] | [1 status]   (Subscribe: paths; SubscribeById: ids)
   The handle of a handler subscription is a handle of the core (operations RECV / DROP of BrokerRun.v).
    60 SPROV   p n sig*                                 -> [0 handle] | [1 status]   (OpenProviderStream: ProvideActuationRequest)
    61 SPUB    p h n (id vflag [value])*                -> [0 nerr (id code)*]       (PublishValuesRequest on the stream of provider h, opened by p)
    62 V1STR   p n (updates as in V1SET)                -> [0 nerr (k code)*]        (one StreamedUpdateRequest on the stream principal p keeps open)
    64 LPROV   p n sig*                                 -> as 60; the provider reads what the broker sends it only when an operation cannot move any more, and at dumps
    63 SDVSTR  p n (id vflag [value])*                  -> [0 nerr (id code)*]       (one StreamDatapointsRequest on the stream principal p keeps open)

   sig ::= 0 (signal_id absent) | 1 (oneof unset) | 2 path | 3 id ;  xflag 0 = field absent.
   The state effect of a handler is that of the core operations it issues (api_core). *)
From Coq Require Import ZArith Bool List.
From KD Require Import Model.Values Model.Compare Model.Validate Model.Perm Model.Glob Model.Broker
     Model.BrokerRun Model.Api.
Open Scope Z_scope.

Inductive api_op :=
| V1Get (p : Z) (view : Z) (path : list Z) (mask : Z)
| V1Set (p : Z) (l : list v1_update)
| V2Get (p : Z) (s : sig_ref)
| V2Gets (p : Z) (l : list sig_ref)
| V2Pub (p : Z) (s : sig_ref) (dp : option (option value))
| V2Act (p : Z) (s : sig_ref) (v : option (option value))
| V2Batch (p : Z) (l : list (sig_ref * option (option value)))
| V2Meta (p : Z) (root : list Z)
| SdvGet (p : Z) (names : list (list Z))
| SdvSet (p : Z) (l : list (list Z * option value))
| SdvUpd (p : Z) (l : list (Z * option value))
| SdvReg (p : Z) (l : list (list Z * Z * Z))
| SdvMeta (p : Z) (names : list (list Z))
| V1Sub (p : Z) (l : list (list Z * fields))
| V2Sub (p : Z) (buf : Z) (l : list sig_ref)
| SProv (p : Z) (l : list sig_ref)
| SPub (p : Z) (h : Z) (l : list (Z * option value))
| V1Str (p : Z) (l : list v1_update)
| SdvStr (p : Z) (l : list (Z * option value)).

(* ---------- decoding ---------- *)
Definition dec_sig (ts : list Z) : option (sig_ref * list Z) :=
  match ts with
  | 0 :: r => Some (SigAbsent, r)
  | 1 :: r => Some (SigEmpty, r)
  | 2 :: r => match dec_str r with Some (s, r') => Some (SigPath s, r') | None => None end
  | 3 :: id :: r => Some (SigId id, r)
  | _ => None
  end.

(* an optional message holding an optional value: 0 | 1 0 | 1 1 value *)
Definition dec_opt_opt_value (ts : list Z) : option (option (option value) * list Z) :=
  match ts with
  | 0 :: r => Some (None, r)
  | _ :: r => match dec_opt_value r with Some (v, r') => Some (Some v, r') | None => None end
  | [] => None
  end.

Fixpoint dec_sigs (n : nat) (ts : list Z) : option (list sig_ref) :=
  match n with
  | O => match ts with [] => Some [] | _ => None end
  | S n' => match dec_sig ts with
            | Some (s, r) => match dec_sigs n' r with Some l => Some (s :: l) | None => None end
            | None => None
            end
  end.

Fixpoint dec_names (n : nat) (ts : list Z) : option (list (list Z)) :=
  match n with
  | O => match ts with [] => Some [] | _ => None end
  | S n' => match dec_str ts with
            | Some (s, r) => match dec_names n' r with Some l => Some (s :: l) | None => None end
            | None => None
            end
  end.

Fixpoint dec_v1_updates (n : nat) (ts : list Z) : option (list v1_update) :=
  match n with
  | O => match ts with [] => Some [] | _ => None end
  | S n' =>
    match ts with
    | pf :: r =>
      let path := if pf =? 0 then Some (None, r)
                  else match dec_str r with Some (s, r') => Some (Some s, r') | None => None end in
      match path with
      | Some (po, fields :: r1) =>
        match dec_opt_opt_value r1 with
        | Some (v, r2) =>
          match dec_opt_opt_value r2 with
          | Some (t, r3) =>
            match dec_v1_updates n' r3 with
            | Some l => Some ({| v1_path := po; v1_fields := fields; v1_value := v; v1_target := t |} :: l)
            | None => None
            end
          | None => None
          end
        | None => None
        end
      | _ => None
      end
    | [] => None
    end
  end.

Fixpoint dec_batch (n : nat) (ts : list Z) : option (list (sig_ref * option (option value))) :=
  match n with
  | O => match ts with [] => Some [] | _ => None end
  | S n' => match dec_sig ts with
            | Some (s, r) => match dec_opt_opt_value r with
                             | Some (v, r') => match dec_batch n' r' with
                                               | Some l => Some ((s, v) :: l)
                                               | None => None
                                               end
                             | None => None
                             end
            | None => None
            end
  end.

Fixpoint dec_named_values (n : nat) (ts : list Z) : option (list (list Z * option value)) :=
  match n with
  | O => match ts with [] => Some [] | _ => None end
  | S n' => match dec_str ts with
            | Some (s, r) => match dec_opt_value r with
                             | Some (v, r') => match dec_named_values n' r' with
                                               | Some l => Some ((s, v) :: l)
                                               | None => None
                                               end
                             | None => None
                             end
            | None => None
            end
  end.

Fixpoint dec_id_values (n : nat) (ts : list Z) : option (list (Z * option value)) :=
  match n with
  | O => match ts with [] => Some [] | _ => None end
  | S n' => match ts with
            | id :: r => match dec_opt_value r with
                         | Some (v, r') => match dec_id_values n' r' with
                                           | Some l => Some ((id, v) :: l)
                                           | None => None
                                           end
                         | None => None
                         end
            | [] => None
            end
  end.

Fixpoint dec_regs (n : nat) (ts : list Z) : option (list (list Z * Z * Z)) :=
  match n with
  | O => match ts with [] => Some [] | _ => None end
  | S n' => match dec_str ts with
            | Some (s, dt :: ct :: r) => match dec_regs n' r with
                                         | Some l => Some ((s, dt, ct) :: l)
                                         | None => None
                                         end
            | _ => None
            end
  end.

Fixpoint dec_sub_entries (n : nat) (ts : list Z) : option (list (list Z * fields)) :=
  match n with
  | O => match ts with [] => Some [] | _ => None end
  | S n' => match ts with
            | mask :: r => match dec_str r with
                           | Some (s, r') => match dec_sub_entries n' r' with
                                             | Some l => Some ((s, fields_of_mask mask) :: l)
                                             | None => None
                                             end
                           | None => None
                           end
            | [] => None
            end
  end.

Definition decode_api (l : list Z) : option api_op :=
  match l with
  | 20 :: p :: view :: r => match dec_str r with
                            | Some (s, []) => Some (V1Get p view s 0)
                            | Some (s, [m]) => Some (V1Get p view s m)
                            | _ => None
                            end
  | 21 :: p :: n :: r => option_map (V1Set p) (dec_v1_updates (Z.to_nat n) r)
  | 22 :: p :: r => match dec_sig r with Some (s, []) => Some (V2Get p s) | _ => None end
  | 23 :: p :: n :: r => option_map (V2Gets p) (dec_sigs (Z.to_nat n) r)
  | 24 :: p :: r => match dec_sig r with
                    | Some (s, r') => match dec_opt_opt_value r' with
                                      | Some (dp, []) => Some (V2Pub p s dp)
                                      | _ => None
                                      end
                    | None => None
                    end
  | 25 :: p :: r => match dec_sig r with
                    | Some (s, r') => match dec_opt_opt_value r' with
                                      | Some (v, []) => Some (V2Act p s v)
                                      | _ => None
                                      end
                    | None => None
                    end
  | 26 :: p :: n :: r => option_map (V2Batch p) (dec_batch (Z.to_nat n) r)
  | 27 :: p :: r => match dec_str r with Some (s, []) => Some (V2Meta p s) | _ => None end
  | 28 :: p :: n :: r => option_map (SdvGet p) (dec_names (Z.to_nat n) r)
  | 29 :: p :: n :: r => option_map (SdvSet p) (dec_named_values (Z.to_nat n) r)
  | 30 :: p :: n :: r => option_map (SdvUpd p) (dec_id_values (Z.to_nat n) r)
  | 31 :: p :: n :: r => option_map (SdvReg p) (dec_regs (Z.to_nat n) r)
  | 32 :: p :: n :: r => option_map (SdvMeta p) (dec_names (Z.to_nat n) r)
  | 33 :: p :: n :: r => option_map (V1Sub p) (dec_sub_entries (Z.to_nat n) r)
  | 34 :: p :: buf :: n :: r => option_map (V2Sub p buf) (dec_sigs (Z.to_nat n) r)
  | 60 :: p :: n :: r => option_map (SProv p) (dec_sigs (Z.to_nat n) r)
  (* 64: the same claim by a provider that reads its stream lazily (a difference of the harness only) *)
  | 64 :: p :: n :: r => option_map (SProv p) (dec_sigs (Z.to_nat n) r)
  | 61 :: p :: h :: n :: r => option_map (SPub p h) (dec_id_values (Z.to_nat n) r)
  | 62 :: p :: n :: r => option_map (V1Str p) (dec_v1_updates (Z.to_nat n) r)
  | 63 :: p :: n :: r => option_map (SdvStr p) (dec_id_values (Z.to_nat n) r)
  | _ => None
  end.

(* ---------- handlers: reply and the core operations issued ---------- *)
Definition api_run (st : state) (a : api_op) : state * reply :=
  match a with
  | V1Get p view path mask => (st, v1_get_fields st (get_perm st p) path view mask)
  | V1Set p l => v1_set st (get_perm st p) l
  | V2Get p s => (st, v2_get_value st (get_perm st p) s)
  | V2Gets p l => (st, v2_get_values st (get_perm st p) l)
  | V2Pub p s dp => v2_publish st (get_perm st p) s dp
  | V2Act p s v => v2_actuate st (get_perm st p) s v
  | V2Batch p l => v2_batch_actuate st (get_perm st p) l
  | V2Meta _ root => (st, v2_list_metadata st root)
  | SdvGet p names => (st, sdv_get st (get_perm st p) names)
  | SdvSet p l => sdv_set st (get_perm st p) l
  | SdvUpd p l => sdv_update st (get_perm st p) l
  | SdvReg p l => sdv_register st (get_perm st p) l
  | SdvMeta _ names => (st, sdv_get_metadata st names)
  | V1Sub p l =>
    let '(st', r) := v1_subscribe_multi st (get_perm st p) l in
    (st', RStatus (match r with inl _ => OK | inr c => c end))
  | V2Sub p buf l =>
    let '(st', r) := v2_subscribe st (get_perm st p) l buf in
    (st', RStatus (match r with inl _ => OK | inr c => c end))
  | SProv p l =>
    let '(st', r) := v2_provide st (get_perm st p) l in
    (st', RStatus (match r with inl _ => OK | inr c => c end))
  | SPub p _ l =>
    let '(st', errs) := v2_stream_publish st (get_perm st p) l in (st', RErrors errs)
  | V1Str p l => v1_stream_msg st (get_perm st p) l
  | SdvStr p l => sdv_stream_msg st (get_perm st p) l
  end.

(* the core operations a handler issues (its only effect on the state) *)
Fixpoint sdv_reg_core (db : database) (p : perms) (now clock : Z) (pz : Z) (l : list (list Z * Z * Z)) : list aop :=
  match l with
  | [] => []
  | (name, dt, ct) :: r =>
    match sdv_data_type_of dt, sdv_change_type_of ct with
    | Some dt', Some ct' =>
      let '(db', res) := add_entry db p now clock name dt' ct' Sensor None None None in
      AAdd pz name dt' ct' Sensor None None None ::
      match res with inl _ => sdv_reg_core db' p now clock pz r | inr _ => [] end
    | _, _ => []
    end
  end.

Definition api_core (st : state) (a : api_op) : list aop :=
  match a with
  | V1Set p l => match v1_set_resolve (st_db st) l [] [] 0 with
                 | inl (ups, _) => [AUpdate p ups]
                 | inr _ => []
                 end
  | V2Pub p s (Some w) => match v2_get_signal (st_db st) s with
                          | inl id => [AUpdate p [(id, dp_upd (from_wire w))]]
                          | inr _ => []
                          end
  | V2Act p s (Some w) => match s with
                          | SigAbsent => []
                          | _ => match v2_resolve_actuator (st_db st) s with
                                 | inl id => [AActuate p id (from_wire w)]
                                 | inr _ => []
                                 end
                          end
  | V2Batch p l => match v2_batch_resolve (st_db st) l with
                   | inl cs => [ABatch p cs]
                   | inr _ => []
                   end
  | SdvSet p l => [AUpdate p (fst (sdv_set_resolve (st_db st) l [] [] 0))]
  | SdvUpd p l => [AUpdate p (map (fun '(id, w) => (id, dp_upd (from_wire w))) l)]
  | SdvReg p l => sdv_reg_core (st_db st) (get_perm st p) (st_now st) (st_clock st) p l
  | V1Sub p l => match l with
                 | [] => []
                 | _ => match v1_sub_all st (get_perm st p) l [] with
                        | inl es => [ASub p es None]
                        | inr _ => []
                        end
                 end
  | V2Sub p buf l => match v2_sub_entries (st_db st) l with
                     | inl es => [ASub p es (Some buf)]
                     | inr _ => []
                     end
  | SProv p l => match v2_provide_ids (st_db st) l with
                 | Some ids => [AProvide p ids]
                 | None => []
                 end
  | SPub p _ l => [AUpdate p (stream_updates l)]
  | V1Str p l => [AUpdate p (fst (v1_stream_resolve (st_db st) l [] [] 0))]
  | SdvStr p l => [AUpdate p (map (fun '(id, w) => (id, dp_upd (from_wire w))) l)]
  | _ => []
  end.

(* ---------- output encoding ---------- *)
Definition enc_opt_dp (d : dpoint) : list Z :=
  match to_wire (d_value d) with
  | None => [0; d_ts d]
  | Some v => 1 :: enc_value v ++ [d_ts d]
  end.

Definition enc_opt_val (v : option value) : list Z :=
  match v with None => [0] | Some x => 1 :: enc_value x end.

(* min / max as reported by v2 and sdv: any scalar kind, else absent; allowed: any array kind *)
Definition is_scalar (v : value) : bool :=
  match v with
  | VBool _ | VStr _ | VI32 _ | VI64 _ | VU32 _ | VU64 _ | VF32 _ | VF64 _ => true
  | _ => false
  end.
Definition is_array (v : value) : bool :=
  match v with
  | VBoolA _ | VStrA _ | VI32A _ | VI64A _ | VU32A _ | VU64A _ | VF32A _ | VF64A _ => true
  | _ => false
  end.
Definition restrict (f : value -> bool) (v : option value) : option value :=
  match v with Some x => if f x then Some x else None | None => None end.

Definition enc_meta_v2 (e : entry) : list Z :=
  let m := e_meta e in
  [201; m_id m; kuksa_data_type (m_dtype m); kuksa_entry_type (m_etype m)]
  ++ enc_opt_val (restrict is_scalar (m_min m)) ++ enc_opt_val (restrict is_scalar (m_max m))
  ++ enc_opt_val (restrict is_array (m_allowed m))
  (* description and unit are not modelled as texts: the harness registers every signal with a description of
     its own and (every second one) a unit, compares what the API reports with what it registered, and prints
     1 for "as registered"; the model's claim is that they always are *)
  ++ [1; 1].

(* sdv has no bool-array allowed list *)
Definition sdv_allowed_ok (v : value) : bool :=
  match v with VBoolA _ => false | x => is_array x end.
Definition enc_meta_sdv (e : entry) : list Z :=
  let m := e_meta e in
  [202; m_id m; sdv_data_type (m_dtype m); sdv_entry_type (m_etype m); 2 (* CONTINUOUS *)]
  ++ enc_str (m_path m)
  ++ enc_opt_val (restrict is_scalar (m_min m)) ++ enc_opt_val (restrict is_scalar (m_max m))
  ++ enc_opt_val (restrict sdv_allowed_ok (m_allowed m))
  ++ [1].                                            (* description as registered (sdv metadata has no unit) *)

(* v1 ValueRestriction: by data type family; min/max/allowed widened to 64 bit; absent when empty *)
Definition family (t : data_type) : Z :=
  match t with
  | TString | TStringArray => 1
  | TInt8 | TInt16 | TInt32 | TInt64 | TInt8Array | TInt16Array | TInt32Array | TInt64Array => 2
  | TUint8 | TUint16 | TUint32 | TUint64 | TUint8Array | TUint16Array | TUint32Array | TUint64Array => 3
  | TFloat | TDouble | TFloatArray | TDoubleArray => 4
  | _ => 0
  end.

(* f64::from(f32) on bit patterns (exact widening; NaN keeps its payload, shifted) *)
Definition widen_f32_bits (b : Z) : Z :=
  let sign := Z.shiftr b 31 in
  let ex := Z.land (Z.shiftr b 23) 255 in
  let man := Z.land b 8388607 in
  let s64 := Z.shiftl sign 63 in
  if ex =? 255 then s64 + Z.shiftl 2047 52 + Z.shiftl man 29
  else if ex =? 0 then
    if man =? 0 then s64
    else let k := Z.log2 man in
         s64 + Z.shiftl (k - 149 + 1023) 52 + Z.shiftl (man - Z.shiftl 1 k) (52 - k)
  else s64 + Z.shiftl (ex - 127 + 1023) 52 + Z.shiftl man 29.

Definition widen_scalar (fam : Z) (v : option value) : option Z :=
  match v with
  | Some (VI32 z) | Some (VI64 z) => if fam =? 2 then Some z else None
  | Some (VU32 z) | Some (VU64 z) => if fam =? 3 then Some z else None
  | Some (VF32 b) => if fam =? 4 then Some (widen_f32_bits b) else None
  | Some (VF64 b) => if fam =? 4 then Some b else None
  | _ => None
  end.
Definition widen_list (fam : Z) (v : option value) : list Z :=
  match v with
  | Some (VI32A l) | Some (VI64A l) => if fam =? 2 then l else []
  | Some (VU32A l) | Some (VU64A l) => if fam =? 3 then l else []
  | Some (VF32A l) => if fam =? 4 then map widen_f32_bits l else []
  | Some (VF64A l) => if fam =? 4 then l else []
  | _ => []
  end.
Definition enc_oz (o : option Z) : list Z := match o with None => [0] | Some z => [1; z] end.

Definition enc_restriction_v1 (m : meta) : list Z :=
  let fam := family (m_dtype m) in
  if fam =? 1 then
    match m_allowed m with
    | Some (VStrA (s :: l)) => [1; Z.of_nat (length (s :: l))] ++ concat (map enc_str (s :: l))
    | _ => [0]
    end
  else if fam =? 0 then [0]
  else
    let mn := widen_scalar fam (m_min m) in
    let mx := widen_scalar fam (m_max m) in
    let al := widen_list fam (m_allowed m) in
    match mn, mx, al with
    | None, None, [] => [0]
    | _, _, _ => [fam] ++ enc_oz mn ++ enc_oz mx ++ [Z.of_nat (length al)] ++ al
    end.

(* kuksa.val.v1: a NotAvailable datapoint is an absent Datapoint message *)
Definition enc_v1_dp (d : dpoint) : list Z :=
  match to_wire (d_value d) with None => [0] | Some _ => 1 :: enc_opt_dp d end.

Definition enc_entry_v1 (x : entry * bool * bool * bool * bool) : list Z :=
  let '(e, hv, ht, hm, readable) := x in
  [203; m_id (e_meta e)]
  ++ (if hv && readable then enc_v1_dp (e_dp e) else [0])
  ++ (if ht && readable then match e_target e with Some d => enc_v1_dp d | None => [0] end else [0])
  ++ (if hm then [1; kuksa_data_type (m_dtype (e_meta e)); kuksa_entry_type (m_etype (e_meta e))]
              ++ enc_restriction_v1 (e_meta e) ++ [1; 1]
      else [0]).

(* Get with single metadata fields named (mask bits: 4 Metadata = all, 8 data type, 16 entry type, 32 value
   restriction, 64 unit / description): the Metadata message is present as soon as any is named and carries
   the named parts only (the others keep their proto defaults) *)
Definition enc_entry_v1_parts (view mask : Z) (x : entry * bool * bool * bool * bool) : list Z :=
  let '(e, hv, ht, hm, readable) := x in
  let all := Z.testbit mask 2 || view_meta view in
  let pd := all || Z.testbit mask 3 in
  let pe := all || Z.testbit mask 4 in
  let pr := all || Z.testbit mask 5 in
  let present := pd || pe || pr || Z.testbit mask 6 in
  [203; m_id (e_meta e)]
  ++ (if hv && readable then enc_v1_dp (e_dp e) else [0])
  ++ (if ht && readable then match e_target e with Some d => enc_v1_dp d | None => [0] end else [0])
  ++ (if present
      then [1; (if pd then kuksa_data_type (m_dtype (e_meta e)) else 0);
               (if pe then kuksa_entry_type (m_etype (e_meta e)) else 0)]
           ++ (if pr then enc_restriction_v1 (e_meta e) else [0])
           ++ [1; 1]   (* description / unit: as registered when named (all metadata, or the unit + description fields), absent otherwise *)
      else [0]).

Fixpoint insert_by {A} (key : A -> Z) (x : A) (l : list A) : list A :=
  match l with
  | [] => [x]
  | y :: r => if key x <=? key y then x :: l else y :: insert_by key x r
  end.
Definition sort_by {A} (key : A -> Z) (l : list A) : list A := fold_right (insert_by key) [] l.

Definition enc_pairs (l : list (Z * Z)) : list Z := flat_map (fun '(a, b) => [a; b]) l.

Definition enc_reply (r : reply) : list (list Z) :=
  match r with
  | RStatus c => [[c]]
  | RValue d => [0 :: enc_opt_dp d]
  | RValues l => [0 :: Z.of_nat (length l) :: flat_map enc_opt_dp l]
  | RMetaList l => [0; Z.of_nat (length l)] :: map enc_meta_v2 (sort_by (fun e => m_id (e_meta e)) l)
  | RErrors l => [0 :: Z.of_nat (length l) :: enc_pairs (sort_by fst l)]
  | REntries c l => [c; Z.of_nat (length l)]
                    :: map enc_entry_v1 (sort_by (fun x => m_id (e_meta (fst (fst (fst (fst x)))))) l)
  | RNamed l => [0; Z.of_nat (length l)]
                :: map (fun '(name, v) => 204 :: enc_str name ++
                                          match v with
                                          | inl d => match to_wire (d_value d) with
                                                     | None => [0; 1]        (* Failure NOT_AVAILABLE *)
                                                     | Some _ => 1 :: enc_opt_dp d
                                                     end
                                          | inr f => [0; f]
                                          end) l
  | RIds l => [0 :: Z.of_nat (length l) :: flat_map (fun '(name, id) => enc_str name ++ [id]) l]
  end.

(* sdv GetMetadata prints the sdv projection *)
Definition enc_reply_sdv_meta (r : reply) : list (list Z) :=
  match r with
  | RMetaList l => [0; Z.of_nat (length l)] :: map enc_meta_sdv (sort_by (fun e => m_id (e_meta e)) l)
  | other => enc_reply other
  end.

Definition api_out (st : state) (a : api_op) : list (list Z) :=
  match a with
  | SdvMeta _ _ => enc_reply_sdv_meta (snd (api_run st a))
  | V1Get _ view _ mask =>
    match snd (api_run st a) with
    | REntries c l => [c; Z.of_nat (length l)]
                      :: map (enc_entry_v1_parts view mask) (sort_by (fun x => m_id (e_meta (fst (fst (fst (fst x)))))) l)
    | r => enc_reply r
    end
  | V1Sub p l =>
    [match snd (v1_subscribe_multi st (get_perm st p) l) with inl h => [0; h] | inr c => [1; c] end]
  | V2Sub p buf l =>
    [match snd (v2_subscribe st (get_perm st p) l buf) with inl h => [0; h] | inr c => [1; c] end]
  | SProv p l =>
    [match snd (v2_provide st (get_perm st p) l) with inl h => [0; h] | inr c => [1; c] end]
  | _ => enc_reply (snd (api_run st a))
  end.

(* ---------- top-level step ---------- *)
Definition top_step (st0 : state) (l : list Z) : state * list (list Z) :=
  let st := tick_clock st0 in
  match decode l with
  | Some a => (exec_state st a, exec_out st a)
  | None =>
    match decode_api l with
    | Some a => (fst (api_run st a), api_out st a)
    | None => (st, bad)
    end
  end.

Fixpoint top_run (st : state) (ops : list (list Z)) : list (list Z) :=
  match ops with
  | [] => []
  | l :: r => let '(st', out) := top_step st l in out ++ top_run st' r
  end.

Definition run_api_case (case : list (list Z)) : list (list Z) := top_run init_state case.

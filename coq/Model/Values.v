(* Values.v — data types and values of databroker/src/types.rs, and the integer-token
   codec shared by the model driver and the Rust harness.  Definitions only. *)
From Coq Require Export List ZArith Bool.
Export ListNotations.
Open Scope Z_scope.

(* types.rs: enum DataType (24 variants, in declaration order) *)
Inductive data_type :=
| TString | TBool | TInt8 | TInt16 | TInt32 | TInt64 | TUint8 | TUint16 | TUint32 | TUint64
| TFloat | TDouble
| TStringArray | TBoolArray | TInt8Array | TInt16Array | TInt32Array | TInt64Array
| TUint8Array | TUint16Array | TUint32Array | TUint64Array | TFloatArray | TDoubleArray.

Inductive entry_type := Sensor | Attribute | Actuator.
Inductive change_type := Static | OnChange | Continuous.

(* types.rs: enum DataValue (17 variants).  Strings are byte lists, floats are bit
   patterns (32 resp. 64 bit, as non-negative integers). *)
Inductive value :=
| VNA
| VBool (b : bool)
| VStr (s : list Z)
| VI32 (z : Z) | VI64 (z : Z) | VU32 (z : Z) | VU64 (z : Z)
| VF32 (bits : Z) | VF64 (bits : Z)
| VBoolA (l : list bool)
| VStrA (l : list (list Z))
| VI32A (l : list Z) | VI64A (l : list Z) | VU32A (l : list Z) | VU64A (l : list Z)
| VF32A (l : list Z) | VF64A (l : list Z).

Definition all_data_types : list data_type :=
  [TString; TBool; TInt8; TInt16; TInt32; TInt64; TUint8; TUint16; TUint32; TUint64;
   TFloat; TDouble; TStringArray; TBoolArray; TInt8Array; TInt16Array; TInt32Array;
   TInt64Array; TUint8Array; TUint16Array; TUint32Array; TUint64Array; TFloatArray;
   TDoubleArray].

Definition data_type_eqb (a b : data_type) : bool :=
  match a, b with
  | TString, TString | TBool, TBool | TInt8, TInt8 | TInt16, TInt16 | TInt32, TInt32
  | TInt64, TInt64 | TUint8, TUint8 | TUint16, TUint16 | TUint32, TUint32
  | TUint64, TUint64 | TFloat, TFloat | TDouble, TDouble
  | TStringArray, TStringArray | TBoolArray, TBoolArray | TInt8Array, TInt8Array
  | TInt16Array, TInt16Array | TInt32Array, TInt32Array | TInt64Array, TInt64Array
  | TUint8Array, TUint8Array | TUint16Array, TUint16Array | TUint32Array, TUint32Array
  | TUint64Array, TUint64Array | TFloatArray, TFloatArray | TDoubleArray, TDoubleArray => true
  | _, _ => false
  end.

Definition entry_type_eqb (a b : entry_type) : bool :=
  match a, b with
  | Sensor, Sensor | Attribute, Attribute | Actuator, Actuator => true
  | _, _ => false
  end.

Definition change_type_eqb (a b : change_type) : bool :=
  match a, b with
  | Static, Static | OnChange, OnChange | Continuous, Continuous => true
  | _, _ => false
  end.

(* ---------- integer ranges ---------- *)
Definition in_i8  (z : Z) := (-128 <=? z) && (z <=? 127).
Definition in_i16 (z : Z) := (-32768 <=? z) && (z <=? 32767).
Definition in_i32 (z : Z) := (-2147483648 <=? z) && (z <=? 2147483647).
Definition in_i64 (z : Z) := (-9223372036854775808 <=? z) && (z <=? 9223372036854775807).
Definition in_u8  (z : Z) := (0 <=? z) && (z <=? 255).
Definition in_u16 (z : Z) := (0 <=? z) && (z <=? 65535).
Definition in_u32 (z : Z) := (0 <=? z) && (z <=? 4294967295).
Definition in_u64 (z : Z) := (0 <=? z) && (z <=? 18446744073709551615).

(* ---------- generic list helpers ---------- *)
Fixpoint list_eqb {A} (eqb : A -> A -> bool) (a b : list A) : bool :=
  match a, b with
  | [], [] => true
  | x :: a', y :: b' => eqb x y && list_eqb eqb a' b'
  | _, _ => false
  end.

Definition str_eqb (a b : list Z) : bool := list_eqb Z.eqb a b.

(* ---------- Rust's `==` on f32 / f64, on bit patterns ----------
   (derive(PartialEq) on DataValue compares floats with IEEE ==:
    NaN is unequal to everything, +0 == -0, otherwise same bits) *)
Definition f32_is_nan (b : Z) : bool :=
  (Z.land b 2139095040 =? 2139095040) && negb (Z.land b 8388607 =? 0).
Definition f64_is_nan (b : Z) : bool :=
  (Z.land b 9218868437227405312 =? 9218868437227405312)
  && negb (Z.land b 4503599627370495 =? 0).
Definition f32_is_zero (b : Z) : bool := Z.land b 2147483647 =? 0.
Definition f64_is_zero (b : Z) : bool := Z.land b 9223372036854775807 =? 0.

Definition f32_eqb (a b : Z) : bool :=
  negb (f32_is_nan a) && negb (f32_is_nan b)
  && ((a =? b) || (f32_is_zero a && f32_is_zero b)).
Definition f64_eqb (a b : Z) : bool :=
  negb (f64_is_nan a) && negb (f64_is_nan b)
  && ((a =? b) || (f64_is_zero a && f64_is_zero b)).

(* derive(PartialEq) for DataValue *)
Definition value_eqb (a b : value) : bool :=
  match a, b with
  | VNA, VNA => true
  | VBool x, VBool y => Bool.eqb x y
  | VStr x, VStr y => str_eqb x y
  | VI32 x, VI32 y | VI64 x, VI64 y | VU32 x, VU32 y | VU64 x, VU64 y => x =? y
  | VF32 x, VF32 y => f32_eqb x y
  | VF64 x, VF64 y => f64_eqb x y
  | VBoolA x, VBoolA y => list_eqb Bool.eqb x y
  | VStrA x, VStrA y => list_eqb str_eqb x y
  | VI32A x, VI32A y | VI64A x, VI64A y | VU32A x, VU32A y | VU64A x, VU64A y =>
      list_eqb Z.eqb x y
  | VF32A x, VF32A y => list_eqb f32_eqb x y
  | VF64A x, VF64A y => list_eqb f64_eqb x y
  | _, _ => false
  end.

(* bit-for-bit identity (what C15 speaks about) *)
Definition value_same (a b : value) : bool :=
  match a, b with
  | VNA, VNA => true
  | VBool x, VBool y => Bool.eqb x y
  | VStr x, VStr y => str_eqb x y
  | VI32 x, VI32 y | VI64 x, VI64 y | VU32 x, VU32 y | VU64 x, VU64 y
  | VF32 x, VF32 y | VF64 x, VF64 y => x =? y
  | VBoolA x, VBoolA y => list_eqb Bool.eqb x y
  | VStrA x, VStrA y => list_eqb str_eqb x y
  | VI32A x, VI32A y | VI64A x, VI64A y | VU32A x, VU32A y | VU64A x, VU64A y
  | VF32A x, VF32A y | VF64A x, VF64A y => list_eqb Z.eqb x y
  | _, _ => false
  end.

(* ---------- token codec (lists of integers) ----------
   value ::= 0 | 1 b | 2 n byte*n | 3..8 z | 9 n b*n | 10 n (len byte*len)*n | 11..16 n z*n *)
Definition kind_code (v : value) : Z :=
  match v with
  | VNA => 0 | VBool _ => 1 | VStr _ => 2 | VI32 _ => 3 | VI64 _ => 4 | VU32 _ => 5
  | VU64 _ => 6 | VF32 _ => 7 | VF64 _ => 8 | VBoolA _ => 9 | VStrA _ => 10
  | VI32A _ => 11 | VI64A _ => 12 | VU32A _ => 13 | VU64A _ => 14 | VF32A _ => 15
  | VF64A _ => 16
  end.

Definition b2z (b : bool) : Z := if b then 1 else 0.
Definition z2b (z : Z) : bool := negb (z =? 0).

Definition enc_str (s : list Z) : list Z := Z.of_nat (length s) :: s.

Definition enc_value (v : value) : list Z :=
  kind_code v ::
  match v with
  | VNA => []
  | VBool b => [b2z b]
  | VStr s => enc_str s
  | VI32 z | VI64 z | VU32 z | VU64 z | VF32 z | VF64 z => [z]
  | VBoolA l => Z.of_nat (length l) :: map b2z l
  | VStrA l => Z.of_nat (length l) :: concat (map enc_str l)
  | VI32A l | VI64A l | VU32A l | VU64A l | VF32A l | VF64A l => Z.of_nat (length l) :: l
  end.

(* take n tokens *)
Fixpoint take_n (n : nat) (ts : list Z) : option (list Z * list Z) :=
  match n with
  | O => Some ([], ts)
  | S n' => match ts with
            | [] => None
            | t :: ts' => match take_n n' ts' with
                          | Some (l, r) => Some (t :: l, r)
                          | None => None
                          end
            end
  end.

Definition dec_str (ts : list Z) : option (list Z * list Z) :=
  match ts with
  | n :: r => take_n (Z.to_nat n) r
  | [] => None
  end.

Fixpoint dec_strs (n : nat) (ts : list Z) : option (list (list Z) * list Z) :=
  match n with
  | O => Some ([], ts)
  | S n' => match dec_str ts with
            | Some (s, r) => match dec_strs n' r with
                             | Some (l, r') => Some (s :: l, r')
                             | None => None
                             end
            | None => None
            end
  end.

Definition dec_arr (ts : list Z) : option (list Z * list Z) := dec_str ts.

Definition dec_value (ts : list Z) : option (value * list Z) :=
  match ts with
  | [] => None
  | k :: r =>
    let scalar (c : Z -> value) :=
      match r with z :: r' => Some (c z, r') | [] => None end in
    let arr (c : list Z -> value) :=
      match dec_arr r with Some (l, r') => Some (c l, r') | None => None end in
    if k =? 0 then Some (VNA, r)
    else if k =? 1 then scalar (fun z => VBool (z2b z))
    else if k =? 2 then match dec_str r with Some (s, r') => Some (VStr s, r') | None => None end
    else if k =? 3 then scalar VI32
    else if k =? 4 then scalar VI64
    else if k =? 5 then scalar VU32
    else if k =? 6 then scalar VU64
    else if k =? 7 then scalar VF32
    else if k =? 8 then scalar VF64
    else if k =? 9 then arr (fun l => VBoolA (map z2b l))
    else if k =? 10 then
      match r with
      | n :: r' => match dec_strs (Z.to_nat n) r' with
                   | Some (l, r'') => Some (VStrA l, r'')
                   | None => None
                   end
      | [] => None
      end
    else if k =? 11 then arr VI32A
    else if k =? 12 then arr VI64A
    else if k =? 13 then arr VU32A
    else if k =? 14 then arr VU64A
    else if k =? 15 then arr VF32A
    else if k =? 16 then arr VF64A
    else None
  end.

Definition data_type_code (t : data_type) : Z :=
  match t with
  | TString => 0 | TBool => 1 | TInt8 => 2 | TInt16 => 3 | TInt32 => 4 | TInt64 => 5
  | TUint8 => 6 | TUint16 => 7 | TUint32 => 8 | TUint64 => 9 | TFloat => 10 | TDouble => 11
  | TStringArray => 12 | TBoolArray => 13 | TInt8Array => 14 | TInt16Array => 15
  | TInt32Array => 16 | TInt64Array => 17 | TUint8Array => 18 | TUint16Array => 19
  | TUint32Array => 20 | TUint64Array => 21 | TFloatArray => 22 | TDoubleArray => 23
  end.

Definition dec_data_type (z : Z) : option data_type :=
  if z <? 0 then None else nth_error all_data_types (Z.to_nat z).

Definition entry_type_code (t : entry_type) : Z :=
  match t with Sensor => 0 | Attribute => 1 | Actuator => 2 end.
Definition dec_entry_type (z : Z) : option entry_type :=
  if z =? 0 then Some Sensor else if z =? 1 then Some Attribute
  else if z =? 2 then Some Actuator else None.

Definition change_type_code (t : change_type) : Z :=
  match t with Static => 0 | OnChange => 1 | Continuous => 2 end.
Definition dec_change_type (z : Z) : option change_type :=
  if z =? 0 then Some Static else if z =? 1 then Some OnChange
  else if z =? 2 then Some Continuous else None.

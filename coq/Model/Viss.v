(* Viss.v — the VISS v2 front-end (databroker/src/viss/v2/server.rs, conversions.rs) on the broker
   core: get / set / subscribe / unsubscribe, the text <-> typed value codec, and the history
   driver of the VISS family (the operations of the history and handler families plus the VISS
   ones, against one broker).  Definitions only.

   VISS operation lines (tok ::= 0 none | 1 k (the token of principal k) | 2 (a token that does not verify)
                             | 3 tok (any of these, presented to a server that runs with authorization disabled)):
     50 VGET   tok path                       -> [0 value ts] | [1 number reason]
     51 VSET   tok path text                  -> [0] | [1 number reason]
     52 VSUB   tok path                       -> [0 handle] | [1 number reason]
     53 VUNSUB handle                         -> [0] | [1 number reason]
     54 VRECV  handle k                       -> up to k events [120 value ts] | [121 number], then [101 n ended]
     56 VMETA  path                           -> [0 n] then [205 id entry_type data_type allowed] per selected signal
   text ::= 0 (null) | 1 str | 2 n str*
   Not modelled: JSON framing, request ids (checked by the harness: every reply carries the id of its
   request), float texts outside FloatLit's class. *)
From Coq Require Import ZArith Bool List.
From KD Require Import Model.Values Model.Compare Model.Validate Model.Perm Model.Glob Model.Broker
     Model.BrokerRun Model.Api Model.ApiRun Model.FloatLit.
Open Scope Z_scope.

Inductive vtext := VTNone | VTScalar (s : list Z) | VTArray (l : list (list Z)).
Inductive vtoken := TokNone | TokOf (k : Z) | TokBad | TokOpen.

(* number and reason of a VISS error *)
Inductive verr := VBadRequest | VTokenExpired | VTokenInvalid | VTokenMissing | VReadOnly | VForbidden
                | VNotFound | VInvalidSubscription | VInternal.
Definition verr_code (e : verr) : list Z :=
  match e with
  | VBadRequest => [400; 1] | VTokenExpired => [401; 2] | VTokenInvalid => [401; 3]
  | VTokenMissing => [401; 4] | VReadOnly => [401; 5] | VForbidden => [403; 6]
  | VNotFound => [404; 7] | VInvalidSubscription => [404; 8] | VInternal => [500; 9]
  end.

(* resolve_permissions: with authorization enabled the token decides; with authorization disabled
   (TokOpen: whatever the request carries) every request has ALLOW_ALL *)
Definition viss_perms (st : state) (t : vtoken) : perms + verr :=
  match t with
  | TokNone => inr VTokenMissing
  | TokBad => inr VTokenInvalid
  | TokOf k => inl (get_perm st k)
  | TokOpen => inl allow_all
  end.

(* ---------- text -> typed value (Value::try_into_type; Rust's str::parse) ---------- *)
Definition is_digit (c : Z) : bool := (48 <=? c) && (c <=? 57).

(* digits only, at least one *)
Fixpoint all_digits (s : list Z) : bool :=
  match s with [] => true | c :: r => is_digit c && all_digits r end.
Definition digits_of (s : list Z) : option Z :=
  match s with
  | [] => None
  | _ => if all_digits s then Some (digits_val (map (fun c => c - 48) s)) else None
  end.

(* iN::from_str: optional + or -, then digits; uN::from_str: optional +, then digits *)
Definition parse_signed (s : list Z) : option Z :=
  match s with
  | 43 :: r => digits_of r
  | 45 :: r => option_map Z.opp (digits_of r)
  | _ => digits_of s
  end.
Definition parse_unsigned (s : list Z) : option Z :=
  match s with
  | 43 :: r => digits_of r
  | _ => digits_of s
  end.

Definition in_range (rng : Z -> bool) (o : option Z) : option Z :=
  match o with Some z => if rng z then Some z else None | None => None end.

Definition str_true : list Z := [116; 114; 117; 101].
Definition str_false : list Z := [102; 97; 108; 115; 101].
Definition parse_bool (s : list Z) : option bool :=
  if str_eqb s str_true then Some true else if str_eqb s str_false then Some false else None.

(* a decimal literal [+-]digits[.digits] as a numlit and a sign; anything else is outside the model *)
Fixpoint split_dot (s : list Z) (acc : list Z) : list Z * option (list Z) :=
  match s with
  | [] => (rev acc, None)
  | 46 :: r => (rev acc, Some r)
  | c :: r => split_dot r (c :: acc)
  end.

Definition decimal_of (s : list Z) : option (bool * numlit) :=
  let '(neg, body) := match s with 45 :: r => (true, r) | 43 :: r => (false, r) | _ => (false, s) end in
  let '(ip, fp) := split_dot body [] in
  let fpd := match fp with Some f => f | None => [] end in
  if all_digits ip && all_digits fpd && negb (is_nil ip && is_nil fpd) then
    Some (neg, {| nl_int := map (fun c => c - 48) ip;
                  nl_dot := match fp with Some _ => true | None => false end;
                  nl_frac := map (fun c => c - 48) fpd |})
  else None.

(* sign bit set on the bits of a non-negative float *)
Definition neg_bits (width : Z) (b : Z) : Z := Z.lor b (2 ^ (width - 1)).

Inductive parsed (A : Type) := TOk (a : A) | TErr | TUnmodelled.
Arguments TOk {A} a.
Arguments TErr {A}.
Arguments TUnmodelled {A}.

Definition parse_float (double : bool) (s : list Z) : parsed Z :=
  match decimal_of s with
  | None => TUnmodelled                       (* exponent forms, inf, nan, malformed text *)
  | Some (neg, l) =>
    match (if double then parse_f64 l else parse_f32 l) with
    | Some b => TOk (if neg then neg_bits (if double then 64 else 32) b else b)
    | None => TUnmodelled
    end
  end.

Definition of_opt {A} (o : option A) : parsed A := match o with Some a => TOk a | None => TErr end.

Definition parse_scalar (t : data_type) (s : list Z) : parsed value :=
  match t with
  | TString => TOk (VStr s)
  | TBool => match parse_bool s with Some b => TOk (VBool b) | None => TErr end
  | TInt8 | TInt16 | TInt32 => match in_range in_i32 (parse_signed s) with Some z => TOk (VI32 z) | None => TErr end
  | TInt64 => match in_range in_i64 (parse_signed s) with Some z => TOk (VI64 z) | None => TErr end
  | TUint8 | TUint16 | TUint32 => match in_range in_u32 (parse_unsigned s) with Some z => TOk (VU32 z) | None => TErr end
  | TUint64 => match in_range in_u64 (parse_unsigned s) with Some z => TOk (VU64 z) | None => TErr end
  | TFloat => match parse_float false s with TOk b => TOk (VF32 b) | TErr => TErr | TUnmodelled => TUnmodelled end
  | TDouble => match parse_float true s with TOk b => TOk (VF64 b) | TErr => TErr | TUnmodelled => TUnmodelled end
  | _ => TErr
  end.

Fixpoint parse_all (t : data_type) (l : list (list Z)) : parsed (list value) :=
  match l with
  | [] => TOk []
  | s :: r =>
    match parse_scalar t s with
    | TOk v => match parse_all t r with TOk vs => TOk (v :: vs) | TErr => TErr | TUnmodelled => TUnmodelled end
    | TErr => match parse_all t r with TUnmodelled => TUnmodelled | _ => TErr end
    | TUnmodelled => TUnmodelled
    end
  end.

Definition base_of (t : data_type) : option data_type :=
  match t with
  | TStringArray => Some TString | TBoolArray => Some TBool | TInt8Array => Some TInt8
  | TInt16Array => Some TInt16 | TInt32Array => Some TInt32 | TInt64Array => Some TInt64
  | TUint8Array => Some TUint8 | TUint16Array => Some TUint16 | TUint32Array => Some TUint32
  | TUint64Array => Some TUint64 | TFloatArray => Some TFloat | TDoubleArray => Some TDouble
  | _ => None
  end.

Definition pack (t : data_type) (vs : list value) : value :=
  let nums := flat_map (fun v => match v with VI32 z | VI64 z | VU32 z | VU64 z | VF32 z | VF64 z => [z] | _ => [] end) vs in
  match t with
  | TString => VStrA (flat_map (fun v => match v with VStr s => [s] | _ => [] end) vs)
  | TBool => VBoolA (flat_map (fun v => match v with VBool b => [b] | _ => [] end) vs)
  | TInt8 | TInt16 | TInt32 => VI32A nums
  | TInt64 => VI64A nums
  | TUint8 | TUint16 | TUint32 => VU32A nums
  | TUint64 => VU64A nums
  | TFloat => VF32A nums
  | _ => VF64A nums
  end.

(* Value::try_into_type *)
Definition parse_text (t : data_type) (x : vtext) : parsed value :=
  match base_of t, x with
  | None, VTScalar s => parse_scalar t s
  | Some b, VTArray l => match parse_all b l with TOk vs => TOk (pack b vs) | TErr => TErr | TUnmodelled => TUnmodelled end
  | _, _ => TErr
  end.

(* ---------- the four requests ---------- *)
Definition read_verr (e : read_error) : verr :=
  match e with RNotFound => VNotFound | RDenied => VForbidden | RExpired => VTokenExpired end.

Definition viss_get (st : state) (t : vtoken) (path : list Z) : dpoint + verr :=
  match viss_perms st t with
  | inr e => inr e
  | inl p =>
    match lookup_path (path_to_id (st_db st)) path with
    | None => inr VNotFound
    | Some id => match read_entry (st_db st) p (st_now st) id with
                 | inl e => inl (e_dp e)
                 | inr err => inr (read_verr err)
                 end
    end
  end.

Definition update_verr (e : update_error) : verr :=
  match e with
  | UNotFound => VNotFound
  | UPermissionDenied => VForbidden
  | UPermissionExpired => VTokenExpired
  | _ => VBadRequest
  end.

Inductive set_result := SetOk | SetErr (e : verr) | SetUnmodelled.

Definition viss_set (st : state) (t : vtoken) (path : list Z) (x : vtext) : state * set_result :=
  match viss_perms st t with
  | inr e => (st, SetErr e)
  | inl p =>
    match lookup_path (path_to_id (st_db st)) path with
    | None => (st, SetErr VNotFound)
    | Some id =>
      match lookup_id (entries (st_db st)) id with
      | None => (st, SetErr VNotFound)
      | Some e =>
        if negb (entry_type_eqb (m_etype (e_meta e)) Actuator) then (st, SetErr VReadOnly)
        else match parse_text (m_dtype (e_meta e)) x with
             | TErr => (st, SetErr VBadRequest)
             | TUnmodelled => (st, SetUnmodelled)
             | TOk v =>
               let '(st', errs) := update_entries st p [(id, target_upd v)] in
               (st', match errs with [] => SetOk | (_, err) :: _ => SetErr (update_verr err) end)
             end
      end
    end
  end.

Definition viss_subscribe (st : state) (t : vtoken) (path : list Z) : state * (Z + verr) :=
  match viss_perms st t with
  | inr e => (st, inr e)
  | inl p =>
    match lookup_path (path_to_id (st_db st)) path with
    | None => (st, inr VNotFound)
    | Some id =>
      match subscribe st p [(id, {| f_dp := true; f_target := false; f_unit := false |})] None with
      | (st', inl h) => (st', inl h)
      | (st', inr SInternal) | (st', inr SInvalidBufferSize) => (st', inr VInternal)
      | (st', inr _) => (st', inr VNotFound)
      end
    end
  end.

(* convert_to_viss_stream: the last notification of a message, if it carries a datapoint *)
Definition viss_event (m : message) : list Z :=
  match rev m with
  | n :: _ => match n_dp n with
              | Some d => 120 :: enc_dp d
              | None => [121; 500]
              end
  | [] => [121; 500]
  end.

(* the server forwards every message of the subscription to the socket as soon as it is sent; a
   client that reads its socket therefore sees all of them, in order (the harness reads after
   every operation) *)
Definition vrecv_eager (k : nat) (s : csub) : csub * list (list Z) :=
  let pending := skipn (Z.to_nat (cs_pos s)) (cs_sent s) in
  let taken := firstn k pending in
  ({| cs_handle := cs_handle s; cs_entries := cs_entries s; cs_perms := cs_perms s; cs_cap := cs_cap s;
      cs_sent := cs_sent s; cs_pos := cs_pos s + Z.of_nat (length taken); cs_open := cs_open s;
      cs_registered := cs_registered s |}, map viss_event taken).

(* ---------- driver ---------- *)
Definition dec_tok_plain (ts : list Z) : option (vtoken * list Z) :=
  match ts with
  | 0 :: r => Some (TokNone, r)
  | 1 :: k :: r => Some (TokOf k, r)
  | 2 :: r => Some (TokBad, r)
  | _ => None
  end.
Definition dec_tok (ts : list Z) : option (vtoken * list Z) :=
  match ts with
  | 3 :: r => match dec_tok_plain r with Some (_, r') => Some (TokOpen, r') | None => None end
  | _ => dec_tok_plain ts
  end.

Definition dec_vtext (ts : list Z) : option vtext :=
  match ts with
  | [0] => Some VTNone
  | 1 :: r => match dec_str r with Some (s, []) => Some (VTScalar s) | _ => None end
  | 2 :: n :: r => match dec_strs (Z.to_nat n) r with Some (l, []) => Some (VTArray l) | _ => None end
  | _ => None
  end.

Definition viss_step (st : state) (l : list Z) : option (state * list (list Z)) :=
  match l with
  | 50 :: r =>
    match dec_tok r with
    | Some (t, r1) =>
      match dec_str r1 with
      | Some (path, []) =>
        Some (st, [match viss_get st t path with
                   | inl d => 0 :: enc_dp d
                   | inr e => 1 :: verr_code e
                   end])
      | _ => None
      end
    | None => None
    end
  | 51 :: r =>
    match dec_tok r with
    | Some (t, r1) =>
      match dec_str r1 with
      | Some (path, r2) =>
        match dec_vtext r2 with
        | Some x => let '(st', res) := viss_set st t path x in
                    Some (st', [match res with SetOk => [0] | SetErr e => 1 :: verr_code e | SetUnmodelled => [99] end])
        | None => None
        end
      | None => None
      end
    | None => None
    end
  | 52 :: r =>
    match dec_tok r with
    | Some (t, r1) =>
      match dec_str r1 with
      | Some (path, []) => let '(st', res) := viss_subscribe st t path in
                           Some (st', [match res with inl h => [0; h] | inr e => 1 :: verr_code e end])
      | _ => None
      end
    | None => None
    end
  | [53; h] =>
    match find_csub st h with
    | Some s => if cs_open s then Some (update_csub st h drop_csub, [[0]])
                else Some (st, [1 :: verr_code VInvalidSubscription])
    | None => Some (st, [1 :: verr_code VInvalidSubscription])
    end
  | [54; h; k] =>
    match find_csub st h with
    | Some s =>
      if negb (cs_open s) then Some (st, bad) else
      let '(s', evs) := vrecv_eager (Z.to_nat k) s in
      Some (update_csub st h (fun _ => s'),
            evs ++ [[101; Z.of_nat (length evs); b2z (negb (Z.of_nat (length evs) =? k) && stream_ended s')]])
    | None => Some (st, bad)
    end
  | _ => None
  end.

(* ---------- static metadata (get with filter static-metadata) ---------- *)
(* served without looking at the token (metadata is not protected). generate_metadata selects every entry whose
   path STARTS WITH the requested path as a string (str::starts_with: no level boundary) and nests them into a
   tree; the harness flattens the tree again, so the observable is the set of selected signals, each with the
   entry type the tree names it with, its data type and its allowed list (unit, min, max are not reported) *)
Fixpoint bytes_prefix (p s : list Z) : bool :=
  match p with
  | [] => true
  | c :: r => match s with [] => false | d :: t => (c =? d) && bytes_prefix r t end
  end.

Definition viss_metadata_line (ie : Z * entry) : list Z :=
  let m := e_meta (snd ie) in
  [205; fst ie; kuksa_entry_type (m_etype m); kuksa_data_type (m_dtype m)] ++ enc_opt_val (m_allowed m)
  ++ [1].                                            (* description as registered (flag set by the harness) *)

Definition viss_metadata (st : state) (path : list Z) : list (list Z) :=
  let sel := filter (fun ie => bytes_prefix path (m_path (e_meta (snd ie)))) (entries (st_db st)) in
  [0; Z.of_nat (length sel)] :: map viss_metadata_line (sort_by fst sel).

Definition viss_meta_step (st : state) (l : list Z) : option (state * list (list Z)) :=
  match l with
  | 56 :: r => match dec_str r with
               | Some (path, []) => Some (st, viss_metadata st path)
               | _ => None
               end
  | _ => None
  end.

Definition viss_top_step (st0 : state) (l : list Z) : state * list (list Z) :=
  match viss_step (tick_clock st0) l with
  | Some r => r
  | None => match viss_meta_step (tick_clock st0) l with
            | Some r => r
            | None => top_step st0 l
            end
  end.

Fixpoint viss_run (st : state) (ops : list (list Z)) : list (list Z) :=
  match ops with
  | [] => []
  | l :: r => let '(st', out) := viss_top_step st l in out ++ viss_run st' r
  end.

Definition run_viss_case (case : list (list Z)) : list (list Z) := viss_run init_state case.

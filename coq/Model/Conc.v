(* Conc.v — the concurrent layer: tokio's RwLock as a FIFO, write-preferring lock
   (read = shared, write = exclusive, new acquirers queue behind existing waiters), tasks as
   lock programs, and the lock programs of the broker operations of broker.rs (Appendix B of
   DESIGN.md; compared with the traces recorded from the instrumented code on every run).
   Definitions only; proofs are in Proofs/Conc.v. *)
From Coq Require Import List Arith Bool Lia PeanoNat ZArith.
Import ListNotations.

Definition lock := nat.           (* rank = the number itself *)
Inductive mode := R | W.
Inductive instr := Acq (l:lock) (m:mode) | Down (l:lock) | Rel (l:lock) | Act.
Definition program := list instr.

Definition mode_eqb a b := match a,b with R,R => true | W,W => true | _,_ => false end.

(* held set after executing a prefix: assoc list lock -> mode *)
Definition held := list (lock * mode).
Fixpoint hget (h:held) (l:lock) : option mode :=
  match h with [] => None | (k,m)::t => if Nat.eqb k l then Some m else hget t l end.
Fixpoint hdel (h:held) (l:lock) : held :=
  match h with [] => [] | (k,m)::t => if Nat.eqb k l then hdel t l else (k,m)::hdel t l end.
Definition hset (h:held) (l:lock) (m:mode) : held := (l,m) :: hdel h l.

(* static execution of one instruction on the held set; None = ill-formed *)
Definition all_lt (h:held) (l:lock) : bool := forallb (fun km => Nat.ltb (fst km) l) h.
Definition sstep (h:held) (i:instr) : option held :=
  match i with
  | Acq l m => if all_lt h l then Some (hset h l m) else None   (* order: every held lock has smaller rank; implies l not held *)
  | Down l => match hget h l with Some W => Some (hset h l R) | _ => None end
  | Rel l => match hget h l with Some _ => Some (hdel h l) | None => None end
  | Act => Some h
  end.
Fixpoint srun (h:held) (p:program) : option held :=
  match p with [] => Some h | i::p' => match sstep h i with Some h' => srun h' p' | None => None end end.
Definition wf (p:program) : bool := match srun [] p with Some [] => true | _ => false end.

(* dynamic semantics *)
Record task := { prog : program; pc : nat; waiting : bool }.
Record lstate := { holders : list (nat * mode); queue : list (nat * mode) }.
Definition locks := lock -> lstate.
Definition upd (ls:locks) (l:lock) (s:lstate) : locks := fun k => if Nat.eqb k l then s else ls k.

Definition compatible (m:mode) (hs:list (nat*mode)) : bool :=
  match m with W => match hs with [] => true | _ => false end
             | R => forallb (fun h => mode_eqb (snd h) R) hs end.

Definition tasks := list task.
Definition tupd (ts:tasks) (i:nat) (t:task) : tasks :=
  firstn i ts ++ t :: skipn (S i) ts.

Definition remove_tid (i:nat) (l:list (nat*mode)) := filter (fun x => negb (Nat.eqb (fst x) i)) l.

Inductive step : tasks * locks -> tasks * locks -> Prop :=
| s_enq ts ls i t l m :
    nth_error ts i = Some t -> nth_error (prog t) (pc t) = Some (Acq l m) -> waiting t = false ->
    step (ts,ls) (tupd ts i {| prog := prog t; pc := pc t; waiting := true |},
                  upd ls l {| holders := holders (ls l); queue := queue (ls l) ++ [(i,m)] |})
| s_grant ts ls i t l m q :
    nth_error ts i = Some t -> nth_error (prog t) (pc t) = Some (Acq l m) -> waiting t = true ->
    queue (ls l) = (i,m)::q -> compatible m (holders (ls l)) = true ->
    step (ts,ls) (tupd ts i {| prog := prog t; pc := S (pc t); waiting := false |},
                  upd ls l {| holders := (i,m) :: holders (ls l); queue := q |})
| s_down ts ls i t l :
    nth_error ts i = Some t -> nth_error (prog t) (pc t) = Some (Down l) ->
    step (ts,ls) (tupd ts i {| prog := prog t; pc := S (pc t); waiting := false |},
                  upd ls l {| holders := (i,R) :: remove_tid i (holders (ls l)); queue := queue (ls l) |})
| s_rel ts ls i t l :
    nth_error ts i = Some t -> nth_error (prog t) (pc t) = Some (Rel l) ->
    step (ts,ls) (tupd ts i {| prog := prog t; pc := S (pc t); waiting := false |},
                  upd ls l {| holders := remove_tid i (holders (ls l)); queue := queue (ls l) |})
| s_act ts ls i t :
    nth_error ts i = Some t -> nth_error (prog t) (pc t) = Some Act ->
    step (ts,ls) (tupd ts i {| prog := prog t; pc := S (pc t); waiting := false |}, ls).

Definition init_locks : locks := fun _ => {| holders := []; queue := [] |}.
Definition init_tasks (ps:list program) : tasks := map (fun p => {| prog := p; pc := 0; waiting := false |}) ps.

Inductive reach (ps:list program) : tasks * locks -> Prop :=
| r0 : reach ps (init_tasks ps, init_locks)
| rs c c' : reach ps c -> step c c' -> reach ps c'.

(* held set of a task = static run of its executed prefix *)
Definition theld (t:task) : option held := srun [] (firstn (pc t) (prog t)).

Definition unfinished (t:task) := pc t < length (prog t).


(* ---------- the lock programs of the broker operations ----------
   Db = database lock (rank 0), Subs = subscriptions lock (rank 1). *)
Definition Db : lock := 0.
Definition Subs : lock := 1.

Definition sec (l : lock) (m : mode) : program := [Acq l m; Act; Rel l].

(* scenario codes are those of harness/src/fam_conc.rs (fam 11) *)
Definition lock_program (scenario : nat) : program :=
  match scenario with
  | 0 => sec Db R                                              (* a getter *)
  | 1 => sec Db W                                              (* add_entry *)
  | 2 => [Acq Db W; Act; Down Db; Acq Subs R; Act; Rel Subs; Rel Db]          (* update_entries *)
  | 3 => [Acq Db W; Act; Down Db; Acq Subs R; Act; Rel Subs; Rel Db] ++ sec Subs W   (* + cleanup *)
  | 4 => [Acq Db W; Act; Down Db; Acq Subs R; Act; Rel Subs; Rel Db] ++ sec Db W     (* + lag update *)
  | 5 => [Acq Db R; Act; Acq Subs W; Act; Rel Subs; Rel Db]    (* subscribe: snapshot, register *)
  | 6 => []                                                    (* subscribe, invalid input *)
  | 7 => [Acq Db R; Act; Acq Subs W; Act; Rel Subs; Rel Db]    (* subscribe_query *)
  | 8 => sec Db R                                              (* subscribe_query, compile error *)
  | 9 => sec Db R ++ sec Subs W                                (* provide_actuation: check, scan-and-push *)
  | 10 => sec Db R ++ sec Subs W                               (* provide_actuation, overlap *)
  | 11 => sec Db R                                             (* provide_actuation, denied *)
  | 12 => sec Db R ++ sec Db R ++ sec Subs R                   (* actuate *)
  | 13 => sec Db R ++ sec Db R                                 (* actuate, invalid value *)
  | 14 => sec Db R ++ sec Db R ++ sec Db R ++ sec Db R ++ sec Subs R   (* batch_actuate, 2 elements *)
  | 15 => sec Db R ++ sec Db R ++ sec Db R                     (* batch_actuate, 2nd element unknown *)
  | 16 => sec Subs W                                           (* housekeeping step *)
  | 17 => sec Subs W                                           (* shutdown *)
  | 18 => sec Db R ++ sec Db R ++ sec Db R                     (* three getters in sequence *)
  | _ => []
  end.

Definition n_scenarios : nat := 19.
Definition all_lock_programs : list program := map lock_program (seq 0 n_scenarios).

(* canonical encoding of the observable part of a program (Act is not observable) *)
Open Scope Z_scope.
Definition enc_mode (m : mode) : Z := match m with R => 0 | W => 1 end.
Fixpoint enc_program (p : program) : list Z :=
  match p with
  | [] => []
  | Acq l m :: r => 1 :: Z.of_nat l :: enc_mode m :: enc_program r
  | Down l :: r => 2 :: Z.of_nat l :: enc_program r
  | Rel l :: r => 3 :: Z.of_nat l :: enc_program r
  | Act :: r => enc_program r
  end.

Definition run_trace_line (l : list Z) : list Z :=
  match l with
  | [sc] => if (sc <? 0) || (Z.of_nat n_scenarios <=? sc) then [-1]
            else enc_program (lock_program (Z.to_nat sc))
  | _ => [-1]
  end.

(* Glob.v — wildcard requests: glob.rs (is_valid_pattern, is_valid_path, Matcher::new,
   to_glob_string), the segment-level semantics of glob-match on patterns over
   {name, *, **}, and the selection functions of v1 Get / v1 Subscribe / v2 ListMetadata
   including the branch fallback.  Definitions only. *)
From Coq Require Import ZArith Bool List.
From KD Require Import Model.Values Model.Perm.
Open Scope Z_scope.

(* ---------- validity (REGEX_VALID_PATTERN / REGEX_VALID_PATH at character level) ---------- *)
Definition pat_char_ok (c : Z) : bool := negb (is_ws c) && negb (c =? colon) && negb (c =? dot).
Definition path_char_ok (c : Z) : bool := pat_char_ok c && negb (c =? star).

Definition seg_ok (ok : Z -> bool) (s : list Z) : bool :=
  match s with [] => false | _ => forallb ok s end.

(* one or more non-empty segments separated by single dots *)
Definition valid_pattern (s : list Z) : bool := forallb (seg_ok pat_char_ok) (split_on dot (ascii_ws s)).
Definition valid_path (s : list Z) : bool := forallb (seg_ok path_char_ok) (split_on dot (ascii_ws s)).

(* Matcher::new: the empty pattern is accepted and means "everything" *)
Definition matcher_accepts (s : list Z) : bool :=
  match s with [] => true | _ => valid_pattern s end.

(* ---------- patterns at segment level ---------- *)
Inductive pseg := PName (s : list Z) | PStar | PStarStar.

Definition is_word_char (c : Z) : bool := is_alnum c || (c =? 95).

Definition classify (s : list Z) : option pseg :=
  match s with
  | [c] => if c =? star then Some PStar
           else if is_word_char c then Some (PName s) else None
  | [c; d] => if (c =? star) && (d =? star) then Some PStarStar
              else if forallb is_word_char s then Some (PName s) else None
  | _ => if forallb is_word_char s then Some (PName s) else None
  end.

Fixpoint classify_all (l : list (list Z)) : option (list pseg) :=
  match l with
  | [] => Some []
  | s :: r => match classify s, classify_all r with
              | Some x, Some xs => Some (x :: xs)
              | _, _ => None
              end
  end.

Definition is_wild (p : pseg) : bool := match p with PName _ => false | _ => true end.

(* Matcher::to_glob_string: "" -> **; a single name -> name/**; otherwise unchanged *)
Definition to_glob (s : list Z) : option (list pseg) :=
  match s with
  | [] => Some [PStarStar]
  | _ => match classify_all (split_on dot s) with
         | Some [PName n] => Some [PName n; PStarStar]
         | r => r
         end
  end.

(* glob-match on '/'-separated paths, for patterns over {name, *, **}:
   * = exactly one level; ** = any number of levels, but at least one when it is the last
   pattern segment.  (Exact on patterns that do not mix ** with *; an over-approximation
   of glob-match 0.2.1 otherwise — see Proofs/Glob.v and the correspondence check.) *)
Definition null {A} (l : list A) : bool := match l with [] => true | _ => false end.

Fixpoint gm (ps : list pseg) : list (list Z) -> bool :=
  match ps with
  | [] => fun xs => null xs
  | PName n :: ps' => fun xs => match xs with
                                | [] => false
                                | x :: xs' => str_eqb n x && gm ps' xs'
                                end
  | PStar :: ps' => fun xs => match xs with [] => false | _ :: xs' => gm ps' xs' end
  | PStarStar :: ps' =>
    match ps' with
    | [] => fun xs => negb (null xs)
    | _ => fix star (xs : list (list Z)) : bool :=
             gm ps' xs || match xs with [] => false | _ :: xs' => star xs' end
    end
  end.

Definition mixes (ps : list pseg) : bool :=
  existsb (fun p => match p with PStar => true | _ => false end) ps
  && existsb (fun p => match p with PStarStar => true | _ => false end) ps.

(* ---------- selection ---------- *)
(* indices (positions in the tree) of the signals matched by a glob *)
Fixpoint select_from (i : Z) (ps : list pseg) (tree : list (list (list Z))) : list Z :=
  match tree with
  | [] => []
  | x :: r => if gm ps x then i :: select_from (i + 1) ps r else select_from (i + 1) ps r
  end.
Definition select_glob (ps : list pseg) (tree : list (list (list Z))) : list Z := select_from 0 ps tree.

Definition starts_with_globstar (ps : list pseg) : bool :=
  match ps with PStarStar :: _ => true | _ => false end.
Definition ends_with_globstar (ps : list pseg) : bool :=
  match rev ps with PStarStar :: _ :: _ => true | _ => false end.

(* v1 Get / Subscribe: nothing matched and the glob neither starts with ** nor ends with /**:
   retry with glob/** (a branch request) *)
Definition with_fallback (ps : list pseg) (tree : list (list (list Z))) : list Z :=
  match select_glob ps tree with
  | [] => if starts_with_globstar ps || ends_with_globstar ps then []
          else select_glob (ps ++ [PStarStar]) tree
  | l => l
  end.

Definition max_request_path_length : Z := 1000.

(* status: 0 ok, 400 bad request, 404 not found, -9 pattern outside the modelled alphabet *)
Definition select (api : Z) (pat : list Z) (tree : list (list (list Z))) : Z * list Z :=
  if ((api =? 0) || (api =? 1) || (api =? 5)) && (max_request_path_length <? Z.of_nat (length pat)) then (400, [])
  else if negb (matcher_accepts pat) then (400, [])
  else match to_glob pat with
       | None => (-9, [])
       | Some ps =>
         let sel := if api =? 3 then select_glob ps tree else with_fallback ps tree in
         match sel with
         | [] => if api =? 3 then (0, []) else (404, [])
         | l => (0, l)
         end
       end.

(* ---------- driver ----------
   case: line0 = n path*  ; other lines = api pattern
   api: 0 v1 Get, 1 v1 Subscribe, 2 v2 ListMetadata, 3 raw Matcher, 4 validity only,
        5 v1 Get with two entries (a path that matches, then the pattern): the entries of one request are
          served independently, so the pattern's selection is that of api 0
        (4: out = [0|400; is_valid_path]) *)
Fixpoint dec_paths (n : nat) (ts : list Z) : option (list (list Z)) :=
  match n with
  | O => Some []
  | S n' => match dec_str ts with
            | Some (s, r) => match dec_paths n' r with Some l => Some (s :: l) | None => None end
            | None => None
            end
  end.

Definition run_glob_line (tree : list (list (list Z))) (l : list Z) : list Z :=
  match l with
  | api :: r =>
    match dec_str r with
    | Some (pat, _) =>
      if api =? 4 then [(if matcher_accepts pat then 0 else 400); b2z (valid_path pat)]
      else let '(st, sel) := select api pat tree in st :: Z.of_nat (length sel) :: sel
    | None => [-1]
    end
  | [] => [-1]
  end.

Definition run_glob_case (case : list (list Z)) : list (list Z) :=
  match case with
  | (n :: ts) :: rest =>
    match dec_paths (Z.to_nat n) ts with
    | Some paths =>
      let tree := map (split_on dot) paths in
      [Z.of_nat (length paths)] :: map (run_glob_line tree) rest
    | None => [[-1]]
    end
  | _ => [[-1]]
  end.

(* Validate.v — Entry::{validate_value, validate_value_min_max, validate_allowed,
   validate_allowed_type, validate_actuator_value, validate, diff} of broker.rs. Definitions only. *)
From Coq Require Import ZArith Bool List.
From KD Require Import Model.Values Model.Compare.
Open Scope Z_scope.

(* broker.rs: enum UpdateError *)
Inductive update_error :=
| UNotFound | UWrongType | UOutOfBoundsAllowed | UOutOfBoundsMinMax | UOutOfBoundsType
| UUnsupportedType | UPermissionDenied | UPermissionExpired.

Definition update_error_code (e : update_error) : Z :=
  match e with
  | UNotFound => 1 | UWrongType => 2 | UOutOfBoundsAllowed => 3 | UOutOfBoundsMinMax => 4
  | UOutOfBoundsType => 5 | UUnsupportedType => 6 | UPermissionDenied => 7
  | UPermissionExpired => 8
  end.

(* the part of Metadata that validation reads *)
Record vmeta := { vm_type : data_type; vm_min : option value; vm_max : option value;
                  vm_allowed : option value }.

Definition ures := option update_error.   (* None = Ok(()) *)

Definition check_min_max (m : vmeta) (v : value) : ures :=
  match (match vm_min m with
         | Some mn => match gte v mn with Some true => None | _ => Some UOutOfBoundsMinMax end
         | None => None
         end) with
  | Some e => Some e
  | None =>
    match vm_max m with
    | Some mx => match lte v mx with Some true => None | _ => Some UOutOfBoundsMinMax end
    | None => None
    end
  end.

(* `for value in array { narrow check; min/max check }` with early return *)
Fixpoint check_elems (m : vmeta) (narrow : Z -> bool) (mk : Z -> value) (l : list Z) : ures :=
  match l with
  | [] => None
  | x :: r =>
    if narrow x then
      match check_min_max m (mk x) with
      | Some e => Some e
      | None => check_elems m narrow mk r
      end
    else Some UOutOfBoundsType
  end.

Definition is_na (v : value) : bool := match v with VNA => true | _ => false end.

Definition scalar_numeric_type (t : data_type) : bool :=
  match t with
  | TInt8 | TInt16 | TInt32 | TInt64 | TUint8 | TUint16 | TUint32 | TUint64 | TFloat | TDouble => true
  | _ => false
  end.

Definition any_z (_ : Z) : bool := true.

Definition validate_value (m : vmeta) (v : value) : ures :=
  if is_na v then None else
  match (if scalar_numeric_type (vm_type m) then check_min_max m v else None) with
  | Some e => Some e
  | None =>
    match vm_type m, v with
    | TBool, VBool _ => None
    | TString, VStr _ => None
    | TInt8, VI32 z => if in_i8 z then None else Some UOutOfBoundsType
    | TInt16, VI32 z => if in_i16 z then None else Some UOutOfBoundsType
    | TInt32, VI32 _ => None
    | TInt64, VI64 _ => None
    | TUint8, VU32 z => if in_u8 z then None else Some UOutOfBoundsType
    | TUint16, VU32 z => if in_u16 z then None else Some UOutOfBoundsType
    | TUint32, VU32 _ => None
    | TUint64, VU64 _ => None
    | TFloat, VF32 _ => None
    | TDouble, VF64 _ => None
    | TBoolArray, VBoolA _ => None
    | TStringArray, VStrA _ => None
    | TInt8Array, VI32A l => check_elems m in_i8 VI32 l
    | TInt16Array, VI32A l => check_elems m in_i16 VI32 l
    | TInt32Array, VI32A l => check_elems m any_z VI32 l
    | TInt64Array, VI64A l => check_elems m any_z VI64 l
    | TUint8Array, VU32A l => check_elems m in_u8 VU32 l
    | TUint16Array, VU32A l => check_elems m in_u16 VU32 l
    | TUint32Array, VU32A l => check_elems m any_z VU32 l
    | TUint64Array, VU64A l => check_elems m any_z VU64 l
    | TFloatArray, VF32A l => check_elems m any_z VF32 l
    | TDoubleArray, VF64A l => check_elems m any_z VF64 l
    | _, _ => Some UWrongType
    end
  end.

(* Vec::contains with the element type's == *)
Definition contains {A} (eqb : A -> A -> bool) (l : list A) (x : A) : bool := existsb (eqb x) l.

Definition all_in {A} (eqb : A -> A -> bool) (allowed l : list A) : ures :=
  if forallb (contains eqb allowed) l then None else Some UOutOfBoundsAllowed.

Definition one_in {A} (eqb : A -> A -> bool) (allowed : list A) (x : A) : ures :=
  if contains eqb allowed x then None else Some UOutOfBoundsAllowed.

Definition validate_allowed (m : vmeta) (v : value) : ures :=
  match vm_allowed m with
  | None => None
  | Some a =>
    match a, v with
    | VBoolA al, VBool x => one_in Bool.eqb al x
    | VF64A al, VF64 x => one_in f64_eqb al x
    | VF32A al, VF32 x => one_in f32_eqb al x
    | VI32A al, VI32 x => one_in Z.eqb al x
    | VI64A al, VI64 x => one_in Z.eqb al x
    | VStrA al, VStr x => one_in str_eqb al x
    | VU32A al, VU32 x => one_in Z.eqb al x
    | VU64A al, VU64 x => one_in Z.eqb al x
    | VBoolA al, VBoolA l => all_in Bool.eqb al l
    | VF64A al, VF64A l => all_in f64_eqb al l
    | VF32A al, VF32A l => all_in f32_eqb al l
    | VI32A al, VI32A l => all_in Z.eqb al l
    | VI64A al, VI64A l => all_in Z.eqb al l
    | VStrA al, VStrA l => all_in str_eqb al l
    | VU32A al, VU32A l => all_in Z.eqb al l
    | VU64A al, VU64A l => all_in Z.eqb al l
    | _, _ => Some UUnsupportedType
    end
  end.

Definition validate_allowed_type (t : data_type) (allowed : option value) : ures :=
  match allowed with
  | None => None
  | Some a =>
    match a, t with
    | VBoolA _, TBool | VStrA _, TString
    | VI32A _, TInt8 | VI32A _, TInt16 | VI32A _, TInt32 | VI64A _, TInt64
    | VU32A _, TUint8 | VU32A _, TUint16 | VU32A _, TUint32 | VU64A _, TUint64
    | VF32A _, TFloat | VF64A _, TDouble
    | VBoolA _, TBoolArray | VStrA _, TStringArray
    | VI32A _, TInt8Array | VI32A _, TInt16Array | VI32A _, TInt32Array | VI64A _, TInt64Array
    | VU32A _, TUint8Array | VU32A _, TUint16Array | VU32A _, TUint32Array
    | VU64A _, TUint64Array | VF32A _, TFloatArray | VF64A _, TDoubleArray => None
    | _, _ => Some UWrongType
    end
  end.

(* validate_value(v)?; validate_allowed(v)? *)
Definition validate_datapoint_value (m : vmeta) (v : value) : ures :=
  match validate_value m v with
  | Some e => Some e
  | None => validate_allowed m v
  end.

Definition validate_actuator_value := validate_datapoint_value.

(* ---------- driver: one validation per case line ----------
   line = fn type min? max? allowed? value   (x? ::= 0 | 1 value)
   fn: 0 validate_datapoint_value (Entry::validate with a datapoint update)
       1 validate_allowed_type
   out = [0] Ok | [1; code] Err *)
Definition dec_opt_value (ts : list Z) : option (option value * list Z) :=
  match ts with
  | 0 :: r => Some (None, r)
  | _ :: r => match dec_value r with Some (v, r') => Some (Some v, r') | None => None end
  | [] => None
  end.

Definition enc_ures (r : ures) : list Z :=
  match r with None => [0] | Some e => [1; update_error_code e] end.

Definition run_validate_line (ts : list Z) : list Z :=
  match ts with
  | fn :: tc :: r =>
    match dec_data_type tc with
    | None => [-1]
    | Some t =>
      match dec_opt_value r with
      | Some (mn, r1) =>
        match dec_opt_value r1 with
        | Some (mx, r2) =>
          match dec_opt_value r2 with
          | Some (al, r3) =>
            let m := {| vm_type := t; vm_min := mn; vm_max := mx; vm_allowed := al |} in
            if fn =? 1 then enc_ures (validate_allowed_type t al)
            else match dec_value r3 with
                 | Some (v, []) => enc_ures (validate_datapoint_value m v)
                 | _ => [-1]
                 end
          | None => [-1]
          end
        | None => [-1]
        end
      | None => [-1]
      end
    end
  | _ => [-1]
  end.

(* Vss.v — loading a VSS JSON tree (databroker/src/vss.rs): the tree of entries as serde hands
   it over, the typed extraction of min / max / allowed / default from JSON values, the recursive
   flattening into dot-joined leaf paths, and the start-up sequence of main.rs
   (read_metadata_file: add_entry, then the default of an attribute as its first value).
   Definitions only.  Not modelled: JSON lexing and serde's derive glue (required fields, unknown
   keys, duplicate keys) — the node record says whether `type`, `description`, `datatype`,
   `x-kuksa-changetype` were present and valid; the generator prints the JSON text accordingly. *)
From Coq Require Import ZArith Bool List.
From Flocq Require Import Core IEEE754.BinarySingleNaN.
From KD Require Import Model.Values Model.Compare Model.Validate Model.Perm Model.Glob Model.Broker
     Model.FloatLit.
Open Scope Z_scope.

(* serde_json::Value; a number is what serde_json's parser made of it:
   a u64 (non-negative integers that fit), an i64 (negative integers that fit) or an f64 *)
Inductive jnum := JPos (z : Z) | JNeg (z : Z) | JFloat (bits : Z).
Inductive json :=
| JBool (b : bool)
| JNum (n : jnum)
| JStr (s : list Z)
| JArr (l : list json)
| JObj.                          (* an object (never a valid min/max/allowed/default) *)

Inductive presence (A : Type) := Absent | Invalid | Present (a : A).
Arguments Absent {A}.
Arguments Invalid {A}.
Arguments Present {A} a.

Inductive node_type := NBranch | NSensor | NAttribute | NActuator.

Record ninfo := {
  n_type : presence node_type;                 (* "type": required *)
  n_desc : presence (list Z);                  (* "description": required string *)
  n_comment : option (list Z);
  n_dtype : presence data_type;                (* "datatype" *)
  n_unit : option (list Z);
  n_min : option json;                         (* JSON null is absent *)
  n_max : option json;
  n_allowed : presence (list json);            (* must be an array *)
  n_ctype : presence change_type;              (* "x-kuksa-changetype" *)
  n_default : option json }.

(* has_children: the "children" key is present; without it the forest is empty *)
Inductive node := Node (i : ninfo) (has_children : bool) (children : forest)
with forest := FNil | FCons (name : list Z) (n : node) (r : forest).

(* what parse_vss_from_str returns per leaf *)
Record data_entry := {
  de_dtype : data_type; de_etype : entry_type; de_ctype : change_type;
  de_desc : list Z; de_comment : option (list Z); de_unit : option (list Z);
  de_min : option value; de_max : option value; de_allowed : option value; de_default : option value }.

(* ---------- serde_json::from_value::<T> ---------- *)
(* integers: a float never converts; the range is the target's *)
Definition jint (rng : Z -> bool) (n : jnum) : option Z :=
  match n with
  | JPos z | JNeg z => if rng z then Some z else None
  | JFloat _ => None
  end.

(* f64: integers convert with `as f64`; f32: everything converts with `as f32` (round to nearest) *)
Definition jf64 (n : jnum) : Z :=
  match n with
  | JPos z | JNeg z => bits_of_f64 (f64_of_Z z)
  | JFloat b => b
  end.
Definition jf32 (n : jnum) : Z :=
  match n with
  | JPos z | JNeg z => bits_of_f32 (f32_of_Z z)
  | JFloat b => bits_of_f32 (f32_of_f64 (f64_of_bits b))
  end.

(* a non-finite f32 (the declared number does not fit the type) is refused *)
Definition f32_finite (b : Z) : bool := negb (Z.land b 2139095040 =? 2139095040).

Fixpoint all_some {A} (l : list (option A)) : option (list A) :=
  match l with
  | [] => Some []
  | Some a :: r => option_map (cons a) (all_some r)
  | None :: _ => None
  end.

Definition scalar_of_json (t : data_type) (j : json) : option value :=
  match t, j with
  | TString, JStr s => Some (VStr s)
  | TBool, JBool b => Some (VBool b)
  | TInt8, JNum n => option_map VI32 (jint in_i8 n)
  | TInt16, JNum n => option_map VI32 (jint in_i16 n)
  | TInt32, JNum n => option_map VI32 (jint in_i32 n)
  | TInt64, JNum n => option_map VI64 (jint in_i64 n)
  | TUint8, JNum n => option_map VU32 (jint in_u8 n)
  | TUint16, JNum n => option_map VU32 (jint in_u16 n)
  | TUint32, JNum n => option_map VU32 (jint in_u32 n)
  | TUint64, JNum n => option_map VU64 (jint in_u64 n)
  | TFloat, JNum n => let b := jf32 n in if f32_finite b then Some (VF32 b) else None
  | TDouble, JNum n => Some (VF64 (jf64 n))
  | _, _ => None
  end.

Definition elem_type (t : data_type) : data_type :=
  match t with
  | TStringArray => TString | TBoolArray => TBool | TInt8Array => TInt8 | TInt16Array => TInt16
  | TInt32Array => TInt32 | TInt64Array => TInt64 | TUint8Array => TUint8 | TUint16Array => TUint16
  | TUint32Array => TUint32 | TUint64Array => TUint64 | TFloatArray => TFloat | TDoubleArray => TDouble
  | t => t
  end.

Definition array_type (t : data_type) : data_type :=
  match t with
  | TString => TStringArray | TBool => TBoolArray | TInt8 => TInt8Array | TInt16 => TInt16Array
  | TInt32 => TInt32Array | TInt64 => TInt64Array | TUint8 => TUint8Array | TUint16 => TUint16Array
  | TUint32 => TUint32Array | TUint64 => TUint64Array | TFloat => TFloatArray | TDouble => TDoubleArray
  | t => t
  end.

Definition is_array_type (t : data_type) : bool := negb (data_type_eqb (elem_type t) t).

Definition unwrap_str v := match v with VStr s => Some s | _ => None end.
Definition unwrap_bool v := match v with VBool b => Some b | _ => None end.
Definition unwrap_num v := match v with VI32 z | VI64 z | VU32 z | VU64 z | VF32 z | VF64 z => Some z | _ => None end.

(* an array value of element type t from already converted elements *)
Definition pack_array (t : data_type) (vs : list value) : option value :=
  match t with
  | TString => option_map VStrA (all_some (map unwrap_str vs))
  | TBool => option_map VBoolA (all_some (map unwrap_bool vs))
  | TInt8 | TInt16 | TInt32 => option_map VI32A (all_some (map unwrap_num vs))
  | TInt64 => option_map VI64A (all_some (map unwrap_num vs))
  | TUint8 | TUint16 | TUint32 => option_map VU32A (all_some (map unwrap_num vs))
  | TUint64 => option_map VU64A (all_some (map unwrap_num vs))
  | TFloat => option_map VF32A (all_some (map unwrap_num vs))
  | TDouble => option_map VF64A (all_some (map unwrap_num vs))
  | _ => None
  end.

(* try_from_json_value: the value must be of exactly the given type *)
Definition value_of_json (t : data_type) (j : json) : option value :=
  if is_array_type t then
    match j with
    | JArr l => match all_some (map (scalar_of_json (elem_type t)) l) with
                | Some vs => pack_array (elem_type t) vs
                | None => None
                end
    | _ => None
    end
  else scalar_of_json t j.

(* try_from_json_single_value (min / max): a single value of the base type *)
Definition single_of_json (t : data_type) (j : json) : option value := value_of_json (elem_type t) j.

(* try_from_json_array (allowed): an array of the base type *)
Definition allowed_of_json (t : data_type) (l : list json) : option value :=
  value_of_json (array_type (elem_type t)) (JArr l).

(* Option<json> -> Result<Option<value>> *)
Definition opt_conv (f : json -> option value) (o : option json) : option (option value) :=
  match o with
  | None => Some None
  | Some j => option_map Some (f j)
  end.

(* determine_change_type *)
Definition default_change_type (et : entry_type) : change_type :=
  match et with Attribute => Static | _ => Continuous end.

Definition leaf_entry (i : ninfo) (et : entry_type) : option data_entry :=
  match n_dtype i, n_desc i with
  | Present dt, Present desc =>
    match opt_conv (single_of_json dt) (n_min i), opt_conv (single_of_json dt) (n_max i),
          (match n_allowed i with
           | Absent => Some None
           | Present l => option_map Some (allowed_of_json dt l)
           | Invalid => None
           end),
          (match et with Attribute => opt_conv (value_of_json dt) (n_default i) | _ => Some None end) with
    | Some mn, Some mx, Some al, Some df =>
      Some {| de_dtype := dt; de_etype := et;
              de_ctype := match n_ctype i with Present c => c | _ => default_change_type et end;
              de_desc := desc; de_comment := n_comment i; de_unit := n_unit i;
              de_min := mn; de_max := mx; de_allowed := al; de_default := df |}
    | _, _, _, _ => None
    end
  | _, _ => None
  end.

(* ---------- serde: every node of the document must deserialize, wherever it sits ---------- *)
Definition info_ok (i : ninfo) : bool :=
  match n_type i with Present _ => true | _ => false end
  && match n_desc i with Present _ => true | _ => false end
  && match n_dtype i with Invalid => false | _ => true end
  && match n_ctype i with Invalid => false | _ => true end
  && match n_allowed i with Invalid => false | _ => true end.

Fixpoint node_ok (n : node) : bool :=
  match n with
  | Node i _ f => info_ok i && forest_ok f
  end
with forest_ok (f : forest) : bool :=
  match f with
  | FNil => true
  | FCons _ n r => node_ok n && forest_ok r
  end.

(* ---------- flatten_vss_tree / add_entry ---------- *)
Definition dot : Z := 46.

Fixpoint flatten_node (path : list Z) (n : node) : option (list (list Z * data_entry)) :=
  match n with
  | Node i hc f =>
    match n_type i with
    | Present NBranch => if hc then flatten_forest path f else None
    | Present NSensor => option_map (fun e => [(path, e)]) (leaf_entry i Sensor)
    | Present NAttribute => option_map (fun e => [(path, e)]) (leaf_entry i Attribute)
    | Present NActuator => option_map (fun e => [(path, e)]) (leaf_entry i Actuator)
    | _ => None
    end
  end
with flatten_forest (path : list Z) (f : forest) : option (list (list Z * data_entry)) :=
  match f with
  | FNil => Some []
  | FCons name n r =>
    match flatten_node (path ++ dot :: name) n, flatten_forest path r with
    | Some a, Some b => Some (a ++ b)
    | _, _ => None
    end
  end.

(* the root is a map from names to entries *)
Fixpoint flatten_root (f : forest) : option (list (list Z * data_entry)) :=
  match f with
  | FNil => Some []
  | FCons name n r =>
    match flatten_node name n, flatten_root r with
    | Some a, Some b => Some (a ++ b)
    | _, _ => None
    end
  end.

(* BTreeMap<String, _>: ordered by the bytes of the path; a later insert of the same path replaces *)
Fixpoint str_ltb (a b : list Z) : bool :=
  match a, b with
  | [], [] => false
  | [], _ => true
  | _, [] => false
  | x :: a', y :: b' => if x <? y then true else if y <? x then false else str_ltb a' b'
  end.

Fixpoint bt_insert {A} (k : list Z) (v : A) (l : list (list Z * A)) : list (list Z * A) :=
  match l with
  | [] => [(k, v)]
  | (k', v') :: r => if str_eqb k k' then (k, v) :: r
                     else if str_ltb k k' then (k, v) :: l
                     else (k', v') :: bt_insert k v r
  end.

Definition bt_of_list {A} (l : list (list Z * A)) : list (list Z * A) :=
  fold_left (fun m kv => bt_insert (fst kv) (snd kv) m) l [].

(* parse_vss_from_str on a document whose root object is `f` *)
Definition parse_vss (f : forest) : option (list (list Z * data_entry)) :=
  if forest_ok f then option_map bt_of_list (flatten_root f) else None.

(* ---------- main.rs: read_metadata_file on an empty broker, with full rights ---------- *)
Definition load_one (st : state) (pe : list Z * data_entry) : state :=
  let '(path, e) := pe in
  let p := allow_all in
  match add_entry (st_db st) p (st_now st) (st_clock st) path (de_dtype e) (de_ctype e) (de_etype e)
                  (de_min e) (de_max e) (de_allowed e) with
  | (db', inl id) =>
    let st1 := {| st_db := db'; st_csubs := st_csubs st; st_asubs := st_asubs st; st_now := st_now st;
                  st_clock := st_clock st; st_perms := st_perms st |} in
    match de_default e with
    | Some v => fst (update_entries st1 p [(id, {| u_dp := Some v; u_target := None; u_meta := false |})])
    | None => st1
    end
  | (_, inr _) => st
  end.

Definition load (entries : list (list Z * data_entry)) : state := fold_left load_one entries init_state.

(* ---------- driver ---------- *)
Definition dec_presence {A} (dec : list Z -> option (A * list Z)) (ts : list Z) : option (presence A * list Z) :=
  match ts with
  | 0 :: r => Some (Absent, r)
  | 1 :: r => Some (Invalid, r)
  | 2 :: r => match dec r with Some (a, r') => Some (Present a, r') | None => None end
  | _ => None
  end.

Definition dec_opt {A} (dec : list Z -> option (A * list Z)) (ts : list Z) : option (option A * list Z) :=
  match ts with
  | 0 :: r => Some (None, r)
  | 1 :: r => match dec r with Some (a, r') => Some (Some a, r') | None => None end
  | _ => None
  end.

Fixpoint dec_list {A} (dec : list Z -> option (A * list Z)) (k : nat) (ts : list Z)
  : option (list A * list Z) :=
  match k with
  | O => Some ([], ts)
  | S k' => match dec ts with
            | Some (a, r1) => match dec_list dec k' r1 with
                              | Some (l, r2) => Some (a :: l, r2)
                              | None => None
                              end
            | None => None
            end
  end.

(* json ::= 1 b | 2 kind z | 3 str | 4 n json* | 5 *)
Fixpoint dec_json (fuel : nat) (ts : list Z) : option (json * list Z) :=
  match fuel with
  | O => None
  | S f =>
    match ts with
    | 1 :: b :: r => Some (JBool (z2b b), r)
    | 2 :: 0 :: z :: r => Some (JNum (JPos z), r)
    | 2 :: 1 :: z :: r => Some (JNum (JNeg z), r)
    | 2 :: 2 :: z :: r => Some (JNum (JFloat z), r)
    | 3 :: r => match dec_str r with Some (s, r') => Some (JStr s, r') | None => None end
    | 4 :: n :: r => match dec_list (dec_json f) (Z.to_nat n) r with
                     | Some (l, r') => Some (JArr l, r')
                     | None => None
                     end
    | 5 :: r => Some (JObj, r)
    | _ => None
    end
  end.

Definition dec_node_type (ts : list Z) : option (node_type * list Z) :=
  match ts with
  | 0 :: r => Some (NBranch, r) | 1 :: r => Some (NSensor, r)
  | 2 :: r => Some (NAttribute, r) | 3 :: r => Some (NActuator, r)
  | _ => None
  end.
Definition dec_dt (ts : list Z) : option (data_type * list Z) :=
  match ts with z :: r => option_map (fun t => (t, r)) (dec_data_type z) | [] => None end.
Definition dec_ct (ts : list Z) : option (change_type * list Z) :=
  match ts with z :: r => option_map (fun t => (t, r)) (dec_change_type z) | [] => None end.

(* info ::= type desc comment dtype unit min max allowed ctype default *)
Definition dec_info (fuel : nat) (ts : list Z) : option (ninfo * list Z) :=
  match dec_presence dec_node_type ts with
  | Some (ty, r1) =>
  match dec_presence dec_str r1 with
  | Some (desc, r2) =>
  match dec_opt dec_str r2 with
  | Some (comment, r3) =>
  match dec_presence dec_dt r3 with
  | Some (dt, r4) =>
  match dec_opt dec_str r4 with
  | Some (unit, r5) =>
  match dec_opt (dec_json fuel) r5 with
  | Some (mn, r6) =>
  match dec_opt (dec_json fuel) r6 with
  | Some (mx, r7) =>
  match dec_presence (fun ts => match ts with
                                | n :: r => dec_list (dec_json fuel) (Z.to_nat n) r
                                | [] => None end) r7 with
  | Some (al, r8) =>
  match dec_presence dec_ct r8 with
  | Some (ct, r9) =>
  match dec_opt (dec_json fuel) r9 with
  | Some (df, r10) =>
    Some ({| n_type := ty; n_desc := desc; n_comment := comment; n_dtype := dt; n_unit := unit;
             n_min := mn; n_max := mx; n_allowed := al; n_ctype := ct; n_default := df |}, r10)
  | None => None end | None => None end | None => None end | None => None end | None => None end
  | None => None end | None => None end | None => None end | None => None end | None => None end.

(* node ::= info childrenflag [n (name node)*] *)
Fixpoint dec_node (fuel : nat) (ts : list Z) : option (node * list Z) :=
  match fuel with
  | O => None
  | S f =>
    match dec_info fuel ts with
    | Some (i, 0 :: r) => Some (Node i false FNil, r)
    | Some (i, 1 :: n :: r) =>
      match dec_forest f (Z.to_nat n) r with
      | Some (fo, r') => Some (Node i true fo, r')
      | None => None
      end
    | _ => None
    end
  end
with dec_forest (fuel : nat) (k : nat) (ts : list Z) : option (forest * list Z) :=
  match fuel with
  | O => None
  | S f =>
    match k with
    | O => Some (FNil, ts)
    | S k' =>
      match dec_str ts with
      | Some (name, r1) =>
        match dec_node f r1 with
        | Some (n, r2) => match dec_forest f k' r2 with
                          | Some (fo, r3) => Some (FCons name n fo, r3)
                          | None => None
                          end
        | None => None
        end
      | None => None
      end
    end
  end.

Definition enc_opt {A} (enc : A -> list Z) (o : option A) : list Z :=
  match o with None => [0] | Some a => 1 :: enc a end.

Definition enc_data_entry (pe : list Z * data_entry) : list Z :=
  let '(path, e) := pe in
  [500] ++ enc_str path ++ [data_type_code (de_dtype e); entry_type_code (de_etype e); change_type_code (de_ctype e)]
  ++ enc_str (de_desc e) ++ enc_opt enc_str (de_comment e) ++ enc_opt enc_str (de_unit e)
  ++ enc_opt enc_value (de_min e) ++ enc_opt enc_value (de_max e) ++ enc_opt enc_value (de_allowed e)
  ++ enc_opt enc_value (de_default e).

(* after the start-up sequence: id, path, current value per registered signal *)
Definition enc_loaded (ie : Z * entry) : list Z :=
  let e := snd ie in [501; fst ie] ++ enc_str (m_path (e_meta e)) ++ enc_value (d_value (e_dp e)).

(* one case = one line: json_text n (name node)* ; output: [0 n] entries... loaded... | [1] *)
Definition run_vss_case (case : list (list Z)) : list (list Z) :=
  match option_map snd (match case with [l] => dec_str l | _ => None end) with
  | Some (n :: ts) =>
    match dec_forest (S (length ts)) (Z.to_nat n) ts with
    | Some (f, []) =>
      match parse_vss f with
      | Some es => [0; Z.of_nat (length es)] :: map enc_data_entry es
                   ++ map enc_loaded (entries (st_db (load es)))
      | None => [[1]]
      end
    | _ => [[-1]]
    end
  | _ => [[-1]]
  end.

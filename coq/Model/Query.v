(* Query.v — the query language of databroker/src/query: the post-parse syntax tree (what
   sqlparser hands to compile_expr), `compile` (name resolution, literal typing, type checks),
   and `execute` (WHERE, projection).  Definitions only.
   Not modelled: SQL text -> syntax tree (sqlparser); subqueries (an undocumented extension:
   never generated for comparison). *)
From Coq Require Import ZArith Bool List.
From KD Require Import Model.Values Model.Compare Model.FloatLit.
Open Scope Z_scope.

(* ---------- source syntax ---------- *)
Inductive binop := OAnd | OOr | OEq | ONe | OGt | OGe | OLt | OLe
                 | OOther.                          (* any other binary operator (+, -, LIKE, ...) *)

Inductive qexpr :=
| QNum (l : numlit)                                  (* Value::Number *)
| QStr (s : list Z)                                  (* 'single quoted' string *)
| QBool (b : bool)
| QIdent (path : list Z)                             (* identifier or compound identifier *)
| QLag (e : qexpr)                                   (* LAG(e): exactly one plain argument *)
| QLagN (n : Z)                                      (* LAG with n <> 1 arguments / a named or wildcard argument *)
| QFun                                               (* any other function *)
| QBin (op : binop) (l r : qexpr)
| QNested (e : qexpr)                                (* ( e ) *)
| QNot (e : qexpr)
| QNeg (e : qexpr)                                   (* unary minus / plus *)
| QBetween (e : qexpr) (negated : bool) (lo hi : qexpr)
| QOther                                             (* anything else except a subquery *)
| QSub.                                              (* a subquery used as an operand: ( SELECT ... ) inside an expression *)

Inductive pitem :=
| PExpr (e : qexpr)
| PAlias (e : qexpr) (alias : list Z)
| PWild.                                             (* * or t.* *)

(* q_extra: the statement carries a clause outside SELECT ... [WHERE ...] (FROM, DISTINCT, GROUP BY,
   HAVING, ORDER BY, LIMIT, ...) or is not a single statement *)
Record query := { q_proj : list pitem; q_where : option qexpr; q_extra : bool }.

(* ---------- compiled form (query/expr.rs) ---------- *)
Inductive cexpr :=
| CDp (name : list Z) (dt : data_type) (lag : bool)
| CUnres (l : numlit)
| CLit (v : value) (dt : data_type)
| CBin (op : binop) (l r : cexpr)
| CNot (e : cexpr)
| CBetween (e : cexpr) (negated : bool) (lo hi : cexpr).

Record cquery := { c_where : option cexpr; c_proj : list (cexpr * option (list Z)) }.

Inductive cerr := EUnknownField | ETypeError | EUnsupportedOperator | EUnsupportedOperation | EParse
                | EUnmodelled.                      (* a float literal outside FloatLit's class *)
Definition cerr_code (e : cerr) : Z :=
  match e with EUnknownField => 1 | ETypeError => 2 | EUnsupportedOperator => 3
             | EUnsupportedOperation => 4 | EParse => 5 | EUnmodelled => 99 end.

Inductive res (A : Type) := Ok (a : A) | Err (e : cerr).
Arguments Ok {A} a.
Arguments Err {A} e.

(* Expr::get_type: None = an unresolved literal *)
Definition get_type (e : cexpr) : option data_type :=
  match e with
  | CDp _ dt _ => Some dt
  | CUnres _ => None
  | CLit _ dt => Some dt
  | CBin _ _ _ | CNot _ | CBetween _ _ _ _ => Some TBool
  end.

Definition numeric_type (t : data_type) : bool :=
  match t with
  | TInt8 | TInt16 | TInt32 | TInt64 | TUint8 | TUint16 | TUint32 | TUint64 | TFloat | TDouble => true
  | _ => false
  end.

(* resolve_literal: a number literal typed after the other operand *)
Definition int_lit (l : numlit) (rng : Z -> bool) (mk : Z -> value) (dt : data_type) : res cexpr :=
  match lit_int l with
  | Some z => if rng z then Ok (CLit (mk z) dt) else Err ETypeError
  | None => Err ETypeError
  end.

Definition resolve_literal (l : numlit) (wanted : data_type) : res cexpr :=
  match wanted with
  | TInt8 => int_lit l in_i8 VI32 TInt8
  | TInt16 => int_lit l in_i16 VI32 TInt16
  | TInt32 => int_lit l in_i32 VI32 TInt32
  | TInt64 => int_lit l in_i64 VI64 TInt64
  | TUint8 => int_lit l in_u8 VU32 TUint8
  | TUint16 => int_lit l in_u16 VU32 TUint16
  | TUint32 => int_lit l in_u32 VU32 TUint32
  | TUint64 => int_lit l in_u64 VU64 TUint64
  | TFloat => match parse_f32 l with Some b => Ok (CLit (VF32 b) TFloat) | None => Err EUnmodelled end
  | TDouble => match parse_f64 l with Some b => Ok (CLit (VF64 b) TDouble) | None => Err EUnmodelled end
  | _ => Err ETypeError
  end.

(* two literals facing each other: i64, else u64, else f64 *)
Definition resolve_both (a b : numlit) : res (cexpr * cexpr) :=
  match lit_int a, lit_int b with
  | Some x, Some y =>
    if in_i64 x && in_i64 y then Ok (CLit (VI64 x) TInt64, CLit (VI64 y) TInt64)
    else if in_u64 x && in_u64 y then Ok (CLit (VU64 x) TUint64, CLit (VU64 y) TUint64)
    else match parse_f64 a, parse_f64 b with
         | Some p, Some q => Ok (CLit (VF64 p) TDouble, CLit (VF64 q) TDouble)
         | _, _ => Err EUnmodelled
         end
  | _, _ => match parse_f64 a, parse_f64 b with
            | Some p, Some q => Ok (CLit (VF64 p) TDouble, CLit (VF64 q) TDouble)
            | _, _ => Err EUnmodelled
            end
  end.

(* literal resolution of a binary operation's operands; a failure is a TypeError *)
Definition to_type_error {A} (r : res A) : res A :=
  match r with Err EUnmodelled => Err EUnmodelled | Err _ => Err ETypeError | ok => ok end.

Definition resolve_pair (l r : cexpr) : res (cexpr * cexpr) :=
  match l, r with
  | CUnres a, CUnres b => resolve_both a b
  | CUnres a, _ =>
    match get_type r with
    | Some t => match to_type_error (resolve_literal a t) with Ok l' => Ok (l', r) | Err e => Err e end
    | None => Err ETypeError
    end
  | _, CUnres b =>
    match get_type l with
    | Some t => match to_type_error (resolve_literal b t) with Ok r' => Ok (l, r') | Err e => Err e end
    | None => Err ETypeError
    end
  | _, _ => Ok (l, r)
  end.

Definition is_bool_type (t : option data_type) : bool :=
  match t with Some TBool => true | _ => false end.

(* operands a comparison is defined on: two numbers; for = and <> also two strings or two booleans *)
Definition comparable (ordered : bool) (a b : option data_type) : bool :=
  match a, b with
  | Some x, Some y =>
    (numeric_type x && numeric_type y)
    || (negb ordered && ((data_type_eqb x TString && data_type_eqb y TString)
                         || (data_type_eqb x TBool && data_type_eqb y TBool)))
  | _, _ => false
  end.

Definition is_ordering (op : binop) : bool :=
  match op with OGt | OGe | OLt | OLe => true | _ => false end.

Section Compile.
  Variable schema : list Z -> option data_type.      (* CompilationInput::get_datapoint_type *)

  Fixpoint compile_expr (e : qexpr) : res cexpr :=
    match e with
    | QNum l => Ok (CUnres l)
    | QStr s => Ok (CLit (VStr s) TString)
    | QBool b => Ok (CLit (VBool b) TBool)
    | QIdent p => match schema p with Some dt => Ok (CDp p dt false) | None => Err EUnknownField end
    | QLag a =>
      match compile_expr a with
      | Ok (CDp n dt false) => Ok (CDp n dt true)
      | Ok _ => Err EParse
      | Err x => Err x
      end
    | QLagN _ => Err EUnsupportedOperator
    | QFun => Err EUnsupportedOperator
    | QBin op l r =>
      match compile_expr l with
      | Err x => Err x
      | Ok l1 =>
        match compile_expr r with
        | Err x => Err x
        | Ok r1 =>
          match resolve_pair l1 r1 with
          | Err x => Err x
          | Ok (l2, r2) =>
            match op with
            | OOther => Err EUnsupportedOperator
            | OAnd | OOr =>
              if is_bool_type (get_type l2) && is_bool_type (get_type r2)
              then Ok (CBin op l2 r2) else Err ETypeError
            | _ =>
              if comparable (is_ordering op) (get_type l2) (get_type r2)
              then Ok (CBin op l2 r2) else Err ETypeError
            end
          end
        end
      end
    | QNested a => compile_expr a
    | QNot a =>
      match compile_expr a with
      | Err x => Err x
      | Ok a1 => if is_bool_type (get_type a1) then Ok (CNot a1) else Err ETypeError
      end
    | QNeg _ => Err EUnsupportedOperator
    | QBetween a neg lo hi =>
      match compile_expr a with
      | Err x => Err x
      | Ok a1 =>
        match compile_expr lo with
        | Err x => Err x
        | Ok lo1 =>
          match compile_expr hi with
          | Err x => Err x
          | Ok hi1 =>
            (* literals are typed after the expression they are compared with *)
            let a2 := match a1 with
                      | CUnres l =>
                        match (match get_type lo1 with Some t => Some t | None => get_type hi1 end) with
                        | Some t => to_type_error (resolve_literal l t)
                        | None => Err ETypeError
                        end
                      | _ => Ok a1
                      end in
            match a2 with
            | Err x => Err x
            | Ok a3 =>
              match get_type a3 with
              | None => Err ETypeError
              | Some t =>
                let bound b := match b with CUnres l => to_type_error (resolve_literal l t) | _ => Ok b end in
                match bound lo1 with
                | Err x => Err x
                | Ok lo2 =>
                  match bound hi1 with
                  | Err x => Err x
                  | Ok hi2 =>
                    if comparable true (Some t) (get_type lo2) && comparable true (Some t) (get_type hi2)
                    then Ok (CBetween a3 neg lo2 hi2) else Err ETypeError
                  end
                end
              end
            end
          end
        end
      end
    | QOther => Err EUnsupportedOperator
    (* a subquery stands for the rows it selects and is only accepted as an item of the SELECT list *)
    | QSub => Err EUnsupportedOperation
    end.

  Fixpoint compile_proj (l : list pitem) : res (list (cexpr * option (list Z))) :=
    match l with
    | [] => Ok []
    | it :: r =>
      let one := match it with
                 | PExpr e => match compile_expr e with Ok c => Ok (c, None) | Err x => Err x end
                 | PAlias e a => match compile_expr e with Ok c => Ok (c, Some a) | Err x => Err x end
                 | PWild => Err EUnsupportedOperation
                 end in
      match one with
      | Err x => Err x
      | Ok (c, a) =>
        match get_type c with
        | None => Err ETypeError                       (* a bare number has no type *)
        | Some _ => match compile_proj r with Ok cs => Ok ((c, a) :: cs) | Err x => Err x end
        end
      end
    end.

  (* compile_select_statement: the WHERE clause first, then the projection *)
  Definition compile_query (q : query) : res cquery :=
    if q_extra q then Err EUnsupportedOperation else
    match (match q_where q with
           | None => Ok None
           | Some w => match compile_expr w with
                       | Err x => Err x
                       | Ok c => if is_bool_type (get_type c) then Ok (Some c) else Err ETypeError
                       end
           end) with
    | Err x => Err x
    | Ok w => match compile_proj (q_proj q) with
              | Err x => Err x
              | Ok p => Ok {| c_where := w; c_proj := p |}
              end
    end.
End Compile.

(* CompiledQuery::input_spec: the signals a query reads *)
Fixpoint inputs_of (e : cexpr) : list (list Z) :=
  match e with
  | CDp n _ _ => [n]
  | CUnres _ | CLit _ _ => []
  | CBin _ l r => inputs_of l ++ inputs_of r
  | CNot a => inputs_of a
  | CBetween a _ lo hi => inputs_of a ++ inputs_of lo ++ inputs_of hi
  end.

Definition query_inputs (c : cquery) : list (list Z) :=
  match c_where c with Some w => inputs_of w | None => [] end
  ++ flat_map (fun '(e, _) => inputs_of e) (c_proj c).

(* ---------- execution (query/executor.rs) ---------- *)
Definition exec_ge (a b : value) : option bool :=
  match gt a b with Some true => Some true | Some false => eq a b | None => None end.
Definition exec_le (a b : value) : option bool :=
  match lt a b with Some true => Some true | Some false => eq a b | None => None end.

Definition vbool (o : option bool) : option value := option_map VBool o.

Definition exec_bin (op : binop) (a b : value) : option value :=
  match op with
  | OOr => match a, b with VBool x, VBool y => Some (VBool (x || y)) | _, _ => None end
  | OAnd => match a, b with VBool x, VBool y => Some (VBool (x && y)) | _, _ => None end
  | OEq => vbool (eq a b)
  | ONe => vbool (option_map negb (eq a b))
  | OGt => vbool (gt a b)
  | OGe => vbool (exec_ge a b)
  | OLt => vbool (lt a b)
  | OLe => vbool (exec_le a b)
  | OOther => None
  end.

Section Exec.
  (* ExecutionInput::lookup: current and previous value of a signal, as visible to the subscriber *)
  Variable rho : list Z -> value * value.

  (* None = ExecutionError (the query emits nothing) *)
  Fixpoint exec (e : cexpr) : option value :=
    match e with
    | CDp n _ lag => Some (if lag then snd (rho n) else fst (rho n))
    | CUnres _ => None
    | CLit v _ => Some v
    | CBin op l r =>
      match exec l, exec r with
      | Some a, Some b => exec_bin op a b
      | _, _ => None
      end
    | CNot a => match exec a with Some (VBool b) => Some (VBool (negb b)) | _ => None end
    | CBetween a neg lo hi =>
      match exec a, exec lo with
      | Some x, Some l =>
        match exec_ge x l with
        | None => None
        | Some false => Some (VBool neg)
        | Some true =>
          match exec hi with
          | Some h =>
            match exec_le x h with
            | None => None
            | Some false => Some (VBool neg)
            | Some true => Some (VBool (negb neg))
            end
          | None => None
          end
        end
      | _, _ => None
      end
    end.

  (* decimal digits of a non-negative number, as ASCII codes *)
  Fixpoint dec_digits_fuel (fuel : nat) (n : Z) (acc : list Z) : list Z :=
    match fuel with
    | O => acc
    | S f => let acc' := (48 + n mod 10) :: acc in
             if n <? 10 then acc' else dec_digits_fuel f (n / 10) acc'
    end.
  Definition dec_digits (n : Z) : list Z := dec_digits_fuel 20 n [].

  Definition field_name (index : Z) (e : cexpr) (alias : option (list Z)) : list Z :=
    match alias with
    | Some a => a
    | None => match e with
              | CDp n _ _ => n
              | _ => [102; 105; 101; 108; 100; 95] ++ dec_digits index      (* "field_<index>" *)
              end
    end.

  Fixpoint exec_proj (index : Z) (l : list (cexpr * option (list Z))) : option (list (list Z * value)) :=
    match l with
    | [] => Some []
    | (e, a) :: r =>
      match exec e with
      | None => None
      | Some v => match exec_proj (index + 1) r with
                  | Some fs => Some ((field_name index e a, v) :: fs)
                  | None => None
                  end
      end
    end.

  (* CompiledQuery::execute, errors and "condition not met" both meaning: nothing is sent *)
  Definition run_query (c : cquery) : option (list (list Z * value)) :=
    match (match c_where c with
           | None => Some true
           | Some w => match exec w with Some (VBool b) => Some b | _ => None end
           end) with
    | Some true => match exec_proj 0 (c_proj c) with
                   | Some [] => None
                   | r => r
                   end
    | _ => None
    end.
End Exec.

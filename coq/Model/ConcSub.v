(* ConcSub.v — publishers, subscribers and housekeeping running concurrently over the lock layer of
   Conc.v (C08).  One signal; the stored value, the registered change subscriptions with everything
   they were sent, and two ghost histories (values applied, values notified).  The programs are the
   lock programs of update_entries, subscribe and the housekeeping step (scenarios 2, 5, 16 of
   Conc.lock_program, which are compared with the recorded traces on every run); each Act is the
   critical-section body of broker.rs at that position.  Definitions only. *)
From Coq Require Import List Arith Bool ZArith Lia.
Import ListNotations.
From KD Require Import Model.Conc.
Open Scope nat_scope.

Inductive kind :=
| KPub (x : Z)                 (* update_entries writing x *)
| KSub                         (* subscribe *)
| KHk (drop : list bool).      (* housekeeping: removes the subscriptions whose receiver is gone *)

Definition prog_of (k : kind) : program :=
  match k with
  | KPub _ => lock_program 2
  | KSub => lock_program 5
  | KHk _ => lock_program 16
  end.

Record sub := { s_sent : list Z; s_alive : bool }.

Record shared := { sh_v : Z;                (* stored value *)
                   sh_subs : list sub;
                   sh_hist : list Z;        (* ghost: values applied, in commit order *)
                   sh_notified : list Z }.  (* ghost: values notified, in notification order *)

Definition local := option Z.               (* a subscriber's snapshot *)

Definition send (x : Z) (s : sub) : sub :=
  if s_alive s then {| s_sent := s_sent s ++ [x]; s_alive := true |} else s.

Fixpoint drop_subs (mask : list bool) (l : list sub) : list sub :=
  match l, mask with
  | s :: r, true :: m => {| s_sent := s_sent s; s_alive := false |} :: drop_subs m r
  | s :: r, _ :: m => s :: drop_subs m r
  | l, [] => l
  | [], _ => []
  end.

(* the body of the critical section a task of kind k executes when its pc points at an Act *)
Definition act_sem (k : kind) (pc : nat) (sh : shared) (lo : local) : shared * local :=
  match k, pc with
  | KPub x, 1 =>   (* apply, under database.write() *)
      ({| sh_v := x; sh_subs := sh_subs sh; sh_hist := sh_hist sh ++ [x]; sh_notified := sh_notified sh |}, lo)
  | KPub _, 4 =>   (* notify, under the downgraded database lock and subscriptions.read() *)
      ({| sh_v := sh_v sh; sh_subs := map (send (sh_v sh)) (sh_subs sh); sh_hist := sh_hist sh;
          sh_notified := sh_notified sh ++ [sh_v sh] |}, lo)
  | KSub, 1 =>     (* initial snapshot, under database.read() *)
      (sh, Some (sh_v sh))
  | KSub, 3 =>     (* register, under subscriptions.write(), still holding database.read() *)
      ({| sh_v := sh_v sh;
          sh_subs := sh_subs sh ++ [{| s_sent := [match lo with Some x => x | None => 0%Z end]; s_alive := true |}];
          sh_hist := sh_hist sh; sh_notified := sh_notified sh |}, lo)
  | KHk mask, 1 =>
      ({| sh_v := sh_v sh; sh_subs := drop_subs mask (sh_subs sh); sh_hist := sh_hist sh;
          sh_notified := sh_notified sh |}, lo)
  | _, _ => (sh, lo)
  end.

(* A configuration: the program counter of every task (task i runs prog_of (nth i ks)), the holders
   of each lock, the shared state and the task-local snapshots.  Lock semantics for SAFETY: an
   acquisition is granted whenever it is compatible with the current holders — every grant order,
   hence a superset of what tokio's FIFO queue (Conc.step) allows; waiting in the queue changes
   nothing observable. *)
Record cfg := { c_pcs : list nat; c_hold : lock -> list (nat * mode); c_shared : shared;
                c_locals : list local }.

Fixpoint set_nth {A} (l : list A) (i : nat) (x : A) : list A :=
  match l, i with
  | [], _ => []
  | _ :: r, O => x :: r
  | a :: r, S j => a :: set_nth r j x
  end.

Definition hupd (h : lock -> list (nat * mode)) (l : lock) (v : list (nat * mode)) : lock -> list (nat * mode) :=
  fun k => if Nat.eqb k l then v else h k.

Definition instr_at (ks : list kind) (c : cfg) (i : nat) : option instr :=
  match nth_error ks i, nth_error (c_pcs c) i with
  | Some k, Some pc => nth_error (prog_of k) pc
  | _, _ => None
  end.

Inductive cstep (ks : list kind) : cfg -> cfg -> Prop :=
| cs_acq c i pc l m :
    nth_error (c_pcs c) i = Some pc -> instr_at ks c i = Some (Acq l m) ->
    compatible m (c_hold c l) = true ->
    cstep ks c {| c_pcs := set_nth (c_pcs c) i (S pc); c_hold := hupd (c_hold c) l ((i, m) :: c_hold c l);
                  c_shared := c_shared c; c_locals := c_locals c |}
| cs_down c i pc l :
    nth_error (c_pcs c) i = Some pc -> instr_at ks c i = Some (Down l) ->
    cstep ks c {| c_pcs := set_nth (c_pcs c) i (S pc);
                  c_hold := hupd (c_hold c) l ((i, R) :: remove_tid i (c_hold c l));
                  c_shared := c_shared c; c_locals := c_locals c |}
| cs_rel c i pc l :
    nth_error (c_pcs c) i = Some pc -> instr_at ks c i = Some (Rel l) ->
    cstep ks c {| c_pcs := set_nth (c_pcs c) i (S pc); c_hold := hupd (c_hold c) l (remove_tid i (c_hold c l));
                  c_shared := c_shared c; c_locals := c_locals c |}
| cs_act c i pc k lo sh' lo' :
    nth_error (c_pcs c) i = Some pc -> instr_at ks c i = Some Act ->
    nth_error ks i = Some k -> nth_error (c_locals c) i = Some lo ->
    act_sem k pc (c_shared c) lo = (sh', lo') ->
    cstep ks c {| c_pcs := set_nth (c_pcs c) i (S pc); c_hold := c_hold c; c_shared := sh';
                  c_locals := set_nth (c_locals c) i lo' |}.

Definition init_cfg (ks : list kind) (v0 : Z) : cfg :=
  {| c_pcs := map (fun _ => 0) ks; c_hold := fun _ => [];
     c_shared := {| sh_v := v0; sh_subs := []; sh_hist := []; sh_notified := [] |};
     c_locals := map (fun _ => None) ks |}.

Inductive creach (ks : list kind) (v0 : Z) : cfg -> Prop :=
| cr0 : creach ks v0 (init_cfg ks v0)
| crs c c' : creach ks v0 c -> cstep ks c c' -> creach ks v0 c'.

(* every call has returned *)
Definition all_finished (ks : list kind) (c : cfg) : Prop :=
  forall i k pc, nth_error ks i = Some k -> nth_error (c_pcs c) i = Some pc -> pc = length (prog_of k).

(* BrokerRun.v — history driver for the broker core: decodes operation lines, runs Model/Broker.v,
   prints canonical result lines.  The Rust harness (harness/src/fam_hist.rs) prints the same
   lines from the real crate.  Definitions only.

   operation lines (first token = opcode):
     0 PERM     expflag scope_str                      -> [1] | [0]     (principal k = k-th PERM line)
     1 ADD      p name dtype ctype etype min? max? allowed?   -> [0 id] | [1 code]
     2 UPDATE   p n (id flags [value] [value])*        -> [nerr (id code)*]
                flags: 1 datapoint, 2 target value, 4 target cleared, 8 a metadata field is set
     3 GET      p id                                   -> [0 value ts tflag [tvalue tts]] | [1 code]
     4 SUB      p bufflag buf n (id mask)*             -> [0 handle] | [1 code]   mask: 1 dp 2 target 4 unit
     5 RECV     handle k                               -> up to k messages, then a status line
     6 DROP     handle                                 -> [0]
     7 PROVIDE  p n id*                                -> [0 handle] | [1 code]
     8 PROVDOWN handle                                 -> [0]
     9 ACTUATE  p id value                             -> [0] | [1 code]
    10 BATCH    p n (id value)*                        -> [0] | [1 code]
    11 CLEANUP                                         -> [0]
    12 SHUTDOWN                                        -> [0]
    13 TICK                                            -> [0]   (the expiry instant passes)
    14 DUMP                                            -> one line per entry, one per provider *)
From Coq Require Import ZArith Bool List.
From KD Require Import Model.Values Model.Compare Model.Validate Model.Perm Model.Glob Model.Broker.
Open Scope Z_scope.

Definition dec_opt_value' := dec_opt_value.

Definition get_perm (st : state) (k : Z) : perms :=
  if k <? 0 then allow_none else nth (Z.to_nat k) (st_perms st) allow_none.

Definition enc_dp (d : dpoint) : list Z := enc_value (d_value d) ++ [d_ts d].

Definition mask_of (f : fields) : Z :=
  (if f_dp f then 1 else 0) + (if f_target f then 2 else 0) + (if f_unit f then 4 else 0).
Definition fields_of_mask (m : Z) : fields :=
  {| f_dp := Z.testbit m 0; f_target := Z.testbit m 1; f_unit := Z.testbit m 2 |}.

Definition enc_notif (n : notif) : list Z :=
  [n_id n; mask_of (n_fields n)]
  ++ match n_dp n with Some d => 1 :: enc_dp d | None => [0] end
  ++ match n_target n with
     | None => [0]
     | Some None => [1]
     | Some (Some d) => 2 :: enc_dp d
     end.

(* notifications inside one message are sorted by id (HashMap iteration order is not modelled) *)
Fixpoint insert_notif (n : notif) (l : list notif) : list notif :=
  match l with
  | [] => [n]
  | x :: r => if n_id n <=? n_id x then n :: l else x :: insert_notif n r
  end.
Definition sort_notifs (l : list notif) : list notif := fold_right insert_notif [] l.

Definition enc_message (m : message) : list Z :=
  100 :: Z.of_nat (length m) :: flat_map enc_notif (sort_notifs m).

Definition tick_clock (st : state) : state :=
  {| st_db := st_db st; st_csubs := st_csubs st; st_asubs := st_asubs st; st_now := st_now st;
     st_clock := st_clock st + 1; st_perms := st_perms st |}.

Definition set_csubs (st : state) (l : list csub) : state :=
  {| st_db := st_db st; st_csubs := l; st_asubs := st_asubs st;
     st_now := st_now st; st_clock := st_clock st; st_perms := st_perms st |}.

Definition update_csub (st : state) (h : Z) (f : csub -> csub) : state :=
  set_csubs st (map (fun s => if cs_handle s =? h then f s else s) (st_csubs st)).

Definition find_csub (st : state) (h : Z) : option csub :=
  find (fun s => cs_handle s =? h) (st_csubs st).

(* RECV: poll up to k times *)
Fixpoint recv_k (k : nat) (s : csub) (acc : list (list Z)) : csub * list (list Z) :=
  match k with
  | O => (s, rev acc)
  | S k' => match recv_one s with
            | (s', Some m) => recv_k k' s' (enc_message m :: acc)
            | (s', None) => (s', rev acc)
            end
  end.

(* UPDATE decoding *)
Fixpoint dec_updates (n : nat) (ts : list Z) : option (list (Z * upd)) :=
  match n with
  | O => match ts with [] => Some [] | _ => None end
  | S n' =>
    match ts with
    | id :: fl :: r =>
      let get_dp := if Z.testbit fl 0 then
                      match dec_value r with Some (v, r') => Some (Some v, r') | None => None end
                    else Some (None, r) in
      match get_dp with
      | None => None
      | Some (dp, r1) =>
        let get_t := if Z.testbit fl 1 then
                       match dec_value r1 with Some (v, r') => Some (Some (Some v), r') | None => None end
                     else if Z.testbit fl 2 then Some (Some None, r1)
                     else Some (None, r1) in
        match get_t with
        | None => None
        | Some (t, r2) =>
          match dec_updates n' r2 with
          | Some l => Some ((id, {| u_dp := dp; u_target := t; u_meta := Z.testbit fl 3 |}) :: l)
          | None => None
          end
        end
      end
    | _ => None
    end
  end.

Fixpoint dec_pairs (n : nat) (ts : list Z) : option (list (Z * Z)) :=
  match n with
  | O => match ts with [] => Some [] | _ => None end
  | S n' => match ts with
            | a :: b :: r => match dec_pairs n' r with Some l => Some ((a, b) :: l) | None => None end
            | _ => None
            end
  end.

Fixpoint dec_changes (n : nat) (ts : list Z) : option (list (Z * value)) :=
  match n with
  | O => match ts with [] => Some [] | _ => None end
  | S n' => match ts with
            | id :: r => match dec_value r with
                         | Some (v, r') => match dec_changes n' r' with
                                           | Some l => Some ((id, v) :: l)
                                           | None => None
                                           end
                         | None => None
                         end
            | [] => None
            end
  end.

Definition enc_entry_line (ie : Z * entry) : list Z :=
  let e := snd ie in
  [200; fst ie] ++ enc_dp (e_dp e)
  ++ match e_target e with None => [0] | Some d => 1 :: enc_dp d end.

Definition enc_call (c : list (Z * value)) : list Z :=
  Z.of_nat (length c) :: flat_map (fun '(id, v) => id :: enc_value v) c.

Definition enc_provider_line (a : asub) : list Z :=
  [300; as_handle a; Z.of_nat (length (as_inbox a))] ++ flat_map enc_call (as_inbox a).

Definition bad : list (list Z) := [[-1]].

(* ---------- abstract operations ---------- *)
Inductive aop :=
| APerm (expiring : bool) (scope : list Z)
| AAdd (p : Z) (name : list Z) (dt : data_type) (ct : change_type) (et : entry_type)
       (mn mx al : option value)
| AUpdate (p : Z) (us : list (Z * upd))
| AGet (p : Z) (id : Z)
| ASub (p : Z) (es : list (Z * fields)) (buf : option Z)
| ARecv (h : Z) (k : Z)
| ADrop (h : Z)
| AProvide (p : Z) (ids : list Z)
| AProvDown (h : Z)
| AActuate (p : Z) (id : Z) (v : value)
| ABatch (p : Z) (cs : list (Z * value))
| ACleanup | AShutdown | ATick | ADump.

Definition decode (l : list Z) : option aop :=
  match l with
  | 0 :: expflag :: r =>
    match dec_str r with
    | Some (sc, []) => Some (APerm (negb (expflag =? 0)) sc)
    | _ => None
    end
  | 1 :: p :: r =>
    match dec_str r with
    | Some (name, dt :: ct :: et :: r1) =>
      match dec_data_type dt, dec_change_type ct, dec_entry_type et, dec_opt_value r1 with
      | Some dt', Some ct', Some et', Some (mn, r2) =>
        match dec_opt_value r2 with
        | Some (mx, r3) =>
          match dec_opt_value r3 with
          | Some (al, []) => Some (AAdd p name dt' ct' et' mn mx al)
          | _ => None
          end
        | None => None
        end
      | _, _, _, _ => None
      end
    | _ => None
    end
  | 2 :: p :: n :: r =>
    match dec_updates (Z.to_nat n) r with Some us => Some (AUpdate p us) | None => None end
  | [3; p; id] => Some (AGet p id)
  | 4 :: p :: bf :: buf :: n :: r =>
    match dec_pairs (Z.to_nat n) r with
    | Some es => Some (ASub p (map (fun '(id, m) => (id, fields_of_mask m)) es)
                            (if bf =? 0 then None else Some buf))
    | None => None
    end
  | [5; h; k] => Some (ARecv h k)
  | [6; h] => Some (ADrop h)
  | 7 :: p :: n :: r => if Z.of_nat (length r) =? n then Some (AProvide p r) else None
  | [8; h] => Some (AProvDown h)
  | 9 :: p :: id :: r =>
    match dec_value r with Some (v, []) => Some (AActuate p id v) | _ => None end
  | 10 :: p :: n :: r =>
    match dec_changes (Z.to_nat n) r with Some cs => Some (ABatch p cs) | None => None end
  | [11] => Some ACleanup
  | [12] => Some AShutdown
  | [13] => Some ATick
  | [14] => Some ADump
  | _ => None
  end.

Definition set_db (st : state) (db : database) : state :=
  {| st_db := db; st_csubs := st_csubs st; st_asubs := st_asubs st; st_now := st_now st;
     st_clock := st_clock st; st_perms := st_perms st |}.

Definition drop_csub (s : csub) : csub :=
  {| cs_handle := cs_handle s; cs_entries := cs_entries s; cs_perms := cs_perms s;
     cs_cap := cs_cap s; cs_sent := cs_sent s; cs_pos := cs_pos s; cs_open := false;
     cs_registered := cs_registered s |}.

Definition down_asub (a : asub) : asub :=
  {| as_handle := as_handle a; as_ids := as_ids a; as_perms := as_perms a; as_available := false;
     as_registered := as_registered a; as_inbox := as_inbox a |}.

(* the state transformer of one operation (the operation counter has already been advanced) *)
Definition exec_state (st : state) (a : aop) : state :=
  match a with
  | APerm expiring sc =>
    match perms_of_claims sc 0 with
    | None => st
    | Some p =>
      let p' := {| p_expires := if expiring then Some 0 else None; p_read := p_read p;
                   p_actuate := p_actuate p; p_provide := p_provide p; p_create := p_create p |} in
      {| st_db := st_db st; st_csubs := st_csubs st; st_asubs := st_asubs st; st_now := st_now st;
         st_clock := st_clock st; st_perms := st_perms st ++ [p'] |}
    end
  | AAdd p name dt ct et mn mx al =>
    set_db st (fst (add_entry (st_db st) (get_perm st p) (st_now st) (st_clock st) name dt ct et mn mx al))
  | AUpdate p us => fst (update_entries st (get_perm st p) us)
  | AGet _ _ => st
  | ASub p es buf => fst (subscribe st (get_perm st p) es buf)
  | ARecv h k =>
    match find_csub st h with
    | Some s => if negb (cs_open s) then st
                else update_csub st h (fun _ => fst (recv_k (Z.to_nat k) s []))
    | None => st
    end
  | ADrop h => update_csub st h drop_csub
  | AProvide p ids => fst (provide_actuation st (get_perm st p) ids)
  | AProvDown h => set_asubs st (map (fun a => if as_handle a =? h then down_asub a else a) (st_asubs st))
  | AActuate p id v => fst (actuate st (get_perm st p) id v)
  | ABatch p cs => fst (batch_actuate st (get_perm st p) cs)
  | ACleanup => cleanup (st_now st) st
  | AShutdown => shutdown st
  | ATick => {| st_db := st_db st; st_csubs := st_csubs st; st_asubs := st_asubs st;
                st_now := st_now st + 1; st_clock := st_clock st; st_perms := st_perms st |}
  | ADump => st
  end.

(* the output lines of one operation *)
Definition exec_out (st : state) (a : aop) : list (list Z) :=
  match a with
  | APerm _ sc => [[match perms_of_claims sc 0 with None => 0 | Some _ => 1 end]]
  | AAdd p name dt ct et mn mx al =>
    [match snd (add_entry (st_db st) (get_perm st p) (st_now st) (st_clock st) name dt ct et mn mx al) with
     | inl id => [0; id] | inr e => [1; reg_error_code e] end]
  | AUpdate p us =>
    let errs := snd (update_entries st (get_perm st p) us) in
    [Z.of_nat (length errs) :: flat_map (fun '(id, e) => [id; update_error_code e]) errs]
  | AGet p id =>
    [match read_entry (st_db st) (get_perm st p) (st_now st) id with
     | inl e => 0 :: enc_dp (e_dp e) ++ match e_target e with None => [0] | Some d => 1 :: enc_dp d end
     | inr e => [1; read_error_code e]
     end]
  | ASub p es buf =>
    [match snd (subscribe st (get_perm st p) es buf) with
     | inl h => [0; h] | inr e => [1; sub_error_code e] end]
  | ARecv h k =>
    match find_csub st h with
    | Some s =>
      if negb (cs_open s) then bad else
      let '(s', msgs) := recv_k (Z.to_nat k) s [] in
      msgs ++ [[101; Z.of_nat (length msgs);
                b2z (negb (Z.of_nat (length msgs) =? k) && stream_ended s')]]
    | None => bad
    end
  | ADrop _ | AProvDown _ | ACleanup | AShutdown | ATick => [[0]]
  | AProvide p ids =>
    [match snd (provide_actuation st (get_perm st p) ids) with
     | inl h => [0; h] | inr e => [1; act_error_code e] end]
  | AActuate p id v =>
    [match snd (actuate st (get_perm st p) id v) with None => [0] | Some e => [1; act_error_code e] end]
  | ABatch p cs =>
    [match snd (batch_actuate st (get_perm st p) cs) with None => [0] | Some e => [1; act_error_code e] end]
  | ADump => map enc_entry_line (entries (st_db st)) ++ map enc_provider_line (st_asubs st) ++ [[399]]
  end.

(* every operation, also an undecodable line, advances the operation counter *)
Definition run_op (st : state) (a : aop) : state := exec_state (tick_clock st) a.

Definition step (st0 : state) (l : list Z) : state * list (list Z) :=
  let st := tick_clock st0 in
  match decode l with
  | Some a => (exec_state st a, exec_out st a)
  | None => (st, bad)
  end.

(* the states reachable by any finite history of operations *)
Definition run_history (h : list aop) : state := fold_left run_op h init_state.

Fixpoint run_ops (st : state) (ops : list (list Z)) : list (list Z) :=
  match ops with
  | [] => []
  | l :: r => let '(st', out) := step st l in out ++ run_ops st' r
  end.

Definition run_hist_case (case : list (list Z)) : list (list Z) := run_ops init_state case.

(* FloatLit.v — decimal literals to IEEE-754 bits, as Rust's `str::parse::<f32/f64>` does it
   (correctly rounded, round-to-nearest-even), for the literals the model covers:
     digits[.digits]  with mantissa m (all digits read as one integer) and k fraction digits;
     k = 0           : any m (binary_normalize rounds the integer correctly);
     k > 0           : m < 2^prec and 10^k exactly representable (k <= 22 for f64, k <= 10 for
                       f32): then m and 10^k are exact floats and IEEE division rounds the exact
                       quotient m / 10^k correctly.
   Anything else is `None` (not modelled; such literals are not generated).
   Also: the bit pattern of a (single-NaN) Flocq float, f64 -> f32 rounding.  Definitions only. *)
From Coq Require Import ZArith Bool List.
From Flocq Require Import Core IEEE754.BinarySingleNaN IEEE754.Binary IEEE754.Bits.
From KD Require Import Model.Values Model.Compare.
Open Scope Z_scope.

(* bit pattern of a float; NaN is the canonical quiet NaN *)
Definition bits_of_bsn (mw ew : Z) {prec emax} (x : BinarySingleNaN.binary_float prec emax) : Z :=
  let emin := 3 - emax - prec in
  match x with
  | BinarySingleNaN.B754_zero s => join_bits mw ew s 0 0
  | BinarySingleNaN.B754_infinity s => join_bits mw ew s 0 (2 ^ ew - 1)
  | BinarySingleNaN.B754_nan => join_bits mw ew false (2 ^ (mw - 1)) (2 ^ ew - 1)
  | BinarySingleNaN.B754_finite s m e _ =>
      let mm := Zpos m - 2 ^ mw in
      if 0 <=? mm then join_bits mw ew s mm (e - emin + 1) else join_bits mw ew s (Zpos m) 0
  end.

Definition bits_of_f64 (x : f64) : Z := bits_of_bsn 52 11 x.
Definition bits_of_f32 (x : f32) : Z := bits_of_bsn 23 8 x.

Definition f32_of_Z (z : Z) : f32 :=
  BinarySingleNaN.binary_normalize 24 128 eq_refl eq_refl mode_NE z 0 false.

Definition div64 (a b : f64) : f64 := @BinarySingleNaN.Bdiv 53 1024 eq_refl eq_refl mode_NE a b.
Definition div32 (a b : f32) : f32 := @BinarySingleNaN.Bdiv 24 128 eq_refl eq_refl mode_NE a b.

(* `x as f32` for an f64 x: round to nearest even *)
Definition f32_of_f64 (x : f64) : f32 :=
  match x with
  | BinarySingleNaN.B754_zero s => BinarySingleNaN.B754_zero s
  | BinarySingleNaN.B754_infinity s => BinarySingleNaN.B754_infinity s
  | BinarySingleNaN.B754_nan => BinarySingleNaN.B754_nan
  | BinarySingleNaN.B754_finite s m e _ =>
      BinarySingleNaN.binary_normalize 24 128 eq_refl eq_refl mode_NE (cond_Zopp s (Zpos m)) e s
  end.

(* a numeric literal token of sqlparser's tokenizer: digits, optionally '.' and more digits *)
Record numlit := { nl_int : list Z; nl_dot : bool; nl_frac : list Z }.

Definition digits_val (ds : list Z) : Z := fold_left (fun a d => a * 10 + d) ds 0.
Definition is_nil {A} (l : list A) : bool := match l with [] => true | _ => false end.

(* str::parse::<iN/uN>: non-empty, digits only; the range check is the caller's *)
Definition lit_int (l : numlit) : option Z :=
  if nl_dot l || is_nil (nl_int l) then None else Some (digits_val (nl_int l)).

(* trailing zeros of the fraction do not change the number *)
Fixpoint strip_zeros_rev (ds : list Z) : list Z :=
  match ds with
  | d :: r => if d =? 0 then strip_zeros_rev r else ds
  | [] => []
  end.
Definition frac_digits (l : numlit) : list Z := rev (strip_zeros_rev (rev (nl_frac l))).

Definition lit_mant (l : numlit) : Z := digits_val (nl_int l ++ frac_digits l).
Definition lit_k (l : numlit) : Z := Z.of_nat (length (frac_digits l)).

(* Some bits | None = outside the modelled class *)
Definition parse_f64 (l : numlit) : option Z :=
  let m := lit_mant l in
  let k := lit_k l in
  if k =? 0 then Some (bits_of_f64 (f64_of_Z m))
  else if (m <? 2 ^ 53) && (k <=? 22) then Some (bits_of_f64 (div64 (f64_of_Z m) (f64_of_Z (10 ^ k))))
  else None.

Definition parse_f32 (l : numlit) : option Z :=
  let m := lit_mant l in
  let k := lit_k l in
  if k =? 0 then Some (bits_of_f32 (f32_of_Z m))
  else if (m <? 2 ^ 24) && (k <=? 10) then Some (bits_of_f32 (div32 (f32_of_Z m) (f32_of_Z (10 ^ k))))
  else None.

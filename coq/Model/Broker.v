(* Broker.v — the broker core of databroker/src/broker.rs as a sequential state machine:
   Database (add / update / read), Subscriptions (change subscriptions over a bounded
   broadcast ring, actuation providers), AuthorizedAccess operations (add_entry,
   update_entries, get_entry, subscribe, provide_actuation, actuate, batch_actuate),
   housekeeping (cleanup) and shutdown.  Time is a logical clock `now`; broker-assigned
   timestamps are the index of the operation that assigned them.  Definitions only.
   Not modelled here: EntryUpdate.allowed/min/max/unit (no gRPC or VISS path sets them),
   query subscriptions (Model/Query.v). *)
From Coq Require Import ZArith Bool List.
From KD Require Import Model.Values Model.Compare Model.Validate Model.Perm Model.Glob.
Open Scope Z_scope.

(* ---------- data ---------- *)
Record meta := { m_id : Z; m_path : list Z; m_dtype : data_type; m_etype : entry_type;
                 m_ctype : change_type; m_min : option value; m_max : option value;
                 m_allowed : option value }.

Record dpoint := { d_ts : Z; d_value : value }.

Record entry := { e_dp : dpoint; e_lag : dpoint; e_target : option dpoint; e_meta : meta }.

Definition vmeta_of (m : meta) : vmeta :=
  {| vm_type := m_dtype m; vm_min := m_min m; vm_max := m_max m; vm_allowed := m_allowed m |}.

Definition path_segs (m : meta) : list (list Z) := split_on dot (m_path m).

(* Database: next_id (an AtomicI32), path_to_id, entries *)
Record database := { next_id : Z; path_to_id : list (list Z * Z); entries : list (Z * entry) }.

Fixpoint lookup_id (l : list (Z * entry)) (id : Z) : option entry :=
  match l with
  | [] => None
  | (k, e) :: r => if k =? id then Some e else lookup_id r id
  end.

Fixpoint lookup_path (l : list (list Z * Z)) (p : list Z) : option Z :=
  match l with
  | [] => None
  | (k, id) :: r => if str_eqb k p then Some id else lookup_path r p
  end.

Fixpoint replace_id (l : list (Z * entry)) (id : Z) (e : entry) : list (Z * entry) :=
  match l with
  | [] => []
  | (k, x) :: r => if k =? id then (k, e) :: r else (k, x) :: replace_id r id e
  end.

(* AtomicI32::fetch_add wraps *)
Definition wrap_i32 (z : Z) : Z := ((z + 2147483648) mod 4294967296) - 2147483648.

(* fields of an entry a change subscription can watch: Datapoint, ActuatorTarget (MetadataUnit
   is accepted in a field set but never reported as changed) *)
Record fields := { f_dp : bool; f_target : bool; f_unit : bool }.
Definition no_fields := {| f_dp := false; f_target := false; f_unit := false |}.
Definition fields_inter (a b : fields) : fields :=
  {| f_dp := f_dp a && f_dp b; f_target := f_target a && f_target b; f_unit := f_unit a && f_unit b |}.
Definition fields_union (a b : fields) : fields :=
  {| f_dp := f_dp a || f_dp b; f_target := f_target a || f_target b; f_unit := f_unit a || f_unit b |}.
Definition fields_empty (a : fields) : bool := negb (f_dp a || f_target a || f_unit a).

(* one ChangeNotification inside an EntryUpdates message *)
Record notif := { n_id : Z; n_fields : fields; n_dp : option dpoint; n_target : option (option dpoint) }.
Definition message := list notif.

(* ChangeSubscription + the state of its broadcast channel and of the (single) receiver *)
Record csub := { cs_handle : Z; cs_entries : list (Z * fields); cs_perms : perms;
                 cs_cap : Z;                 (* ring capacity actually allocated *)
                 cs_sent : list message;     (* everything ever sent, oldest first *)
                 cs_pos : Z;                 (* receiver position: messages consumed or skipped *)
                 cs_open : bool;             (* receiver still exists (receiver_count > 0) *)
                 cs_registered : bool }.     (* still in Subscriptions (sender not dropped) *)

(* ActuationSubscription + what its provider has been handed *)
Record asub := { as_handle : Z; as_ids : list Z; as_perms : perms;
                 as_available : bool; as_registered : bool;
                 as_inbox : list (list (Z * value)) }.  (* one element per actuate() call *)

Record state := { st_db : database; st_csubs : list csub; st_asubs : list asub;
                  st_now : Z; st_clock : Z;      (* logical time for expiry; operation counter *)
                  st_perms : list perms }.       (* principals defined so far *)

Definition init_state : state :=
  {| st_db := {| next_id := 0; path_to_id := []; entries := [] |};
     st_csubs := []; st_asubs := []; st_now := 0; st_clock := 0; st_perms := [] |}.

(* ---------- errors ---------- *)
Inductive read_error := RNotFound | RDenied | RExpired.
Inductive reg_error := GValidation | GDenied | GExpired.
Inductive sub_error := SNotFound | SInvalidInput | SInvalidBufferSize | SInternal.
Inductive act_error :=
| ANotFound | AWrongType | AOutOfBounds | AUnsupportedType | ADenied | AExpired
| ANotAvailable | AAlreadyExists | ATransmission.

Definition read_error_code e := match e with RNotFound => 1 | RDenied => 2 | RExpired => 3 end.
Definition reg_error_code e := match e with GValidation => 1 | GDenied => 2 | GExpired => 3 end.
Definition sub_error_code e :=
  match e with SNotFound => 1 | SInvalidInput => 2 | SInvalidBufferSize => 3 | SInternal => 4 end.
Definition act_error_code e :=
  match e with
  | ANotFound => 1 | AWrongType => 2 | AOutOfBounds => 3 | AUnsupportedType => 4 | ADenied => 5
  | AExpired => 6 | ANotAvailable => 7 | AAlreadyExists => 8 | ATransmission => 9
  end.

(* ---------- reads ---------- *)
(* DatabaseReadAccess::get_entry_by_id *)
Definition read_entry (db : database) (p : perms) (now : Z) (id : Z) : entry + read_error :=
  match lookup_id (entries db) id with
  | None => inr RNotFound
  | Some e => match can_read p now (path_segs (e_meta e)) with
              | POk => inl e
              | PDenied => inr RDenied
              | PExpired => inr RExpired
              end
  end.

(* ---------- registration: DatabaseWriteAccess::add ---------- *)
Definition add_entry (db : database) (p : perms) (now clock : Z)
           (name : list Z) (dt : data_type) (ct : change_type) (et : entry_type)
           (mn mx al : option value) : database * (Z + reg_error) :=
  if negb (valid_path name) then (db, inr GValidation)
  else match can_create p now (split_on dot name) with
       | PDenied => (db, inr GDenied)
       | PExpired => (db, inr GExpired)
       | POk =>
         match lookup_path (path_to_id db) name with
         | Some id => (db, inl id)
         | None =>
           match validate_allowed_type dt al with
           | Some _ => (db, inr GValidation)
           | None =>
             let id := next_id db in
             let na := {| d_ts := clock; d_value := VNA |} in
             let e := {| e_dp := na; e_lag := na; e_target := None;
                         e_meta := {| m_id := id; m_path := name; m_dtype := dt; m_etype := et;
                                      m_ctype := ct; m_min := mn; m_max := mx; m_allowed := al |} |} in
             ({| next_id := wrap_i32 (id + 1); path_to_id := (name, id) :: path_to_id db;
                 entries := entries db ++ [(id, e)] |}, inl id)
           end
         end
       end.

(* ---------- updates: DatabaseWriteAccess::update ---------- *)
Record upd := { u_dp : option value;                 (* datapoint *)
                u_target : option (option value);    (* actuator_target: Some None clears it *)
                u_meta : bool }.                     (* path / entry_type / data_type / description set *)

Definition perm_to_upd (r : perm_res) : option update_error :=
  match r with POk => None | PDenied => Some UPermissionDenied | PExpired => Some UPermissionExpired end.

(* Entry::diff: a repeated value on a non-continuous signal is dropped *)
Definition diff_dp (e : entry) (dp : option value) : option value :=
  match dp with
  | Some v => if negb (change_type_eqb (m_ctype (e_meta e)) Continuous) && value_eqb v (d_value (e_dp e))
              then None else Some v
  | None => None
  end.

Definition update_one (db : database) (p : perms) (now clock : Z) (id : Z) (u : upd)
  : database * (fields + update_error) :=
  match lookup_id (entries db) id with
  | None => (db, inr UNotFound)
  | Some e =>
    if u_meta u then (db, inr UPermissionDenied) else
    let path := path_segs (e_meta e) in
    match (match u_dp u with Some _ => perm_to_upd (can_write_datapoint p now path) | None => None end) with
    | Some err => (db, inr err)
    | None =>
      match (match u_target u with Some _ => perm_to_upd (can_write_actuator_target p now path)
                                 | None => None end) with
      | Some err => (db, inr err)
      | None =>
        let dp := diff_dp e (u_dp u) in
        let vm := vmeta_of (e_meta e) in
        match (match dp with Some v => validate_datapoint_value vm v | None => None end) with
        | Some err => (db, inr err)
        | None =>
          match (match u_target u with Some (Some t) => validate_datapoint_value vm t | _ => None end) with
          | Some err => (db, inr err)
          | None =>
            (* Entry::apply *)
            let e1 := match dp with
                      | Some v => {| e_dp := {| d_ts := clock; d_value := v |}; e_lag := e_dp e;
                                     e_target := e_target e; e_meta := e_meta e |}
                      | None => e
                      end in
            let e2 := match u_target u with
                      | Some t => {| e_dp := e_dp e1; e_lag := e_lag e1;
                                     e_target := option_map (fun v => {| d_ts := clock; d_value := v |}) t;
                                     e_meta := e_meta e1 |}
                      | None => e1
                      end in
            let ch := {| f_dp := match dp with Some _ => true | None => false end;
                         f_target := match u_target u with Some _ => true | None => false end;
                         f_unit := false |} in
            ({| next_id := next_id db; path_to_id := path_to_id db;
                entries := replace_id (entries db) id e2 |}, inl ch)
          end
        end
      end
    end
  end.

(* HashMap::insert on the `changed` map: a later update of the same id in one batch
   merges its changed fields with the earlier ones *)
Fixpoint changed_insert (l : list (Z * fields)) (id : Z) (f : fields) : list (Z * fields) :=
  match l with
  | [] => [(id, f)]
  | (k, g) :: r => if k =? id then (k, fields_union g f) :: r else (k, g) :: changed_insert r id f
  end.

Fixpoint apply_updates (db : database) (p : perms) (now clock : Z) (us : list (Z * upd))
         (changed : list (Z * fields)) (errs : list (Z * update_error))
  : database * list (Z * fields) * list (Z * update_error) :=
  match us with
  | [] => (db, changed, rev errs)
  | (id, u) :: r =>
    match update_one db p now clock id u with
    | (db', inl ch) =>
      apply_updates db' p now clock r
                    (if fields_empty ch then changed else changed_insert changed id ch) errs
    | (db', inr e) => apply_updates db' p now clock r changed ((id, e) :: errs)
    end
  end.

(* ---------- change notifications ---------- *)
Fixpoint lookup_fields (l : list (Z * fields)) (id : Z) : option fields :=
  match l with
  | [] => None
  | (k, f) :: r => if k =? id then Some f else lookup_fields r id
  end.

Definition watched (sub_entries changed : list (Z * fields)) : list (Z * fields) :=
  (* pairs (id, changed ∩ subscribed) with a non-empty intersection of {Datapoint, ActuatorTarget} *)
  flat_map (fun '(id, cf) =>
              match lookup_fields sub_entries id with
              | Some sf => let i := fields_inter sf cf in
                           if fields_empty i then [] else [(id, i)]
              | None => []
              end) changed.

(* ChangeSubscription::notify(Some(changed)): None = nothing to send, Some (inl m) = send m,
   Some (inr tt) = NotificationError (token expired) *)
Fixpoint build_notifs (db : database) (p : perms) (now : Z) (w : list (Z * fields))
  : option (list notif) :=
  match w with
  | [] => Some []
  | (id, f) :: r =>
    match read_entry db p now id with
    | inr RExpired => None
    | inr _ => build_notifs db p now r
    | inl e =>
      match build_notifs db p now r with
      | None => None
      | Some l => Some ({| n_id := id; n_fields := f;
                           n_dp := if f_dp f then Some (e_dp e) else None;
                           n_target := if f_target f then Some (e_target e) else None |} :: l)
      end
    end
  end.

(* broadcast::Sender::send: fails when no receiver is left *)
Definition cs_send (s : csub) (m : message) : csub * bool :=
  if cs_open s then
    ({| cs_handle := cs_handle s; cs_entries := cs_entries s; cs_perms := cs_perms s;
        cs_cap := cs_cap s; cs_sent := cs_sent s ++ [m]; cs_pos := cs_pos s;
        cs_open := true; cs_registered := cs_registered s |}, true)
  else (s, false).

(* returns the subscription and whether the notify call failed (cleanup needed) *)
Definition notify_change (db : database) (now : Z) (changed : list (Z * fields)) (s : csub)
  : csub * bool :=
  if negb (cs_registered s) then (s, false) else
  match watched (cs_entries s) changed with
  | [] => (s, false)
  | w => match build_notifs db (cs_perms s) now w with
         | None => (s, true)
         | Some [] => (s, false)
         | Some m => let '(s', ok) := cs_send s m in (s', negb ok)
         end
  end.

(* ChangeSubscription::notify(None): the initial snapshot (errors are skipped) *)
Fixpoint build_snapshot (db : database) (p : perms) (now : Z) (es : list (Z * fields)) : list notif :=
  match es with
  | [] => []
  | (id, f) :: r =>
    match read_entry db p now id with
    | inl e => {| n_id := id; n_fields := {| f_dp := f_dp f; f_target := f_target f; f_unit := false |};
                  n_dp := if f_dp f then Some (e_dp e) else None;
                  n_target := if f_target f then Some (e_target e) else None |}
               :: build_snapshot db p now r
    | inr _ => build_snapshot db p now r
    end
  end.

(* tokio::sync::broadcast::channel rounds the capacity up to a power of two *)
Fixpoint npow2_fuel (fuel : nat) (p n : Z) : Z :=
  match fuel with
  | O => p
  | S f => if n <=? p then p else npow2_fuel f (2 * p) n
  end.
Definition npow2 (n : Z) : Z := npow2_fuel 64 1 n.

Definition max_subscribe_buffer_size : Z := 1000.

(* Subscriptions::cleanup *)
Definition cleanup_csub (now : Z) (s : csub) : csub :=
  if cs_registered s && (negb (cs_open s) || expired (cs_perms s) now)
  then {| cs_handle := cs_handle s; cs_entries := cs_entries s; cs_perms := cs_perms s;
          cs_cap := cs_cap s; cs_sent := cs_sent s; cs_pos := cs_pos s; cs_open := cs_open s;
          cs_registered := false |}
  else s.

Definition cleanup_asub (now : Z) (a : asub) : asub :=
  if as_registered a && (negb (as_available a) || expired (as_perms a) now)
  then {| as_handle := as_handle a; as_ids := as_ids a; as_perms := as_perms a;
          as_available := as_available a; as_registered := false; as_inbox := as_inbox a |}
  else a.

Definition cleanup (now : Z) (st : state) : state :=
  {| st_db := st_db st; st_csubs := map (cleanup_csub now) (st_csubs st);
     st_asubs := map (cleanup_asub now) (st_asubs st);
     st_now := st_now st; st_clock := st_clock st; st_perms := st_perms st |}.

(* AuthorizedAccess::update_entries *)
Definition update_entries (st : state) (p : perms) (us : list (Z * upd))
  : state * list (Z * update_error) :=
  let '(db', changed, errs) := apply_updates (st_db st) p (st_now st) (st_clock st) us [] [] in
  let res := map (notify_change db' (st_now st) changed) (st_csubs st) in
  let st' := {| st_db := db'; st_csubs := map fst res; st_asubs := st_asubs st;
                st_now := st_now st; st_clock := st_clock st; st_perms := st_perms st |} in
  (if existsb snd res then cleanup (st_now st) st' else st', errs).

(* AuthorizedAccess::subscribe *)
Definition subscribe (st : state) (p : perms) (es : list (Z * fields)) (buf : option Z)
  : state * (Z + sub_error) :=
  match es with
  | [] => (st, inr SInvalidInput)
  | _ =>
    match (match buf with
           | Some b => if max_subscribe_buffer_size <? b then None else Some (b + 1)
           | None => Some 1
           end) with
    | None => (st, inr SInvalidBufferSize)
    | Some cap =>
      let h := Z.of_nat (length (st_csubs st)) in
      let snap := build_snapshot (st_db st) p (st_now st) es in
      let s := {| cs_handle := h; cs_entries := es; cs_perms := p; cs_cap := npow2 cap;
                  cs_sent := [snap]; cs_pos := 0; cs_open := true; cs_registered := true |} in
      ({| st_db := st_db st; st_csubs := st_csubs st ++ [s]; st_asubs := st_asubs st;
          st_now := st_now st; st_clock := st_clock st; st_perms := st_perms st |}, inl h)
    end
  end.

(* one poll of the subscriber's stream (BroadcastStream with Lagged errors filtered out):
   Some m = next message; None = nothing pending (or, when the sender is gone and everything
   retained has been read, end of stream) *)
Definition recv_one (s : csub) : csub * option message :=
  let n := Z.of_nat (length (cs_sent s)) in
  let pos := Z.max (cs_pos s) (n - cs_cap s) in
  if pos <? n then
    ({| cs_handle := cs_handle s; cs_entries := cs_entries s; cs_perms := cs_perms s;
        cs_cap := cs_cap s; cs_sent := cs_sent s; cs_pos := pos + 1; cs_open := cs_open s;
        cs_registered := cs_registered s |}, nth_error (cs_sent s) (Z.to_nat pos))
  else (s, None).

Definition stream_ended (s : csub) : bool :=
  negb (cs_registered s) && (Z.of_nat (length (cs_sent s)) <=? cs_pos s).

(* ---------- actuation ---------- *)
Definition read_to_act (e : read_error) : act_error :=
  match e with RNotFound => ANotFound | RDenied => ADenied | RExpired => AExpired end.

(* AuthorizedAccess::can_write_actuator_target(vss_id) *)
Definition can_actuate_id (db : database) (p : perms) (now : Z) (id : Z) : option act_error :=
  match read_entry db p now id with
  | inr e => Some (read_to_act e)
  | inl e => match can_write_actuator_target p now (path_segs (e_meta e)) with
             | POk => None | PDenied => Some ADenied | PExpired => Some AExpired
             end
  end.

Definition upd_to_act (e : update_error) : act_error :=
  match e with
  | UOutOfBoundsMinMax | UOutOfBoundsAllowed | UOutOfBoundsType => AOutOfBounds
  | UUnsupportedType => AUnsupportedType
  | UWrongType => AWrongType
  | UNotFound => ANotFound
  | UPermissionDenied => ADenied
  | UPermissionExpired => AExpired
  end.

(* AuthorizedAccess::validate_actuator_update *)
Definition validate_actuation (db : database) (p : perms) (now : Z) (id : Z) (v : value)
  : option act_error :=
  match read_entry db p now id with
  | inr e => Some (read_to_act e)
  | inl e =>
    if negb (entry_type_eqb (m_etype (e_meta e)) Actuator) then Some AWrongType
    else match validate_actuator_value (vmeta_of (e_meta e)) v with
         | Some err => Some (upd_to_act err)
         | None => None
         end
  end.

Fixpoint first_error {A} (f : A -> option act_error) (l : list A) : option act_error :=
  match l with
  | [] => None
  | x :: r => match f x with Some e => Some e | None => first_error f r end
  end.

Definition mem_z (x : Z) (l : list Z) : bool := existsb (Z.eqb x) l.

(* AuthorizedAccess::provide_actuation: the overlap scan looks at every subscription still
   in the list, also those of providers that are gone but not yet cleaned up *)
Definition provide_actuation (st : state) (p : perms) (ids : list Z) : state * (Z + act_error) :=
  match first_error (can_actuate_id (st_db st) p (st_now st)) ids with
  | Some e => (st, inr e)
  | None =>
    let owned := flat_map (fun a => if as_registered a then as_ids a else []) (st_asubs st) in
    if existsb (fun x => mem_z x owned) ids then (st, inr AAlreadyExists)
    else
      let h := Z.of_nat (length (st_asubs st)) in
      let a := {| as_handle := h; as_ids := ids; as_perms := p; as_available := true;
                  as_registered := true; as_inbox := [] |} in
      ({| st_db := st_db st; st_csubs := st_csubs st; st_asubs := st_asubs st ++ [a];
          st_now := st_now st; st_clock := st_clock st; st_perms := st_perms st |}, inl h)
  end.

(* the first registered subscription that lists the id *)
Fixpoint find_owner (l : list asub) (id : Z) : option asub :=
  match l with
  | [] => None
  | a :: r => if as_registered a && mem_z id (as_ids a) then Some a else find_owner r id
  end.

Definition owner_ready (now : Z) (o : option asub) : asub + act_error :=
  match o with
  | None => inr ANotAvailable
  | Some a => if expired (as_perms a) now then inr AExpired
              else if negb (as_available a) then inr ANotAvailable
              else inl a
  end.

Definition deliver (l : list asub) (h : Z) (call : list (Z * value)) : list asub :=
  map (fun a => if as_handle a =? h
                then {| as_handle := as_handle a; as_ids := as_ids a; as_perms := as_perms a;
                        as_available := as_available a; as_registered := as_registered a;
                        as_inbox := as_inbox a ++ [call] |}
                else a) l.

Definition set_asubs (st : state) (l : list asub) : state :=
  {| st_db := st_db st; st_csubs := st_csubs st; st_asubs := l;
     st_now := st_now st; st_clock := st_clock st; st_perms := st_perms st |}.

(* AuthorizedAccess::actuate *)
Definition actuate (st : state) (p : perms) (id : Z) (v : value) : state * option act_error :=
  match can_actuate_id (st_db st) p (st_now st) id with
  | Some e => (st, Some e)
  | None =>
    match validate_actuation (st_db st) p (st_now st) id v with
    | Some e => (st, Some e)
    | None =>
      match owner_ready (st_now st) (find_owner (st_asubs st) id) with
      | inr e => (st, Some e)
      | inl a => (set_asubs st (deliver (st_asubs st) (as_handle a) [(id, v)]), None)
      end
    end
  end.

(* group the changes by id, ids in order of first occurrence, changes in request order *)
Fixpoint group_insert (g : list (Z * list (Z * value))) (c : Z * value) : list (Z * list (Z * value)) :=
  match g with
  | [] => [(fst c, [c])]
  | (k, l) :: r => if k =? fst c then (k, l ++ [c]) :: r else (k, l) :: group_insert r c
  end.
Definition group_by_id (cs : list (Z * value)) : list (Z * list (Z * value)) :=
  fold_left group_insert cs [].

Fixpoint resolve_owners (now : Z) (asubs : list asub) (g : list (Z * list (Z * value)))
  : list (Z * list (Z * value)) + act_error :=
  match g with
  | [] => inl []
  | (id, l) :: r =>
    match owner_ready now (find_owner asubs id) with
    | inr e => inr e
    | inl a => match resolve_owners now asubs r with
               | inr e => inr e
               | inl rest => inl ((as_handle a, l) :: rest)
               end
    end
  end.

(* AuthorizedAccess::batch_actuate: every check for every element first, then the owners of
   all addressed actuators are resolved, and only then anything is forwarded *)
Definition batch_actuate (st : state) (p : perms) (cs : list (Z * value)) : state * option act_error :=
  match first_error (fun '(id, v) =>
                       match can_actuate_id (st_db st) p (st_now st) id with
                       | Some e => Some e
                       | None => validate_actuation (st_db st) p (st_now st) id v
                       end) cs with
  | Some e => (st, Some e)
  | None =>
    match resolve_owners (st_now st) (st_asubs st) (group_by_id cs) with
    | inr e => (st, Some e)
    | inl calls =>
      (set_asubs st (fold_left (fun l '(h, call) => deliver l h call) calls (st_asubs st)), None)
    end
  end.

(* DataBroker::shutdown: Subscriptions::clear *)
Definition shutdown (st : state) : state :=
  {| st_db := st_db st;
     st_csubs := map (fun s => {| cs_handle := cs_handle s; cs_entries := cs_entries s;
                                  cs_perms := cs_perms s; cs_cap := cs_cap s; cs_sent := cs_sent s;
                                  cs_pos := cs_pos s; cs_open := cs_open s; cs_registered := false |})
                     (st_csubs st);
     st_asubs := map (fun a => {| as_handle := as_handle a; as_ids := as_ids a; as_perms := as_perms a;
                                  as_available := as_available a; as_registered := false;
                                  as_inbox := as_inbox a |}) (st_asubs st);
     st_now := st_now st; st_clock := st_clock st; st_perms := st_perms st |}.

(* Driver.v — the single entry point of the extracted model: family code, case (list of
   integer-token lines) -> output lines.  The Rust harness implements the same interface
   on top of the real crate. *)
From Coq Require Import ZArith List.
From KD Require Import Model.Values Model.Compare Model.Validate Model.Perm Model.Glob Model.Broker Model.BrokerRun Model.Api Model.ApiRun Model.Wire Model.Conc Model.FloatLit Model.Query Model.QueryRun Model.Vss Model.Auth Model.Viss.
Open Scope Z_scope.

Definition fam_cmp : Z := 13.
Definition fam_validate : Z := 2.
Definition fam_scope : Z := 5.
Definition fam_glob : Z := 14.
Definition fam_hist : Z := 1.
Definition fam_trace : Z := 11.
Definition fam_wire : Z := 15.
Definition fam_query : Z := 16.
Definition fam_vss : Z := 17.
Definition fam_auth : Z := 6.
Definition fam_viss : Z := 20.

Definition run (fam : Z) (case : list (list Z)) : list (list Z) :=
  if fam =? fam_cmp then map run_cmp_line case
  else if fam =? fam_validate then map run_validate_line case
  else if fam =? fam_scope then map run_scope_line case
  else if fam =? fam_glob then run_glob_case case
  else if fam =? fam_hist then run_api_case case
  else if fam =? fam_trace then map run_trace_line case
  else if fam =? fam_wire then map run_wire_line case
  else if fam =? fam_query then run_query_case case
  else if fam =? fam_vss then run_vss_case case
  else if fam =? fam_auth then run_auth_case case
  else if fam =? fam_viss then run_viss_case case
  else [[-99]].

(* Api.v — the gRPC handlers of kuksa.val.v1 (Get, Set), kuksa.val.v2 (GetValue, GetValues,
   PublishValue, Actuate, BatchActuate, ListMetadata) and sdv.databroker.v1 (GetDatapoints,
   SetDatapoints, GetMetadata; collector UpdateDatapoints, RegisterDatapoints) as translators onto
   the broker core (Model/Broker.v), with the wire conversions of the three conversions.rs files:
   value kinds are carried unchanged, NotAvailable is an absent value, enums take their protobuf
   numbers, errors take the status vocabulary of each API.  Definitions only. *)
From Coq Require Import ZArith Bool List.
From KD Require Import Model.Values Model.Compare Model.Validate Model.Perm Model.Glob Model.Broker.
Open Scope Z_scope.

(* ---------- gRPC status codes (tonic::Code) ---------- *)
Definition OK := 0.
Definition INVALID_ARGUMENT := 3.
Definition NOT_FOUND := 5.
Definition ALREADY_EXISTS := 6.
Definition PERMISSION_DENIED := 7.
Definition UNAVAILABLE := 14.
Definition DATA_LOSS := 15.
Definition UNAUTHENTICATED := 16.

(* ---------- protobuf enum numbers ---------- *)
(* kuksa.val.v1 and v2 DataType (identical numbering) *)
Definition kuksa_data_type (t : data_type) : Z :=
  match t with
  | TString => 1 | TBool => 2 | TInt8 => 3 | TInt16 => 4 | TInt32 => 5 | TInt64 => 6
  | TUint8 => 7 | TUint16 => 8 | TUint32 => 9 | TUint64 => 10 | TFloat => 11 | TDouble => 12
  | TStringArray => 20 | TBoolArray => 21 | TInt8Array => 22 | TInt16Array => 23
  | TInt32Array => 24 | TInt64Array => 25 | TUint8Array => 26 | TUint16Array => 27
  | TUint32Array => 28 | TUint64Array => 29 | TFloatArray => 30 | TDoubleArray => 31
  end.
(* sdv.databroker.v1 DataType *)
Definition sdv_data_type (t : data_type) : Z :=
  match t with
  | TString => 0 | TBool => 1 | TInt8 => 2 | TInt16 => 3 | TInt32 => 4 | TInt64 => 5
  | TUint8 => 6 | TUint16 => 7 | TUint32 => 8 | TUint64 => 9 | TFloat => 10 | TDouble => 11
  | TStringArray => 20 | TBoolArray => 21 | TInt8Array => 22 | TInt16Array => 23
  | TInt32Array => 24 | TInt64Array => 25 | TUint8Array => 26 | TUint16Array => 27
  | TUint32Array => 28 | TUint64Array => 29 | TFloatArray => 30 | TDoubleArray => 31
  end.
Definition sdv_data_type_of (z : Z) : option data_type :=
  find (fun t => sdv_data_type t =? z) all_data_types.
(* kuksa EntryType: ATTRIBUTE 1, SENSOR 2, ACTUATOR 3; sdv: SENSOR 1, ACTUATOR 2, ATTRIBUTE 3 *)
Definition kuksa_entry_type (t : entry_type) : Z :=
  match t with Attribute => 1 | Sensor => 2 | Actuator => 3 end.
Definition sdv_entry_type (t : entry_type) : Z :=
  match t with Sensor => 1 | Actuator => 2 | Attribute => 3 end.
(* sdv ChangeType: STATIC 0, ON_CHANGE 1, CONTINUOUS 2 *)
Definition sdv_change_type_of (z : Z) : option change_type := dec_change_type z.

(* ---------- wire values ---------- *)
(* proto -> broker: an absent value / unset oneof (and sdv's FailureValue) is NotAvailable;
   broker -> proto: NotAvailable is an absent value, every other kind and payload unchanged *)
Definition from_wire (w : option value) : value := match w with Some v => v | None => VNA end.
Definition to_wire (v : value) : option value := match v with VNA => None | _ => Some v end.

(* v2 / sdv signal addressing *)
Inductive sig_ref := SigAbsent | SigEmpty | SigPath (s : list Z) | SigId (id : Z).

Definition too_long (s : list Z) : bool := max_request_path_length <? Z.of_nat (length s).

(* kuksa_val_v2::val::get_signal *)
Definition v2_get_signal (db : database) (s : sig_ref) : Z + Z :=   (* inl id | inr status *)
  match s with
  | SigAbsent | SigEmpty => inr INVALID_ARGUMENT
  | SigPath p => if too_long p then inr INVALID_ARGUMENT
                 else match lookup_path (path_to_id db) p with Some id => inl id | None => inr NOT_FOUND end
  | SigId id => match lookup_id (entries db) id with Some _ => inl id | None => inr NOT_FOUND end
  end.

Definition read_status (e : read_error) : Z :=
  match e with RNotFound => NOT_FOUND | RDenied => PERMISSION_DENIED | RExpired => UNAUTHENTICATED end.

(* UpdateError::to_status_with_code *)
Definition update_status (e : update_error) : Z :=
  match e with
  | UNotFound => NOT_FOUND
  | UPermissionDenied => PERMISSION_DENIED
  | UPermissionExpired => UNAUTHENTICATED
  | _ => INVALID_ARGUMENT
  end.

(* ActuationError::to_tonic_status *)
Definition act_status (e : act_error) : Z :=
  match e with
  | ANotFound => NOT_FOUND
  | AWrongType | AOutOfBounds | AUnsupportedType => INVALID_ARGUMENT
  | ADenied => PERMISSION_DENIED
  | AExpired => UNAUTHENTICATED
  | ANotAvailable => UNAVAILABLE
  | AAlreadyExists => ALREADY_EXISTS
  | ATransmission => DATA_LOSS
  end.

(* kuksa.val.v1 per-entry error codes (convert_to_data_entry_error) *)
Definition v1_update_code (e : update_error) : Z :=
  match e with
  | UNotFound => 404
  | UPermissionDenied => 403
  | UPermissionExpired => 401
  | _ => 400
  end.

(* sdv DatapointError: UNKNOWN_DATAPOINT 0, INVALID_TYPE 1, ACCESS_DENIED 2, OUT_OF_BOUNDS 4 *)
Definition sdv_update_code (e : update_error) : Z :=
  match e with
  | UNotFound => 0
  | UWrongType | UUnsupportedType => 1
  | UOutOfBoundsAllowed | UOutOfBoundsMinMax | UOutOfBoundsType => 4
  | UPermissionDenied | UPermissionExpired => 2
  end.

(* kuksa.val.v2 in-stream ErrorCode: INVALID_ARGUMENT 2, NOT_FOUND 3, PERMISSION_DENIED 4 *)
Definition v2_error_code (e : update_error) : Z :=
  match e with
  | UNotFound => 3
  | UPermissionDenied | UPermissionExpired => 4
  | _ => 2
  end.

Definition dp_upd (v : value) : upd := {| u_dp := Some v; u_target := None; u_meta := false |}.
Definition target_upd (v : value) : upd := {| u_dp := None; u_target := Some (Some v); u_meta := false |}.

(* ---------- kuksa.val.v2 ---------- *)
Inductive reply :=
| RStatus (code : Z)                              (* a gRPC error status (or plain OK) *)
| RValue (d : dpoint)                             (* one datapoint *)
| RValues (l : list dpoint)
| RMetaList (l : list entry)                      (* metadata of the selected entries *)
| RErrors (l : list (Z * Z))                      (* per id (or per request index) error codes *)
| REntries (code : Z) (l : list (entry * bool * bool * bool * bool))
                                                  (* v1 Get: per-request code; entry, has value,
                                                     has target, has metadata, value readable *)
| RNamed (l : list (list Z * (dpoint + Z)))       (* sdv GetDatapoints: name -> value | failure *)
| RIds (l : list (list Z * Z)).                   (* sdv RegisterDatapoints: name -> id *)

Definition v2_get_value (st : state) (p : perms) (s : sig_ref) : reply :=
  match v2_get_signal (st_db st) s with
  | inr code => RStatus code
  | inl id => match read_entry (st_db st) p (st_now st) id with
              | inl e => RValue (e_dp e)
              | inr err => RStatus (read_status err)
              end
  end.

Fixpoint v2_get_values_aux (st : state) (p : perms) (l : list sig_ref) (acc : list dpoint) : reply :=
  match l with
  | [] => RValues (rev acc)
  | s :: r => match v2_get_value st p s with
              | RValue d => v2_get_values_aux st p r (d :: acc)
              | other => other
              end
  end.
Definition v2_get_values (st : state) (p : perms) (l : list sig_ref) : reply := v2_get_values_aux st p l [].

(* PublishValue: data_point absent -> INVALID_ARGUMENT; else one-element update_entries *)
Definition v2_publish (st : state) (p : perms) (s : sig_ref) (dp : option (option value)) : state * reply :=
  match dp with
  | None => (st, RStatus INVALID_ARGUMENT)
  | Some w =>
    match v2_get_signal (st_db st) s with
    | inr code => (st, RStatus code)
    | inl id => let '(st', errs) := update_entries st p [(id, dp_upd (from_wire w))] in
                (st', RStatus (match errs with [] => OK | (_, e) :: _ => update_status e end))
    end
  end.

(* Actuate: value absent / signal absent -> INVALID_ARGUMENT; a path is resolved first *)
Definition v2_resolve_actuator (db : database) (s : sig_ref) : Z + Z :=
  match s with
  | SigAbsent | SigEmpty => inr INVALID_ARGUMENT
  | SigPath p => match lookup_path (path_to_id db) p with Some id => inl id | None => inr NOT_FOUND end
  | SigId id => inl id
  end.

Definition v2_actuate (st : state) (p : perms) (s : sig_ref) (v : option (option value)) : state * reply :=
  match v with
  | None => (st, RStatus INVALID_ARGUMENT)
  | Some w =>
    match s with
    | SigAbsent => (st, RStatus INVALID_ARGUMENT)
    | _ =>
      match v2_resolve_actuator (st_db st) s with
      | inr code => (st, RStatus code)
      | inl id => let '(st', r) := actuate st p id (from_wire w) in
                  (st', RStatus (match r with None => OK | Some e => act_status e end))
      end
    end
  end.

Fixpoint v2_batch_resolve (db : database) (l : list (sig_ref * option (option value)))
  : list (Z * value) + Z :=
  match l with
  | [] => inl []
  | (s, v) :: r =>
    match v2_resolve_actuator db s with
    | inr code => inr code
    | inl id => match v with
                | None => inr INVALID_ARGUMENT
                | Some w => match v2_batch_resolve db r with
                            | inl rest => inl ((id, from_wire w) :: rest)
                            | inr code => inr code
                            end
                end
    end
  end.

Definition v2_batch_actuate (st : state) (p : perms) (l : list (sig_ref * option (option value)))
  : state * reply :=
  match v2_batch_resolve (st_db st) l with
  | inr code => (st, RStatus code)
  | inl cs => let '(st', r) := batch_actuate st p cs in
              (st', RStatus (match r with None => OK | Some e => act_status e end))
  end.

(* ListMetadata: wildcard selection over all entries (no permission needed for metadata) *)
Definition tree_of (db : database) : list (list (list Z)) :=
  map (fun ie => path_segs (e_meta (snd ie))) (entries db).

Definition nth_entries (db : database) (idx : list Z) : list entry :=
  flat_map (fun i => match nth_error (entries db) (Z.to_nat i) with Some ie => [snd ie] | None => [] end) idx.

Definition v2_list_metadata (st : state) (root : list Z) : reply :=
  let '(code, sel) := select 2 root (tree_of (st_db st)) in
  if code =? 0 then RMetaList (nth_entries (st_db st) sel)
  else RStatus (if code =? 400 then INVALID_ARGUMENT else if code =? 404 then NOT_FOUND else code).

(* ---------- kuksa.val.v1 ---------- *)
(* Get with one EntryRequest: view 1 CurrentValue, 2 TargetValue, 3 Metadata, 20 All *)
Definition view_value (view : Z) : bool := (view =? 1) || (view =? 20) || (view =? 0).
Definition view_target (view : Z) : bool := (view =? 2) || (view =? 20).
Definition view_meta (view : Z) : bool := (view =? 3) || (view =? 20).
Definition view_known (view : Z) : bool :=
  (view =? 0) || (view =? 1) || (view =? 2) || (view =? 3) || (view =? 10) || (view =? 20).

(* the fields of a Get entry: those of the view (combine_view_and_fields) joined with the explicitly requested
   ones (mask: 1 Value, 2 ActuatorTarget, 4 Metadata); View::Unspecified stands for CurrentValue only when no
   field is named *)
Definition get_value_field (view mask : Z) : bool :=
  Z.testbit mask 0 || (view =? 1) || (view =? 20) || ((view =? 0) && (mask =? 0)).
Definition get_target_field (view mask : Z) : bool := Z.testbit mask 1 || view_target view.
Definition get_meta_field (view mask : Z) : bool := Z.testbit mask 2 || view_meta view.

Definition v1_get_fields (st : state) (p : perms) (path : list Z) (view mask : Z) : reply :=
  if too_long path then REntries 400 []
  else if negb (matcher_accepts path) then REntries 400 []
  else if negb (view_known view) then RStatus INVALID_ARGUMENT
  else
    match to_glob path with
    | None => RStatus (-9)
    | Some ps =>
      let sel := nth_entries (st_db st) (with_fallback ps (tree_of (st_db st))) in
      match sel with
      | [] => REntries 404 []
      | _ =>
        let readable e := match can_read p (st_now st) (path_segs (e_meta e)) with POk => true | _ => false end in
        let wv := get_value_field view mask in
        let wt := get_target_field view mask in
        let wm := get_meta_field view mask in
        let wants_data := wv || wt in
        let denied := wants_data && existsb (fun e => negb (readable e)) sel in
        if denied then REntries (if expired p (st_now st) then 401 else 403) []
        else REntries 0
               (flat_map (fun e =>
                            if wm || (wants_data && readable e)
                            then [(e, wv, wt, wm, readable e)]
                            else []) sel)
      end
    end.
Definition v1_get (st : state) (p : perms) (path : list Z) (view : Z) : reply := v1_get_fields st p path view 0.

(* ---------- subscriptions through the handlers ----------
   The handlers select ids and fields and then call the core `subscribe`; what the subscriber is sent
   afterwards is the core subscription's stream (the proto conversion keeps ids / paths, fields and
   datapoints). *)
Definition sub_status (e : sub_error) : Z :=
  match e with
  | SNotFound => NOT_FOUND
  | SInvalidInput | SInvalidBufferSize => INVALID_ARGUMENT
  | SInternal => 13
  end.

Definition nth_id_entries (db : database) (idx : list Z) : list (Z * entry) :=
  flat_map (fun i => match nth_error (entries db) (Z.to_nat i) with Some ie => [ie] | None => [] end) idx.

Definition core_subscribe (st : state) (p : perms) (es : list (Z * fields)) (buf : option Z) : state * (Z + Z) :=
  match subscribe st p es buf with
  | (st', inl h) => (st', inl h)
  | (st', inr e) => (st', inr (sub_status e))
  end.

(* kuksa.val.v1 Subscribe with one SubscribeEntry: an over-long or invalid path is skipped (leaving nothing
   to subscribe to); otherwise the pattern selects as in Get (branch fallback included), every selected
   signal must be readable, and the entry's fields (Value / ActuatorTarget / MetadataUnit; others are
   ignored) are subscribed for each *)
Definition v1_sub_entries (st : state) (p : perms) (path : list Z) (fl : fields) : list (Z * fields) + Z :=
  if too_long path || negb (matcher_accepts path) then inl []
  else
    match to_glob path with
    | None => inr (-9)
    | Some ps =>
      match nth_id_entries (st_db st) (with_fallback ps (tree_of (st_db st))) with
      | [] => inr NOT_FOUND
      | sel =>
        if existsb (fun ie => match can_read p (st_now st) (path_segs (e_meta (snd ie))) with
                              | POk => false | _ => true end) sel
        then inr PERMISSION_DENIED
        else inl (map (fun ie => (fst ie, fl)) sel)
      end
    end.
Definition v1_subscribe (st : state) (p : perms) (path : list Z) (fl : fields) : state * (Z + Z) :=
  match v1_sub_entries st p path fl with
  | inr code => (st, inr code)
  | inl es => core_subscribe st p es None
  end.

(* several SubscribeEntries in one request: each is expanded as above (the first failure is the answer); a
   signal selected by more than one entry is subscribed with the union of their fields *)
Definition fields_union (a b : fields) : fields :=
  {| f_dp := f_dp a || f_dp b; f_target := f_target a || f_target b; f_unit := f_unit a || f_unit b |}.
Fixpoint merge_entry (id : Z) (fl : fields) (acc : list (Z * fields)) : list (Z * fields) :=
  match acc with
  | [] => [(id, fl)]
  | (i, f) :: r => if i =? id then (i, fields_union f fl) :: r
                   else if id <? i then (id, fl) :: (i, f) :: r
                   else (i, f) :: merge_entry id fl r
  end.
Fixpoint v1_sub_all (st : state) (p : perms) (l : list (list Z * fields)) (acc : list (Z * fields))
  : list (Z * fields) + Z :=
  match l with
  | [] => inl acc
  | (path, fl) :: r =>
    match v1_sub_entries st p path fl with
    | inr code => inr code
    | inl es => v1_sub_all st p r (fold_left (fun a ie => merge_entry (fst ie) (snd ie) a) es acc)
    end
  end.
Definition v1_subscribe_multi (st : state) (p : perms) (l : list (list Z * fields)) : state * (Z + Z) :=
  match l with
  | [] => (st, inr INVALID_ARGUMENT)
  | _ => match v1_sub_all st p l [] with
         | inr code => (st, inr code)
         | inl es => core_subscribe st p es None
         end
  end.

(* kuksa.val.v2 Subscribe / SubscribeById: every signal is resolved first (the first failure is the
   answer); duplicates collapse; the Datapoint field of each is subscribed with the given buffer size *)
Fixpoint v2_resolve_all (db : database) (l : list sig_ref) : list Z + Z :=
  match l with
  | [] => inl []
  | s :: r => match v2_get_signal db s with
              | inr code => inr code
              | inl id => match v2_resolve_all db r with
                          | inl ids => inl (id :: ids)
                          | inr code => inr code
                          end
              end
  end.

Fixpoint nodup_z (l : list Z) : list Z :=
  match l with
  | [] => []
  | x :: r => if existsb (Z.eqb x) r then nodup_z r else x :: nodup_z r
  end.

Definition dp_only : fields := {| f_dp := true; f_target := false; f_unit := false |}.

Definition v2_sub_entries (db : database) (l : list sig_ref) : list (Z * fields) + Z :=
  match v2_resolve_all db l with
  | inr code => inr code
  | inl ids => inl (map (fun id => (id, dp_only)) (nodup_z ids))
  end.
Definition v2_subscribe (st : state) (p : perms) (l : list sig_ref) (buf : Z) : state * (Z + Z) :=
  match v2_sub_entries (st_db st) l with
  | inr code => (st, inr code)
  | inl es => core_subscribe st p es (Some buf)
  end.

(* ---------- kuksa.val.v2 OpenProviderStream ----------
   ProvideActuationRequest: path identifiers are resolved first (any unknown path: NOT_FOUND), numeric ids
   are taken as they are (the core checks them), identifiers of neither form are ignored; the claim is the
   core provide_actuation of the ids followed by the resolved paths.  PublishValuesRequest: the core
   update_entries of the datapoints; the answer lists the failed ids with the in-stream error code. *)
Definition sig_paths (l : list sig_ref) : list (list Z) :=
  flat_map (fun s => match s with SigPath x => [x] | _ => [] end) l.
Definition sig_ids (l : list sig_ref) : list Z :=
  flat_map (fun s => match s with SigId i => [i] | _ => [] end) l.
Fixpoint resolve_paths (db : database) (l : list (list Z)) : option (list Z) :=
  match l with
  | [] => Some []
  | x :: r => match lookup_path (path_to_id db) x, resolve_paths db r with
              | Some id, Some ids => Some (id :: ids)
              | _, _ => None
              end
  end.
Definition v2_provide_ids (db : database) (l : list sig_ref) : option (list Z) :=
  option_map (fun r => sig_ids l ++ r) (resolve_paths db (sig_paths l)).
Definition v2_provide (st : state) (p : perms) (l : list sig_ref) : state * (Z + Z) :=
  match v2_provide_ids (st_db st) l with
  | None => (st, inr NOT_FOUND)
  | Some ids => match provide_actuation st p ids with
                | (st', inl h) => (st', inl h)
                | (st', inr e) => (st', inr (act_status e))
                end
  end.
Definition stream_updates (l : list (Z * option value)) : list (Z * upd) :=
  map (fun '(id, w) => (id, dp_upd (from_wire w))) l.
Definition v2_stream_publish (st : state) (p : perms) (l : list (Z * option value)) : state * list (Z * Z) :=
  let '(st', errs) := update_entries st p (stream_updates l) in
  (st', map (fun '(id, e) => (id, v2_error_code e)) errs).

(* Set: each update names a path, a field mask (1 Value, 2 ActuatorTarget) and the entry's
   value / actuator_target *)
Record v1_update := { v1_path : option (list Z);            (* None: `entry` absent *)
                      v1_fields : Z;
                      v1_value : option (option value);     (* entry.value: absent | datapoint *)
                      v1_target : option (option value) }.

Definition v1_to_upd (u : v1_update) : upd :=
  {| u_dp := if Z.testbit (v1_fields u) 0
             then match v1_value u with Some w => Some (from_wire w) | None => None end
             else None;
     u_target := if Z.testbit (v1_fields u) 1
                 then match v1_target u with Some w => Some (Some (from_wire w)) | None => Some None end
                 else None;
     u_meta := false |}.

(* first pass: resolve paths; an entry-less update or a target on a non-actuator fails the request *)
Fixpoint v1_set_resolve (db : database) (l : list v1_update) (ups : list (Z * upd)) (nf : list (Z * Z))
         (idx : Z) : (list (Z * upd) * list (Z * Z)) + Z :=
  match l with
  | [] => inl (rev ups, rev nf)
  | u :: r =>
    match v1_path u with
    | None => inr INVALID_ARGUMENT
    | Some path =>
      match lookup_path (path_to_id db) path with
      | None => v1_set_resolve db r ups ((idx, 404) :: nf) (idx + 1)
      | Some id =>
        let non_actuator := match lookup_id (entries db) id with
                            | Some e => negb (entry_type_eqb (m_etype (e_meta e)) Actuator)
                            | None => false
                            end in
        match v1_target u with
        | Some _ => if non_actuator then inr INVALID_ARGUMENT
                    else v1_set_resolve db r ((id, v1_to_upd u) :: ups) nf (idx + 1)
        | None => v1_set_resolve db r ((id, v1_to_upd u) :: ups) nf (idx + 1)
        end
      end
    end
  end.

(* reply: status, then errors: (-(index+1), 404) for unknown paths in request order, then
   (id, code) for every rejected element in batch order *)
Definition v1_set (st : state) (p : perms) (l : list v1_update) : state * reply :=
  match v1_set_resolve (st_db st) l [] [] 0 with
  | inr code => (st, RStatus code)
  | inl (ups, nf) =>
    let '(st', errs) := update_entries st p ups in
    (st', RErrors (map (fun '(i, c) => (- (i + 1), c)) nf ++ map (fun '(id, e) => (id, v1_update_code e)) errs))
  end.

(* StreamedUpdate: one message of the stream.  Unlike Set nothing fails the message as a whole: an update
   without `entry`, an unknown path (404) and a target for a non-actuator (400) are per-element errors and
   the remaining elements go to one update_entries.  reply: (-(index+1), code) for an element whose path names
   no signal (or that has no entry), (id, 400) for a target on a non-actuator, then (id, code) for every
   element the core rejected *)
Fixpoint v1_stream_resolve (db : database) (l : list v1_update) (ups : list (Z * upd)) (pre : list (Z * Z))
         (idx : Z) : list (Z * upd) * list (Z * Z) :=
  match l with
  | [] => (rev ups, rev pre)
  | u :: r =>
    match v1_path u with
    | None => v1_stream_resolve db r ups ((- (idx + 1), 400) :: pre) (idx + 1)
    | Some path =>
      match lookup_path (path_to_id db) path with
      | None => v1_stream_resolve db r ups ((- (idx + 1), 404) :: pre) (idx + 1)
      | Some id =>
        let non_actuator := match lookup_id (entries db) id with
                            | Some e => negb (entry_type_eqb (m_etype (e_meta e)) Actuator)
                            | None => false
                            end in
        match v1_target u with
        | Some _ => if non_actuator then v1_stream_resolve db r ups ((id, 400) :: pre) (idx + 1)
                    else v1_stream_resolve db r ((id, v1_to_upd u) :: ups) pre (idx + 1)
        | None => v1_stream_resolve db r ((id, v1_to_upd u) :: ups) pre (idx + 1)
        end
      end
    end
  end.

Definition v1_stream_msg (st : state) (p : perms) (l : list v1_update) : state * reply :=
  let '(ups, pre) := v1_stream_resolve (st_db st) l [] [] 0 in
  let '(st', errs) := update_entries st p ups in
  (st', RErrors (pre ++ map (fun '(id, e) => (id, v1_update_code e)) errs)).

(* ---------- sdv.databroker.v1 ---------- *)
(* Failure: UNKNOWN_DATAPOINT 2, ACCESS_DENIED 3 *)
Definition sdv_get (st : state) (p : perms) (names : list (list Z)) : reply :=
  match names with
  | [] => RStatus INVALID_ARGUMENT
  | _ =>
    RNamed (map (fun name =>
                   (name,
                    match lookup_path (path_to_id (st_db st)) name with
                    | None => inr 2
                    | Some id => match read_entry (st_db st) p (st_now st) id with
                                 | inl e => inl (e_dp e)
                                 | inr RNotFound => inr 2
                                 | inr _ => inr 3
                                 end
                    end)) names)
  end.

(* SetDatapoints (Broker service): only actuator targets; reply: per-name error codes, as
   (-(index+1), code) for names rejected before the update and (id, code) afterwards *)
Fixpoint sdv_set_resolve (db : database) (l : list (list Z * option value)) (ups : list (Z * upd))
         (errs : list (Z * Z)) (idx : Z) : list (Z * upd) * list (Z * Z) :=
  match l with
  | [] => (rev ups, rev errs)
  | (name, w) :: r =>
    match lookup_path (path_to_id db) name with
    | None => sdv_set_resolve db r ups ((- (idx + 1), 0) :: errs) (idx + 1)
    | Some id =>
      match lookup_id (entries db) id with
      | Some e => if entry_type_eqb (m_etype (e_meta e)) Actuator
                  then sdv_set_resolve db r ((id, target_upd (from_wire w)) :: ups) errs (idx + 1)
                  else sdv_set_resolve db r ups ((- (idx + 1), 2) :: errs) (idx + 1)
      | None => sdv_set_resolve db r ups ((- (idx + 1), 0) :: errs) (idx + 1)
      end
    end
  end.

Definition sdv_set (st : state) (p : perms) (l : list (list Z * option value)) : state * reply :=
  let '(ups, pre) := sdv_set_resolve (st_db st) l [] [] 0 in
  let '(st', errs) := update_entries st p ups in
  (st', RErrors (pre ++ map (fun '(id, e) => (id, sdv_update_code e)) errs)).

(* Collector::UpdateDatapoints: map id -> datapoint *)
Definition sdv_update (st : state) (p : perms) (l : list (Z * option value)) : state * reply :=
  let '(st', errs) := update_entries st p (map (fun '(id, w) => (id, dp_upd (from_wire w))) l) in
  (st', RErrors (map (fun '(id, e) => (id, sdv_update_code e)) errs)).

(* Collector::StreamDatapoints: every message of the stream is one UpdateDatapoints (a reply is sent only
   when something was rejected; the harness reads "no reply" as the empty error list) *)
Definition sdv_stream_msg (st : state) (p : perms) (l : list (Z * option value)) : state * reply :=
  sdv_update st p l.

(* Collector::RegisterDatapoints: sensors; the first failure aborts the request (earlier
   registrations stay) *)
Fixpoint sdv_register_aux (st : state) (p : perms) (l : list (list Z * Z * Z)) (acc : list (list Z * Z))
  : state * reply :=
  match l with
  | [] => (st, RIds (rev acc))
  | (name, dt, ct) :: r =>
    match sdv_data_type_of dt, sdv_change_type_of ct with
    | Some dt', Some ct' =>
      let '(db', res) := add_entry (st_db st) p (st_now st) (st_clock st) name dt' ct' Sensor None None None in
      let st' := {| st_db := db'; st_csubs := st_csubs st; st_asubs := st_asubs st; st_now := st_now st;
                    st_clock := st_clock st; st_perms := st_perms st |} in
      match res with
      | inl id => sdv_register_aux st' p r ((name, id) :: acc)
      | inr GDenied => (st', RStatus PERMISSION_DENIED)
      | inr GExpired => (st', RStatus UNAUTHENTICATED)
      | inr GValidation => (st', RStatus INVALID_ARGUMENT)
      end
    | _, _ => (st, RStatus INVALID_ARGUMENT)
    end
  end.
Definition sdv_register (st : state) (p : perms) (l : list (list Z * Z * Z)) : state * reply :=
  sdv_register_aux st p l [].

(* Broker::GetMetadata: all entries when no name is given, else the named ones that exist *)
Definition sdv_get_metadata (st : state) (names : list (list Z)) : reply :=
  match names with
  | [] => RMetaList (map snd (entries (st_db st)))
  | _ => RMetaList (flat_map (fun name =>
                                match lookup_path (path_to_id (st_db st)) name with
                                | Some id => match lookup_id (entries (st_db st)) id with
                                             | Some e => [e] | None => [] end
                                | None => []
                                end) names)
  end.

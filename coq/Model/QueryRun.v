(* QueryRun.v — query subscriptions on top of the broker core (broker.rs: subscribe_query,
   QuerySubscription::notify, Subscriptions::notify / cleanup, the LAG bookkeeping of
   update_entries) and the history driver of the query family.  Definitions only.

   operation lines: PERM, ADD, UPDATE, GET, CLEANUP, TICK, DUMP of BrokerRun.v, plus
     40 SUBQ  p extras sql_text query       -> [0 handle] | [1 kind], then the initial response if any
     41 QDROP handle                 -> [0]
     42 SUBQS p extras sql_text query       as 40, through the sdv Subscribe handler (its replies are maps: the
                                            comparison sorts the fields by name, a repeated name keeps the last)
   After every UPDATE the responses sent to the query subscribers follow the result line:
     [110 handle n (name value)*]   in subscription order.
   query ::= nproj pitem* whereflag [qexpr];  pitem ::= 0 qexpr | 1 qexpr alias | 2
   qexpr ::= 0 nint d* dot nfrac d* | 1 str | 2 b | 3 path | 4 qexpr | 5 n | 6 | 7 op qexpr qexpr
           | 8 qexpr | 9 qexpr | 10 qexpr | 11 neg qexpr qexpr qexpr | 12 | 13 (a subquery as operand)
   The SQL text is what the implementation is given; the model reads the syntax tree. *)
From Coq Require Import ZArith Bool List.
From KD Require Import Model.Values Model.Compare Model.Validate Model.Perm Model.Glob Model.Broker
     Model.BrokerRun Model.FloatLit Model.Query.
Open Scope Z_scope.

Record qsub := { qs_handle : Z; qs_query : cquery; qs_perms : perms;
                 qs_open : bool;            (* the receiver still exists *)
                 qs_registered : bool }.

Record qstate := { q_core : state; q_subs : list qsub }.

Definition q_init : qstate := {| q_core := init_state; q_subs := [] |}.

(* CompilationInput for DatabaseReadAccess: the data type of a path, no permission involved *)
Definition schema_of (db : database) (name : list Z) : option data_type :=
  match lookup_path (path_to_id db) name with
  | Some id => option_map (fun e => m_dtype (e_meta e)) (lookup_id (entries db) id)
  | None => None
  end.

(* QuerySubscription::find_in_db_and_add: current and lag value as the subscriber may see them *)
Definition valuation (db : database) (p : perms) (now : Z) (name : list Z) : value * value :=
  match lookup_path (path_to_id db) name with
  | Some id => match read_entry db p now id with
               | inl e => (d_value (e_dp e), d_value (e_lag e))
               | inr _ => (VNA, VNA)
               end
  | None => (VNA, VNA)
  end.

Definition name_in (n : list Z) (l : list (list Z)) : bool := existsb (str_eqb n) l.

(* QuerySubscription::check_if_changes_match *)
Definition changes_match (db : database) (c : cquery) (changed : list (Z * fields)) : bool :=
  existsb (fun '(id, f) =>
             f_dp f && match lookup_id (entries db) id with
                       | Some e => name_in (m_path (e_meta e)) (query_inputs c)
                       | None => false
                       end) changed.

(* signals whose lag value differs from the current one, among the inputs of an emitting query *)
Definition lag_names (db : database) (p : perms) (now : Z) (c : cquery) : list (list Z) :=
  filter (fun n => let '(v, l) := valuation db p now n in negb (value_eqb l v)) (query_inputs c).

Inductive qnote := QNothing | QSent (fields : list (list Z * value)) (lags : list (list Z)) | QFailed.

(* QuerySubscription::notify; changed = None is the initial evaluation *)
Definition notify_query (db : database) (now : Z) (changed : option (list (Z * fields))) (s : qsub) : qnote :=
  if negb (qs_registered s) then QNothing else
  if match changed with None => true | Some ch => changes_match db (qs_query s) ch end then
    match run_query (valuation db (qs_perms s) now) (qs_query s) with
    | Some fs => if qs_open s then QSent fs (lag_names db (qs_perms s) now (qs_query s)) else QFailed
    | None => QNothing
    end
  else QNothing.

(* DatabaseWriteAccess::update_entry_lag_to_be_equal *)
Definition lag_to_current (db : database) (name : list Z) : database :=
  match lookup_path (path_to_id db) name with
  | Some id =>
    match lookup_id (entries db) id with
    | Some e => {| next_id := next_id db; path_to_id := path_to_id db;
                   entries := replace_id (entries db) id
                                {| e_dp := e_dp e; e_lag := e_dp e; e_target := e_target e; e_meta := e_meta e |} |}
    | None => db
    end
  | None => db
  end.

Definition cleanup_qsub (s : qsub) : qsub :=
  if qs_registered s && negb (qs_open s)
  then {| qs_handle := qs_handle s; qs_query := qs_query s; qs_perms := qs_perms s;
          qs_open := false; qs_registered := false |}
  else s.

Definition is_failed (n : qnote) : bool := match n with QFailed => true | _ => false end.

Definition enc_response (h : Z) (fs : list (list Z * value)) : list Z :=
  [110; h; Z.of_nat (length fs)] ++ flat_map (fun '(n, v) => enc_str n ++ enc_value v) fs.

Definition responses (subs : list qsub) (notes : list qnote) : list (list Z) :=
  flat_map (fun '(s, n) => match n with QSent fs _ => [enc_response (qs_handle s) fs] | _ => [] end)
           (combine subs notes).

(* update_entries seen from the query subscribers: the store is updated by the core; every
   query subscription is notified; if all notifications went through the lag values of the
   inputs of emitting queries are set to the current values, otherwise housekeeping runs *)
Definition q_update (qs : qstate) (p : perms) (us : list (Z * upd)) : qstate * list (list Z) :=
  let st := q_core qs in
  let '(db', changed, _) := apply_updates (st_db st) p (st_now st) (st_clock st) us [] [] in
  let st1 := fst (update_entries st p us) in
  let notes := map (notify_query db' (st_now st) (Some changed)) (q_subs qs) in
  let out := responses (q_subs qs) notes in
  if existsb is_failed notes then
    ({| q_core := cleanup (st_now st) st1; q_subs := map cleanup_qsub (q_subs qs) |}, out)
  else
    let lags := flat_map (fun n => match n with QSent _ l => l | _ => [] end) notes in
    ({| q_core := set_db st1 (fold_left lag_to_current lags (st_db st1)); q_subs := q_subs qs |}, out).

(* AuthorizedAccess::subscribe_query *)
Definition q_subscribe (qs : qstate) (p : perms) (q : query) : qstate * list (list Z) :=
  let st := q_core qs in
  match compile_query (schema_of (st_db st)) q with
  | Err e => (qs, [[1; cerr_code e]])
  | Ok c =>
    let h := Z.of_nat (length (q_subs qs)) in
    let s := {| qs_handle := h; qs_query := c; qs_perms := p; qs_open := true; qs_registered := true |} in
    (({| q_core := st; q_subs := q_subs qs ++ [s] |}),
     [0; h] :: match notify_query (st_db st) (st_now st) None s with
               | QSent fs _ => [enc_response h fs]
               | _ => []
               end)
  end.

(* ---------- decoding ---------- *)
Fixpoint take_digits (n : nat) (ts : list Z) : option (list Z * list Z) :=
  match n with
  | O => Some ([], ts)
  | S n' => match ts with
            | d :: r => match take_digits n' r with Some (l, r') => Some (d :: l, r') | None => None end
            | [] => None
            end
  end.

Definition dec_binop (z : Z) : binop :=
  if z =? 0 then OAnd else if z =? 1 then OOr else if z =? 2 then OEq else if z =? 3 then ONe
  else if z =? 4 then OGt else if z =? 5 then OGe else if z =? 6 then OLt else if z =? 7 then OLe
  else OOther.

Fixpoint dec_qexpr (fuel : nat) (ts : list Z) : option (qexpr * list Z) :=
  match fuel with
  | O => None
  | S f =>
    match ts with
    | 0 :: n :: r =>
      match take_digits (Z.to_nat n) r with
      | Some (ip, dot :: m :: r1) =>
        match take_digits (Z.to_nat m) r1 with
        | Some (fp, r2) => Some (QNum {| nl_int := ip; nl_dot := z2b dot; nl_frac := fp |}, r2)
        | None => None
        end
      | _ => None
      end
    | 1 :: r => match dec_str r with Some (s, r') => Some (QStr s, r') | None => None end
    | 2 :: b :: r => Some (QBool (z2b b), r)
    | 3 :: r => match dec_str r with Some (s, r') => Some (QIdent s, r') | None => None end
    | 4 :: r => match dec_qexpr f r with Some (e, r') => Some (QLag e, r') | None => None end
    | 5 :: n :: r => Some (QLagN n, r)
    | 6 :: r => Some (QFun, r)
    | 7 :: op :: r =>
      match dec_qexpr f r with
      | Some (a, r1) => match dec_qexpr f r1 with
                        | Some (b, r2) => Some (QBin (dec_binop op) a b, r2)
                        | None => None
                        end
      | None => None
      end
    | 8 :: r => match dec_qexpr f r with Some (e, r') => Some (QNested e, r') | None => None end
    | 9 :: r => match dec_qexpr f r with Some (e, r') => Some (QNot e, r') | None => None end
    | 10 :: r => match dec_qexpr f r with Some (e, r') => Some (QNeg e, r') | None => None end
    | 11 :: neg :: r =>
      match dec_qexpr f r with
      | Some (a, r1) =>
        match dec_qexpr f r1 with
        | Some (lo, r2) => match dec_qexpr f r2 with
                           | Some (hi, r3) => Some (QBetween a (z2b neg) lo hi, r3)
                           | None => None
                           end
        | None => None
        end
      | None => None
      end
    | 12 :: r => Some (QOther, r)
    | 13 :: r => Some (QSub, r)
    | _ => None
    end
  end.

Fixpoint dec_pitems (n : nat) (fuel : nat) (ts : list Z) : option (list pitem * list Z) :=
  match n with
  | O => Some ([], ts)
  | S n' =>
    let one := match ts with
               | 0 :: r => match dec_qexpr fuel r with Some (e, r') => Some (PExpr e, r') | None => None end
               | 1 :: r => match dec_qexpr fuel r with
                           | Some (e, r') => match dec_str r' with
                                             | Some (a, r'') => Some (PAlias e a, r'')
                                             | None => None
                                             end
                           | None => None
                           end
               | 2 :: r => Some (PWild, r)
               | _ => None
               end in
    match one with
    | Some (it, r) => match dec_pitems n' fuel r with Some (l, r') => Some (it :: l, r') | None => None end
    | None => None
    end
  end.

Definition dec_query (extra : bool) (ts : list Z) : option query :=
  let fuel := S (length ts) in
  match ts with
  | n :: r =>
    match dec_pitems (Z.to_nat n) fuel r with
    | Some (items, 0 :: []) => Some {| q_proj := items; q_where := None; q_extra := extra |}
    | Some (items, _ :: r') =>
      match dec_qexpr fuel r' with
      | Some (w, []) => Some {| q_proj := items; q_where := Some w; q_extra := extra |}
      | _ => None
      end
    | _ => None
    end
  | [] => None
  end.

(* ---------- the driver ---------- *)
Definition q_set_core (qs : qstate) (st : state) : qstate := {| q_core := st; q_subs := q_subs qs |}.

Definition q_step (qs0 : qstate) (l : list Z) : qstate * list (list Z) :=
  let st := tick_clock (q_core qs0) in
  let qs := q_set_core qs0 st in
  match l with
  | 40 :: p :: ex :: r | 42 :: p :: ex :: r =>
    (* 42: the same subscription opened through sdv.databroker.v1 Broker::Subscribe (the handler hands the
       query text to subscribe_query and turns every response into a map name -> datapoint) *)
    match dec_str r with
    | Some (_, r') => match dec_query (negb (ex =? 0)) r' with
                      | Some q => q_subscribe qs (get_perm st p) q
                      | None => (qs, bad)
                      end
    | None => (qs, bad)
    end
  | [41; h] =>
    ({| q_core := st;
        q_subs := map (fun s => if qs_handle s =? h
                                then {| qs_handle := qs_handle s; qs_query := qs_query s; qs_perms := qs_perms s;
                                        qs_open := false; qs_registered := qs_registered s |}
                                else s) (q_subs qs) |}, [[0]])
  | _ =>
    match decode l with
    | Some (AUpdate p us) =>
      let '(qs', resp) := q_update qs (get_perm st p) us in
      (qs', exec_out st (AUpdate p us) ++ resp)
    | Some ACleanup =>
      ({| q_core := exec_state st ACleanup; q_subs := map cleanup_qsub (q_subs qs) |}, [[0]])
    | Some (APerm _ _ as a) | Some (AAdd _ _ _ _ _ _ _ _ as a) | Some (AGet _ _ as a) | Some (ATick as a)
    | Some (ADump as a) => (q_set_core qs (exec_state st a), exec_out st a)
    | _ => (qs, bad)
    end
  end.

Fixpoint q_run (qs : qstate) (ops : list (list Z)) : list (list Z) :=
  match ops with
  | [] => []
  | l :: r => let '(qs', out) := q_step qs l in out ++ q_run qs' r
  end.

Definition run_query_case (case : list (list Z)) : list (list Z) := q_run q_init case.

(* Compare.v — DataValue::{greater_than, equals, greater_than_equal, less_than,
   less_than_equal} of databroker/src/types.rs, arm by arm.  Floats are computed with
   Flocq's IEEE-754 binary32/binary64 (single-NaN layer).  Definitions only. *)
From Coq Require Import ZArith Bool List.
From Flocq Require Import Core IEEE754.BinarySingleNaN IEEE754.Binary IEEE754.Bits.
From KD Require Import Model.Values.
Open Scope Z_scope.

Notation f32 := (BinarySingleNaN.binary_float 24 128).
Notation f64 := (BinarySingleNaN.binary_float 53 1024).

Definition f32_of_bits (b : Z) : f32 := B2BSN 24 128 (b32_of_bits b).
Definition f64_of_bits (b : Z) : f64 := B2BSN 53 1024 (b64_of_bits b).

(* f64::from(i32) / f64::from(u32): exact *)
Definition f64_of_Z (z : Z) : f64 :=
  BinarySingleNaN.binary_normalize 53 1024 eq_refl eq_refl mode_NE z 0 false.

(* f64::from(f32): exact widening *)
Definition f64_of_f32 (x : f32) : f64 :=
  match x with
  | BinarySingleNaN.B754_zero s => BinarySingleNaN.B754_zero s
  | BinarySingleNaN.B754_infinity s => BinarySingleNaN.B754_infinity s
  | BinarySingleNaN.B754_nan => BinarySingleNaN.B754_nan
  | BinarySingleNaN.B754_finite s m e _ =>
      BinarySingleNaN.binary_normalize 53 1024 eq_refl eq_refl mode_NE
        (cond_Zopp s (Zpos m)) e false
  end.

(* Rust's `a > b` on floats: false when unordered *)
Definition fgt {p e} (a b : BinarySingleNaN.binary_float p e) : bool :=
  match BinarySingleNaN.Bcompare a b with Some Gt => true | _ => false end.
Definition flt {p e} (a b : BinarySingleNaN.binary_float p e) : bool :=
  match BinarySingleNaN.Bcompare a b with Some Lt => true | _ => false end.

(* f64::EPSILON = 2^-52, f32::EPSILON = 2^-23 *)
Definition eps64 : f64 :=
  BinarySingleNaN.binary_normalize 53 1024 eq_refl eq_refl mode_NE 1 (-52) false.
Definition eps32 : f32 :=
  BinarySingleNaN.binary_normalize 24 128 eq_refl eq_refl mode_NE 1 (-23) false.

(* (a - b).abs() < EPSILON *)
Definition minus64 (a b : f64) : f64 :=
  @BinarySingleNaN.Bminus 53 1024 eq_refl eq_refl mode_NE a b.
Definition minus32 (a b : f32) : f32 :=
  @BinarySingleNaN.Bminus 24 128 eq_refl eq_refl mode_NE a b.
Definition close64 (a b : f64) : bool := flt (BinarySingleNaN.Babs (minus64 a b)) eps64.
Definition close32 (a b : f32) : bool := flt (BinarySingleNaN.Babs (minus32 a b)) eps32.

(* Result<bool, CastError> *)
Notation cres := (option bool).

(* numeric view of a scalar used by the match arms *)
Inductive num :=
| NI32 (z : Z) | NI64 (z : Z) | NU32 (z : Z) | NU64 (z : Z) | NF32 (x : f32) | NF64 (x : f64).

Definition num_of (v : value) : option num :=
  match v with
  | VI32 z => Some (NI32 z) | VI64 z => Some (NI64 z)
  | VU32 z => Some (NU32 z) | VU64 z => Some (NU64 z)
  | VF32 b => Some (NF32 (f32_of_bits b)) | VF64 b => Some (NF64 (f64_of_bits b))
  | _ => None
  end.

(* i32::try_from(i64) / u32::try_from(u64) *)
Definition try_i32 (z : Z) : option Z := if in_i32 z then Some z else None.
Definition try_u32 (z : Z) : option Z := if in_u32 z then Some z else None.

Definition gt_num (a b : num) : cres :=
  match a, b with
  | NI32 x, NI32 y | NI32 x, NI64 y | NI32 x, NU32 y => Some (x >? y)
  | NI32 x, NU64 y => if x <? 0 then Some false else Some (x >? y)
  | NI32 x, NF32 y => Some (fgt (f64_of_Z x) (f64_of_f32 y))
  | NI32 x, NF64 y => Some (fgt (f64_of_Z x) y)
  | NI64 x, NI32 y | NI64 x, NI64 y | NI64 x, NU32 y => Some (x >? y)
  | NI64 x, NU64 y => if x <? 0 then Some false else Some (x >? y)
  | NI64 x, NF32 y =>
      match try_i32 x with Some x' => Some (fgt (f64_of_Z x') (f64_of_f32 y)) | None => None end
  | NI64 x, NF64 y =>
      match try_i32 x with Some x' => Some (fgt (f64_of_Z x') y) | None => None end
  | NU32 x, NI32 y | NU32 x, NI64 y | NU32 x, NU32 y | NU32 x, NU64 y => Some (x >? y)
  | NU32 x, NF32 y => Some (fgt (f64_of_Z x) (f64_of_f32 y))
  | NU32 x, NF64 y => Some (fgt (f64_of_Z x) y)
  | NU64 x, NI32 y | NU64 x, NI64 y => if y <? 0 then Some true else Some (x >? y)
  | NU64 x, NU32 y | NU64 x, NU64 y => Some (x >? y)
  | NU64 x, NF32 y =>
      match try_u32 x with Some x' => Some (fgt (f64_of_Z x') (f64_of_f32 y)) | None => None end
  | NU64 x, NF64 y =>
      match try_u32 x with Some x' => Some (fgt (f64_of_Z x') y) | None => None end
  | NF32 x, NI32 y | NF32 x, NU32 y => Some (fgt (f64_of_f32 x) (f64_of_Z y))
  | NF32 x, NI64 y =>
      match try_i32 y with Some y' => Some (fgt (f64_of_f32 x) (f64_of_Z y')) | None => None end
  | NF32 x, NU64 y =>
      match try_u32 y with Some y' => Some (fgt (f64_of_f32 x) (f64_of_Z y')) | None => None end
  | NF32 x, NF32 y => Some (fgt x y)
  | NF32 x, NF64 y => Some (fgt (f64_of_f32 x) y)
  | NF64 x, NI32 y | NF64 x, NU32 y => Some (fgt x (f64_of_Z y))
  | NF64 x, NI64 y =>
      match try_i32 y with Some y' => Some (fgt x (f64_of_Z y')) | None => None end
  | NF64 x, NU64 y =>
      match try_u32 y with Some y' => Some (fgt x (f64_of_Z y')) | None => None end
  | NF64 x, NF32 y => Some (fgt x (f64_of_f32 y))
  | NF64 x, NF64 y => Some (fgt x y)
  end.

Definition eq_num (a b : num) : cres :=
  match a, b with
  | NI32 x, NI32 y | NI32 x, NI64 y | NI32 x, NU32 y => Some (x =? y)
  | NI32 x, NU64 y => if x <? 0 then Some false else Some (x =? y)
  | NI32 x, NF32 y => Some (close64 (f64_of_Z x) (f64_of_f32 y))
  | NI32 x, NF64 y => Some (close64 (f64_of_Z x) y)
  | NI64 x, NI32 y | NI64 x, NI64 y | NI64 x, NU32 y => Some (x =? y)
  | NI64 x, NU64 y => if x <? 0 then Some false else Some (x =? y)
  | NI64 x, NF32 y =>
      match try_i32 x with Some x' => Some (close64 (f64_of_Z x') (f64_of_f32 y)) | None => None end
  | NI64 x, NF64 y =>
      match try_i32 x with Some x' => Some (close64 (f64_of_Z x') y) | None => None end
  | NU32 x, NI32 y | NU32 x, NI64 y | NU32 x, NU32 y | NU32 x, NU64 y => Some (x =? y)
  | NU32 x, NF32 y => Some (close64 (f64_of_Z x) (f64_of_f32 y))
  | NU32 x, NF64 y => Some (close64 (f64_of_Z x) y)
  | NU64 x, NI32 y | NU64 x, NI64 y => if y <? 0 then Some false else Some (x =? y)
  | NU64 x, NU32 y | NU64 x, NU64 y => Some (x =? y)
  | NU64 x, NF32 y =>
      match try_u32 x with Some x' => Some (close64 (f64_of_Z x') (f64_of_f32 y)) | None => None end
  | NU64 x, NF64 y =>
      match try_u32 x with Some x' => Some (close64 (f64_of_Z x') y) | None => None end
  | NF32 x, NI32 y | NF32 x, NU32 y => Some (close64 (f64_of_f32 x) (f64_of_Z y))
  | NF32 x, NI64 y =>
      match try_i32 y with Some y' => Some (close64 (f64_of_f32 x) (f64_of_Z y')) | None => None end
  | NF32 x, NU64 y =>
      match try_u32 y with Some y' => Some (close64 (f64_of_f32 x) (f64_of_Z y')) | None => None end
  | NF32 x, NF32 y => Some (close32 x y)
  | NF32 x, NF64 y => Some (close64 (f64_of_f32 x) y)
  | NF64 x, NI32 y | NF64 x, NU32 y => Some (close64 x (f64_of_Z y))
  | NF64 x, NI64 y =>
      match try_i32 y with Some y' => Some (close64 x (f64_of_Z y')) | None => None end
  | NF64 x, NU64 y =>
      match try_u32 y with Some y' => Some (close64 x (f64_of_Z y')) | None => None end
  | NF64 x, NF32 y => Some (close64 x (f64_of_f32 y))
  | NF64 x, NF64 y => Some (close64 x y)
  end.

Definition is_numeric (v : value) : bool :=
  match num_of v with Some _ => true | None => false end.

Definition gt (a b : value) : cres :=
  match num_of a, num_of b with
  | Some x, Some y => gt_num x y
  | _, _ => None
  end.

Definition eq (a b : value) : cres :=
  match a, b with
  | VBool x, VBool y => Some (Bool.eqb x y)
  | VStr x, VStr y => Some (str_eqb x y)
  | _, _ =>
    match num_of a, num_of b with
    | Some x, Some y => eq_num x y
    | None, Some _ => match a with VNA => Some false | _ => None end
    | Some _, None => match b with VNA => Some false | _ => None end
    | None, None => None
    end
  end.

Definition lt (a b : value) : cres := gt b a.
Definition gte (a b : value) : cres :=
  match gt a b with Some true => Some true | _ => eq a b end.
Definition lte (a b : value) : cres :=
  match lt a b with Some true => Some true | _ => eq a b end.

(* ---------- driver entry: one comparison per case line ----------
   line = op a b  with op: 0 gt, 1 gte, 2 lt, 3 lte, 4 eq;  out = [0] (Err) | [1; b] *)
Definition enc_cres (r : cres) : list Z :=
  match r with None => [0] | Some b => [1; b2z b] end.

Definition run_cmp_line (ts : list Z) : list Z :=
  match ts with
  | op :: r =>
    match dec_value r with
    | Some (a, r') =>
      match dec_value r' with
      | Some (b, []) =>
          enc_cres (if op =? 0 then gt a b else if op =? 1 then gte a b
                    else if op =? 2 then lt a b else if op =? 3 then lte a b
                    else eq a b)
      | _ => [-1]
      end
    | None => [-1]
    end
  | [] => [-1]
  end.

#!/usr/bin/env python3
"""Regenerates MANIFEST.json from the property modules present under vp/props/ (a property is
claimed when its module defines MANIFEST = {...})."""
import importlib, json, os, sys
ROOT = os.path.dirname(os.path.dirname(os.path.abspath(__file__)))
sys.path.insert(0, ROOT)
ALL = ["C%02d" % i for i in range(1, 21)]
HOOK_COMMITS = []
try:
    HOOK_COMMITS = json.load(open(os.path.join(ROOT, "hooks.json")))["source_commits"]
except Exception:
    pass
NA_REASON = {}
checks, claimed = [], []
for pid in ALL:
    try:
        m = importlib.import_module("vp.props." + pid.lower())
    except ModuleNotFoundError:
        continue
    if not hasattr(m, "MANIFEST"):
        continue
    mm = m.MANIFEST
    claimed.append(pid)
    checks.append({
        "property_id": pid,
        "quick_cmd": "./check %s --tier quick" % pid,
        "thorough_cmd": "./check %s --tier thorough" % pid,
        "evidence_file": "evidence/%s.json" % pid,
        "replay_cmd_template": "./check %s --replay {path}" % pid,
        "engine": "coq",
        "level_claimed": {"category": "proof", "text": mm["text"], "design_ref": "DESIGN.md section 6 " + pid},
        "level_note": mm["note"],
        "technique": mm.get("technique", "machine-checked proof in Coq + checked correspondence with the implementation"),
    })
man = {
    "version": 1,
    "setup_cmd": "./check --setup",
    "hooks": {
        "guard": "verif-hooks",
        "enable": "cargo feature `verif-hooks` of the databroker crate; the harness crate (/verif/harness) depends on /repo/databroker by path with that feature (and `viss`) switched on",
        "baseline_off_cmd": "cd /repo && cargo test --workspace --no-fail-fast --offline",
        "source_commits": HOOK_COMMITS,
        "add_only": True,
    },
    "engines": [
        {"name": "coq", "path": "coq/", "serves_properties": claimed,
         "kind_free_text": "Coq 8.16.1 development: executable Gallina model (Model/), proofs (Proofs/), property theorems (Properties/), frozen statements (Pins/), extraction (Extract/)"},
        {"name": "kdb-run", "path": "harness/", "serves_properties": claimed,
         "kind_free_text": "Rust harness with a path dependency on /repo/databroker: runs the same case files against the real crate built from /repo's working tree"},
        {"name": "model_run", "path": "ocaml/", "serves_properties": claimed,
         "kind_free_text": "OCaml driver around the extracted Coq model"},
    ],
    "checks": checks,
    "not_applicable": [{"property_id": p, "reason": NA_REASON.get(p, "build in progress: the check for this property is not registered yet (it is planned, see DESIGN.md section 6); nothing is claimed for it at this commit")}
                       for p in ALL if p not in claimed],
    "notes": "All checks are `./check <id> --tier quick|thorough`; DESIGN.md describes the approach, the trusted base and which seeded changes each check catches.",
}
json.dump(man, open(os.path.join(ROOT, "MANIFEST.json"), "w"), indent=1)
print("claimed:", claimed)

"""Concurrency machinery shared by C08, C10, C11, C16: lock-trace correspondence (fam 11), lock-site
inventory of broker.rs, and schedule exploration on the real futures (fam 12)."""
import itertools, os, re
from . import common as C

SCENARIOS = ["getter", "add_entry", "update_entries", "update_entries+cleanup", "update_entries+lag update",
             "subscribe", "subscribe (invalid input)", "subscribe_query", "subscribe_query (compile error)",
             "provide_actuation", "provide_actuation (overlap)", "provide_actuation (denied)", "actuate",
             "actuate (invalid value)", "batch_actuate", "batch_actuate (unknown id)", "housekeeping step",
             "shutdown", "three getters"]
KINDS = {1: "update", 2: "subscribe", 3: "subscribe_query", 4: "housekeeping", 5: "provide_actuation", 6: "actuate",
         7: "batch_actuate", 8: "add_entry", 9: "get", 10: "shutdown", 11: "subscribe-and-leave", 12: "subscribe_query-and-leave",
         13: "subscribe_query (lazy reader)", 14: "burst of 12 updates",
         15: "provider already gone, still registered"}
VERDICTS = {1: "deadlock: an unfinished call with nothing runnable",
            2: "stale subscriber: last value sent differs from the stored value",
            3: "subscribers saw the changes of a signal in different orders",
            4: "two overlapping ProvideActuation claims both succeeded",
            5: "concurrent registrations: ids not in bijection with names"}
BROKER_RS = "/repo/databroker/src/broker.rs"


def show_program(t):
    r, i = [], 0
    L = {0: "Db", 1: "Subs"}
    while i < len(t):
        if t[i] == 1:
            r.append("Acq %s %s" % (L.get(t[i + 1], "?"), "RW"[t[i + 2]] if t[i + 2] in (0, 1) else "?"))
            i += 3
        elif t[i] in (2, 3):
            r.append("%s %s" % ("Down" if t[i] == 2 else "Rel", L.get(t[i + 1], "?")))
            i += 2
        else:
            r.append("?%d" % t[i])
            i += 1
    return "; ".join(r)


def trace_correspondence():
    """returns (differences, rows) comparing Conc.lock_program with the recorded traces"""
    lines = [[k] for k in range(len(SCENARIOS))]
    m = C.run_sharded(C.MODEL_RUN, 11, [("t", lines)], "tr_m", shards=1).get("t", [])
    i = C.run_sharded(C.KDB_RUN, 11, [("t", lines)], "tr_i", shards=1).get("t", [])
    rows, diffs = [], []
    for k, name in enumerate(SCENARIOS):
        a = m[k] if k < len(m) else None
        b = i[k] if k < len(i) else None
        rows.append({"operation": name, "model": show_program(a) if a is not None else None,
                     "recorded": show_program(b) if b is not None else None})
        if a != b:
            diffs.append(rows[-1])
    return diffs, rows


def site_inventory():
    """every lock acquisition in the non-test part of broker.rs must be directly preceded by a yield point
    naming the same lock and mode; returns (problems, n_sites)"""
    src = open(BROKER_RS).read()
    cut = src.find("#[cfg(test)]")
    if cut > 0:
        src = src[:cut]
    flat = re.sub(r"\s+", "", src)
    toks = []
    for m in re.finditer(r'yield_point\((\d+),"(req|sec)(Db|Subs)(R|W)"\)', flat):
        toks.append((m.start(), "hook", m.group(3), m.group(4), int(m.group(1))))
    for m in re.finditer(r"(database|subscriptions)\.(read|write)\(\)\.await", flat):
        toks.append((m.start(), "acq", "Db" if m.group(1) == "database" else "Subs",
                     "R" if m.group(2) == "read" else "W", None))
    toks.sort()
    problems = []
    n = 0
    prev = None
    for t in toks:
        if t[1] == "acq":
            n += 1
            # the real housekeeping loop is mirrored by verif_housekeeping_step and is not instrumented itself
            ctx = flat[max(0, t[0] - 400):t[0]]
            if "start_housekeeping_task" in ctx and "interval.tick().await" in ctx:
                prev = t
                continue
            if prev is None or prev[1] != "hook" or prev[2] != t[2] or prev[3] != t[3]:
                problems.append("lock acquisition %s.%s near '...%s' has no matching yield point in front of it"
                                % (t[2], t[3], flat[max(0, t[0] - 60):t[0] + 25]))
        prev = t
    return problems, n


def sched_line(spec, mode=0, limit=3000, seed=1, on_change=0, schedule=()):
    return [mode, limit, seed, on_change, len(spec)] + [x for t in spec for x in t] + list(schedule)


def parse_sched_out(o):
    runs, distinct, bad, vl = o[0], o[1], o[2], o[3]
    verdict = o[4:4 + vl]
    schedule = o[4 + vl:]
    return {"runs": runs, "distinct": distinct, "bad": bad, "verdict": verdict, "schedule": schedule}


def show_spec(spec):
    return ["%s(%d,%d)" % (KINDS.get(k, "?"), a, b) for (k, a, b) in spec]


def task_sets(tier, focus):
    """small task sets per property focus"""
    U, S, Q, H, P, A, B, R, G, X = (lambda a, b=0: (1, a, b)), (lambda a: (2, a, 0)), (lambda a: (3, a, 0)), (4, 0, 0), \
        (lambda a, b=-1: (5, a, b)), (lambda a: (6, a, 0)), (lambda a, b: (7, a, b)), (lambda n: (8, n, 0)), \
        (lambda a: (9, a, 0)), (10, 0, 0)
    D, DQ = (lambda a: (11, a, 0)), (lambda a: (12, a, 0))     # subscribers that go away at once
    LQ, BU = (lambda a: (13, a, 0)), (lambda a, b: (14, a, b))  # a query subscriber that reads lazily; a burst of writes
    DP = lambda a: (15, a, 0)                                   # a provider that is gone but not yet cleaned up
    sets = []
    if focus == "C08":
        sets = [[D(0), S(0), U(0, 101)], [DQ(0), S(0), U(0, 101)], [S(0), D(0), U(0, 101), U(0, 102)],
                [D(0), S(0), U(0, 101), H],
                [LQ(0), U(0, 101)], [LQ(0), U(0, 101), U(0, 102), H], [LQ(0), BU(0, 200)], [LQ(0), S(0), BU(0, 200), U(0, 101)],
                [S(0), U(0, 101)], [S(0), U(0, 101), U(0, 102)], [S(0), S(0), U(0, 101), U(0, 102)],
                [S(0), U(0, 101), H], [S(0), U(0, 101), Q(0)], [S(0), S(1), U(0, 101), U(1, 102)],
                [S(0), U(0, 101), U(0, 102), H, Q(0)]]
        if tier == "thorough":
            sets += [[S(0), S(0), U(0, 101), U(0, 102), U(0, 103)], [S(0), U(0, 101), U(0, 102), U(0, 103), H],
                     [S(0), S(0), U(0, 101), U(0, 102), Q(0), H]]
    elif focus == "C10":
        sets = [[P(0), P(0)], [P(0, 1), P(1), P(0)], [P(0), A(0), H], [P(0), P(0), A(0), H], [P(0, 1), P(1, 0), B(0, 1)],
                [P(2), P(0)], [P(0), P(1), P(0, 1)],
                # a stale registration of another actuator that housekeeping removes while two claims race
                [DP(1), P(0), P(0), H], [DP(1), P(0), P(0, 1), H], [DP(0), P(0), P(0), H]]
        if tier == "thorough":
            sets += [[P(0), P(0), P(0)], [P(0, 1), P(1), P(0), A(1), H], [P(0), P(0), A(0), B(0, 2), H]]
    elif focus == "C16":
        sets = [[R(1), R(1)], [R(1), R(2)], [R(1), R(2), R(1)], [R(1), R(2), G(0), U(0, 5)]]
        if tier == "thorough":
            sets += [[R(1), R(2), R(3)], [R(1), R(1), R(2), R(2)]]
    else:   # C11: every pair and (thorough) every triple of operation kinds
        ops = [U(0, 101), G(0), R(1), S(0), Q(0), P(0), A(2), B(2, 2), H, X]
        sets = [list(c) for c in itertools.combinations(ops, 2)]
        sets += [[B(2, 2), Q(0), R(1)], [U(0, 101), Q(0), B(2, 2)], [S(0), Q(0), U(0, 101), B(2, 2)],
                 [U(0, 101), U(1, 102), S(0), Q(1), H], [P(0), B(2, 0), Q(0), R(1), U(0, 1)]]
        if tier == "thorough":
            sets += [list(c) for c in itertools.combinations(ops, 3)]
            sets += [list(c) for c in itertools.combinations(ops, 4)][::7]
    return sets


def explore(sets, tier, seed, kinds, dfs_quick=1500):
    """runs the schedule search; returns (findings, stats). A finding = dict with spec/schedule/verdict."""
    dfs_limit = dfs_quick if tier == "quick" else 40000
    rnd_limit = 300 if tier == "quick" else 5000
    lines = []
    for s in sets:
        oc = 1 if any(t[0] == 2 for t in s) and len(lines) % 2 else 0
        lines.append(sched_line(s, 0, dfs_limit, seed, oc))
        lines.append(sched_line(s, 1, rnd_limit, seed, oc))
    cases = [("s%d" % i, [l]) for i, l in enumerate(lines)]
    out = C.run_sharded(C.KDB_RUN, 12, cases, "sched", shards=min(C.NPROC, len(cases)))
    findings = []
    runs = distinct = 0
    samples = []
    for i, (cid, ls) in enumerate(cases):
        o = out.get(cid, [[0, 0, 0, 0]])[0]
        if o == [-77] or o == [-1]:
            findings.append({"spec": show_spec(sets[i // 2]), "verdict": "harness error %s" % o, "kind": -1,
                             "line": ls[0]})
            continue
        r = parse_sched_out(o)
        runs += r["runs"]
        distinct += r["distinct"]
        if len(samples) < 4:
            samples.append({"tasks": show_spec(sets[i // 2]), "mode": "dfs" if i % 2 == 0 else "random",
                            "schedules": r["runs"], "distinct": r["distinct"], "violations": r["bad"]})
        if r["bad"] and r["verdict"] and r["verdict"][0] in kinds:
            l = ls[0]
            findings.append({"spec": show_spec(sets[i // 2]), "kind": r["verdict"][0],
                             "verdict": VERDICTS.get(r["verdict"][0], "?"), "detail": r["verdict"],
                             "schedule": r["schedule"], "bad_schedules": r["bad"], "of": r["distinct"],
                             "replay_line": sched_line(sets[i // 2], 2, 1, seed, l[3], r["schedule"])})
    return findings, {"schedules_run": runs, "distinct_schedules": distinct, "task_sets": len(sets),
                      "sched_samples": samples}


def replay(line):
    o = C.run_sharded(C.KDB_RUN, 12, [("r", [line])], "sched_r", shards=1).get("r", [[0, 0, 0, 0]])[0]
    return parse_sched_out(o)

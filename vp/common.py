"""Shared machinery: builds (Coq, extracted OCaml driver, Rust harness), running the model and
the implementation on a case file, diffing, evidence writing, known findings."""
import json, os, re, subprocess, sys, time, hashlib, shutil, random

ROOT = os.path.dirname(os.path.dirname(os.path.abspath(__file__)))
COQ = os.path.join(ROOT, "coq")
OCAML = os.path.join(ROOT, "ocaml")
HARNESS = os.path.join(ROOT, "harness")
BUILD = os.path.join(ROOT, ".build")
TARGET = os.path.join(BUILD, "target")
WORK = os.path.join(BUILD, "work")
EVID = os.path.join(ROOT, "evidence")
REPLAY = os.path.join(EVID, "replay")
KDB_RUN = os.path.join(TARGET, "debug", "kdb-run")
MODEL_RUN = os.path.join(BUILD, "ocaml", "model_run")
DATABROKER_BIN = os.path.join(TARGET, "debug", "databroker")
NPROC = os.cpu_count() or 4

ENV = dict(os.environ)
ENV.update({"CARGO_NET_OFFLINE": "true", "CARGO_TARGET_DIR": TARGET})

FORBIDDEN = re.compile(
    r"\b(Admitted|admit|Axiom|Axioms|Parameter|Parameters|Conjecture|Admit Obligations|"
    r"bypass_check|type-in-type|impredicative-set|native_compute)\b|Unset Guard|"
    r"Unset Positivity|Unset Universe")

# axioms declared by Coq's standard library that Flocq's definitions depend on
STDLIB_AXIOMS = {
    "Classical_Prop.classic",
    "ClassicalDedekindReals.sig_not_dec",
    "ClassicalDedekindReals.sig_forall_dec",
    "FunctionalExtensionality.functional_extensionality_dep",
}


class CheckFailure(Exception):
    pass


def sh(cmd, cwd=None, timeout=3600, env=None, check=False):
    p = subprocess.run(cmd, cwd=cwd, env=env or ENV, shell=isinstance(cmd, str),
                       stdout=subprocess.PIPE, stderr=subprocess.STDOUT, timeout=timeout)
    out = p.stdout.decode("utf-8", "replace")
    if check and p.returncode != 0:
        raise CheckFailure("command failed (%d): %s\n%s" % (p.returncode, cmd, out[-4000:]))
    return p.returncode, out


# ---------------------------------------------------------------- Coq
def coq_makefile():
    mk = os.path.join(COQ, "Makefile")
    proj = os.path.join(COQ, "_CoqProject")
    if (not os.path.exists(mk)) or os.path.getmtime(mk) < os.path.getmtime(proj):
        sh("coq_makefile -f _CoqProject -o Makefile", cwd=COQ, check=True)


def coq_make(targets=None, timeout=3000):
    """Full .vo build (never -vos/-vok) of the given targets (default: everything)."""
    coq_makefile()
    if not targets:
        # a whole build (setup) recomputes the dependencies: a dependency file left behind by an interrupted
        # build would otherwise let make start every file at once
        for f in (".Makefile.d",):
            try:
                os.remove(os.path.join(COQ, f))
            except OSError:
                pass
    t = " ".join(targets) if targets else ""
    cmd = "timeout %d make -j%d %s" % (timeout, NPROC, t)
    rc, out = sh(cmd, cwd=COQ, timeout=timeout + 60)
    return rc, out, "cd coq && " + cmd


def grep_forbidden():
    """No Admitted/admit/Axiom/Parameter/... anywhere in the development; Variable/Hypothesis/
    Context only inside a Section."""
    bad = []
    for d, _, fs in os.walk(COQ):
        for f in fs:
            if not f.endswith(".v"):
                continue
            p = os.path.join(d, f)
            depth = 0
            txt = open(p).read()
            # strip comments (nested)
            out, i, lvl = [], 0, 0
            while i < len(txt):
                if txt.startswith("(*", i):
                    lvl += 1; i += 2; continue
                if txt.startswith("*)", i) and lvl > 0:
                    lvl -= 1; i += 2; continue
                if lvl == 0:
                    out.append(txt[i])
                elif txt[i] == "\n":
                    out.append("\n")
                i += 1
            for n, line in enumerate("".join(out).split("\n"), 1):
                s = line.strip()
                if re.match(r"Section\b", s):
                    depth += 1
                if re.match(r"End\b", s) and depth > 0:
                    depth -= 1
                if FORBIDDEN.search(line):
                    bad.append("%s:%d: %s" % (os.path.relpath(p, ROOT), n, s))
                if depth == 0 and re.match(r"(Variable|Variables|Hypothesis|Hypotheses|Context)\b", s):
                    bad.append("%s:%d: %s (outside a Section)" % (os.path.relpath(p, ROOT), n, s))
    return bad


def parse_print_assumptions(out):
    """Returns the list of assumption sets, one per Print Assumptions command, in order."""
    res, cur = [], None
    for line in out.split("\n"):
        if line.startswith("Closed under the global context"):
            if cur is not None:
                res.append(cur)
                cur = None
            res.append(set())
        elif line.startswith("Axioms:"):
            if cur is not None:
                res.append(cur)
            cur = set()
        elif cur is not None:
            m = re.match(r"^([A-Za-z_][\w.']*)\s*(:|$)", line)
            if m:
                cur.add(m.group(1))
            elif line and not line.startswith(" ") and not line.startswith("\t"):
                res.append(cur)
                cur = None
    if cur is not None:
        res.append(cur)
    return res


def coq_property(pid, allowed_axioms=()):
    """Builds Properties/<pid>.vo and Pins/<pid>.vo (and their cone), re-compiling the property
    file itself so that its Print Assumptions output is from this run.  Returns a dict."""
    prop_v = os.path.join(COQ, "Properties", pid + ".v")
    pin_v = os.path.join(COQ, "Pins", pid + ".v")
    res = {"obligations": 0, "discharged": 0, "theorems": [], "axioms": [], "problems": [],
           "checker_cmd": ""}
    src = open(prop_v).read()
    theorems = re.findall(r"^Theorem\s+(\w+)", src, re.M)
    printed = re.findall(r"^Print Assumptions\s+(\w+)\s*\.", src, re.M)
    pins = re.findall(r"^Check\s+(\w+)\s*:", open(pin_v).read(), re.M)
    res["theorems"] = theorems
    res["obligations"] = len(theorems)
    for t in theorems:
        if t not in printed:
            res["problems"].append("no Print Assumptions for " + t)
        if t not in pins:
            res["problems"].append("statement of %s is not pinned in Pins/%s.v" % (t, pid))
    bad = grep_forbidden()
    if bad:
        res["problems"].append("forbidden constructs: " + "; ".join(bad[:5]))
    for f in (prop_v, pin_v):
        vo = f + "o"
        if os.path.exists(vo):
            os.remove(vo)
    rc, out, cmd = coq_make(["Properties/%s.vo" % pid, "Pins/%s.vo" % pid])
    res["checker_cmd"] = cmd + "  (coqc 8.16.1, full .vo build; Print Assumptions parsed per theorem)"
    if rc != 0:
        res["problems"].append("coq build failed: " + out[-1500:])
        res["log"] = out
        return res
    sets = parse_print_assumptions(out)
    if len(sets) != len(printed):
        res["problems"].append("could not parse Print Assumptions output (%d sets for %d commands)"
                               % (len(sets), len(printed)))
        return res
    allowed = set(allowed_axioms)
    axioms = set()
    for name, s in zip(printed, sets):
        axioms |= s
        extra = s - allowed
        if extra:
            res["problems"].append("%s depends on non-allowlisted axioms: %s" % (name, sorted(extra)))
        elif name in theorems and name in pins:
            res["discharged"] += 1
    res["axioms"] = sorted(axioms)
    return res


def coqchk_property(pid, allowed_axioms=()):
    """thorough tier: the independent checker re-checks the property's compiled cone and lists
    the axioms of everything loaded (a superset of what the theorems depend on)"""
    cmd = ["coqchk", "-o", "-silent", "-Q", ".", "KD", "KD.Properties." + pid]
    pr = subprocess.run(cmd, cwd=COQ, stdout=subprocess.PIPE, stderr=subprocess.STDOUT, timeout=1800)
    out = pr.stdout.decode("utf-8", "replace")
    res = {"cmd": "cd coq && " + " ".join(cmd), "ok": pr.returncode == 0, "axioms": [], "problems": []}
    if pr.returncode != 0:
        res["problems"].append("coqchk failed: " + out[-800:])
        return res
    m = re.search(r"\* Axioms:(.*?)\n\s*\n", out, re.S)
    if m:
        res["axioms"] = [a.strip() for a in m.group(1).split("\n") if a.strip() and a.strip() != "<none>"]
    allowed = {"Coq." + a if not a.startswith("Coq.") else a for a in _qualified(allowed_axioms)}
    extra = [a for a in res["axioms"] if a not in allowed]
    if extra:
        res["problems"].append("coqchk lists axioms outside the allowlist: %s" % extra)
    for key in ("type-in-type", "unsafe (co)fixpoints", "positivity is assumed"):
        mm = re.search(re.escape(key) + r":\s*(.*)", out)
        if mm and "<none>" not in mm.group(1):
            res["problems"].append("coqchk: %s: %s" % (key, mm.group(1)))
    return res


def _qualified(names):
    q = {"Classical_Prop.classic": "Coq.Logic.Classical_Prop.classic",
         "ClassicalDedekindReals.sig_not_dec": "Coq.Reals.ClassicalDedekindReals.sig_not_dec",
         "ClassicalDedekindReals.sig_forall_dec": "Coq.Reals.ClassicalDedekindReals.sig_forall_dec",
         "FunctionalExtensionality.functional_extensionality_dep":
             "Coq.Logic.FunctionalExtensionality.functional_extensionality_dep"}
    return [q.get(n, n) for n in names]


# ---------------------------------------------------------------- OCaml driver
def build_model_run():
    """Compiles the extracted model (coq/model.ml, produced by Extract/Extract.v) with the
    hand-written driver.  Rebuilt only when model.ml or the driver changed."""
    rc, out, _ = coq_make(["Extract/Extract.vo"])
    if rc != 0:
        raise CheckFailure("extraction build failed:\n" + out[-3000:])
    od = os.path.join(BUILD, "ocaml")
    os.makedirs(od, exist_ok=True)
    srcs = [os.path.join(COQ, "model.ml"), os.path.join(COQ, "model.mli"),
            os.path.join(OCAML, "model_run.ml")]
    h = hashlib.sha256()
    for s in srcs:
        h.update(open(s, "rb").read())
    stamp = os.path.join(od, "stamp")
    if os.path.exists(MODEL_RUN) and os.path.exists(stamp) and open(stamp).read() == h.hexdigest():
        return
    for s in srcs:
        shutil.copy(s, od)
    sh("ocamlfind ocamlopt -w -a -unsafe -inline 200 model.mli model.ml model_run.ml -o model_run",
       cwd=od, check=True, timeout=1200)
    open(stamp, "w").write(h.hexdigest())


# ---------------------------------------------------------------- Rust harness
def build_harness():
    """cargo build of the harness; path dependency on /repo, so this is what rebuilds the
    implementation from /repo's current working tree."""
    lock = os.path.join(HARNESS, "Cargo.lock")
    if not os.path.exists(lock):
        shutil.copy("/repo/Cargo.lock", lock)
    rc, out = sh("cargo build --offline 2>&1", cwd=HARNESS, timeout=3000)
    if rc != 0:
        # Cargo.lock may be stale relative to /repo: retry once from /repo's lock file
        shutil.copy("/repo/Cargo.lock", lock)
        rc, out = sh("cargo build --offline 2>&1", cwd=HARNESS, timeout=3000)
    return rc, out


def build_databroker_bin():
    """the real `databroker` binary from /repo's working tree (used by C17: main.rs read_metadata_file), built into
    the same target directory; nothing is written under /repo"""
    return sh("cargo build --offline --bin databroker --target-dir %s 2>&1" % TARGET, cwd="/repo", timeout=3000)


# ---------------------------------------------------------------- case files
def write_cases(path, cases):
    """cases: list of (case_id, [line, ...]) where line is a list of ints."""
    with open(path, "w") as f:
        for cid, lines in cases:
            for l in lines:
                f.write(str(cid))
                for t in l:
                    f.write(" %d" % t)
                f.write("\n")


def parse_out(text):
    res = {}
    for line in text.split("\n"):
        if not line.strip():
            continue
        p = line.split()
        res.setdefault(p[0], []).append([int(x) for x in p[1:]])
    return res


def run_sharded(binary, fam, cases, tag, shards=None, timeout=3000, extra_env=None):
    """Runs `binary fam casefile` over the cases, sharded across processes. Returns
    dict case_id -> list of output lines."""
    os.makedirs(WORK, exist_ok=True)
    shards = shards or min(NPROC, max(1, len(cases) // 50))
    procs = []
    env = dict(ENV)
    if extra_env:
        env.update(extra_env)
    for i in range(shards):
        part = cases[i::shards]
        if not part:
            continue
        p = os.path.join(WORK, "%s.%d.cases" % (tag, i))
        write_cases(p, part)
        procs.append(subprocess.Popen([binary, str(fam), p], stdout=subprocess.PIPE,
                                      stderr=subprocess.PIPE, env=env))
    res = {}
    for pr in procs:
        try:
            o, e = pr.communicate(timeout=timeout)
        except subprocess.TimeoutExpired:
            pr.kill()
            raise CheckFailure("%s timed out" % binary)
        if pr.returncode != 0:
            raise CheckFailure("%s exited %d: %s" % (binary, pr.returncode, e.decode()[-2000:]))
        res.update(parse_out(o.decode()))
    return res


def coq_crosscheck(fam, cases, model_out, tag, timeout=900):
    """Re-evaluates a sample of cases inside Coq with vm_compute and requires the extracted
    driver's output to be equal (validates extraction + the OCaml glue on every run)."""
    os.makedirs(WORK, exist_ok=True)
    path = os.path.join(WORK, "cross_%s.v" % tag)

    def zl(l):
        return "[" + "; ".join("(%d)" % t for t in l) + "]"

    # very large cases are left out of the in-Coq re-evaluation (a list literal of several hundred
    # kilobytes exhausts the parser's stack); the smallest case is always kept
    size = lambda c: sum(len(l) for l in c[1]) + sum(len(l) for l in model_out.get(str(c[0]), []))
    small = [c for c in cases if size(c) <= 30000]
    cases = small or sorted(cases, key=size)[:1]
    with open(path, "w") as f:
        f.write("From Coq Require Import ZArith List.\nImport ListNotations.\n"
                "From KD Require Import Model.Driver.\nOpen Scope Z_scope.\n")
        for k, (cid, lines) in enumerate(cases):
            exp = model_out.get(str(cid), [])
            f.write("Goal Driver.run %d [%s] = [%s].\nProof. vm_compute. reflexivity. Qed.\n"
                    % (fam, "; ".join(zl(l) for l in lines), "; ".join(zl(l) for l in exp)))
    rc, out = sh("ulimit -s unlimited 2>/dev/null; timeout %d coqc -noglob -Q %s KD %s" % (timeout, COQ, path), cwd=WORK,
                 timeout=timeout + 30)
    return rc == 0, out[-2000:]


# ---------------------------------------------------------------- findings / evidence
def load_known():
    p = os.path.join(ROOT, "known_findings.json")
    if not os.path.exists(p):
        return []
    return json.load(open(p)).get("findings", [])


def write_evidence(pid, ev):
    os.makedirs(EVID, exist_ok=True)
    with open(os.path.join(EVID, pid + ".json"), "w") as f:
        json.dump(ev, f, indent=1, sort_keys=True)
        f.write("\n")


def write_replay(pid, name, obj):
    os.makedirs(REPLAY, exist_ok=True)
    p = os.path.join(REPLAY, "%s_%s.json" % (pid, name))
    with open(p, "w") as f:
        json.dump(obj, f, indent=1)
        f.write("\n")
    return os.path.relpath(p, ROOT)

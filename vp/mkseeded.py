"""Regenerates section 12 of DESIGN.md (between the markers) from seeded/*/meta.json."""
import glob, json, os, re

def main():
    rows = []
    for d in sorted(glob.glob("/verif/seeded/*")):
        mp = os.path.join(d, "meta.json")
        if not os.path.exists(mp):
            continue
        m = json.load(open(mp))
        caught = "; ".join("**%s**: %s" % (k, v) for k, v in m.get("caught_by", {}).items())
        rows.append("| `seeded/%s` | %s | %s | %s | %s |" % (
            os.path.basename(d), m.get("property", "?"), m.get("summary", "").replace("|", "/"),
            m.get("needs", "").replace("|", "/"), caught.replace("|", "/")))
    body = "\n".join(rows)
    p = "/verif/DESIGN.md"
    s = open(p).read()
    a = s.index("<!-- seeded-table-begin -->") + len("<!-- seeded-table-begin -->")
    b = s.index("<!-- seeded-table-end -->")
    s = s[:a] + "\n| directory | property | the change | what it takes to manifest | which check reports it, and how |\n|---|---|---|---|---|\n" + body + "\n" + s[b:]
    open(p, "w").write(s)
    print(len(rows), "seeded changes")

if __name__ == "__main__":
    main()

"""Python side of the integer-token codec (coq/Model/Values.v, harness/src/codec.rs) and
exact readings of values used by the property monitors."""
import struct
from fractions import Fraction

NA, BOOL, STR, I32, I64, U32, U64, F32, F64 = range(9)
BOOLA, STRA, I32A, I64A, U32A, U64A, F32A, F64A = range(9, 17)
KIND_NAMES = ["NotAvailable", "Bool", "String", "Int32", "Int64", "Uint32", "Uint64", "Float",
              "Double", "BoolArray", "StringArray", "Int32Array", "Int64Array", "Uint32Array",
              "Uint64Array", "FloatArray", "DoubleArray"]
DATA_TYPES = ["String", "Bool", "Int8", "Int16", "Int32", "Int64", "Uint8", "Uint16", "Uint32",
              "Uint64", "Float", "Double", "StringArray", "BoolArray", "Int8Array", "Int16Array",
              "Int32Array", "Int64Array", "Uint8Array", "Uint16Array", "Uint32Array",
              "Uint64Array", "FloatArray", "DoubleArray"]


def s(txt):
    b = txt.encode()
    return [len(b)] + list(b)


def val(kind, payload=None):
    """value as token list. payload: bool/int/str/list."""
    if kind == NA:
        return [0]
    if kind == BOOL:
        return [1, int(bool(payload))]
    if kind == STR:
        return [2] + s(payload)
    if kind in (I32, I64, U32, U64, F32, F64):
        return [kind, int(payload)]
    if kind == BOOLA:
        return [9, len(payload)] + [int(bool(x)) for x in payload]
    if kind == STRA:
        out = [10, len(payload)]
        for x in payload:
            out += s(x)
        return out
    return [kind, len(payload)] + [int(x) for x in payload]


def dec_val(t, i=0):
    """-> ((kind, payload), next index)"""
    k = t[i]
    i += 1
    if k == 0:
        return (0, None), i
    if k == 1:
        return (1, bool(t[i])), i + 1
    if k == 2:
        n = t[i]
        return (2, bytes(t[i + 1:i + 1 + n]).decode("utf-8", "replace")), i + 1 + n
    if 3 <= k <= 8:
        return (k, t[i]), i + 1
    if k == 10:
        n = t[i]
        i += 1
        out = []
        for _ in range(n):
            m = t[i]
            out.append(bytes(t[i + 1:i + 1 + m]).decode("utf-8", "replace"))
            i += 1 + m
        return (10, out), i
    n = t[i]
    l = t[i + 1:i + 1 + n]
    if k == 9:
        l = [bool(x) for x in l]
    return (k, list(l)), i + 1 + n


def f32_bits(x):
    return struct.unpack("<I", struct.pack("<f", x))[0]


def f64_bits(x):
    return struct.unpack("<Q", struct.pack("<d", x))[0]


def bits_f32(b):
    return struct.unpack("<f", struct.pack("<I", b))[0]


def bits_f64(b):
    return struct.unpack("<d", struct.pack("<Q", b))[0]


def exact(kind, payload):
    """exact reading of a numeric scalar: Fraction, or 'nan', '+inf', '-inf'; None if not numeric"""
    if kind in (I32, I64, U32, U64):
        return Fraction(payload)
    if kind == F32:
        sign = payload >> 31
        e = (payload >> 23) & 0xFF
        m = payload & 0x7FFFFF
        if e == 0xFF:
            return "nan" if m else ("-inf" if sign else "+inf")
        v = Fraction(m, 1 << 23) * Fraction(2) ** (-126) if e == 0 else \
            (1 + Fraction(m, 1 << 23)) * Fraction(2) ** (e - 127)
        return -v if sign else v
    if kind == F64:
        sign = payload >> 63
        e = (payload >> 52) & 0x7FF
        m = payload & ((1 << 52) - 1)
        if e == 0x7FF:
            return "nan" if m else ("-inf" if sign else "+inf")
        v = Fraction(m, 1 << 52) * Fraction(2) ** (-1022) if e == 0 else \
            (1 + Fraction(m, 1 << 52)) * Fraction(2) ** (e - 1023)
        return -v if sign else v
    return None


def show_val(kp):
    k, p = kp
    if k == F32:
        return "Float(%r bits=0x%08x)" % (bits_f32(p), p)
    if k == F64:
        return "Double(%r bits=0x%016x)" % (bits_f64(p), p)
    if k == F32A:
        return "FloatArray(%s)" % [hex(x) for x in p]
    if k == F64A:
        return "DoubleArray(%s)" % [hex(x) for x in p]
    if k == NA:
        return "NotAvailable"
    return "%s(%r)" % (KIND_NAMES[k], p)

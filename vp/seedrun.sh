#!/bin/bash
# usage: vp/seedrun.sh <patch.diff> <Cxx> [<Cyy> ...]
# applies a patch to /repo (never committed), runs the quick checks named, prints their VIOLATION lines and
# exit codes, and restores /repo.  Evidence written meanwhile describes the patched tree: re-run the checks
# on the clean tree afterwards.
patch=$1; shift
cd /verif
git -C /repo diff --quiet || { echo "/repo is not clean"; exit 2; }
git -C /repo apply "$patch" || { echo "patch does not apply"; exit 2; }
for c in "$@"; do
  out=$(timeout 3000 ./check $c --tier ${TIER:-quick} 2>&1); rc=$?
  echo "--- $c rc=$rc"
  echo "$out" | grep -E "VIOLATION|KNOWN-FINDING|Traceback|Error" | head -8
done
git -C /repo checkout -- .
git -C /repo clean -fdq
git -C /repo status --short

import json, sys, jsonschema
m = json.load(open('/verif/MANIFEST.json'))
jsonschema.validate(m, json.load(open('/root/.vp/MANIFEST.schema.json')))
print('manifest ok')
es = json.load(open('/root/.vp/EVIDENCE.schema.json'))
for c in m['checks']:
    try:
        e = json.load(open('/verif/' + c['evidence_file']))
        jsonschema.validate(e, es)
        print(c['property_id'], 'evidence ok', e['tier'], e['wall_s'], 'viol', e.get('violations'))
    except Exception as ex:
        print(c['property_id'], 'EVIDENCE PROBLEM', str(ex)[:300])

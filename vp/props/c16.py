"""C16 — history family, profile W_REG (see vp/hist.py and vp/props/c01.py)."""
from .. import hist as H
from . import c01 as B

PID = "C16"
FAM = 1
ALLOWED_AXIOMS = {"Classical_Prop.classic", "ClassicalDedekindReals.sig_not_dec",
                  "ClassicalDedekindReals.sig_forall_dec",
                  "FunctionalExtensionality.functional_extensionality_dep"}
MANIFEST = {
    "text": 'Coq theorems: for every history (shorter than 2^31-1 operations, the AtomicI32 wrap is modelled) paths and ids are mutually inverse and every id is below the counter; id/path/metadata of a registered signal never change; re-registration returns the same id and changes nothing; a refused registration consumes no id. Tied to the code by registration-heavy histories (valid, duplicate, invalid names from a character-level list, inconsistent allowed types, unauthorised callers) with exact id comparison and an identity monitor. Also scripted sdv RegisterDatapoints requests with a name repeated inside one request (other metadata), a refused entry between valid ones and existing names, read back through every API.',
    "note": "Trusted: Coq kernel; the 4 standard-library axioms that enter through Flocq (used by validate's float comparisons) as printed by Print Assumptions; extraction + OCaml driver (vm_compute cross-check each run); harness/src/fam_hist.rs and hook H3 (verif_housekeeping_step); the Python monitors. Modelled, not verified: tokio broadcast (ring with capacity rounded up to a power of two, Lagged skipping) and RwLock, HashMap iteration order (outputs are sorted), the gRPC handlers on top of AuthorizedAccess (exercised by the handler-level checks), SystemTime (a timestamp is canonicalised to the operation during which it was taken; expiry is crossed in real time at a TICK).",
}
PROPS = set("C16".split(","))
WEIGHTS = H.W_REG
RULE = B.RULE
TRUSTED = B.TRUSTED
ASSUMPTIONS = B.ASSUMPTIONS


def sdv_register_scenario(rng):
    """sdv Collector RegisterDatapoints with several entries in one request: a name mentioned twice (the first
    mention registers it, the second finds it and changes nothing), a refused entry between valid ones, names that
    exist already; ids and metadata read back through every API, a value published by the id just handed out"""
    from .. import enc as E
    L = [[H.PERM, 0] + E.s(H.ALL_SCOPE), [H.PERM, 0] + E.s("create:Vehicle.Reg read provide")]
    for i in range(rng.randrange(0, 3)):
        L.append([H.ADD, 0] + E.s("Vehicle.Old%d" % i) + [rng.choice([4, 10, 0]), rng.randrange(3), 0, 0, 0, 0])
    L.append([H.DUMP])
    names = ["Vehicle.Reg.A", "Vehicle.Reg.B", "Vehicle.Reg.C", "Vehicle.Old0", "Bad..Name", "Vehicle.Reg.D"]
    for _ in range(rng.randrange(2, 5)):
        k = rng.choice([2, 3, 3, 4])
        pick = [rng.choice(names) for _ in range(k)]
        if rng.random() < 0.7:
            pick[-1] = pick[0]                    # the same name again, with other metadata
        body = []
        for nme in pick:
            body += E.s(nme) + [rng.choice([10, 11, 0, 4, 5, 1]), rng.choice([0, 1, 2])]
        L.append([H.SDVREG, rng.choice([0, 0, 1]), k] + body)
        L.append([H.DUMP])
        L.append([H.SDVMETA, 0, 0])
        L.append([H.V2META, 0] + E.s("**"))
        for i in range(rng.randrange(1, 3)):
            sid = rng.randrange(0, 6)
            L.append([H.SDVUPD, 0, 1, sid, 1] + rng.choice([E.val(E.F32, 0x3fc00000), E.val(E.STR, "x"), E.val(E.I32, 3)]))
        L.append([H.DUMP])
    return L


def generate(rng, tier, n=None, **kw):
    return B.generate(rng, tier, weights=WEIGHTS, n=n, **GEN_KW) + \
        [("sreg%d" % i, sdv_register_scenario(rng)) for i in range(40 if tier == "quick" else 800)]


GEN_KW = {}


def monitor(lines, out):
    return H.monitor(lines, out, PROPS)


nontrivial = B.nontrivial
histogram = B.histogram
pretty = B.pretty
neighbours = B.neighbours


def post(tier, seed):
    from .. import concprop
    return concprop.stage(PID, "C16", {5}, tier, seed, ['c16_concurrent_distinct'])

"""C16 — history family, profile W_REG (see vp/hist.py and vp/props/c01.py)."""
from .. import hist as H
from . import c01 as B

PID = "C16"
FAM = 1
ALLOWED_AXIOMS = {"Classical_Prop.classic", "ClassicalDedekindReals.sig_not_dec",
                  "ClassicalDedekindReals.sig_forall_dec",
                  "FunctionalExtensionality.functional_extensionality_dep"}
MANIFEST = {
    "text": 'Coq theorems: for every history (shorter than 2^31-1 operations, the AtomicI32 wrap is modelled) paths and ids are mutually inverse and every id is below the counter; id/path/metadata of a registered signal never change; re-registration returns the same id and changes nothing; a refused registration consumes no id. Tied to the code by registration-heavy histories (valid, duplicate, invalid names from a character-level list, inconsistent allowed types, unauthorised callers) with exact id comparison and an identity monitor.',
    "note": "Trusted: Coq kernel; the 4 standard-library axioms that enter through Flocq (used by validate's float comparisons) as printed by Print Assumptions; extraction + OCaml driver (vm_compute cross-check each run); harness/src/fam_hist.rs and hook H3 (verif_housekeeping_step); the Python monitors. Modelled, not verified: tokio broadcast (ring with capacity rounded up to a power of two, Lagged skipping) and RwLock, HashMap iteration order (outputs are sorted), the gRPC handlers on top of AuthorizedAccess (exercised by the handler-level checks), SystemTime (a timestamp is canonicalised to the operation during which it was taken; expiry is crossed in real time at a TICK).",
}
PROPS = set("C16".split(","))
WEIGHTS = H.W_REG
RULE = B.RULE
TRUSTED = B.TRUSTED
ASSUMPTIONS = B.ASSUMPTIONS


def generate(rng, tier, n=None, **kw):
    return B.generate(rng, tier, weights=WEIGHTS, n=n, **GEN_KW)


GEN_KW = {}


def monitor(lines, out):
    return H.monitor(lines, out, PROPS)


nontrivial = B.nontrivial
histogram = B.histogram
pretty = B.pretty
neighbours = B.neighbours


def post(tier, seed):
    from .. import concprop
    return concprop.stage(PID, "C16", {5}, tier, seed, ['c16_concurrent_distinct'])

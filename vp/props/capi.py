"""scratch profile: handler-level histories"""
from .. import hist as H
from . import c01 as B
PID = "CAPI"
def generate(rng, tier, n=None, **kw):
    return B.generate(rng, tier, weights=H.W_API, n=n)
def monitor(lines, out):
    return H.monitor(lines, out, None)
